import LocustModel.Conc.Flush
/-
  Invariant of the C10 interleaving model and its preservation by every action.
-/
namespace LM.Conc.Flush

theorem rowsOf_append (a b : List Batch) : rowsOf (a ++ b) = rowsOf a ++ rowsOf b := by
  simp [rowsOf]

theorem content_append (a b : List Part) : content (a ++ b) = content a ++ content b := by
  simp [content]

theorem tiles_append {a c : Nat} {xs ys : List Part} :
    Tiles a (xs ++ ys) c ↔ ∃ b, Tiles a xs b ∧ Tiles b ys c := by
  induction xs generalizing a with
  | nil => simp [Tiles]
  | cons p ps ih =>
    simp only [List.cons_append, Tiles, ih]
    constructor
    · rintro ⟨h1, b, h2, h3⟩; exact ⟨b, ⟨h1, h2⟩, h3⟩
    · rintro ⟨b, ⟨h1, h2⟩, h3⟩; exact ⟨h1, b, h2, h3⟩

theorem tiles_len {a b : Nat} {xs : List Part} (h : Tiles a xs b) :
    b = a + (rowsOf (content xs)).length := by
  induction xs generalizing a with
  | nil => simp [Tiles] at h; simp [content, rowsOf, h]
  | cons p ps ih =>
    obtain ⟨_, h2⟩ := h
    have := ih h2
    simp [content, rowsOf, Part.len] at *
    omega

/-- Per-table invariant. -/
structure TInv (T : Table) : Prop where
  content_eq : content T.parts ++ T.frozen ++ T.buffer = T.log
  tiles : Tiles 0 T.parts T.nextOff
  acked_le : T.acked ≤ T.log.length
  ids_lt : ∀ p ∈ T.parts, p.id < T.nextId
  ids_nodup : (T.parts.map (·.id)).Nodup

theorem TInv_empty : TInv {} := by
  constructor <;> simp [content, Tiles]

theorem TInv_append {T : Table} (h : TInv T) (b : Batch) : TInv (T.append b) := by
  obtain ⟨h1, h2, h3, h4, h5⟩ := h
  constructor
  · simp [Table.append, ← h1, List.append_assoc]
  · simpa [Table.append] using h2
  · simp [Table.append]; omega
  · simpa [Table.append] using h4
  · simpa [Table.append] using h5

theorem TInv_ack {T : Table} (h : TInv T) : TInv T.ack := by
  obtain ⟨h1, h2, _, h4, h5⟩ := h
  exact ⟨by simpa [Table.ack] using h1, by simpa [Table.ack] using h2, by simp [Table.ack],
         by simpa [Table.ack] using h4, by simpa [Table.ack] using h5⟩

theorem TInv_freeze {T : Table} (h : TInv T) (hf : T.frozen = []) : TInv T.freeze := by
  obtain ⟨h1, h2, h3, h4, h5⟩ := h
  constructor
  · simp [Table.freeze, hf, ← h1]
  · simpa [Table.freeze] using h2
  · simpa [Table.freeze] using h3
  · simpa [Table.freeze] using h4
  · simpa [Table.freeze] using h5

theorem TInv_batch {T : Table} (h : TInv T) : TInv T.batch := by
  unfold Table.batch
  split
  · exact h
  · obtain ⟨h1, h2, h3, h4, h5⟩ := h
    constructor
    · simp [content_append, content, ← h1, List.append_assoc]
    · refine tiles_append.mpr ⟨T.nextOff, h2, ?_⟩
      simp [Tiles, Part.len]
    · simpa using h3
    · intro p hp
      simp at hp
      rcases hp with hp | hp
      · have := h4 p hp; show p.id < T.nextId + 1; omega
      · subst hp; simp
    · simp only [List.map_append, List.map_cons, List.map_nil]
      refine List.nodup_append.mpr ⟨h5, by simp, ?_⟩
      intro a ha b hb
      simp at hb
      subst hb
      obtain ⟨p, hp, rfl⟩ := List.mem_map.mp ha
      have := h4 p hp
      omega

theorem TInv_setResident {T : Table} (h : TInv T) (pid : Nat) (r : Bool) : TInv (T.setResident pid r) := by
  obtain ⟨h1, h2, h3, h4, h5⟩ := h
  have hmapid : (T.parts.map fun p => if p.id = pid then { p with resident := r } else p).map (·.id) = T.parts.map (·.id) := by
    simp only [List.map_map]; apply List.map_congr_left; intro p _; simp only [Function.comp]; split <;> rfl
  have hcontent : content (T.parts.map fun p => if p.id = pid then { p with resident := r } else p) = content T.parts := by
    simp only [content, List.flatMap_def, List.map_map]
    congr 1; apply List.map_congr_left; intro p _; simp only [Function.comp]; split <;> rfl
  have htiles : ∀ (ps : List Part) a b, Tiles a ps b →
      Tiles a (ps.map fun p => if p.id = pid then { p with resident := r } else p) b := by
    intro ps
    induction ps with
    | nil => intro a b h; simpa [Tiles] using h
    | cons p ps ih =>
      intro a b h
      obtain ⟨ha, hb⟩ := h
      simp only [List.map_cons, Tiles]
      constructor
      · split <;> simpa using ha
      · have : (if p.id = pid then { p with resident := r } else p).len = p.len := by
          split <;> rfl
        rw [this]; exact ih _ _ hb
  constructor
  · simpa [Table.setResident, hcontent] using h1
  · simpa [Table.setResident] using htiles _ _ _ h2
  · simpa [Table.setResident] using h3
  · intro p hp
    simp only [Table.setResident, List.mem_map] at hp
    obtain ⟨q, hq, rfl⟩ := hp
    have := h4 q hq
    split <;> simpa [Table.setResident] using this
  · simpa [Table.setResident, hmapid] using h5

theorem TInv_compact {T T' : Table} (h : TInv T) {i n : Nat} (hc : T.compact i n = some T') : TInv T' := by
  obtain ⟨h1, h2, h3, h4, h5⟩ := h
  unfold Table.compact at hc
  simp only at hc
  split at hc
  · exact absurd hc (by simp)
  · rename_i p mid' hmid
    split at hc
    · rename_i hlen
      injection hc with hc
      subst hc
      -- decomposition of the partition list
      have hsplit : T.parts = T.parts.take i ++ ((T.parts.drop i).take n ++ (T.parts.drop i).drop n) := by
        rw [List.take_append_drop, List.take_append_drop]
      have htil := h2
      rw [hsplit] at htil
      obtain ⟨b1, ht1, ht23⟩ := tiles_append.mp htil
      obtain ⟨b2, ht2, ht3⟩ := tiles_append.mp ht23
      have hoff : p.offset = b1 := by
        rw [hmid] at ht2; exact ht2.1
      have hb2 := tiles_len ht2
      have hcont : content T.parts = content (T.parts.take i) ++ (content ((T.parts.drop i).take n) ++ content ((T.parts.drop i).drop n)) := by
        rw [← content_append, ← content_append, ← hsplit]
      constructor
      · simp only [content_append]
        rw [← h1, hcont]
        simp [content, List.append_assoc]
      · simp only
        refine tiles_append.mpr ⟨b2, tiles_append.mpr ⟨b1, ht1, ?_⟩, ht3⟩
        simp only [Tiles, Part.len]
        refine ⟨hoff, ?_⟩
        omega
      · simpa using h3
      · intro q hq
        simp only [List.mem_append, List.mem_singleton] at hq
        rcases hq with (hq | hq) | hq
        · have := h4 q (List.mem_of_mem_take hq); simp only; omega
        · subst hq; simp
        · have := h4 q (List.mem_of_mem_drop (List.mem_of_mem_drop hq)); simp only; omega
      · -- ids stay distinct: old ids are a sublist of distinct ids, the new id is fresh
        have hsub : (T.parts.take i ++ (T.parts.drop i).drop n).Sublist T.parts := by
          conv => rhs; rw [hsplit]
          exact List.Sublist.append (List.Sublist.refl _) (List.sublist_append_right _ _)
        have hnd : ((T.parts.take i ++ (T.parts.drop i).drop n).map (·.id)).Nodup :=
          List.Nodup.sublist (List.Sublist.map _ hsub) h5
        have hfresh : ∀ q ∈ T.parts, q.id ≠ T.nextId := by
          intro q hq; have := h4 q hq; omega
        simp only [List.map_append, List.map_cons, List.map_nil] at hnd ⊢
        rw [List.append_assoc]
        rw [List.nodup_append] at hnd ⊢
        obtain ⟨hn1, hn2, hn3⟩ := hnd
        refine ⟨hn1, ?_, ?_⟩
        · simp only [List.singleton_append, List.nodup_cons]
          refine ⟨?_, hn2⟩
          intro hmem
          obtain ⟨q, hq, hqid⟩ := List.mem_map.mp hmem
          exact hfresh q (List.mem_of_mem_drop (List.mem_of_mem_drop hq)) hqid
        · intro a ha b hb
          simp only [List.singleton_append, List.mem_cons] at hb
          rcases hb with hb | hb
          · subst hb
            obtain ⟨q, hq, rfl⟩ := List.mem_map.mp ha
            exact hfresh q (List.mem_of_mem_take hq)
          · exact hn3 a ha b hb
    · exact absurd hc (by simp)

/-- Global invariant. -/
structure Inv (s : State) : Prop where
  tab : ∀ t, TInv (s.tabs t)
  noFault : s.fault = false
  frozenOut : ∀ t, s.ntab ≤ t → (s.tabs t).frozen = []
  idle : s.fl = .idle → ∀ t, (s.tabs t).frozen = []

theorem Inv_init : Inv init := by
  constructor <;> simp [init, TInv_empty]

theorem allFrozenEmpty_spec {s : State} (h : allFrozenEmpty s = true) (hout : ∀ t, s.ntab ≤ t → (s.tabs t).frozen = []) :
    ∀ t, (s.tabs t).frozen = [] := by
  intro t
  by_cases ht : t < s.ntab
  · simp only [allFrozenEmpty, List.all_eq_true, List.mem_range] at h
    have := h t ht
    simpa using this
  · exact hout t (by omega)

theorem foldl_max_ge (shares : List (Nat × List Nat)) (m : Nat) :
    m ≤ shares.foldl (fun m sh => max m (sh.1 + 1)) m := by
  induction shares generalizing m with
  | nil => simp
  | cons sh rest ih =>
    simp only [List.foldl_cons]
    exact Nat.le_trans (Nat.le_max_left _ _) (ih _)

theorem setTab_tabs (s : State) (t : Nat) (T : Table) (u : Nat) :
    (s.setTab t T).tabs u = if u = t then T else s.tabs u := rfl

theorem frozen_batch_nil_or (T : Table) : T.batch.frozen = [] := by
  unfold Table.batch
  split
  · rename_i h; simpa using h
  · rfl

theorem Inv_apply {s s' : State} (hi : Inv s) (a : Act) (ha : apply s a = some s') : Inv s' := by
  obtain ⟨htab, hnf, hout, hidle⟩ := hi
  cases a with
  | ingestBegin req shares =>
    simp only [apply] at ha
    split at ha
    · injection ha with ha; subst ha
      refine ⟨htab, hnf, ?_, hidle⟩
      intro t ht
      exact hout t (Nat.le_trans (foldl_max_ge shares s.ntab) ht)
    · exact absurd ha (by simp)
  | ingestShare =>
    simp only [apply] at ha
    split at ha
    · rename_i req t rows rest hw
      injection ha with ha; subst ha
      refine ⟨?_, hnf, ?_, ?_⟩
      · intro u; rw [setTab_tabs]; split
        · exact TInv_append (htab t) _
        · exact htab u
      · intro u hu; rw [setTab_tabs]; split
        · rename_i h; subst h; simpa [Table.append] using hout u hu
        · exact hout u hu
      · intro hfl u; rw [setTab_tabs]; split
        · rename_i h; subst h; simpa [Table.append] using hidle hfl u
        · exact hidle hfl u
    · exact absurd ha (by simp)
  | ingestEnd =>
    simp only [apply] at ha
    split at ha
    · injection ha with ha; subst ha
      exact ⟨fun t => TInv_ack (htab t), hnf, fun t ht => by simpa [Table.ack] using hout t ht,
             fun hfl t => by simpa [Table.ack] using hidle hfl t⟩
    · exact absurd ha (by simp)
  | freeze =>
    simp only [apply] at ha
    split at ha
    · rename_i hg
      have hall : ∀ t, (s.tabs t).frozen = [] := hidle hg.2
      split at ha
      · injection ha with ha; subst ha
        refine ⟨?_, hnf, ?_, ?_⟩
        · intro t; simp only; split
          · exact TInv_freeze (htab t) (hall t)
          · exact htab t
        · intro t ht; simp only; split
          · rename_i hlt; exact absurd hlt (Nat.not_lt.mpr ht)
          · exact hall t
        · intro hfl; simp at hfl
      · rename_i hne
        exfalso; apply hne
        simp only [allFrozenEmpty, List.all_eq_true, List.mem_range]
        intro t _; simp [hall t]
    · exact absurd ha (by simp)
  | batch t =>
    simp only [apply] at ha
    split at ha
    · rename_i hfl
      injection ha with ha; subst ha
      refine ⟨?_, hnf, ?_, ?_⟩
      · intro u; rw [setTab_tabs]; split
        · exact TInv_batch (htab t)
        · exact htab u
      · intro u hu; rw [setTab_tabs]; split
        · exact frozen_batch_nil_or _
        · exact hout u hu
      · intro h; simp [State.setTab, hfl] at h
    · exact absurd ha (by simp)
  | compactSwap t i n =>
    simp only [apply] at ha
    split at ha
    · rename_i hfl
      cases hc : Table.compact (s.tabs t) i n with
      | none => simp [hc] at ha
      | some T' =>
        simp only [hc, Option.map_some] at ha
        injection ha with ha; subst ha
        have hfro : T'.frozen = (s.tabs t).frozen := by
          unfold Table.compact at hc
          simp only at hc
          split at hc
          · exact absurd hc (by simp)
          · split at hc
            · injection hc with hc; subst hc; rfl
            · exact absurd hc (by simp)
        refine ⟨?_, hnf, ?_, ?_⟩
        · intro u; rw [setTab_tabs]; split
          · exact TInv_compact (htab t) hc
          · exact htab u
        · intro u hu; rw [setTab_tabs]; split
          · rename_i h; subst h; rw [hfro]; exact hout u hu
          · exact hout u hu
        · intro h; simp [State.setTab, hfl] at h
    · exact absurd ha (by simp)
  | flushEnd =>
    simp only [apply] at ha
    split at ha
    · rename_i hg
      injection ha with ha; subst ha
      exact ⟨htab, hnf, hout, fun _ => allFrozenEmpty_spec hg.2 hout⟩
    · exact absurd ha (by simp)
  | evict t pid =>
    simp only [apply] at ha
    injection ha with ha; subst ha
    refine ⟨?_, hnf, ?_, ?_⟩
    · intro u; rw [setTab_tabs]; split
      · exact TInv_setResident (htab t) _ _
      · exact htab u
    · intro u hu; rw [setTab_tabs]; split
      · rename_i h; subst h; simpa [Table.setResident] using hout u hu
      · exact hout u hu
    · intro hfl u; rw [setTab_tabs]; split
      · rename_i h; subst h; simpa [Table.setResident] using hidle hfl u
      · exact hidle hfl u
  | load t pid =>
    simp only [apply] at ha
    injection ha with ha; subst ha
    refine ⟨?_, hnf, ?_, ?_⟩
    · intro u; rw [setTab_tabs]; split
      · exact TInv_setResident (htab t) _ _
      · exact htab u
    · intro u hu; rw [setTab_tabs]; split
      · rename_i h; subst h; simpa [Table.setResident] using hout u hu
      · exact hout u hu
    · intro hfl u; rw [setTab_tabs]; split
      · rename_i h; subst h; simpa [Table.setResident] using hidle hfl u
      · exact hidle hfl u
  | snapshot t =>
    simp only [apply] at ha
    injection ha with ha; subst ha
    exact ⟨htab, hnf, hout, hidle⟩

theorem Inv_steps {s s' : State} (hi : Inv s) (h : Steps s s') : Inv s' := by
  induction h with
  | refl => exact hi
  | step _ a ha ih => exact Inv_apply ih a ha

theorem Inv_reachable {s : State} (h : Reachable s) : Inv s := Inv_steps Inv_init h

/-- The log of a table only grows at the end, `acked` only grows: one action. -/
theorem log_grows_apply {s s' : State} (a : Act) (ha : apply s a = some s') (t : Nat) :
    (∃ ext, (s'.tabs t).log = (s.tabs t).log ++ ext) ∧
    ((s.tabs t).acked ≤ (s.tabs t).log.length → (s.tabs t).acked ≤ (s'.tabs t).acked) := by
  cases a with
  | ingestBegin req shares =>
    simp only [apply] at ha; split at ha
    · injection ha with ha; subst ha; exact ⟨⟨[], by simp⟩, fun _ => Nat.le_refl _⟩
    · exact absurd ha (by simp)
  | ingestShare =>
    simp only [apply] at ha; split at ha
    · injection ha with ha; subst ha
      rw [setTab_tabs]; split
      · rename_i h; subst h; exact ⟨⟨_, rfl⟩, fun _ => Nat.le_refl _⟩
      · exact ⟨⟨[], by simp⟩, fun _ => Nat.le_refl _⟩
    · exact absurd ha (by simp)
  | ingestEnd =>
    simp only [apply] at ha; split at ha
    · injection ha with ha; subst ha; exact ⟨⟨[], by simp [Table.ack]⟩, fun h => by simpa [Table.ack] using h⟩
    · exact absurd ha (by simp)
  | freeze =>
    simp only [apply] at ha; split at ha
    · split at ha
      · injection ha with ha; subst ha
        simp only; split
        · exact ⟨⟨[], by simp [Table.freeze]⟩, fun _ => Nat.le_refl _⟩
        · exact ⟨⟨[], by simp⟩, fun _ => Nat.le_refl _⟩
      · injection ha with ha; subst ha; exact ⟨⟨[], by simp⟩, fun _ => Nat.le_refl _⟩
    · exact absurd ha (by simp)
  | batch u =>
    simp only [apply] at ha; split at ha
    · injection ha with ha; subst ha
      rw [setTab_tabs]; split
      · rename_i h; subst h
        have : (s.tabs t).batch.log = (s.tabs t).log ∧ (s.tabs t).batch.acked = (s.tabs t).acked := by
          unfold Table.batch; split <;> exact ⟨rfl, rfl⟩
        exact ⟨⟨[], by simp [this.1]⟩, fun _ => by rw [this.2]; exact Nat.le_refl _⟩
      · exact ⟨⟨[], by simp⟩, fun _ => Nat.le_refl _⟩
    · exact absurd ha (by simp)
  | compactSwap u i n =>
    simp only [apply] at ha; split at ha
    · cases hc : Table.compact (s.tabs u) i n with
      | none => simp [hc] at ha
      | some T' =>
        simp only [hc, Option.map_some] at ha
        injection ha with ha; subst ha
        have hsame : T'.log = (s.tabs u).log ∧ T'.acked = (s.tabs u).acked := by
          unfold Table.compact at hc
          simp only at hc
          split at hc
          · exact absurd hc (by simp)
          · split at hc
            · injection hc with hc; subst hc; exact ⟨rfl, rfl⟩
            · exact absurd hc (by simp)
        rw [setTab_tabs]; split
        · rename_i h; subst h
          exact ⟨⟨[], by simp [hsame.1]⟩, fun _ => by rw [hsame.2]; exact Nat.le_refl _⟩
        · exact ⟨⟨[], by simp⟩, fun _ => Nat.le_refl _⟩
    · exact absurd ha (by simp)
  | flushEnd =>
    simp only [apply] at ha; split at ha
    · injection ha with ha; subst ha; exact ⟨⟨[], by simp⟩, fun _ => Nat.le_refl _⟩
    · exact absurd ha (by simp)
  | evict u pid =>
    simp only [apply] at ha; injection ha with ha; subst ha
    rw [setTab_tabs]; split
    · rename_i h; subst h; exact ⟨⟨[], by simp [Table.setResident]⟩, fun _ => Nat.le_refl _⟩
    · exact ⟨⟨[], by simp⟩, fun _ => Nat.le_refl _⟩
  | load u pid =>
    simp only [apply] at ha; injection ha with ha; subst ha
    rw [setTab_tabs]; split
    · rename_i h; subst h; exact ⟨⟨[], by simp [Table.setResident]⟩, fun _ => Nat.le_refl _⟩
    · exact ⟨⟨[], by simp⟩, fun _ => Nat.le_refl _⟩
  | snapshot u =>
    simp only [apply] at ha; injection ha with ha; subst ha
    exact ⟨⟨[], by simp⟩, fun _ => Nat.le_refl _⟩

theorem log_grows_steps {s s' : State} (hi : Inv s) (h : Steps s s') (t : Nat) :
    (∃ ext, (s'.tabs t).log = (s.tabs t).log ++ ext) ∧ (s.tabs t).acked ≤ (s'.tabs t).acked := by
  induction h with
  | refl => exact ⟨⟨[], by simp⟩, Nat.le_refl _⟩
  | step hs a ha ih =>
    rename_i s1 s2
    obtain ⟨⟨e1, he1⟩, hak⟩ := ih
    obtain ⟨⟨e2, he2⟩, hak2⟩ := log_grows_apply a ha t
    have hinv := (Inv_steps hi hs).tab t
    refine ⟨⟨e1 ++ e2, by rw [he2, he1, List.append_assoc]⟩, Nat.le_trans hak (hak2 hinv.acked_le)⟩

/-- What a snapshot shows (batches, in offset order). -/
theorem snapshot_content (T : Table) : content (snapshot T) = content T.parts ++ T.frozen ++ T.buffer := by
  unfold snapshot
  simp only [content_append]
  cases hf : T.frozen <;> cases hb : T.buffer <;> simp [content]

theorem snapshot_tiles {T : Table} (h : TInv T) :
    Tiles 0 (snapshot T) (rowsOf T.log).length := by
  have hlen := tiles_len h.tiles
  unfold snapshot
  simp only
  refine tiles_append.mpr ⟨T.nextOff + (rowsOf T.frozen).length, tiles_append.mpr ⟨T.nextOff, h.tiles, ?_⟩, ?_⟩
  · cases hf : T.frozen with
    | nil => simp [Tiles, rowsOf]
    | cons b bs => simp [Tiles, Part.len]; omega
  · rw [← h.content_eq]
    cases hb : T.buffer with
    | nil => simp [Tiles, rowsOf_append]; omega
    | cons b bs => simp [Tiles, Part.len, rowsOf_append]; omega

/-! ### Partition objects keep their identity: an id is never given to different rows -/

/-- Same partition object as far as content goes (residency may differ). -/
def Same (p p' : Part) : Prop := p.id = p'.id ∧ p.batches = p'.batches ∧ p.offset = p'.offset

/-- What one table step does to the partition map: every partition afterwards is an old one (same id, rows, offset) or
    carries an id that had not been handed out before; `next_partition_id` never goes back. -/
def TStep (T T' : Table) : Prop :=
  T.nextId ≤ T'.nextId ∧ ∀ p' ∈ T'.parts, (∃ p ∈ T.parts, Same p p') ∨ T.nextId ≤ p'.id

theorem TStep_of_parts_eq {T T' : Table} (hp : T'.parts = T.parts) (hn : T'.nextId = T.nextId) : TStep T T' := by
  refine ⟨by rw [hn]; exact Nat.le_refl _, ?_⟩
  intro p' hp'
  rw [hp] at hp'
  exact Or.inl ⟨p', hp', rfl, rfl, rfl⟩

theorem TStep_refl (T : Table) : TStep T T := TStep_of_parts_eq rfl rfl

theorem TStep_batch (T : Table) : TStep T T.batch := by
  unfold Table.batch
  split
  · exact TStep_refl T
  · refine ⟨Nat.le_succ _, ?_⟩
    intro p' hp'
    simp only [List.mem_append, List.mem_singleton] at hp'
    rcases hp' with h | h
    · exact Or.inl ⟨p', h, rfl, rfl, rfl⟩
    · subst h; exact Or.inr (Nat.le_refl _)

theorem TStep_setResident (T : Table) (pid : Nat) (r : Bool) : TStep T (T.setResident pid r) := by
  refine ⟨Nat.le_refl _, ?_⟩
  intro p' hp'
  simp only [Table.setResident, List.mem_map] at hp'
  obtain ⟨q, hq, rfl⟩ := hp'
  refine Or.inl ⟨q, hq, ?_⟩
  split <;> exact ⟨rfl, rfl, rfl⟩

theorem TStep_compact {T T' : Table} {i n : Nat} (hc : T.compact i n = some T') : TStep T T' := by
  unfold Table.compact at hc
  simp only at hc
  split at hc
  · exact absurd hc (by simp)
  · split at hc
    · injection hc with hc
      subst hc
      refine ⟨Nat.le_succ _, ?_⟩
      intro p' hp'
      simp only [List.mem_append, List.mem_singleton] at hp'
      rcases hp' with (h | h) | h
      · exact Or.inl ⟨p', List.mem_of_mem_take h, rfl, rfl, rfl⟩
      · subst h; exact Or.inr (Nat.le_refl _)
      · exact Or.inl ⟨p', List.mem_of_mem_drop (List.mem_of_mem_drop h), rfl, rfl, rfl⟩
    · exact absurd hc (by simp)

theorem TStep_trans {A B C : Table} (h1 : TStep A B) (h2 : TStep B C) : TStep A C := by
  refine ⟨Nat.le_trans h1.1 h2.1, ?_⟩
  intro p'' hp''
  rcases h2.2 p'' hp'' with ⟨p', hp', hs'⟩ | h
  · rcases h1.2 p' hp' with ⟨p, hp, hs⟩ | h
    · exact Or.inl ⟨p, hp, hs.1.trans hs'.1, hs.2.1.trans hs'.2.1, hs.2.2.trans hs'.2.2⟩
    · exact Or.inr (by rw [← hs'.1]; exact h)
  · exact Or.inr (Nat.le_trans h1.1 h)

theorem TStep_apply {s s' : State} (a : Act) (ha : apply s a = some s') (t : Nat) : TStep (s.tabs t) (s'.tabs t) := by
  cases a with
  | ingestBegin req shares =>
    simp only [apply] at ha; split at ha
    · injection ha with ha; subst ha; exact TStep_refl _
    · exact absurd ha (by simp)
  | ingestShare =>
    simp only [apply] at ha; split at ha
    · injection ha with ha; subst ha
      rw [setTab_tabs]; split
      · rename_i h; subst h; exact TStep_of_parts_eq rfl rfl
      · exact TStep_refl _
    · exact absurd ha (by simp)
  | ingestEnd =>
    simp only [apply] at ha; split at ha
    · injection ha with ha; subst ha; exact TStep_of_parts_eq rfl rfl
    · exact absurd ha (by simp)
  | freeze =>
    simp only [apply] at ha; split at ha
    · split at ha
      · injection ha with ha; subst ha
        simp only; split
        · exact TStep_of_parts_eq rfl rfl
        · exact TStep_refl _
      · injection ha with ha; subst ha; exact TStep_refl _
    · exact absurd ha (by simp)
  | batch u =>
    simp only [apply] at ha; split at ha
    · injection ha with ha; subst ha
      rw [setTab_tabs]; split
      · rename_i h; subst h; exact TStep_batch _
      · exact TStep_refl _
    · exact absurd ha (by simp)
  | compactSwap u i n =>
    simp only [apply] at ha; split at ha
    · cases hc : Table.compact (s.tabs u) i n with
      | none => simp [hc] at ha
      | some T' =>
        simp only [hc, Option.map_some] at ha
        injection ha with ha; subst ha
        rw [setTab_tabs]; split
        · rename_i h; subst h; exact TStep_compact hc
        · exact TStep_refl _
    · exact absurd ha (by simp)
  | flushEnd =>
    simp only [apply] at ha; split at ha
    · injection ha with ha; subst ha; exact TStep_refl _
    · exact absurd ha (by simp)
  | evict u pid =>
    simp only [apply] at ha; injection ha with ha; subst ha
    rw [setTab_tabs]; split
    · rename_i h; subst h; exact TStep_setResident _ _ _
    · exact TStep_refl _
  | load u pid =>
    simp only [apply] at ha; injection ha with ha; subst ha
    rw [setTab_tabs]; split
    · rename_i h; subst h; exact TStep_setResident _ _ _
    · exact TStep_refl _
  | snapshot u =>
    simp only [apply] at ha; injection ha with ha; subst ha; exact TStep_refl _

theorem TStep_steps {s s' : State} (h : Steps s s') (t : Nat) : TStep (s.tabs t) (s'.tabs t) := by
  induction h with
  | refl => exact TStep_refl _
  | step _ a ha ih => exact TStep_trans ih (TStep_apply a ha t)

theorem eq_of_nodup_ids {ps : List Part} (hn : (ps.map (·.id)).Nodup) {p q : Part} (hp : p ∈ ps) (hq : q ∈ ps)
    (h : p.id = q.id) : p = q := by
  induction ps with
  | nil => cases hp
  | cons x xs ih =>
    simp only [List.map_cons, List.nodup_cons] at hn
    cases hp with
    | head =>
      cases hq with
      | head => rfl
      | tail _ hq' => exact absurd (List.mem_map.mpr ⟨q, hq', h.symm⟩) hn.1
    | tail _ hp' =>
      cases hq with
      | head => exact absurd (List.mem_map.mpr ⟨p, hp', h⟩) hn.1
      | tail _ hq' => exact ih hn.2 hp' hq'

/-- Every successful `run` is a run of the interleaving semantics. -/
theorem steps_of_run (as : List Act) (s0 s s' : State) (hs : Steps s0 s) (h : run s as = some s') : Steps s0 s' := by
  induction as generalizing s with
  | nil => simp only [run] at h; injection h with h; subst h; exact hs
  | cons a as ih =>
    simp only [run] at h
    cases ha : apply s a with
    | none => simp [ha] at h
    | some s1 => simp only [ha, Option.bind_some] at h; exact ih s1 (Steps.step hs a ha) h

theorem reachable_of_run (as : List Act) (s : State) (h : run init as = some s) : Reachable s :=
  steps_of_run as init init s (Steps.refl _) h

end LM.Conc.Flush
