import LocustModel.Codec.ColumnBuffer
/-
  The present-bitmap invariant of `ColumnBuffer` under every push (helper lemmas for C01).
-/
namespace LM.Codec
open LM LM.Bitmap

/-- which cells an op supplies (true) and which it leaves NULL (false). -/
def Op.flags : Op → List Bool
  | .ints xs => List.replicate xs.length true
  | .floats fs => List.replicate fs.length true
  | .strs ss => List.replicate ss.length true
  | .nulls n => List.replicate n false

def flagAt (fl : List Bool) (j : Nat) : Bool := fl.getD j false

theorem flagAt_append_replicate (fl : List Bool) (n : Nat) (b : Bool) (j : Nat) :
    flagAt (fl ++ List.replicate n b) j =
      if j < fl.length then flagAt fl j else (decide (j < fl.length + n) && b) := by
  unfold flagAt
  simp only [List.getD_eq_getElem?_getD, List.getElem?_append, List.getElem?_replicate]
  by_cases h : j < fl.length
  · simp [h]
  · by_cases h2 : j - fl.length < n
    · have : j < fl.length + n := by omega
      simp [h, h2, this]
    · have : ¬ j < fl.length + n := by omega
      simp [h, h2, this]

theorem flagAt_all_true {fl : List Bool} (h : ∀ f ∈ fl, f = true) (j : Nat) :
    flagAt fl j = decide (j < fl.length) := by
  unfold flagAt
  rw [List.getD_eq_getElem?_getD]
  by_cases hj : j < fl.length
  · have := h fl[j] (List.getElem_mem hj)
    simp [hj, this]
  · simp [hj, List.getElem?_eq_none (Nat.le_of_not_lt hj)]

theorem flagAt_all_false {fl : List Bool} (h : ∀ f ∈ fl, f = false) (j : Nat) : flagAt fl j = false := by
  unfold flagAt
  rw [List.getD_eq_getElem?_getD]
  by_cases hj : j < fl.length
  · have := h fl[j] (List.getElem_mem hj)
    simp [hj, this]
  · simp [List.getElem?_eq_none (Nat.le_of_not_lt hj)]

/-- The invariant: what `present` says about the cells appended so far (`fl`: cell non-null?). -/
structure ColBuf.Inv (cb : ColBuf) (fl : List Bool) : Prop where
  len : cb.length = fl.length
  empty : cb.buffer = .empty → cb.present = none ∧ ∀ f ∈ fl, f = false
  typed : cb.buffer ≠ .empty →
    match cb.present with
    | none => ∀ f ∈ fl, f = true
    | some bm => Bitmap.Bytes bm ∧ ∀ j, isSet bm j = flagAt fl j

theorem ColBuf.inv_default : ColBuf.Inv {} [] := ⟨rfl, fun _ => ⟨rfl, by simp⟩, fun h => absurd rfl h⟩

/-- what all value-pushing arms do to `present` / `length`, given the invariant. -/
theorem ColBuf.inv_finishPush_typed {cb : ColBuf} {fl : List Bool} (h : cb.Inv fl) (hne : cb.buffer ≠ .empty)
    (buffer : TBuf) (hb : buffer ≠ .empty) (count : Nat) :
    (cb.finishPush buffer none count).Inv (fl ++ List.replicate count true) := by
  have ht := h.typed hne
  refine ⟨by simp [ColBuf.finishPush, h.len], fun he => absurd he hb, fun _ => ?_⟩
  cases hp : cb.present with
  | none =>
    rw [hp] at ht
    simp only [ColBuf.finishPush, hp, pushPresent]
    intro f hf
    rcases List.mem_append.mp hf with h1 | h1
    · exact ht f h1
    · exact (List.mem_replicate.mp h1).2
  | some bm =>
    rw [hp] at ht
    obtain ⟨hby, hbits⟩ := ht
    simp only [ColBuf.finishPush, hp, pushPresent]
    refine ⟨bytes_setRange hby _ _, fun j => ?_⟩
    rw [isSet_setRange, hbits, flagAt_append_replicate, h.len]
    by_cases hj : j < fl.length
    · have : ¬ (fl.length ≤ j ∧ j < fl.length + count) := by omega
      simp [hj, this]
    · have hf : flagAt fl j = false := by
        unfold flagAt; rw [List.getD_eq_getElem?_getD, List.getElem?_eq_none (Nat.le_of_not_lt hj)]; rfl
      by_cases h2 : j < fl.length + count
      · have : fl.length ≤ j ∧ j < fl.length + count := by omega
        simp [hj, hf, h2, this]
      · have : ¬ (fl.length ≤ j ∧ j < fl.length + count) := by omega
        simp [hj, hf, h2, this]

/-- the `TypedBuffer::Empty` arms: `init_present` (all-NULL prefix) when rows exist, then the push. -/
theorem ColBuf.inv_push_empty {cb : ColBuf} {fl : List Bool} (h : cb.Inv fl) (he : cb.buffer = .empty)
    (buffer : TBuf) (hb : buffer ≠ .empty) (count : Nat) :
    ∃ cb0, cb.initIfNonEmpty = .ok cb0 ∧ cb0.length = cb.length ∧
      (cb0.finishPush buffer none count).Inv (fl ++ List.replicate count true) := by
  obtain ⟨hp, hall⟩ := h.empty he
  by_cases hl : cb.length > 0
  · refine ⟨{ cb with present := some (initAllNull cb.length) }, ?_, rfl, ?_⟩
    · simp [ColBuf.initIfNonEmpty, hl, ColBuf.initPresent, hp, he]
    · refine ⟨by simp [ColBuf.finishPush, h.len], fun he' => absurd he' hb, fun _ => ?_⟩
      simp only [ColBuf.finishPush, pushPresent]
      refine ⟨bytes_setRange (bytes_initAllNull _) _ _, fun j => ?_⟩
      rw [isSet_setRange, isSet_initAllNull, flagAt_append_replicate, h.len, flagAt_all_false hall]
      by_cases hj : j < fl.length
      · have : ¬ (fl.length ≤ j ∧ j < fl.length + count) := by omega
        simp [hj, this]
      · by_cases h2 : j < fl.length + count
        · have : fl.length ≤ j ∧ j < fl.length + count := by omega
          simp [hj, h2, this]
        · have : ¬ (fl.length ≤ j ∧ j < fl.length + count) := by omega
          simp [hj, h2, this]
  · refine ⟨cb, by simp [ColBuf.initIfNonEmpty, hl], rfl, ?_⟩
    have hfl : fl = [] := List.eq_nil_of_length_eq_zero (by have := h.len; omega)
    refine ⟨by simp [ColBuf.finishPush, h.len], fun he' => absurd he' hb, fun _ => ?_⟩
    simp only [ColBuf.finishPush, hp, pushPresent, hfl, List.nil_append]
    intro f hf; exact (List.mem_replicate.mp hf).2

theorem ColBuf.inv_pushNulls {cb : ColBuf} {fl : List Bool} (h : cb.Inv fl) (count : Nat) :
    (cb.pushNulls count).Inv (fl ++ List.replicate count false) := by
  by_cases he : cb.buffer = .empty
  · obtain ⟨hp, hall⟩ := h.empty he
    have : cb.pushNulls count = { cb with length := cb.length + count } := by
      unfold ColBuf.pushNulls; rw [he]
    rw [this]
    refine ⟨by simp [h.len], fun _ => ⟨hp, ?_⟩, fun hne => absurd he hne⟩
    intro f hf
    rcases List.mem_append.mp hf with h1 | h1
    · exact hall f h1
    · exact (List.mem_replicate.mp h1).2
  · have ht := h.typed he
    have hshape : ∃ b, b ≠ TBuf.empty ∧ cb.pushNulls count =
        { buffer := b, present := (match cb.present with | none => some (initOnNull cb.length) | some p => some p),
          length := cb.length + count } := by
      unfold ColBuf.pushNulls
      cases hb : cb.buffer with
      | empty => exact absurd hb he
      | str b => exact ⟨_, by simp, rfl⟩
      | int b => exact ⟨_, by simp, rfl⟩
      | float d => exact ⟨_, by simp, rfl⟩
      | mixed d => exact ⟨_, by simp, rfl⟩
    obtain ⟨b, hbne, heq⟩ := hshape
    rw [heq]
    refine ⟨by simp [h.len], fun he' => absurd he' hbne, fun _ => ?_⟩
    cases hp : cb.present with
    | none =>
      rw [hp] at ht
      simp only
      refine ⟨bytes_initOnNull _, fun j => ?_⟩
      rw [isSet_initOnNull, flagAt_append_replicate, h.len, flagAt_all_true ht]
      by_cases hj : j < fl.length <;> simp [hj]
    | some bm =>
      rw [hp] at ht
      obtain ⟨hby, hbits⟩ := ht
      simp only
      refine ⟨hby, fun j => ?_⟩
      rw [hbits, flagAt_append_replicate]
      by_cases hj : j < fl.length
      · simp [hj]
      · have hf : flagAt fl j = false := by
          unfold flagAt; rw [List.getD_eq_getElem?_getD, List.getElem?_eq_none (Nat.le_of_not_lt hj)]; rfl
        simp [hj, hf]

theorem ColBuf.inv_pushInts (cv : Conv) {cb cb' : ColBuf} {fl : List Bool} (h : cb.Inv fl) (xs : List Int)
    (hr : cb.pushInts cv xs none = .ok cb') : cb'.Inv (fl ++ List.replicate xs.length true) := by
  unfold ColBuf.pushInts at hr
  cases hb : cb.buffer with
  | empty =>
    obtain ⟨cb0, h0, _, hinv⟩ := ColBuf.inv_push_empty h hb
      (.int ((IntBuf.pushAll {} (List.replicate cb.length 0)).pushAll xs)) (by simp) xs.length
    simp only [hb, h0, bind_ok, pure_eq_ok] at hr
    cases hr
    have hl : cb0.length = cb.length := by assumption
    rw [hl]; exact hinv
  | int b =>
    simp only [hb] at hr; cases hr
    exact ColBuf.inv_finishPush_typed h (by simp [hb]) _ (by simp) _
  | mixed d =>
    simp only [hb] at hr; cases hr
    exact ColBuf.inv_finishPush_typed h (by simp [hb]) _ (by simp) _
  | float d =>
    simp only [hb] at hr; cases hr
    exact ColBuf.inv_finishPush_typed h (by simp [hb]) _ (by simp) _
  | str b =>
    simp only [hb] at hr
    cases hd : strsToMixed b with
    | error e => simp [hd] at hr
    | ok d =>
      simp only [hd, bind_ok, pure_eq_ok] at hr; cases hr
      exact ColBuf.inv_finishPush_typed h (by simp [hb]) _ (by simp) _

theorem ColBuf.inv_pushFloats (cv : Conv) {cb cb' : ColBuf} {fl : List Bool} (h : cb.Inv fl) (fs : List Nat)
    (hr : cb.pushFloats cv fs none = .ok cb') : cb'.Inv (fl ++ List.replicate fs.length true) := by
  unfold ColBuf.pushFloats at hr
  cases hb : cb.buffer with
  | empty =>
    obtain ⟨cb0, h0, hl, hinv⟩ := ColBuf.inv_push_empty h hb
      (.float (List.replicate cb.length 0 ++ fs)) (by simp) fs.length
    simp only [hb, h0, bind_ok, pure_eq_ok] at hr
    cases hr
    rw [hl]; exact hinv
  | int b =>
    simp only [hb] at hr; cases hr
    exact ColBuf.inv_finishPush_typed h (by simp [hb]) _ (by simp) _
  | mixed d =>
    simp only [hb] at hr; cases hr
    exact ColBuf.inv_finishPush_typed h (by simp [hb]) _ (by simp) _
  | float d =>
    simp only [hb] at hr; cases hr
    exact ColBuf.inv_finishPush_typed h (by simp [hb]) _ (by simp) _
  | str b =>
    simp only [hb] at hr
    cases hd : strsToMixed b with
    | error e => simp [hd] at hr
    | ok d =>
      simp only [hd, bind_ok, pure_eq_ok] at hr; cases hr
      exact ColBuf.inv_finishPush_typed h (by simp [hb]) _ (by simp) _

theorem ColBuf.inv_pushStrings (cv : Conv) {cb cb' : ColBuf} {fl : List Bool} (h : cb.Inv fl) (ss : List Bytes)
    (hr : cb.pushStrings cv ss none = .ok cb') : cb'.Inv (fl ++ List.replicate ss.length true) := by
  unfold ColBuf.pushStrings at hr
  cases hb : cb.buffer with
  | empty =>
    obtain ⟨cb0, h0, hl, hinv⟩ := ColBuf.inv_push_empty h hb
      (.str ((StrBuf.pushAll {} (List.replicate cb.length [])).pushAll ss)) (by simp) ss.length
    simp only [hb, h0, bind_ok, pure_eq_ok] at hr
    cases hr
    rw [hl]; exact hinv
  | int b =>
    simp only [hb] at hr; cases hr
    exact ColBuf.inv_finishPush_typed h (by simp [hb]) _ (by simp) _
  | mixed d =>
    simp only [hb] at hr; cases hr
    exact ColBuf.inv_finishPush_typed h (by simp [hb]) _ (by simp) _
  | float d =>
    simp only [hb] at hr; cases hr
    exact ColBuf.inv_finishPush_typed h (by simp [hb]) _ (by simp) _
  | str b =>
    simp only [hb] at hr; cases hr
    exact ColBuf.inv_finishPush_typed h (by simp [hb]) _ (by simp) _

/-- one step of any op. -/
theorem ColBuf.inv_apply (cv : Conv) {cb cb' : ColBuf} {fl : List Bool} (h : cb.Inv fl) (op : Op)
    (hr : cb.apply cv op = .ok cb') : cb'.Inv (fl ++ op.flags) := by
  cases op with
  | ints xs => exact ColBuf.inv_pushInts cv h xs hr
  | floats fs => exact ColBuf.inv_pushFloats cv h fs hr
  | strs ss => exact ColBuf.inv_pushStrings cv h ss hr
  | nulls n =>
    simp only [ColBuf.apply] at hr; cases hr
    exact ColBuf.inv_pushNulls h n

/-- any sequence of ops. -/
theorem ColBuf.inv_applyAll (cv : Conv) {cb cb' : ColBuf} {fl : List Bool} (h : cb.Inv fl) (ops : List Op)
    (hr : cb.applyAll cv ops = .ok cb') : cb'.Inv (fl ++ ops.flatMap Op.flags) := by
  induction ops generalizing cb fl with
  | nil => simp only [ColBuf.applyAll] at hr; cases hr; simpa using h
  | cons op ops ih =>
    simp only [ColBuf.applyAll] at hr
    cases h1 : cb.apply cv op with
    | error e => simp [h1] at hr
    | ok cb1 =>
      simp only [h1, bind_ok] at hr
      have := ih (ColBuf.inv_apply cv h op h1) hr
      simpa [List.flatMap_cons, List.append_assoc] using this

end LM.Codec
