import LocustModel.Codec.Split
import LocustModel.Codec.Ints
import LocustModel.Codec.Strings
import LocustModel.Codec.ColumnBuffer
import LocustModel.Lemmas.C01Ops
/-
  The `ensure_property` split: it IS a split of the op list, and for every codec the builders produce the
  two-stage decode equals the one-stage decode (helper lemmas for C01_split_*; core only).
-/
namespace LM.Codec
open LM

/-! ### `ensure_property` returns a split of the op list -/

theorem popPush_inv (fuel : Nat) (s : List CodecOp × List CodecOp) :
    (popPush fuel s).1.reverse ++ (popPush fuel s).2 = s.1.reverse ++ s.2 := by
  induction fuel generalizing s with
  | zero => rfl
  | succ fuel ih =>
    obtain ⟨rev, acc⟩ := s
    cases rev with
    | nil => rfl
    | cons op rev =>
      simp only [popPush]
      have hit : ∀ (n : Nat) (t : List CodecOp × List CodecOp),
          (iter (popPush fuel) n t).1.reverse ++ (iter (popPush fuel) n t).2 = t.1.reverse ++ t.2 := by
        intro n
        induction n with
        | zero => intro t; rfl
        | succ n ihn => intro t; simp only [iter]; rw [ihn, ih]
      rw [hit]; simp

theorem iterate_popPush_inv (fuel n : Nat) (t : List CodecOp × List CodecOp) :
    (iter (popPush fuel) n t).1.reverse ++ (iter (popPush fuel) n t).2 = t.1.reverse ++ t.2 := by
  induction n generalizing t with
  | zero => rfl
  | succ n ihn => simp only [iter]; rw [ihn, popPush_inv]

theorem popPush_len (fuel : Nat) (s : List CodecOp × List CodecOp) : (popPush fuel s).1.length ≤ s.1.length := by
  induction fuel generalizing s with
  | zero => exact Nat.le_refl _
  | succ fuel ih =>
    obtain ⟨rev, acc⟩ := s
    cases rev with
    | nil => exact Nat.le_refl _
    | cons op rev =>
      simp only [popPush]
      have hit : ∀ (n : Nat) (t : List CodecOp × List CodecOp),
          (iter (popPush fuel) n t).1.length ≤ t.1.length := by
        intro n
        induction n with
        | zero => intro t; exact Nat.le_refl _
        | succ n ihn => intro t; simp only [iter]; exact Nat.le_trans (ihn _) (ih t)
      exact Nat.le_trans (hit _ _) (by simp)

theorem iterate_popPush_len (fuel n : Nat) (t : List CodecOp × List CodecOp) :
    (iter (popPush fuel) n t).1.length ≤ t.1.length := by
  induction n generalizing t with
  | zero => exact Nat.le_refl _
  | succ n ihn => simp only [iter]; exact Nat.le_trans (ihn _) (popPush_len fuel t)

/-- Either `ensure_property` stopped at an op without the property and returned a genuine split
    `prefix ++ suffix = ops` (the only case the planner reaches), or every op had the property and it
    returned `([], reversed ops)` (the missing `reverse()`). -/
theorem ensureLoop_split (p : CodecOp → Bool) (fuel : Nat) (rev acc : List CodecOp) (hf : rev.length < fuel) :
    (ensureLoop p fuel rev acc).1 ++ (ensureLoop p fuel rev acc).2 = rev.reverse ++ acc ∨
      ((ensureLoop p fuel rev acc).1 = [] ∧ (ensureLoop p fuel rev acc).2 = (rev.reverse ++ acc).reverse) := by
  induction fuel generalizing rev acc with
  | zero => exact absurd hf (Nat.not_lt_zero _)
  | succ fuel ih =>
    cases rev with
    | nil => right; simp [ensureLoop]
    | cons op rev =>
      simp only [ensureLoop]
      split
      · left; simp
      · have hinv := iterate_popPush_inv fuel (op.argCount - 1) (rev, op :: acc)
        have hlen := iterate_popPush_len fuel (op.argCount - 1) (rev, op :: acc)
        simp only at hinv hlen
        have := ih (iter (popPush fuel) (op.argCount - 1) (rev, op :: acc)).1
          (iter (popPush fuel) (op.argCount - 1) (rev, op :: acc)).2
          (by simp at hf; omega)
        rw [hinv] at this
        simpa using this

theorem ensureProperty_split (p : CodecOp → Bool) (ops : List CodecOp) :
    (ensureProperty p ops).1 ++ (ensureProperty p ops).2 = ops ∨
      ((ensureProperty p ops).1 = [] ∧ (ensureProperty p ops).2 = ops.reverse) := by
  have := ensureLoop_split p (ops.length + 1) ops.reverse [] (by simp)
  simpa [ensureProperty] using this

/-! ### stack effect of the decode ops -/

/-- stack entries an op consumes (it always pushes exactly one). -/
def CodecOp.pops : CodecOp → Nat
  | .nullable => 2
  | .push _ => 0
  | .dict _ => 3
  | _ => 1

theorem bind_pure_ok {α β : Type} {x : Except Fault α} {f : α → β} {y : β}
    (h : (x >>= fun r => pure (f r)) = Except.ok y) : ∃ r, y = f r := by
  cases x with
  | error e => simp at h
  | ok r => simp at h; exact ⟨r, h.symm⟩

theorem step_len (dec : Section → Section) (secs : List Section) (op : CodecOp) (st st' : List SVal)
    (h : step dec secs op st = .ok st') : st'.length + op.pops = st.length + 1 := by
  cases op with
  | nullable =>
    rcases st with _ | ⟨p, _ | ⟨d, rest⟩⟩
    · simp [step] at h
    · simp [step] at h
    · simp only [step] at h
      split at h
      · cases h; simp [CodecOp.pops]
      · cases h; simp [CodecOp.pops]
      · cases h
  | add t x =>
    rcases st with _ | ⟨v, rest⟩
    · simp [step] at h
    · simp only [step] at h
      split at h
      · obtain ⟨r, rfl⟩ := bind_pure_ok h; simp [CodecOp.pops]
      · cases h
  | delta t =>
    rcases st with _ | ⟨v, rest⟩
    · simp [step] at h
    · simp only [step] at h
      split at h
      · obtain ⟨r, rfl⟩ := bind_pure_ok h; simp [CodecOp.pops]
      · cases h
  | toI64 t =>
    rcases st with _ | ⟨v, rest⟩
    · simp [step] at h
    · simp only [step] at h
      split at h
      · cases h; simp [CodecOp.pops]
      · cases h
  | push i =>
    have h' : (match secs[i]? with | some s => Except.ok (ofSection s :: st) | none => Except.error Fault.index) = .ok st' := by
      rcases st with _ | ⟨a, _ | ⟨b, _ | ⟨c, st⟩⟩⟩ <;> exact h
    split at h'
    · cases h'; simp [CodecOp.pops]
    · cases h'
  | dict t =>
    rcases st with _ | ⟨dd, _ | ⟨di, _ | ⟨ix, rest⟩⟩⟩
    · simp [step] at h
    · simp [step] at h
    · simp [step] at h
    · simp only [step] at h
      split at h
      · obtain ⟨r, rfl⟩ := bind_pure_ok h; simp [CodecOp.pops]
      · cases h
  | decomp =>
    rcases st with _ | ⟨v, rest⟩
    · simp [step] at h
    · simp only [step] at h
      split at h
      · cases h; simp [CodecOp.pops]
      · cases h
  | unpack =>
    rcases st with _ | ⟨v, rest⟩
    · simp [step] at h
    · simp only [step] at h
      split at h
      · obtain ⟨r, rfl⟩ := bind_pure_ok h; simp [CodecOp.pops]
      · cases h
  | unhex u n =>
    rcases st with _ | ⟨v, rest⟩
    · simp [step] at h
    · simp only [step] at h
      split at h
      · rename_i d _
        cases hu : unpackAll d with
        | error e => simp [hu] at h
        | ok es =>
          simp only [hu, bind_ok] at h
          obtain ⟨r, rfl⟩ := bind_pure_ok h; simp [CodecOp.pops]
      · cases h

theorem runOps_len (dec : Section → Section) (secs : List Section) (ops : List CodecOp) (st st' : List SVal)
    (h : runOps dec secs ops st = .ok st') : st'.length + (ops.map CodecOp.pops).sum = st.length + ops.length := by
  induction ops generalizing st with
  | nil => simp only [runOps] at h; cases h; simp
  | cons op ops ih =>
    simp only [runOps] at h
    cases hs : step dec secs op st with
    | error e => simp [hs] at h
    | ok st1 =>
      simp only [hs, bind_ok] at h
      have h1 := step_len dec secs op st st1 hs
      have h2 := ih st1 h
      simp only [List.map_cons, List.sum_cons, List.length_cons]
      omega

/-! ### the two-stage decode equals the one-stage decode -/

/-- a codec for which the split is harmless: either the planner decodes it in one go, or `ensure_property`
    returns a genuine split whose first part leaves exactly one buffer on the stack. -/
def SplitGood (ops : List CodecOp) : Prop :=
  hasProperty CodecOp.elementwise ops = true ∨
    (hasProperty CodecOp.elementwise ops = false ∧
      (ensureProperty CodecOp.elementwise ops).1 ++ (ensureProperty CodecOp.elementwise ops).2 = ops ∧
      ((ensureProperty CodecOp.elementwise ops).1.map CodecOp.pops).sum = (ensureProperty CodecOp.elementwise ops).1.length)

theorem decodeQuery_eq (dec : Section → Section) (c : Column) (hg : SplitGood c.ops) (v : SVal)
    (h : decode dec c = .ok v) : decodeQuery dec c = .ok v := by
  unfold decodeQuery
  rcases hg with hp | ⟨hp, hsplit, hpops⟩
  · simp [hp, h]
  · simp only [hp, Bool.false_eq_true, if_false]
    unfold decode at h
    cases hs : c.sections with
    | nil => simp [hs] at h
    | cons s0 rest =>
      simp only [hs] at h ⊢
      cases hE : ensureProperty CodecOp.elementwise c.ops with
      | mk fw re =>
      rw [hE] at hsplit hpops
      simp only at hsplit hpops ⊢
      rw [← hsplit, runOps_append] at h
      cases h1 : runOps dec (s0 :: rest) fw [ofSection s0] with
      | error e => simp [h1] at h
      | ok st1 =>
        have hl := runOps_len dec _ fw _ st1 h1
        simp only [List.length_singleton] at hl
        have hl1 : st1.length = 1 := by omega
        obtain ⟨v1, rfl⟩ : ∃ v1, st1 = [v1] := by
          rcases st1 with _ | ⟨a, _ | ⟨b, r⟩⟩ <;> simp at hl1; exact ⟨a, rfl⟩
        simp only [h1, bind_ok] at h ⊢
        cases h2 : runOps dec (s0 :: rest) re [v1] with
        | error e => simp [h2] at h
        | ok st2 =>
          simp only [h2] at h ⊢
          rcases st2 with _ | ⟨a, _ | ⟨b, r⟩⟩
          · simp at h
          · simpa using h
          · simp at h

/-- the codecs the builders emit (before compression). -/
inductive CoreOps : List CodecOp → Prop
  | int (t : Width) (off : Int) (delta nullable : Bool) : CoreOps (intCodec t off delta nullable)
  | i64 (delta nullable : Bool) : CoreOps (i64Col [] delta (if nullable then some [] else none)).ops
  | packed (nullable : Bool) : CoreOps (packedColumn 0 stringPackCodec (.null 0) (if nullable then some [] else none)).ops
  | hexpacked (u : Bool) (n : Nat) (nullable : Bool) :
      CoreOps (packedColumn 0 [.unhex u n] (.null 0) (if nullable then some [] else none)).ops
  | dict (t : Width) : CoreOps (dictCodec t)
  | dictNullable (t : Width) : CoreOps ([.push 3, .nullable] ++ dictCodec t)
  | float (nullable : Bool) : CoreOps (floatColumn [] (if nullable then some [] else none)).ops
  | null : CoreOps []

theorem coreOps_good (ops : List CodecOp) (h : CoreOps ops) : SplitGood ops ∧ SplitGood (.decomp :: ops) := by
  cases h with
  | int t off delta nullable =>
    cases nullable <;> cases delta <;> by_cases h0 : off = 0 <;>
      simp only [intCodec, h0, decide_true, decide_false] <;>
      exact ⟨by first | exact Or.inl rfl | exact Or.inr ⟨rfl, rfl, rfl⟩,
             by first | exact Or.inl rfl | exact Or.inr ⟨rfl, rfl, rfl⟩⟩
  | i64 delta nullable =>
    cases nullable <;> cases delta <;>
      exact ⟨by first | exact Or.inl rfl | exact Or.inr ⟨rfl, rfl, rfl⟩,
             by first | exact Or.inl rfl | exact Or.inr ⟨rfl, rfl, rfl⟩⟩
  | packed nullable =>
    cases nullable <;>
      exact ⟨by first | exact Or.inl rfl | exact Or.inr ⟨rfl, rfl, rfl⟩,
             by first | exact Or.inl rfl | exact Or.inr ⟨rfl, rfl, rfl⟩⟩
  | hexpacked u n nullable =>
    cases nullable <;>
      exact ⟨by first | exact Or.inl rfl | exact Or.inr ⟨rfl, rfl, rfl⟩,
             by first | exact Or.inl rfl | exact Or.inr ⟨rfl, rfl, rfl⟩⟩
  | dict t =>
    exact ⟨by first | exact Or.inl rfl | exact Or.inr ⟨rfl, rfl, rfl⟩,
           by first | exact Or.inl rfl | exact Or.inr ⟨rfl, rfl, rfl⟩⟩
  | dictNullable t =>
    exact ⟨by first | exact Or.inl rfl | exact Or.inr ⟨rfl, rfl, rfl⟩,
           by first | exact Or.inl rfl | exact Or.inr ⟨rfl, rfl, rfl⟩⟩
  | float nullable =>
    cases nullable <;>
      exact ⟨by first | exact Or.inl rfl | exact Or.inr ⟨rfl, rfl, rfl⟩,
             by first | exact Or.inl rfl | exact Or.inr ⟨rfl, rfl, rfl⟩⟩
  | null =>
    exact ⟨by first | exact Or.inl rfl | exact Or.inr ⟨rfl, rfl, rfl⟩,
           by first | exact Or.inl rfl | exact Or.inr ⟨rfl, rfl, rfl⟩⟩

/-! ### every column `ColumnBuffer::finalize` returns has one of these codecs -/

theorem createCol_core (t : Width) (values : List Int) (off : Int) (delta : Bool) (null : Option (List Nat))
    (c : Column) (h : createCol t values off delta null = .ok c) : CoreOps c.ops := by
  unfold createCol at h
  cases he : encodeInts t.bits off values with
  | error e => simp [he] at h
  | ok enc =>
    simp only [he, bind_ok, pure_eq_ok] at h
    cases h
    exact CoreOps.int t off delta null.isSome

theorem i64Col_core (values : List Int) (delta : Bool) (null : Option (List Nat)) :
    CoreOps (i64Col values delta null).ops := by
  have := CoreOps.i64 delta null.isSome
  cases null <;> cases delta <;> simpa [i64Col] using this

theorem ladder_core (values : List Int) (mn mx : Int) (delta : Bool) (null : Option (List Nat)) (c : Column)
    (h : ladder values mn mx delta null = .ok c) : CoreOps c.ops := by
  unfold ladder at h
  cases hi : interval mn mx with
  | error e => simp [hi] at h
  | ok iv =>
    simp only [hi, bind_ok] at h
    repeat' split at h
    all_goals first
      | exact createCol_core _ _ _ _ _ _ h
      | (simp only [pure_eq_ok] at h; cases h; exact i64Col_core _ _ _)

theorem intBuf_core (b : IntBuf) (null : Option (List Nat)) (c : Column) (h : b.finalize null = .ok c) :
    CoreOps c.ops := by
  unfold IntBuf.finalize newBoxed at h
  split at h
  · rename_i first rest _ _
    cases hd : deltaPass first rest with
    | error e => simp [hd] at h
    | ok ds =>
      simp only [hd, bind_ok] at h
      exact ladder_core _ _ _ _ _ _ h
  · exact ladder_core _ _ _ _ _ _ h

theorem fastBuild_core (strings : List Bytes) (len : Nat) (lhex uhex : Bool) (total : Nat)
    (present : Option (List Nat)) : CoreOps (fastBuild strings len lhex uhex total present).ops := by
  unfold fastBuild
  split
  · split
    · have := CoreOps.hexpacked uhex total present.isSome
      cases present <;> simpa [packedColumn] using this
    · have := CoreOps.packed present.isSome
      cases present <;> simpa [packedColumn] using this
  · cases present with
    | none => exact CoreOps.dict _
    | some p => exact CoreOps.dictNullable _

theorem strBuf_core (b : StrBuf) (present : Option (List Nat)) (c : Column) (h : b.finalize present = .ok c) :
    CoreOps c.ops := by
  unfold StrBuf.finalize at h
  cases hi : b.values.iter with
  | error e => simp [hi] at h
  | ok ss => simp only [hi, bind_ok, pure_eq_ok] at h; cases h; exact fastBuild_core _ _ _ _ _ _

theorem finalize_core (cv : Conv) (cb : ColBuf) (c : Column) (h : cb.finalize cv = .ok c) : CoreOps c.ops := by
  unfold ColBuf.finalize at h
  split at h
  · cases h; exact CoreOps.null
  · exact intBuf_core _ _ _ h
  · cases h
    rename_i d _
    have := CoreOps.float cb.present.isSome
    cases hp : cb.present <;> simpa [floatColumn, hp] using this
  · exact strBuf_core _ _ _ h
  · exact strBuf_core _ _ _ h

theorem compress_ops (cp : Compressor) (use : Bool) (c : Column) :
    (compress cp use c).ops = c.ops ∨ (compress cp use c).ops = .decomp :: c.ops := by
  cases use with
  | false => left; simp [compress]
  | true =>
    cases hs : c.sections with
    | nil => left; simp [compress, hs]
    | cons s0 rest => right; simp [compress, hs]

end LM.Codec
