import LocustModel.Query.Layout
import LocustModel.Lemmas.C04Merge
/-
  Helper lemmas for C02: WHERE / projection over concatenated partitions; the engine's sentinel-encoded merge of
  grouped partial aggregates against the exact merge `mergeX`.
-/
namespace LM.C02L
open LM LM.Sql LM.Combine LM.Layout LM.Merge

/-! ### filter / project distribute over concatenation -/

/-- Outcome of evaluating two consecutive row ranges: both must succeed; an overflow anywhere wins over
    "unsupported" (as in `Sql.filterRows`). -/
def resAppend {α : Type} : Res (List α) → Res (List α) → Res (List α)
  | .ok x, .ok y => .ok (x ++ y)
  | .overflow, _ => .overflow
  | _, .overflow => .overflow
  | _, _ => .unsupported

theorem resAppend_ok_nil {α : Type} (r : Res (List α)) : resAppend (.ok []) r = r := by
  cases r <;> simp [resAppend]

theorem filterRows_append (i2f : Int → Nat) (pred : Option Expr) (a b : List Row) :
    filterRows i2f pred (a ++ b) = resAppend (filterRows i2f pred a) (filterRows i2f pred b) := by
  induction a with
  | nil => simp [filterRows, resAppend_ok_nil]
  | cons r a ih =>
    simp only [List.cons_append, filterRows, ih]
    generalize keep i2f pred r = k
    generalize filterRows i2f pred a = fa
    generalize filterRows i2f pred b = fb
    cases k <;> cases fa <;> cases fb <;> simp [resAppend] <;> split <;> simp

theorem projectRows_append (i2f : Int → Nat) (es : List Expr) (a b : List Row) :
    projectRows i2f es (a ++ b) = resAppend (projectRows i2f es a) (projectRows i2f es b) := by
  induction a with
  | nil => simp [projectRows, resAppend_ok_nil]
  | cons r a ih =>
    simp only [List.cons_append, projectRows, ih]
    generalize projectRows.cells i2f r es = k
    generalize projectRows i2f es a = fa
    generalize projectRows i2f es b = fb
    cases k <;> cases fa <;> cases fb <;> simp [resAppend]

theorem resAppend_ok_iff {α : Type} (x y : Res (List α)) (z : List α) :
    resAppend x y = .ok z ↔ ∃ a b, x = .ok a ∧ y = .ok b ∧ z = a ++ b := by
  cases x <;> cases y <;> simp [resAppend]
  constructor
  · intro h; exact h.symm
  · intro h; exact h.symm

/-- A query over two consecutive row ranges succeeds iff it succeeds on both, and then returns the concatenation. -/
theorem selectRows_append_ok (i2f : Int → Nat) (q : SelQuery) (a b : List Row) (z : List Row) :
    selectRows i2f q (a ++ b) = .ok z ↔
      ∃ x y, selectRows i2f q a = .ok x ∧ selectRows i2f q b = .ok y ∧ z = x ++ y := by
  unfold selectRows
  rw [filterRows_append]
  generalize filterRows i2f q.pred a = fa
  generalize filterRows i2f q.pred b = fb
  cases fa <;> cases fb <;> simp [resAppend, Res.bind]
  rename_i x y
  rw [projectRows_append, resAppend_ok_iff]
  constructor
  · rintro ⟨p, r, h1, h2, h3⟩; exact ⟨p, h1, r, h2, h3⟩
  · rintro ⟨p, h1, r, h2, h3⟩; exact ⟨p, r, h1, h2, h3⟩

/-! ### sentinel-encoded merge vs exact merge -/

/-- The engine's in-band representation of a partial aggregate: NULL is `I64_NULL = i64::MAX`. -/
def enc : Option Int → Int
  | none => I64_MAX
  | some v => v

def encPart (l : List (Int × Option Int)) : AggPart := ⟨l.map (·.1), l.map (fun p => enc p.2)⟩

/-- A partial aggregate the encoding represents faithfully: an i64 other than the sentinel, or NULL. -/
def CleanVal : Option Int → Prop
  | none => True
  | some v => inI64 v ∧ v ≠ I64_MAX

/-- Two partial aggregates can be combined without overflow (SUM / COUNT). -/
def ComboOk (op : Agg) : Option Int → Option Int → Prop
  | some a, some b => (op = .sum ∨ op = .count) → inI64 (a + b)
  | _, _ => True

theorem combine_enc (op : Agg) (a b : Option Int) (ha : CleanVal a) (hb : CleanVal b) (hc : ComboOk op a b) :
    Merge.combine op (enc a) (enc b) = .ok (enc (combineX op a b)) := by
  cases a with
  | none => cases b <;> simp [Merge.combine, enc, combineX]
  | some x =>
    cases b with
    | none =>
      have : x ≠ I64_MAX := ha.2
      simp [Merge.combine, enc, combineX, this]
    | some y =>
      have hx : x ≠ I64_MAX := ha.2
      have hy : y ≠ I64_MAX := hb.2
      cases op
      · have := hc (Or.inl rfl)
        simp [Merge.combine, enc, combineX, hx, hy, this]
      · have := hc (Or.inr rfl)
        simp [Merge.combine, enc, combineX, hx, hy, this]
      · simp [Merge.combine, enc, combineX, hx, hy]
      · simp only [Merge.combine, enc, combineX, hx, hy, if_false]
        congr 1

/-- Every pair of partial aggregates that `mergeX` will combine is clean and combinable. -/
def Clean (op : Agg) (l r : List (Int × Option Int)) : Prop :=
  (∀ p ∈ l, CleanVal p.2) ∧ (∀ p ∈ r, CleanVal p.2) ∧
    ∀ p ∈ l, ∀ q ∈ r, p.1 = q.1 → ComboOk op p.2 q.2

theorem specKeys_map (op : Agg) (l r : List (Int × Option Int)) :
    C04L.specKeys (l.map (·.1)) (r.map (·.1)) = (mergeX op l r).map (·.1) := by
  fun_induction mergeX op l r
  · simp [C04L.specKeys]
  · rename_i l h
    cases l with
    | nil => simp at h
    | cons x l => simp [C04L.specKeys]
  · rename_i k1 v1 l k2 v2 r h ih
    simp only [List.map_cons] at ih ⊢
    simp [C04L.specKeys, h, ih]
  · rename_i k1 v1 l k2 v2 r h1 h2 ih
    simp only [List.map_cons] at ih ⊢
    simp [C04L.specKeys, h1, h2, ih]
  · rename_i k1 v1 l k2 v2 r h1 h2 ih
    simp only [List.map_cons] at ih ⊢
    simp [C04L.specKeys, h1, h2, ih]

theorem specVals_map (op : Agg) (l r : List (Int × Option Int)) (hc : Clean op l r) :
    C04L.specVals op (l.map (·.1)) (r.map (·.1)) (l.map (fun p => enc p.2)) (r.map (fun p => enc p.2))
      = .ok ((mergeX op l r).map (fun p => enc p.2)) := by
  fun_induction mergeX op l r
  · simp [C04L.specVals]
  · rename_i l h
    cases l with
    | nil => simp at h
    | cons x l => simp [C04L.specVals]
  · rename_i k1 v1 l k2 v2 r h ih
    have hc' : Clean op l ((k2, v2) :: r) :=
      ⟨fun p hp => hc.1 p (List.mem_cons_of_mem _ hp), hc.2.1,
       fun p hp q hq => hc.2.2 p (List.mem_cons_of_mem _ hp) q hq⟩
    have := ih hc'
    simp only [List.map_cons] at this ⊢
    simp [C04L.specVals, h, this]
  · rename_i k1 v1 l k2 v2 r h1 h2 ih
    have hc' : Clean op ((k1, v1) :: l) r :=
      ⟨hc.1, fun p hp => hc.2.1 p (List.mem_cons_of_mem _ hp),
       fun p hp q hq => hc.2.2 p hp q (List.mem_cons_of_mem _ hq)⟩
    have := ih hc'
    simp only [List.map_cons] at this ⊢
    simp [C04L.specVals, h1, h2, this]
  · rename_i k1 v1 l k2 v2 r h1 h2 ih
    have hc' : Clean op l r :=
      ⟨fun p hp => hc.1 p (List.mem_cons_of_mem _ hp), fun p hp => hc.2.1 p (List.mem_cons_of_mem _ hp),
       fun p hp q hq => hc.2.2 p (List.mem_cons_of_mem _ hp) q (List.mem_cons_of_mem _ hq)⟩
    have := ih hc'
    have hk : k1 = k2 := by omega
    have hcomb := combine_enc op v1 v2 (hc.1 (k1, v1) (by simp)) (hc.2.1 (k2, v2) (by simp))
      (hc.2.2 (k1, v1) (by simp) (k2, v2) (by simp) hk)
    simp only [List.map_cons] at this ⊢
    simp [C04L.specVals, h1, h2, this, hcomb]

theorem combineAgg_enc (op : Agg) (l r : List (Int × Option Int))
    (hl : C04L.StrictAsc (l.map (·.1))) (hr : C04L.StrictAsc (r.map (·.1))) (hc : Clean op l r) :
    combineAgg op (encPart l) (encPart r) = .ok (encPart (mergeX op l r)) := by
  unfold combineAgg encPart
  simp only
  have hk := C04L.dedup_keys _ _ hl hr
  have hv := C04L.merge_aggregate_spec op (l.map (·.1)) (r.map (·.1)) (l.map (fun p => enc p.2))
    (r.map (fun p => enc p.2)) hl hr (by simp) (by simp)
  rw [specVals_map op l r hc] at hv
  rw [specKeys_map op l r] at hk
  have : Merge.mergeDedup false none (l.map (·.1)) (r.map (·.1))
      = ((Merge.mergeDedup false none (l.map (·.1)) (r.map (·.1))).1,
         (Merge.mergeDedup false none (l.map (·.1)) (r.map (·.1))).2) := rfl
  rw [this]
  simp only [hv, hk]

end LM.C02L
