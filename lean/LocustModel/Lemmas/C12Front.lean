import LocustModel.Query.QueryTask
import LocustModel.Lemmas.C12Convert
/-
  Helper lemmas for C12: nothing between the parsed query and the creation of the task panics
  (`Query::normalize`, the `SELECT *` expansion inside `QueryTask::new`).
-/
namespace LM.Norm
open LM

theorem ensureNoAggregates_noFault (e : Expr) : (ensureNoAggregates e).NoFault := by
  induction e with
  | col n => trivial
  | const v => trivial
  | f1 t e ih => simpa [ensureNoAggregates] using ih
  | f2 t a b iha ihb =>
    simp only [ensureNoAggregates]
    exact Res.noFault_bind iha fun _ _ => ihb
  | agg a e _ => trivial

theorem extractAggregators_noFault (e : Expr) (names : List String) (al : String) :
    (extractAggregators e names al).NoFault := by
  induction e generalizing names with
  | col n => trivial
  | const v => trivial
  | f1 t e ih =>
    simp only [extractAggregators]
    have := ih names
    split
    · trivial
    · trivial
    · rename_i x heq; rw [heq] at this; exact this
  | f2 t a b iha ihb =>
    simp only [extractAggregators]
    have ha := iha names
    split
    · rename_i a' aggs1 names1 heq1
      have hb := ihb names1
      split
      · trivial
      · trivial
      · rename_i x heq; rw [heq] at hb; exact hb
    · trivial
    · rename_i x heq; rw [heq] at ha; exact ha
  | agg a e _ =>
    simp only [extractAggregators]
    have := ensureNoAggregates_noFault e
    split
    · trivial
    · trivial
    · rename_i x heq; rw [heq] at this; exact this

theorem normSelectStep_noFault (acc : NormAcc) (ci : ColumnInfo) : (normSelectStep acc ci).NoFault := by
  unfold normSelectStep
  have := extractAggregators_noFault ci.expr acc.aggregateColnames ci.name
  split
  · trivial
  · rename_i x heq; rw [heq] at this; exact this
  · split <;> trivial

theorem normSelectLoop_noFault (acc : NormAcc) (cis : List ColumnInfo) : (normSelectLoop acc cis).NoFault := by
  induction cis generalizing acc with
  | nil => trivial
  | cons ci rest ih =>
    simp only [normSelectLoop]
    have := normSelectStep_noFault acc ci
    split
    · exact ih _
    · trivial
    · rename_i x heq; rw [heq] at this; exact this

theorem normOrderStep_noFault (acc : OrderAcc) (ob : Expr × Bool) : (normOrderStep acc ob).NoFault := by
  unfold normOrderStep
  have := extractAggregators_noFault ob.1 acc.aggregateColnames "INTERMEDIARY_COL"
  split
  · trivial
  · rename_i x heq; rw [heq] at this; exact this
  · split <;> trivial

theorem normOrderLoop_noFault (acc : OrderAcc) (obs : List (Expr × Bool)) : (normOrderLoop acc obs).NoFault := by
  induction obs generalizing acc with
  | nil => trivial
  | cons ob rest ih =>
    simp only [normOrderLoop]
    have := normOrderStep_noFault acc ob
    split
    · exact ih _
    · trivial
    · rename_i x heq; rw [heq] at this; exact this

/-- `Query::normalize` returns a normal form or an error value (nested aggregates: TypeError). -/
theorem normalize_noFault (q : Query) : (normalize q).NoFault := by
  unfold normalize
  have h1 := normSelectLoop_noFault {} q.select
  split
  · trivial
  · rename_i x heq; rw [heq] at h1; exact h1
  · rename_i acc _
    dsimp only
    split
    · have h2 := normOrderLoop_noFault
        ⟨acc.select, acc.aggregate, acc.aggregateColnames, acc.selectColnames, []⟩
        (q.orderBy.filter fun ob => keepsOrderKey ob.1)
      split
      · trivial
      · rename_i x heq; rw [heq] at h2; exact h2
      · trivial
    · trivial

/-- `is_select_star` implies that `find_referenced_cols` contains `*`, so `run_query` has fetched the
    column names and `column_names.unwrap()` in `QueryTask::new` cannot fail. -/
theorem isSelectStar_referencesStar (q : Query) (h : q.isSelectStar = true) : q.referencesStar = true := by
  unfold Query.isSelectStar at h
  split at h
  · rename_i ci hsel
    unfold Query.referencesStar
    rw [hsel]
    have : ci.expr = .col "*" := by simpa using h
    simp [this, Expr.mentions]
  · cases h

theorem runFront_noFault (p : Parsed) (cat : Catalog) (h : (parseQuery p).NoFault) : (runFront p cat).NoFault := by
  unfold runFront
  refine Res.noFault_bind h fun q _ => ?_
  by_cases hstar : q.referencesStar = true
  · simp only [hstar, if_true]
    cases cat.metaCols with
    | missing => trivial
    | notString => trivial
    | names l =>
      simp only [Res.ok_bind]
      split
      · trivial
      · refine Res.noFault_bind ?_ fun q' _ => Res.noFault_bind (normalize_noFault q') fun _ _ => trivial
        unfold expandStar; split <;> trivial
  · simp only [hstar]
    simp only [Bool.false_eq_true, if_false, Res.ok_bind]
    split
    · trivial
    · refine Res.noFault_bind ?_ fun q' _ => Res.noFault_bind (normalize_noFault q') fun _ _ => trivial
      unfold expandStar
      split
      · rename_i hs
        exact absurd (isSelectStar_referencesStar q hs) hstar
      · trivial

end LM.Norm
