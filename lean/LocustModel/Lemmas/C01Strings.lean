import LocustModel.Codec.Strings
import LocustModel.Lemmas.C01Ops
/-
  Helper lemmas for the string part of C01 (core only).
-/
namespace LM.Codec
open LM

/-! ### length prefix: `while len > 254 { push 255; len -= 255 }; push len` and its reader -/

theorem readLen_lenPrefix (len acc : Nat) (rest : List Nat) :
    readLen (lenPrefix len ++ rest) acc = .ok (acc + len, rest) := by
  fun_induction lenPrefix len generalizing acc with
  | case1 len h ih =>
    rw [List.cons_append, readLen, if_pos rfl, ih]
    have : acc + 255 + (len - 255) = acc + len := by omega
    rw [this]
  | case2 len h =>
    have : len ≠ 255 := by omega
    simp [readLen, this]

theorem lenPrefix_ne_nil (len : Nat) : lenPrefix len ≠ [] := by
  unfold lenPrefix; split <;> simp

theorem unpackAll_nil : unpackAll [] = .ok [] := by
  rw [unpackAll]

/-- reading back everything `PackedStrings` / `PackedBytes` wrote: all lengths, incl. 254 / 255 / 256. -/
theorem unpackAll_packAll (bs : List (List Nat)) : unpackAll (packAll bs) = .ok bs := by
  induction bs with
  | nil => simp [packAll, unpackAll_nil]
  | cons b bs ih =>
    have hcons : packAll (b :: bs) = lenPrefix b.length ++ (b ++ packAll bs) := by
      simp [packAll, packOne, List.append_assoc]
    obtain ⟨x, xs, hx⟩ : ∃ x xs, lenPrefix b.length ++ (b ++ packAll bs) = x :: xs := by
      cases h : lenPrefix b.length with
      | nil => exact absurd h (lenPrefix_ne_nil _)
      | cons x xs => exact ⟨x, xs ++ (b ++ packAll bs), by simp⟩
    have hr : readLen (x :: xs) 0 = .ok (b.length, b ++ packAll bs) := by
      rw [← hx, readLen_lenPrefix]; simp
    rw [hcons, hx, unpackAll]
    split
    · rename_i e he; rw [hr] at he; cases he
    · rename_i n rest he
      rw [hr] at he
      cases he
      simp [ih]

/-! ### bytes ↔ u8 sections -/

theorem ofBytes_length (s : Bytes) : (ofBytes s).length = s.length := by simp [ofBytes]

theorem toBytes_ofBytes (s : Bytes) : toBytes (ofBytes s) = s := by
  simp [toBytes, ofBytes, List.map_map]
  induction s with
  | nil => rfl
  | cons a t ih => simp [ih]

theorem map_toBytes_ofBytes (ss : List Bytes) : (ss.map ofBytes).map toBytes = ss := by
  induction ss with
  | nil => rfl
  | cons a t ih => simp [toBytes_ofBytes, ih]

theorem map_toBytes_comp_ofBytes (ss : List Bytes) : ss.map (toBytes ∘ ofBytes) = ss := by
  rw [← List.map_map]; exact map_toBytes_ofBytes ss

/-! ### `IndexedPackedStrings` -/

def entriesFrom (off : Nat) : List Bytes → List Nat
  | [] => []
  | s :: r => ((off <<< 24) + s.length) :: entriesFrom (off + s.length) r

def storeOf (ss : List Bytes) : List Nat := ss.flatMap ofBytes

theorem foldl_push (p0 : IPS) (ss : List Bytes) :
    ss.foldl IPS.push p0 =
      { data := p0.data ++ entriesFrom p0.store.length ss, store := p0.store ++ storeOf ss } := by
  induction ss generalizing p0 with
  | nil => simp [entriesFrom, storeOf]
  | cons s r ih =>
    simp [List.foldl_cons, ih, IPS.push, entriesFrom, storeOf, ofBytes_length, List.append_assoc]

theorem slice_mid (pre mid post : List Nat) :
    slice (pre ++ (mid ++ post)) pre.length mid.length = .ok mid := by
  unfold slice
  have : pre.length + mid.length ≤ (pre ++ (mid ++ post)).length := by simp
  simp

theorem entry_bits (a b : Nat) (h : b < 2 ^ 24) :
    ((a <<< 24) + b) >>> 24 = a ∧ ((a <<< 24) + b) &&& 0x00ffffff = b := by
  constructor
  · rw [Nat.shiftLeft_eq, Nat.shiftRight_eq_div_pow]; omega
  · have : (0x00ffffff : Nat) = 2 ^ 24 - 1 := by decide
    rw [this, Nat.and_two_pow_sub_one_eq_mod, Nat.shiftLeft_eq]; omega

/-- reading back what was pushed (every string shorter than 2^24 bytes). -/
theorem iterFrom_entries (pre post : List Nat) (ss : List Bytes) (h : ∀ s ∈ ss, s.length < 2 ^ 24) :
    IPS.iterFrom (pre ++ (storeOf ss ++ post)) (entriesFrom pre.length ss) = .ok ss := by
  induction ss generalizing pre with
  | nil => rfl
  | cons s r ih =>
    have hs := h s List.mem_cons_self
    obtain ⟨e1, e2⟩ := entry_bits pre.length s.length hs
    have hstore : pre ++ (storeOf (s :: r) ++ post) = pre ++ (ofBytes s ++ (storeOf r ++ post)) := by
      simp [storeOf, List.append_assoc]
    have hsl := slice_mid pre (ofBytes s) (storeOf r ++ post)
    rw [ofBytes_length] at hsl
    have hrec := ih (pre ++ ofBytes s) (fun x hx => h x (List.mem_cons_of_mem _ hx))
    simp only [List.length_append, ofBytes_length, List.append_assoc] at hrec
    simp only [entriesFrom, IPS.iterFrom, IPS.entry, e1, e2, hstore, hsl, toBytes_ofBytes, bind_ok, hrec,
      pure_eq_ok]

theorem iterFrom_get (store : List Nat) (es : List Nat) (ss : List Bytes)
    (h : IPS.iterFrom store es = .ok ss) :
    es.length = ss.length ∧ ∀ i (hi : i < es.length) (hj : i < ss.length), IPS.entry store es[i] = .ok ss[i] := by
  induction es generalizing ss with
  | nil => simp [IPS.iterFrom] at h; subst h; simp
  | cons e es ih =>
    cases he : IPS.entry store e with
    | error x => simp [IPS.iterFrom, he] at h
    | ok s =>
      cases hr : IPS.iterFrom store es with
      | error x => simp [IPS.iterFrom, he, hr] at h
      | ok r =>
        simp [IPS.iterFrom, he, hr] at h
        subst h
        obtain ⟨hl, hg⟩ := ih r hr
        refine ⟨by simp [hl], fun i hi hj => ?_⟩
        cases i with
        | zero => simpa using he
        | succ i => simpa using hg i (by simpa using hi) (by simpa using hj)

theorem dictOne_eq (idx data : List Nat) (i : Nat) :
    dictOne idx data i = match idx[i]? with | none => .error .index | some e => IPS.entry data e := by
  unfold dictOne IPS.entry
  cases idx[i]? with
  | none => rfl
  | some e => simp only; cases slice data (e >>> 24) (e &&& 0x00ffffff) <;> rfl

/-! ### dictionary -/

theorem mem_insertUniq (s x : Bytes) (l : List Bytes) : x ∈ insertUniq s l ↔ x = s ∨ x ∈ l := by
  induction l with
  | nil => simp [insertUniq]
  | cons t ts ih =>
    simp only [insertUniq]
    split
    · simp
    · split
      · rename_i h; subst h; simp
      · simp [ih]; constructor <;> intro h <;> rcases h with h | h | h <;> simp [h]

theorem mem_sortedUniq (x : Bytes) (ss : List Bytes) : x ∈ sortedUniq ss ↔ x ∈ ss := by
  induction ss with
  | nil => simp [sortedUniq]
  | cons s r ih =>
    have : sortedUniq (s :: r) = insertUniq s (sortedUniq r) := rfl
    rw [this, mem_insertUniq, ih]; simp

/-- looking up the dictionary indices returns the strings (indices are positions in the dictionary). -/
theorem dictLookup_idxOf (mapping strings : List Bytes) (hm : ∀ s ∈ mapping, s.length < 2 ^ 24)
    (hs : ∀ s ∈ strings, s ∈ mapping) :
    dictLookup (entriesFrom 0 mapping) (storeOf mapping) (strings.map fun s => mapping.idxOf s) = .ok strings := by
  have hit : IPS.iterFrom (storeOf mapping) (entriesFrom 0 mapping) = .ok mapping := by
    have := iterFrom_entries [] [] mapping hm
    simpa using this
  obtain ⟨hl, hg⟩ := iterFrom_get _ _ _ hit
  induction strings with
  | nil => rfl
  | cons s r ih =>
    have hmem := hs s List.mem_cons_self
    have hi : mapping.idxOf s < mapping.length := List.idxOf_lt_length_of_mem hmem
    have hi' : mapping.idxOf s < (entriesFrom 0 mapping).length := by omega
    have hone : dictOne (entriesFrom 0 mapping) (storeOf mapping) (mapping.idxOf s) = .ok s := by
      rw [dictOne_eq, List.getElem?_eq_getElem hi']
      simp only
      rw [hg _ hi' hi, List.getElem_idxOf hi]
    simp only [List.map_cons, dictLookup, hone, bind_ok, ih (fun x hx => hs x (List.mem_cons_of_mem _ hx)),
      pure_eq_ok]

/-- every index is below the dictionary size. -/
theorem idxOf_lt (mapping strings : List Bytes) (hs : ∀ s ∈ strings, s ∈ mapping) :
    ∀ i ∈ strings.map (fun s => mapping.idxOf s), i < mapping.length := by
  intro i hi
  obtain ⟨s, hsm, rfl⟩ := List.mem_map.mp hi
  exact List.idxOf_lt_length_of_mem (hs s hsm)

/-! ### hex packing -/

set_option maxRecDepth 100000 in
theorem hexByte_upper : ∀ n, n < 256 → isUpperHexByte (UInt8.ofNat n) = true →
    hexVal (UInt8.ofNat n) < 16 ∧ hexDigit true (hexVal (UInt8.ofNat n)) = UInt8.ofNat n := by
  decide

set_option maxRecDepth 100000 in
theorem hexByte_lower : ∀ n, n < 256 → isLowerHexByte (UInt8.ofNat n) = true →
    hexVal (UInt8.ofNat n) < 16 ∧ hexDigit false (hexVal (UInt8.ofNat n)) = UInt8.ofNat n := by
  decide

def validHexByte (upper : Bool) (c : UInt8) : Bool := if upper then isUpperHexByte c else isLowerHexByte c

theorem hexByte (upper : Bool) (c : UInt8) (h : validHexByte upper c = true) :
    hexVal c < 16 ∧ hexDigit upper (hexVal c) = c := by
  have hc : c = UInt8.ofNat c.toNat := by simp
  have hlt : c.toNat < 256 := c.toNat_lt
  cases upper with
  | true => rw [hc]; exact hexByte_upper _ hlt (by rw [← hc]; simpa [validHexByte] using h)
  | false => rw [hc]; exact hexByte_lower _ hlt (by rw [← hc]; simpa [validHexByte] using h)

/-- `hex::encode(_upper)(hex::decode(s)) = s` for even-length strings in the matching single case. -/
theorem hexEncode_hexDecode (upper : Bool) (s : Bytes) (hlen : s.length % 2 = 0)
    (hall : ∀ c ∈ s, validHexByte upper c = true) : hexEncode upper (hexDecode s) = s := by
  fun_induction hexDecode s with
  | case1 a b rest ih =>
    obtain ⟨ha, ha'⟩ := hexByte upper a (hall a (by simp))
    obtain ⟨hb, hb'⟩ := hexByte upper b (hall b (by simp))
    have h1 : (hexVal a * 16 + hexVal b) / 16 = hexVal a := by omega
    have h2 : (hexVal a * 16 + hexVal b) % 16 = hexVal b := by omega
    have := ih (by simp at hlen; omega) (fun c hc => hall c (by simp [hc]))
    simp only [hexEncode, List.flatMap_cons, h1, h2, ha', hb'] at this ⊢
    simp [this]
  | case2 s hne =>
    cases s with
    | nil => rfl
    | cons a t =>
      cases t with
      | nil => simp at hlen
      | cons b r => exact absurd rfl (hne a b r)

theorem hexEncode_length (upper : Bool) (bs : List Nat) : (hexEncode upper bs).length = 2 * bs.length := by
  induction bs with
  | nil => rfl
  | cons b t ih => simp [hexEncode] at ih ⊢; omega

def sumLen (ss : List Bytes) : Nat := (ss.map List.length).sum

theorem unhexAll_ok (upper : Bool) (total used : Nat) (ss : List Bytes)
    (hv : ∀ s ∈ ss, s.length % 2 = 0 ∧ ∀ c ∈ s, validHexByte upper c = true)
    (hcap : used + sumLen ss ≤ total) :
    unhexAll upper total used (ss.map hexDecode) = .ok ss := by
  induction ss generalizing used with
  | nil => rfl
  | cons s r ih =>
    obtain ⟨h1, h2⟩ := hv s List.mem_cons_self
    have he := hexEncode_hexDecode upper s h1 h2
    have hsum : sumLen (s :: r) = s.length + sumLen r := by simp [sumLen]
    have hle : used + s.length ≤ total := by omega
    have := ih (used + s.length) (fun x hx => hv x (List.mem_cons_of_mem _ hx)) (by omega)
    simp only [List.map_cons, unhexAll, he, hle, if_true, this]

/-! ### `fast_build_string_column` followed by decode -/

/-- what the hex flags of `StringColBuffer` mean. -/
def HexFlagsOk (lhex uhex : Bool) (ss : List Bytes) : Prop :=
  (lhex = true → ∀ s ∈ ss, isLowercaseHex s = true) ∧ (uhex = true → ∀ s ∈ ss, isUppercaseHex s = true)

theorem valid_of_flags {lhex uhex : Bool} {ss : List Bytes} (h : HexFlagsOk lhex uhex ss)
    (hany : (lhex || uhex) = true) :
    ∀ s ∈ ss, s.length % 2 = 0 ∧ ∀ c ∈ s, validHexByte uhex c = true := by
  intro s hs
  cases uhex with
  | true =>
    have := h.2 rfl s hs
    simp only [isUppercaseHex, Bool.and_eq_true, beq_iff_eq, List.all_eq_true] at this
    exact ⟨this.1, fun c hc => by simpa [validHexByte] using this.2 c hc⟩
  | false =>
    have hl : lhex = true := by simpa using hany
    have := h.1 hl s hs
    simp only [isLowercaseHex, Bool.and_eq_true, beq_iff_eq, List.all_eq_true] at this
    exact ⟨this.1, fun c hc => by simpa [validHexByte] using this.2 c hc⟩

/-- Packed, hex-packed and dictionary storage all decode to the strings that were stored — every list of
    byte strings (each shorter than 2^24 bytes), with or without a present map. -/
theorem fastBuild_decode (dec : Section → Section) (strings : List Bytes) (lhex uhex : Bool)
    (present : Option (List Nat))
    (hlen : ∀ s ∈ strings, s.length < 2 ^ 24) (hflags : HexFlagsOk lhex uhex strings) :
    decode dec (fastBuild strings strings.length lhex uhex (sumLen strings) present) =
      .ok ⟨.str strings, present⟩ := by
  unfold fastBuild
  split
  · -- early exit: packed or hex-packed
    split
    · rename_i hhex
      simp only [Bool.and_eq_true] at hhex
      have hv := valid_of_flags hflags hhex.1
      have hun := unhexAll_ok uhex (sumLen strings) 0 strings hv (by omega)
      cases present <;>
        simp [packedColumn, decode, runOps, step, ofSection, unpackAll_packAll, hun]
    · cases present <;>
        simp [packedColumn, decode, runOps, step, ofSection, stringPackCodec, unpackAll_packAll, map_toBytes_comp_ofBytes]
  · -- dictionary
    have hmem : ∀ s ∈ strings, s ∈ sortedUniq strings := fun s hs => (mem_sortedUniq s strings).mpr hs
    have hml : ∀ s ∈ sortedUniq strings, s.length < 2 ^ 24 :=
      fun s hs => hlen s ((mem_sortedUniq s strings).mp hs)
    have hd := dictLookup_idxOf (sortedUniq strings) strings hml hmem
    have hp := foldl_push {} (sortedUniq strings)
    simp only [List.nil_append, List.length_nil] at hp
    cases present <;>
      simp [decode, runOps, step, ofSection, dictCodec, hp, hd]

theorem fastBuild_noPush0 (strings : List Bytes) (len : Nat) (lhex uhex : Bool) (total : Nat)
    (present : Option (List Nat)) : NoPush0 (fastBuild strings len lhex uhex total present).ops := by
  unfold fastBuild
  split
  · split <;> cases present <;> simp [NoPush0, packedColumn, stringPackCodec]
  · cases present <;> simp [NoPush0, dictCodec]

theorem fastBuild_len (strings : List Bytes) (len : Nat) (lhex uhex : Bool) (total : Nat)
    (present : Option (List Nat)) : (fastBuild strings len lhex uhex total present).len = len := by
  unfold fastBuild
  split
  · split <;> cases present <;> simp [packedColumn]
  · cases present <;> simp

/-! ### `StringColBuffer` -/

theorem entriesFrom_length (off : Nat) (ss : List Bytes) : (entriesFrom off ss).length = ss.length := by
  induction ss generalizing off with
  | nil => rfl
  | cons s r ih => simp [entriesFrom, ih]

theorem sumLen_append (a b : List Bytes) : sumLen (a ++ b) = sumLen a + sumLen b := by
  simp [sumLen]

theorem StrBuf.pushAll_spec (b : StrBuf) (ss : List Bytes) :
    (b.pushAll ss).values = ss.foldl IPS.push b.values ∧
    (b.pushAll ss).lhex = (b.lhex && ss.all isLowercaseHex) ∧
    (b.pushAll ss).uhex = (b.uhex && ss.all isUppercaseHex) ∧
    (b.pushAll ss).stringBytes = b.stringBytes + sumLen ss := by
  induction ss generalizing b with
  | nil => simp [StrBuf.pushAll, sumLen]
  | cons s r ih =>
    obtain ⟨h1, h2, h3, h4⟩ := ih (b.push s)
    simp only [StrBuf.pushAll, List.foldl_cons] at h1 h2 h3 h4 ⊢
    refine ⟨by rw [h1]; rfl, ?_, ?_, ?_⟩
    · rw [h2]; simp [StrBuf.push, Bool.and_assoc]
    · rw [h3]; simp [StrBuf.push, Bool.and_assoc]
    · rw [h4]; simp [StrBuf.push, sumLen]; omega

theorem StrBuf.pushAll_append (b : StrBuf) (a c : List Bytes) :
    (b.pushAll a).pushAll c = b.pushAll (a ++ c) := by
  simp [StrBuf.pushAll, List.foldl_append]

/-- the strings read back from the `IndexedPackedStrings` of a buffer are the strings pushed. -/
theorem StrBuf.iter_pushAll (ss : List Bytes) (h : ∀ s ∈ ss, s.length < 2 ^ 24) :
    (StrBuf.pushAll {} ss).values.iter = .ok ss ∧ (StrBuf.pushAll {} ss).values.data.length = ss.length := by
  obtain ⟨h1, _⟩ := StrBuf.pushAll_spec {} ss
  have hp := foldl_push {} ss
  simp only [List.nil_append, List.length_nil] at hp
  have hv : (StrBuf.pushAll {} ss).values = { data := entriesFrom 0 ss, store := storeOf ss } := by
    rw [h1]; exact hp
  have := iterFrom_entries [] [] ss h
  simp only [List.nil_append, List.append_nil, List.length_nil] at this
  exact ⟨by rw [hv]; exact this, by rw [hv]; exact entriesFrom_length 0 ss⟩

/-- `StringColBuffer::finalize` then decode: every list of strings (each < 2^24 bytes). -/
theorem strBuf_finalize_decode (dec : Section → Section) (ss : List Bytes) (present : Option (List Nat))
    (h : ∀ s ∈ ss, s.length < 2 ^ 24) :
    ∃ c, (StrBuf.pushAll {} ss).finalize present = .ok c ∧ decode dec c = .ok ⟨.str ss, present⟩ ∧
      c.len = ss.length ∧ NoPush0 c.ops := by
  obtain ⟨hit, hlen⟩ := StrBuf.iter_pushAll ss h
  obtain ⟨_, h2, h3, h4⟩ := StrBuf.pushAll_spec {} ss
  have hflags : HexFlagsOk (StrBuf.pushAll {} ss).lhex (StrBuf.pushAll {} ss).uhex ss := by
    constructor
    · intro hl s hs
      rw [h2] at hl
      have : ss.all isLowercaseHex = true := by simpa using hl
      exact List.all_eq_true.mp this s hs
    · intro hu s hs
      rw [h3] at hu
      have : ss.all isUppercaseHex = true := by simpa using hu
      exact List.all_eq_true.mp this s hs
  have hbytes : (StrBuf.pushAll {} ss).stringBytes = sumLen ss := by rw [h4]; simp
  refine ⟨fastBuild ss (StrBuf.pushAll {} ss).values.data.length (StrBuf.pushAll {} ss).lhex
      (StrBuf.pushAll {} ss).uhex (StrBuf.pushAll {} ss).stringBytes present,
    by simp only [StrBuf.finalize, hit, bind_ok, pure_eq_ok], ?_, ?_, fastBuild_noPush0 _ _ _ _ _ _⟩
  · rw [hlen, hbytes]; exact fastBuild_decode dec ss _ _ present h hflags
  · rw [fastBuild_len, hlen]

end LM.Codec
