import LocustModel.Codec.Csv
/-
  CSV typing lemmas (helper lemmas for C01_csv_*; core only).
-/
namespace LM.Codec
open LM

def CsvHint.isStr : CsvHint → Bool | .str => true | _ => false
def CsvHint.isFloat : CsvHint → Bool | .float _ => true | _ => false
def CsvHint.isInt : CsvHint → Bool | .int _ _ => true | _ => false

theorem csvTypes_fold (t0 : ColType) (cells : List CsvCell) :
    (cells.foldl (fun t c => t.or (ColType.determine c.hint)) t0).str = (t0.str || cells.any fun c => c.hint.isStr) ∧
    (cells.foldl (fun t c => t.or (ColType.determine c.hint)) t0).float = (t0.float || cells.any fun c => c.hint.isFloat) ∧
    (cells.foldl (fun t c => t.or (ColType.determine c.hint)) t0).int = (t0.int || cells.any fun c => c.hint.isInt) := by
  induction cells generalizing t0 with
  | nil => simp
  | cons c cs ih =>
    obtain ⟨h1, h2, h3⟩ := ih (t0.or (ColType.determine c.hint))
    simp only [List.foldl_cons, List.any_cons]
    refine ⟨?_, ?_, ?_⟩
    · rw [h1]; cases hc : c.hint <;> simp [ColType.or, ColType.determine, CsvHint.isStr]
    · rw [h2]; cases hc : c.hint <;> simp [ColType.or, ColType.determine, CsvHint.isFloat]
    · rw [h3]; cases hc : c.hint <;> simp [ColType.or, ColType.determine, CsvHint.isInt]

def RawVal.isNull : RawVal → Bool | .null => true | _ => false
def RawVal.isStr : RawVal → Bool | .str _ => true | _ => false
def RawVal.isFloat : RawVal → Bool | .float _ => true | _ => false
def RawVal.isInt : RawVal → Bool | .int _ => true | _ => false

/-- row alignment: one typed value per CSV field, in order. -/
theorem csvFinalize_length (allow : Bool) (cells : List CsvCell) :
    (csvFinalize allow cells).length = cells.length := by
  unfold csvFinalize
  simp only
  split
  · simp
  · split
    · simp
    · split <;> simp

/-- a chunk's column is single-typed: strings, or floats, or integers (NULLs aside), or all NULL. -/
theorem csvFinalize_uniform (allow : Bool) (cells : List CsvCell) :
    (∀ v ∈ csvFinalize allow cells, v.isNull ∨ v.isStr) ∨
    (∀ v ∈ csvFinalize allow cells, v.isNull ∨ v.isFloat) ∨
    (∀ v ∈ csvFinalize allow cells, v.isNull ∨ v.isInt) := by
  unfold csvFinalize
  simp only
  split
  · left; intro v hv
    obtain ⟨c, _, rfl⟩ := List.mem_map.mp hv
    split <;> simp [RawVal.isNull, RawVal.isStr]
  · split
    · right; left; intro v hv
      obtain ⟨c, _, rfl⟩ := List.mem_map.mp hv
      cases c.hint <;> cases allow <;> simp [RawVal.isNull, RawVal.isFloat]
    · right; right; intro v hv
      split at hv
      · obtain ⟨c, _, rfl⟩ := List.mem_map.mp hv
        cases c.hint <;> cases allow <;> simp [RawVal.isNull, RawVal.isInt]
      · obtain ⟨c, _, rfl⟩ := List.mem_map.mp hv
        simp [RawVal.isNull]

/-- without `allow_nulls` a typed column has no NULL: an empty field reads `""` / `0.0` / `0`. -/
theorem csvFinalize_no_null (cells : List CsvCell)
    (htyped : (csvTypes cells).str = true ∨ (csvTypes cells).float = true ∨ (csvTypes cells).int = true) :
    ∀ v ∈ csvFinalize false cells, v.isNull = false := by
  obtain ⟨hs, hf, hi⟩ := csvTypes_fold {} cells
  simp only [Bool.false_or] at hs hf hi
  have hsT : (csvTypes cells).str = cells.any fun c => c.hint.isStr := by unfold csvTypes; simpa using hs
  have hfT : (csvTypes cells).float = cells.any fun c => c.hint.isFloat := by unfold csvTypes; simpa using hf
  intro v hv
  unfold csvFinalize at hv
  simp only at hv
  split at hv
  · obtain ⟨c, _, rfl⟩ := List.mem_map.mp hv
    simp [RawVal.isNull]
  · rename_i hns
    have hnostr : ∀ c ∈ cells, c.hint ≠ .str := by
      intro c hc hcs
      apply hns
      rw [hsT]; exact List.any_eq_true.mpr ⟨c, hc, by simp [hcs, CsvHint.isStr]⟩
    split at hv
    · obtain ⟨c, hc, rfl⟩ := List.mem_map.mp hv
      have := hnostr c hc
      cases hh : c.hint <;> simp_all [RawVal.isNull]
    · rename_i hnf
      have hnofloat : ∀ c ∈ cells, ∀ f, c.hint ≠ .float f := by
        intro c hc f hcf
        apply hnf
        rw [hfT]; exact List.any_eq_true.mpr ⟨c, hc, by simp [hcf, CsvHint.isFloat]⟩
      split at hv
      · obtain ⟨c, hc, rfl⟩ := List.mem_map.mp hv
        have h1 := hnostr c hc
        have h2 := hnofloat c hc
        cases hh : c.hint <;> simp_all [RawVal.isNull]
      · rename_i hni
        rcases htyped with h | h | h <;> simp_all

end LM.Codec
