import LocustModel.Disk.Envelope
/- Helper lemmas for C14: big-endian encoding is a bijection between 8-byte lists and numbers below 2^64. -/
namespace LM.Envelope

theorem be64_length (n : Nat) : (be64 n).length = 8 := rfl

theorem fromBe_be64 (n : Nat) (h : n < 2 ^ 64) : fromBe (be64 n) = n := by
  simp only [fromBe, be64, List.foldl_cons, List.foldl_nil, UInt8.toNat_ofNat']
  omega

theorem be64_fromBe (bs : List UInt8) (h : bs.length = 8) : be64 (fromBe bs) = bs := by
  match bs, h with
  | [a, b, c, d, e, f, g, i], _ =>
    have ha := a.toNat_lt; have hb := b.toNat_lt; have hc := c.toNat_lt; have hd := d.toNat_lt
    have he := e.toNat_lt; have hf := f.toNat_lt; have hg := g.toNat_lt; have hi := i.toNat_lt
    simp only [fromBe, be64, List.foldl_cons, List.foldl_nil, List.cons.injEq, and_true]
    refine ⟨?_, ?_, ?_, ?_, ?_, ?_, ?_, ?_⟩ <;>
    · apply UInt8.toNat_inj.1
      simp only [UInt8.toNat_ofNat']
      omega

theorem fromBe_lt (bs : List UInt8) (h : bs.length = 8) : fromBe bs < 2 ^ 64 := by
  match bs, h with
  | [a, b, c, d, e, f, g, i], _ =>
    have ha := a.toNat_lt; have hb := b.toNat_lt; have hc := c.toNat_lt; have hd := d.toNat_lt
    have he := e.toNat_lt; have hf := f.toNat_lt; have hg := g.toNat_lt; have hi := i.toNat_lt
    simp only [fromBe, List.foldl_cons, List.foldl_nil]
    omega

theorem wrap_len_field (H : List UInt8 → List UInt8) (d : List UInt8) :
    ((wrap H d).drop 8).take 8 = be64 d.length := by
  have : wrap H d = be64 0 ++ (be64 d.length ++ (H d ++ d)) := by simp [wrap]
  rw [this, List.drop_left' (be64_length 0), List.take_left' (be64_length _)]

theorem wrap_length (H : List UInt8 → List UInt8) (hLen : ∀ x, (H x).length = 32) (d : List UInt8) :
    (wrap H d).length = 48 + d.length := by
  simp [wrap, be64_length, hLen]; omega

theorem wrap_digest_field (H : List UInt8 → List UInt8) (hLen : ∀ x, (H x).length = 32) (d : List UInt8) :
    ((wrap H d).drop 16).take 32 = H d := by
  have : wrap H d = (be64 0 ++ be64 d.length) ++ (H d ++ d) := by simp [wrap]
  rw [this, List.drop_left' (by simp [be64_length]), List.take_left' (hLen d)]

/-! ### single-bit flips -/

theorem bitMask_ne_zero : ∀ j : Fin 8, bitMask j ≠ 0 := by decide

theorem xor_mask_ne (x m : UInt8) (hm : m ≠ 0) : x ^^^ m ≠ x := by
  intro h
  apply hm
  have : x ^^^ (x ^^^ m) = x ^^^ x := by rw [h]
  rw [← UInt8.xor_assoc, UInt8.xor_self, UInt8.zero_xor] at this
  exact this

theorem flipBit_length (b : List UInt8) (i : Nat) : (flipBit b i).length = b.length := by simp [flipBit]

/-- Flipping a bit inside the file changes the file. -/
theorem flipBit_ne (b : List UInt8) (i : Nat) (hi : i < 8 * b.length) : flipBit b i ≠ b := by
  intro h
  have hk : i / 8 < b.length := by omega
  have h1 : (flipBit b i)[i / 8]? = b[i / 8]? := by rw [h]
  unfold flipBit at h1
  rw [List.getElem?_set_self hk, List.getElem?_eq_getElem hk, List.getD_eq_getElem?_getD, List.getElem?_eq_getElem hk] at h1
  simp only [Option.getD_some, Option.some.injEq] at h1
  exact xor_mask_ne _ _ (bitMask_ne_zero _) h1

/-- A flip in the first 48 bytes leaves the payload bytes alone. -/
theorem flipBit_drop48 (b : List UInt8) (i : Nat) (hi : i < 384) : (flipBit b i).drop 48 = b.drop 48 := by
  unfold flipBit
  exact List.drop_set_of_lt (by omega)

/-- A flip behind the first 48 bytes leaves the header alone. -/
theorem flipBit_take48 (b : List UInt8) (i : Nat) (hi : 384 ≤ i) : (flipBit b i).take 48 = b.take 48 := by
  unfold flipBit
  exact List.take_set_of_le (by omega)

end LM.Envelope
