import LocustModel.Codec.Ingest
import LocustModel.Lemmas.C01Column
/-
  From batches to the table: what `InputColumn::from_column_data` + `Buffer::push_typed_cols` issue on each
  `ColumnBuffer`, and that after any sequence of batches every column holds exactly one cell per row
  (helper lemmas for C01_rows / C01_input_column; core only).
-/
namespace LM.Codec
open LM LM.Bitmap

/-! ### the calls issued for one input column -/

/-- the `NullableFloat` / `NullableInt` loops of `push_typed_cols`. -/
def sparseIssued {α : Type} (mk : α → RawVal) (c : Nat) (next : Nat) : List (Nat × α) → List Op
  | [] => [.nulls (c - next)]
  | (i, v) :: rest => .nulls (i - next) :: valOp (mk v) :: sparseIssued mk c (i + 1) rest

/-- the calls `push_typed_cols` makes on the column buffer for one `InputColumn`. -/
def inputOps : InputColumn → List Op
  | .int xs => [.ints xs]
  | .str ss => [.strs ss]
  | .float fs => [.floats fs]
  | .null c => [.nulls c]
  | .mixed vs => vs.map valOp
  | .nullableFloat c d => sparseIssued RawVal.float c 0 d
  | .nullableInt c d => sparseIssued RawVal.int c 0 d

/-- indices strictly increasing from `next` and below `c` (otherwise `(i - next_i) as usize` underflows). -/
def SparseOk {α : Type} (c : Nat) : Nat → List (Nat × α) → Prop
  | next, [] => next ≤ c
  | next, (i, _) :: rest => next ≤ i ∧ SparseOk c (i + 1) rest

theorem applyAll_append (cv : Conv) (cb : ColBuf) (a b : List Op) :
    cb.applyAll cv (a ++ b) = (cb.applyAll cv a >>= fun cb' => cb'.applyAll cv b) := by
  induction a generalizing cb with
  | nil => simp [ColBuf.applyAll]
  | cons op a ih =>
    simp only [List.cons_append, ColBuf.applyAll]
    cases cb.apply cv op with
    | error e => simp
    | ok cb1 => simp [ih]

theorem pushVal_eq (cv : Conv) (cb : ColBuf) (v : RawVal) : cb.pushVal cv v = cb.apply cv (valOp v) := by
  cases v <;> rfl

theorem pushVals_eq (cv : Conv) (cb : ColBuf) (vs : List RawVal) :
    pushVals cv cb vs = cb.applyAll cv (vs.map valOp) := by
  induction vs generalizing cb with
  | nil => rfl
  | cons v vs ih =>
    simp only [pushVals, List.map_cons, ColBuf.applyAll, pushVal_eq]
    cases cb.apply cv (valOp v) with
    | error e => rfl
    | ok cb1 => simp [ih]

theorem apply_nulls (cv : Conv) (cb : ColBuf) (k : Nat) : cb.apply cv (.nulls k) = .ok (cb.pushNulls k) := rfl

theorem pushSparse_eq {α : Type} (cv : Conv) (mk : α → RawVal) (cb : ColBuf) (c next : Nat)
    (d : List (Nat × α)) (h : SparseOk c next d) :
    pushSparse cv mk cb c next d = cb.applyAll cv (sparseIssued mk c next d) := by
  induction d generalizing cb next with
  | nil =>
    have : next ≤ c := h
    simp [pushSparse, sparseIssued, subU64, this, ColBuf.applyAll, apply_nulls]
  | cons p rest ih =>
    obtain ⟨i, v⟩ := p
    obtain ⟨h1, h2⟩ := h
    simp only [pushSparse, sparseIssued, subU64, h1, if_true, bind_ok, ColBuf.applyAll, apply_nulls, pushVal_eq]
    cases (cb.pushNulls (i - next)).apply cv (valOp (mk v)) with
    | error e => rfl
    | ok cb1 => simp only [bind_ok]; exact ih cb1 (i + 1) h2

theorem sparseOk_le {α : Type} (c next : Nat) (d : List (Nat × α)) (h : SparseOk c next d) : next ≤ c := by
  induction d generalizing next with
  | nil => exact h
  | cons p rest ih =>
    obtain ⟨i, v⟩ := p
    have := ih (i + 1) h.2
    have := h.1
    omega

/-- validity of one input column of a batch of `rows` rows (what the wire format / `TableBuffer` guarantee
    and what `push_typed_cols` asserts), together with the value domain. -/
def InputOk (rows : Nat) : InputColumn → Prop
  | .int xs => xs.length = rows ∧ ∀ x ∈ xs, inI64 x
  | .float fs => fs.length = rows
  | .str ss => ss.length = rows ∧ ∀ s ∈ ss, s.length < 2 ^ 24
  | .null c => c = rows
  | .mixed vs => vs.length = rows ∧ ∀ v ∈ vs, RawOk v
  | .nullableFloat c d => c = rows ∧ SparseOk c 0 d
  | .nullableInt c d => c = rows ∧ SparseOk c 0 d ∧ ∀ p ∈ d, inI64 p.2

theorem pushInput_eq (cv : Conv) (cb : ColBuf) (rows : Nat) (ic : InputColumn) (h : InputOk rows ic) :
    pushInput cv cb ic = cb.applyAll cv (inputOps ic) := by
  cases ic with
  | int xs => simp [pushInput, inputOps, ColBuf.applyAll, ColBuf.apply]; cases cb.pushInts cv xs none <;> rfl
  | str ss => simp [pushInput, inputOps, ColBuf.applyAll, ColBuf.apply]; cases cb.pushStrings cv ss none <;> rfl
  | float fs => simp [pushInput, inputOps, ColBuf.applyAll, ColBuf.apply]; cases cb.pushFloats cv fs none <;> rfl
  | null c => simp [pushInput, inputOps, ColBuf.applyAll, ColBuf.apply]
  | mixed vs => exact pushVals_eq cv cb vs
  | nullableFloat c d => exact pushSparse_eq cv _ cb c 0 d h.2
  | nullableInt c d => exact pushSparse_eq cv _ cb c 0 d h.2.1

theorem flags_valOp (v : RawVal) : (valOp v).flags.length = 1 := by cases v <;> rfl

theorem flags_sparseIssued {α : Type} (mk : α → RawVal) (c next : Nat) (d : List (Nat × α))
    (h : SparseOk c next d) : ((sparseIssued mk c next d).flatMap Op.flags).length = c - next := by
  induction d generalizing next with
  | nil => simp [sparseIssued, Op.flags]
  | cons p rest ih =>
    obtain ⟨i, v⟩ := p
    obtain ⟨h1, h2⟩ := h
    have hle : i + 1 ≤ c := sparseOk_le c (i + 1) rest h2
    simp only [sparseIssued, List.flatMap_cons, List.length_append, ih (i + 1) h2, flags_valOp]
    simp [Op.flags]; omega

theorem flags_inputOps (rows : Nat) (ic : InputColumn) (h : InputOk rows ic) :
    ((inputOps ic).flatMap Op.flags).length = rows := by
  cases ic with
  | int xs => simpa [inputOps, Op.flags] using h.1
  | str ss => simpa [inputOps, Op.flags] using h.1
  | float fs => simpa [inputOps, Op.flags, InputOk] using h
  | null c => simpa [inputOps, Op.flags, InputOk] using h
  | mixed vs =>
    have : ∀ l : List RawVal, ((l.map valOp).flatMap Op.flags).length = l.length := by
      intro l; induction l with
      | nil => rfl
      | cons v r ih => simp only [List.map_cons, List.flatMap_cons, List.length_append, flags_valOp, ih, List.length_cons]; omega
    simp only [inputOps, this]; exact h.1
  | nullableFloat c d => simp only [inputOps, flags_sparseIssued _ c 0 d h.2]; exact h.1
  | nullableInt c d => simp only [inputOps, flags_sparseIssued _ c 0 d h.2.1]; exact h.1

theorem opOk_sparseIssued {α : Type} (mk : α → RawVal) (c next : Nat) (d : List (Nat × α))
    (h : ∀ p ∈ d, RawOk (mk p.2)) : ∀ op ∈ sparseIssued mk c next d, OpOk op := by
  induction d generalizing next with
  | nil => intro op hop; simp [sparseIssued] at hop; subst hop; trivial
  | cons p rest ih =>
    obtain ⟨i, v⟩ := p
    intro op hop
    simp only [sparseIssued, List.mem_cons] at hop
    rcases hop with h1 | h1 | h1
    · subst h1; trivial
    · subst h1
      have := h (i, v) List.mem_cons_self
      revert this; cases mk v <;> simp [valOp, OpOk, RawOk]
    · exact ih (i + 1) (fun q hq => h q (List.mem_cons_of_mem _ hq)) op h1

theorem opOk_inputOps (rows : Nat) (ic : InputColumn) (h : InputOk rows ic) : ∀ op ∈ inputOps ic, OpOk op := by
  cases ic with
  | int xs => intro op hop; simp [inputOps] at hop; subst hop; exact h.2
  | str ss => intro op hop; simp [inputOps] at hop; subst hop; exact h.2
  | float fs => intro op hop; simp [inputOps] at hop; subst hop; trivial
  | null c => intro op hop; simp [inputOps] at hop; subst hop; trivial
  | mixed vs =>
    intro op hop
    obtain ⟨v, hv, rfl⟩ := List.mem_map.mp hop
    have := h.2 v hv
    revert this; cases v <;> simp [valOp, OpOk, RawOk]
  | nullableFloat c d => exact opOk_sparseIssued _ c 0 d (fun _ _ => trivial)
  | nullableInt c d => exact opOk_sparseIssued _ c 0 d (fun p hp => h.2.2 p hp)

/-! ### `Buffer` as an association list -/

theorem find?_replace (l : List (String × ColBuf)) (n m : String) (cb : ColBuf) :
    (l.map fun p => if p.1 = n then (n, cb) else p).find? (fun x => decide (x.1 = m)) =
      if m = n then (if l.any (fun x => decide (x.1 = n)) then some (n, cb) else none)
      else l.find? (fun x => decide (x.1 = m)) := by
  induction l with
  | nil => by_cases h : m = n <;> simp [h]
  | cons p ps ih =>
    simp only [List.map_cons, List.find?_cons, List.any_cons]
    by_cases hm : m = n
    · subst hm
      simp only [if_true] at ih ⊢
      by_cases hp : p.1 = m
      · simp [hp, -List.find?_map]
      · have hd : decide (p.1 = m) = false := decide_eq_false hp
        have hpm : ¬ (if p.1 = m then (m, cb) else p).1 = m := by simp [hp]
        simp only [hd, Bool.false_or, decide_eq_false hpm]
        exact ih
    · simp only [hm, if_false] at ih ⊢
      by_cases hp : p.1 = n
      · have : ¬ n = m := fun h => hm h.symm
        simp [hp, this, ih, -List.find?_map]
      · simp [hp, ih, -List.find?_map]

theorem Buffer.get_set (b : Buffer) (n : String) (cb : ColBuf) (m : String) :
    (b.set n cb).get m = if m = n then cb else b.get m := by
  unfold Buffer.set Buffer.get
  by_cases hany : b.cols.any (fun x => decide (x.1 = n)) = true
  · simp only [hany, if_true, find?_replace]
    by_cases hm : m = n <;> simp [hm]
  · have hany' : b.cols.any (fun x => decide (x.1 = n)) = false := Bool.eq_false_iff.mpr hany
    simp only [hany', Bool.false_eq_true, if_false]
    have hnone : ∀ q ∈ b.cols, ¬ q.1 = n := by
      intro q hq hqn
      have := List.any_eq_false.mp hany' q hq
      simp [hqn] at this
    rw [List.find?_append]
    by_cases hm : m = n
    · subst hm
      have : b.cols.find? (fun x => decide (x.1 = m)) = none := by
        rw [List.find?_eq_none]; intro q hq; simpa using hnone q hq
      simp [this]
    · have hnm : ¬ n = m := fun h => hm h.symm
      cases hf : b.cols.find? (fun x => decide (x.1 = m)) with
      | none => simp [hm, hnm]
      | some q => simp [hm]

theorem Buffer.length_set (b : Buffer) (n : String) (cb : ColBuf) : (b.set n cb).length = b.length := by
  unfold Buffer.set; split <;> rfl

theorem find?_map_keep {f : String → ColBuf → ColBuf} (l : List (String × ColBuf)) (m : String) :
    (l.map fun (p : String × ColBuf) => (p.1, f p.1 p.2)).find? (fun x => decide (x.1 = m)) =
      (l.find? (fun x => decide (x.1 = m))).map fun p => (p.1, f p.1 p.2) := by
  induction l with
  | nil => rfl
  | cons p ps ih =>
    simp only [List.map_cons, List.find?_cons]
    by_cases hp : p.1 = m <;> simp [hp, ih]

/-- `self.length = N; self.extend_to_largest()` seen through `get`. -/
theorem Buffer.get_extend (b : Buffer) (N : Nat) (hN : b.length ≤ N) (m : String) :
    (({ b with length := N } : Buffer).extendToLargest).get m =
      (if (b.get m).length < N then (b.get m).pushNulls (N - (b.get m).length) else b.get m) := by
  have hmap : (({ b with length := N } : Buffer).extendToLargest).cols =
      b.cols.map fun (p : String × ColBuf) =>
        (p.1, (fun _ cb => if cb.length < N then cb.pushNulls (N - cb.length) else cb) p.1 p.2) := by
    simp only [Buffer.extendToLargest]
    apply List.map_congr_left
    intro p _
    obtain ⟨n, cb⟩ := p
    simp only
    split <;> rfl
  unfold Buffer.get
  rw [hmap, find?_map_keep (f := fun _ cb => if cb.length < N then cb.pushNulls (N - cb.length) else cb)]
  cases hf : b.cols.find? (fun x => decide (x.1 = m)) with
  | some p => simp [Buffer.extendToLargest]
  | none =>
    simp only [Option.map_none, Buffer.extendToLargest]
    by_cases hlt : b.length < N
    · simp [hlt, ColBuf.pushNulls]; omega
    · have : b.length = N := by omega
      simp [this]

/-! ### batches -/

structure Batch where
  rows : Nat
  cols : List (String × InputColumn)

/-- what a batch makes `push_typed_cols` + `extend_to_largest` issue on column `name`. -/
def batchOps (name : String) (bt : Batch) : List Op :=
  match bt.cols.find? (fun x => decide (x.1 = name)) with
  | some (_, ic) => inputOps ic
  | none => [.nulls bt.rows]

def tableOps (name : String) (bts : List Batch) : List Op := bts.flatMap (batchOps name)

def totalRows (bts : List Batch) : Nat := (bts.map (·.rows)).sum

def pushBatches (cv : Conv) (b : Buffer) : List Batch → Except Fault Buffer
  | [] => .ok b
  | bt :: rest => do
      let b' ← b.pushTypedCols cv bt.cols
      pushBatches cv b' rest

/-- a batch as the ingestion API accepts it: at least one row, at least one column, column names distinct
    (they are keys of a `HashMap`), every column valid for the batch length. -/
structure BatchOk (bt : Batch) : Prop where
  rows : bt.rows > 0
  cols : bt.cols ≠ []
  nodup : (bt.cols.map (·.1)).Nodup
  input : ∀ p ∈ bt.cols, InputOk bt.rows p.2

theorem batchOps_flags (name : String) (bt : Batch) (h : BatchOk bt) :
    ((batchOps name bt).flatMap Op.flags).length = bt.rows := by
  unfold batchOps
  cases hf : bt.cols.find? (fun x => decide (x.1 = name)) with
  | none => simp [Op.flags]
  | some p => exact flags_inputOps bt.rows p.2 (h.input p (List.mem_of_find?_eq_some hf))

theorem batchOps_ok (name : String) (bt : Batch) (h : BatchOk bt) : ∀ op ∈ batchOps name bt, OpOk op := by
  unfold batchOps
  cases hf : bt.cols.find? (fun x => decide (x.1 = name)) with
  | none => intro op hop; simp at hop; subst hop; trivial
  | some p => exact opOk_inputOps bt.rows p.2 (h.input p (List.mem_of_find?_eq_some hf))

theorem tableOps_flags (name : String) (bts : List Batch) (h : ∀ bt ∈ bts, BatchOk bt) :
    ((tableOps name bts).flatMap Op.flags).length = totalRows bts := by
  induction bts with
  | nil => rfl
  | cons bt r ih =>
    simp only [tableOps, List.flatMap_cons, List.flatMap_append, List.length_append, totalRows, List.map_cons,
      List.sum_cons] at ih ⊢
    rw [batchOps_flags name bt (h bt List.mem_cons_self), ih (fun b hb => h b (List.mem_cons_of_mem _ hb))]

theorem tableOps_ok (name : String) (bts : List Batch) (h : ∀ bt ∈ bts, BatchOk bt) :
    ∀ op ∈ tableOps name bts, OpOk op := by
  intro op hop
  obtain ⟨bt, hbt, hop'⟩ := List.mem_flatMap.mp hop
  exact batchOps_ok name bt (h bt hbt) op hop'

/-- the state of the open buffer after the batches `bts`: every column — present in the map or not — is the
    column buffer obtained by applying the ops of `tableOps`. -/
structure TableInv (cv : Conv) (b : Buffer) (bts : List Batch) : Prop where
  len : b.length = totalRows bts
  col : ∀ name, ColBuf.applyAll cv {} (tableOps name bts) = .ok (b.get name)

theorem tableInv_nil (cv : Conv) : TableInv cv {} [] :=
  ⟨rfl, fun _ => by simp [tableOps, ColBuf.applyAll, Buffer.get]⟩

/-- length of a column buffer that is the result of valid ops. -/
theorem applyAll_length (cv : Conv) (ops : List Op) (cb : ColBuf) (h : ColBuf.applyAll cv {} ops = .ok cb) :
    cb.length = (ops.flatMap Op.flags).length := by
  have := (ColBuf.inv_applyAll cv ColBuf.inv_default ops h).len
  simpa using this

theorem go_spec (cv : Conv) (hcv : ConvOk cv) (b : Buffer) (r : Nat) (hr : r > 0)
    (hcolOk : ∀ (n : String) (ic : InputColumn), InputOk r ic →
      ∃ cb', (b.get n).applyAll cv (inputOps ic) = .ok cb' ∧ cb'.length = b.length + r)
    (rest : List (String × InputColumn)) (hnd : (rest.map (·.1)).Nodup)
    (hin : ∀ p ∈ rest, InputOk r p.2)
    (cur : Buffer) (nl : Nat) (hlen : cur.length = b.length) (hnl : nl = 0 ∨ nl = b.length + r)
    (hsame : ∀ p ∈ rest, cur.get p.1 = b.get p.1) :
    ∃ fin nl', Buffer.pushTypedCols.go cv cur nl rest = .ok (fin, nl') ∧ fin.length = b.length ∧
      (nl' = if rest = [] then nl else b.length + r) ∧
      ∀ m, match rest.find? (fun x => decide (x.1 = m)) with
        | some p => (b.get m).applyAll cv (inputOps p.2) = .ok (fin.get m)
        | none => fin.get m = cur.get m := by
  induction rest generalizing cur nl with
  | nil => exact ⟨cur, nl, rfl, hlen, rfl, fun m => rfl⟩
  | cons p rest ih =>
    obtain ⟨n, ic⟩ := p
    have hic := hin (n, ic) List.mem_cons_self
    obtain ⟨cb', hcb, hcbl⟩ := hcolOk n ic hic
    have hget : cur.get n = b.get n := hsame (n, ic) List.mem_cons_self
    have hpush : pushInput cv (cur.get n) ic = .ok cb' := by
      rw [pushInput_eq cv _ r ic hic, hget]; exact hcb
    have hnd2 : (n :: rest.map (·.1)).Nodup := by simpa using hnd
    have hnd' : (rest.map (·.1)).Nodup := (List.nodup_cons.mp hnd2).2
    have hnotin : ∀ q ∈ rest, q.1 ≠ n := by
      intro q hq hqn
      have : n ∈ rest.map (·.1) := hqn ▸ List.mem_map.mpr ⟨q, hq, rfl⟩
      exact (List.nodup_cons.mp hnd2).1 this
    obtain ⟨fin, nl', h1, h2, h3, h4⟩ := ih hnd' (fun q hq => hin q (List.mem_cons_of_mem _ hq))
      (cur.set n cb') (max nl cb'.length) (by rw [Buffer.length_set, hlen])
      (Or.inr (by rcases hnl with h | h <;> rw [h, hcbl] <;> omega))
      (fun q hq => by
        rw [Buffer.get_set, if_neg (hnotin q hq)]; exact hsame q (List.mem_cons_of_mem _ hq))
    refine ⟨fin, nl', ?_, h2, ?_, ?_⟩
    · have c1 : cb'.length > cur.length := by rw [hcbl, hlen]; omega
      have c2 : nl = 0 ∨ nl = cb'.length := by
        rcases hnl with h | h
        · exact Or.inl h
        · exact Or.inr (by rw [h, hcbl])
      simp only [Buffer.pushTypedCols.go, hpush, bind_ok, c1, not_true_eq_false, if_false, c2]
      exact h1
    · simp only [List.cons_ne_nil, if_false]
      rw [h3]; split
      · rcases hnl with h | h <;> rw [h, hcbl] <;> omega
      · rfl
    · intro m
      simp only [List.find?_cons]
      by_cases hm : n = m
      · subst hm
        simp only [decide_true]
        have := h4 n
        have hnone : rest.find? (fun x => decide (x.1 = n)) = none := by
          rw [List.find?_eq_none]; intro q hq; simpa using hnotin q hq
        rw [hnone] at this
        simp only at this
        rw [this, Buffer.get_set, if_pos rfl]; exact hcb
      · simp only [hm, decide_false]
        have := h4 m
        cases hf : rest.find? (fun x => decide (x.1 = m)) with
        | some q => rw [hf] at this; exact this
        | none =>
          rw [hf] at this
          simp only at this ⊢
          rw [this, Buffer.get_set, if_neg (fun h => hm h.symm)]

/-- valid ops never make a push fail. -/
theorem applyAll_ok (cv : Conv) (hcv : ConvOk cv) (ops : List Op) (h : ∀ op ∈ ops, OpOk op) :
    ∃ cb, ColBuf.applyAll cv {} ops = .ok cb ∧
      Rel cv cb (ops.foldl (specStep cv) (.none, [])).1 (ops.foldl (specStep cv) (.none, [])).2 :=
  rel_applyAll cv hcv (rel_default cv) ops h

theorem totalRows_append (a : List Batch) (bt : Batch) : totalRows (a ++ [bt]) = totalRows a + bt.rows := by
  simp [totalRows]

theorem tableOps_append (name : String) (a : List Batch) (bt : Batch) :
    tableOps name (a ++ [bt]) = tableOps name a ++ batchOps name bt := by
  simp [tableOps]

/-- one `push_typed_cols` call. -/
theorem tableInv_step (cv : Conv) (hcv : ConvOk cv) {b : Buffer} {bts : List Batch} (h : TableInv cv b bts)
    (hbts : ∀ bt ∈ bts, BatchOk bt) (bt : Batch) (hbt : BatchOk bt) :
    ∃ b', b.pushTypedCols cv bt.cols = .ok b' ∧ TableInv cv b' (bts ++ [bt]) := by
  have hr := hbt.rows
  -- every column buffer of `b` has the table length
  have hcollen : ∀ name, (b.get name).length = b.length := by
    intro name
    rw [applyAll_length cv _ _ (h.col name), tableOps_flags name bts hbts, h.len]
  have hcolOk : ∀ (n : String) (ic : InputColumn), InputOk bt.rows ic →
      ∃ cb', (b.get n).applyAll cv (inputOps ic) = .ok cb' ∧ cb'.length = b.length + bt.rows := by
    intro n ic hic
    obtain ⟨cb', hcb, _⟩ := applyAll_ok cv hcv (tableOps n bts ++ inputOps ic)
      (mem_append_of (tableOps_ok n bts hbts) (opOk_inputOps bt.rows ic hic))
    have hlen := applyAll_length cv _ _ hcb
    rw [applyAll_append, h.col n, bind_ok] at hcb
    refine ⟨cb', hcb, ?_⟩
    rw [hlen, List.flatMap_append, List.length_append, tableOps_flags n bts hbts, flags_inputOps bt.rows ic hic, h.len]
  obtain ⟨fin, nl', hgo, hfl, hnl, hget⟩ := go_spec cv hcv b bt.rows hr hcolOk bt.cols hbt.nodup hbt.input
    b 0 rfl (Or.inl rfl) (fun _ _ => rfl)
  have hnl' : nl' = b.length + bt.rows := by rw [hnl, if_neg hbt.cols]
  refine ⟨({ fin with length := nl' } : Buffer).extendToLargest, ?_, ?_, ?_⟩
  · have : nl' > b.length := by omega
    simp only [Buffer.pushTypedCols, hgo, bind_ok, this, not_true_eq_false, if_false, pure_eq_ok]
  · simp only [Buffer.extendToLargest, totalRows_append, hnl', h.len]
  · intro name
    rw [tableOps_append, applyAll_append, h.col name, bind_ok,
      Buffer.get_extend fin nl' (by omega) name]
    have hg := hget name
    unfold batchOps
    cases hf : bt.cols.find? (fun x => decide (x.1 = name)) with
    | some p =>
      rw [hf] at hg
      simp only at hg ⊢
      obtain ⟨cb', hcb, hcbl⟩ := hcolOk name p.2 (hbt.input p (List.mem_of_find?_eq_some hf))
      rw [hg] at hcb
      cases hcb
      rw [hg, if_neg (by omega)]
    | none =>
      rw [hf] at hg
      simp only at hg ⊢
      rw [hg, hcollen name, if_pos (by omega)]
      simp only [ColBuf.applyAll, apply_nulls, bind_ok]
      congr 2
      omega

theorem pushBatches_spec (cv : Conv) (hcv : ConvOk cv) (rest : List Batch) (hrest : ∀ bt ∈ rest, BatchOk bt)
    {b : Buffer} {done : List Batch} (h : TableInv cv b done) (hdone : ∀ bt ∈ done, BatchOk bt) :
    ∃ b', pushBatches cv b rest = .ok b' ∧ TableInv cv b' (done ++ rest) := by
  induction rest generalizing b done with
  | nil => exact ⟨b, rfl, by simpa using h⟩
  | cons bt rest ih =>
    obtain ⟨b1, h1, hinv1⟩ := tableInv_step cv hcv h hdone bt (hrest bt List.mem_cons_self)
    obtain ⟨b', h2, hinv2⟩ := ih (fun x hx => hrest x (List.mem_cons_of_mem _ hx)) hinv1
      (mem_append_of hdone (by intro x hx; simp at hx; subst hx; exact hrest _ List.mem_cons_self))
    exact ⟨b', by simp only [pushBatches, h1, bind_ok, h2], by simpa using hinv2⟩

theorem totalRows_pos (bts : List Batch) (hne : bts ≠ []) (h : ∀ bt ∈ bts, BatchOk bt) : totalRows bts > 0 := by
  cases bts with
  | nil => exact absurd rfl hne
  | cons bt r =>
    have := (h bt List.mem_cons_self).rows
    simp only [totalRows, List.map_cons, List.sum_cons]; omega

/-- what a plain SELECT reads from every column of the table buffer. -/
theorem tableInv_columnCells (cv : Conv) (hcv : ConvOk cv) (cp : Compressor) (hcp : CompOk cp) (use : Bool)
    {b : Buffer} {bts : List Batch} (h : TableInv cv b bts) (hbts : ∀ bt ∈ bts, BatchOk bt) (hne : bts ≠ [])
    (name : String) :
    b.columnCells cv cp use name = .ok (specColumn cv (tableOps name bts)) ∧
      (specColumn cv (tableOps name bts)).length = totalRows bts := by
  obtain ⟨cb0, hcb0, hrel⟩ := applyAll_ok cv hcv (tableOps name bts) (tableOps_ok name bts hbts)
  rw [h.col name] at hcb0
  cases hcb0
  have hcl : (specColumn cv (tableOps name bts)).length = totalRows bts := by
    have h1 : (b.get name).length = (specColumn cv (tableOps name bts)).length := by
      simpa [flagsOf, specColumn] using hrel.inv.len
    rw [← h1, applyAll_length cv _ _ (h.col name), tableOps_flags name bts hbts]
  have hpos := totalRows_pos bts hne hbts
  have hcne : specColumn cv (tableOps name bts) ≠ [] := by
    intro hnil; rw [hnil] at hcl; simp at hcl; omega
  refine ⟨?_, hcl⟩
  unfold Buffer.columnCells
  cases hf : b.cols.find? (fun x => decide (x.1 = name)) with
  | none =>
    have hg : b.get name = { buffer := .empty, length := b.length, present := none } := by
      simp [Buffer.get, hf]
    have hall := cells_all_null _ ((hrel.inv.empty (by rw [hg])).2)
    simp only
    rw [h.len, ← hcl]
    exact congrArg Except.ok hall.symm
  | some p =>
    have hg : b.get name = p.2 := by simp [Buffer.get, hf]
    rw [hg] at hrel
    obtain ⟨col, hfin, hlen, hdec⟩ := rel_finalize cv hcv cp hcp use hrel hcne
    have hplen : p.2.length = (specColumn cv (tableOps name bts)).length := by
      simpa [flagsOf, specColumn] using hrel.inv.len
    have hlen' : col.len = p.2.length := by rw [hlen, hplen]; rfl
    simp only [hfin, bind_ok, hlen', ne_eq, not_true_eq_false, if_false]
    exact hdec

/-! ### `InputColumn::from_column_data`: the ops issued supply exactly the cells of the representation -/

theorem specStep_nulls0 (cv : Conv) (s : SpecTy × List Cell) : specStep cv s (.nulls 0) = s := by
  obtain ⟨st, cells⟩ := s; simp [specStep]

theorem specStep_floats_cons (cv : Conv) (s : SpecTy × List Cell) (v : Nat) (d : List Nat) :
    specStep cv (specStep cv s (.floats [v])) (.floats d) = specStep cv s (.floats (v :: d)) := by
  obtain ⟨st, cells⟩ := s; cases st <;> simp [specStep]

theorem specStep_ints_cons (cv : Conv) (s : SpecTy × List Cell) (v : Int) (d : List Int) :
    specStep cv (specStep cv s (.ints [v])) (.ints d) = specStep cv s (.ints (v :: d)) := by
  obtain ⟨st, cells⟩ := s; cases st <;> simp [specStep]

theorem sparseOk_enumFrom {α : Type} (c k : Nat) (d : List α) (h : k + d.length ≤ c) :
    SparseOk c k (enumFrom k d) := by
  induction d generalizing k with
  | nil => exact h
  | cons v d ih => exact ⟨Nat.le_refl _, ih (k + 1) (by simp at h; omega)⟩

theorem mem_enumFrom {α : Type} (k : Nat) (d : List α) : ∀ p ∈ enumFrom k d, p.2 ∈ d := by
  induction d generalizing k with
  | nil => intro p hp; simp [enumFrom] at hp
  | cons v d ih =>
    intro p hp
    simp only [enumFrom, List.mem_cons] at hp
    rcases hp with h | h
    · subst h; exact List.mem_cons_self
    · exact List.mem_cons_of_mem _ (ih (k + 1) p h)

theorem spec_enum_floats (cv : Conv) (c k : Nat) (d : List Nat) (s : SpecTy × List Cell) :
    (sparseIssued RawVal.float c k (enumFrom k d)).foldl (specStep cv) s =
      ((if d.isEmpty then [] else [Op.floats d]) ++ [Op.nulls (c - (k + d.length))]).foldl (specStep cv) s := by
  induction d generalizing k s with
  | nil => simp [sparseIssued, enumFrom]
  | cons v d ih =>
    simp only [enumFrom, sparseIssued, List.foldl_cons, Nat.sub_self, specStep_nulls0, valOp, ih]
    have ha : k + 1 + d.length = k + (v :: d).length := by simp; omega
    rw [ha]
    cases d with
    | nil => simp
    | cons w d => simp [specStep_floats_cons]

theorem spec_enum_ints (cv : Conv) (c k : Nat) (d : List Int) (s : SpecTy × List Cell) :
    (sparseIssued RawVal.int c k (enumFrom k d)).foldl (specStep cv) s =
      ((if d.isEmpty then [] else [Op.ints d]) ++ [Op.nulls (c - (k + d.length))]).foldl (specStep cv) s := by
  induction d generalizing k s with
  | nil => simp [sparseIssued, enumFrom]
  | cons v d ih =>
    simp only [enumFrom, sparseIssued, List.foldl_cons, Nat.sub_self, specStep_nulls0, valOp, ih]
    have ha : k + 1 + d.length = k + (v :: d).length := by simp; omega
    rw [ha]
    cases d with
    | nil => simp
    | cons w d => simp [specStep_ints_cons]

theorem sparseOps_eq_float (c k : Nat) (d : List (Nat × Nat)) :
    repOps.sparseOps (fun f => Op.floats [f]) c k d = sparseIssued RawVal.float c k d := by
  induction d generalizing k with
  | nil => rfl
  | cons p r ih => obtain ⟨i, v⟩ := p; simp [repOps.sparseOps, sparseIssued, valOp, ih]

theorem sparseOps_eq_int (c k : Nat) (d : List (Nat × Int)) :
    repOps.sparseOps (fun f => Op.ints [f]) c k d = sparseIssued RawVal.int c k d := by
  induction d generalizing k with
  | nil => rfl
  | cons p r ih => obtain ⟨i, v⟩ := p; simp [repOps.sparseOps, sparseIssued, valOp, ih]

/-- validity of a wire representation for a batch of `rows` rows, with the value domain. -/
def RepOk (rows : Nat) : Rep → Prop
  | .empty => True
  | .dense d => d.length ≤ rows
  | .sparse d => SparseOk rows 0 d
  | .i64 d => d.length ≤ rows ∧ ∀ x ∈ d, inI64 x
  | .sparseI64 d => SparseOk rows 0 d ∧ ∀ p ∈ d, inI64 p.2
  | .str d => d.length = rows ∧ ∀ s ∈ d, s.length < 2 ^ 24
  | .mixed d => d.length = rows ∧ ∀ v ∈ d, RawOk v

theorem fromColumnData_spec (cv : Conv) (rows : Nat) (hrows : rows > 0) (rep : Rep) (h : RepOk rows rep) :
    ∃ ic, fromColumnData rep rows = .ok ic ∧ InputOk rows ic ∧
      ∀ s, (inputOps ic).foldl (specStep cv) s = (repOps rows (some rep)).foldl (specStep cv) s := by
  cases rep with
  | empty => exact ⟨.null rows, rfl, rfl, fun _ => rfl⟩
  | dense d =>
    have hd : d.length ≤ rows := h
    by_cases hlt : d.length < rows
    · refine ⟨.nullableFloat rows (enumFrom 0 d), by simp [fromColumnData, hlt],
        ⟨rfl, sparseOk_enumFrom rows 0 d (by omega)⟩, fun s => ?_⟩
      have htake : d.take rows = d := List.take_of_length_le hd
      simp only [inputOps, repOps, htake, spec_enum_floats, Nat.zero_add]
    · have heq : d.length = rows := by omega
      have hne : d.isEmpty = false := by cases d <;> simp_all
      refine ⟨.float d, by simp [fromColumnData, hlt], heq, fun s => ?_⟩
      have htake : d.take rows = d := List.take_of_length_le hd
      simp [inputOps, repOps, htake, hne, heq, specStep_nulls0]
  | sparse d =>
    exact ⟨.nullableFloat rows d, rfl, ⟨rfl, h⟩, fun s => by simp [inputOps, repOps, sparseOps_eq_float]⟩
  | i64 d =>
    obtain ⟨hd, hv⟩ : d.length ≤ rows ∧ ∀ x ∈ d, inI64 x := h
    by_cases hlt : d.length < rows
    · refine ⟨.nullableInt rows (enumFrom 0 d), by simp [fromColumnData, hlt],
        ⟨rfl, sparseOk_enumFrom rows 0 d (by omega), fun p hp => hv _ (mem_enumFrom 0 d p hp)⟩, fun s => ?_⟩
      have htake : d.take rows = d := List.take_of_length_le hd
      simp only [inputOps, repOps, htake, spec_enum_ints, Nat.zero_add]
    · have heq : d.length = rows := by omega
      have hne : d.isEmpty = false := by cases d <;> simp_all
      refine ⟨.int d, by simp [fromColumnData, hlt], ⟨heq, hv⟩, fun s => ?_⟩
      have htake : d.take rows = d := List.take_of_length_le hd
      simp [inputOps, repOps, htake, hne, heq, specStep_nulls0]
  | sparseI64 d =>
    exact ⟨.nullableInt rows d, rfl, ⟨rfl, h.1, h.2⟩, fun s => by simp [inputOps, repOps, sparseOps_eq_int]⟩
  | str d =>
    obtain ⟨hl, hv⟩ : d.length = rows ∧ ∀ s ∈ d, s.length < 2 ^ 24 := h
    exact ⟨.str d, by simp [fromColumnData, hl], ⟨hl, hv⟩, fun _ => rfl⟩
  | mixed d =>
    obtain ⟨hl, hv⟩ : d.length = rows ∧ ∀ v ∈ d, RawOk v := h
    refine ⟨.mixed d, rfl, ⟨hl, hv⟩, fun s => ?_⟩
    simp only [inputOps, repOps]

end LM.Codec
