import LocustModel.Query.Combine
/-
  Helper lemmas for C02: exact merge of grouped partial aggregates (`mergeX`), streaming operators,
  `combine_results` scheduling.
-/
namespace LM.C02L
open LM LM.Combine LM.Merge

/-! ### `combineX` / `mergeX` -/

theorem combineX_none_left (op : Agg) (b : Option Int) : combineX op none b = b := by
  cases b <;> simp [combineX]

theorem combineX_none_right (op : Agg) (a : Option Int) : combineX op a none = a := by
  cases a <;> simp [combineX]

theorem combineX_assoc (op : Agg) (a b c : Option Int) :
    combineX op (combineX op a b) c = combineX op a (combineX op b c) := by
  cases a with
  | none => simp [combineX_none_left]
  | some x =>
    cases b with
    | none => simp [combineX_none_left, combineX_none_right]
    | some y =>
      cases c with
      | none => simp [combineX_none_right]
      | some z =>
        cases op <;> simp only [combineX, Option.some.injEq]
        · omega
        · omega
        · split <;> split <;> (try split) <;> (try split) <;> omega
        · split <;> split <;> (try split) <;> (try split) <;> omega

theorem combineX_comm (op : Agg) (a b : Option Int) : combineX op a b = combineX op b a := by
  cases a with
  | none => simp [combineX_none_left, combineX_none_right]
  | some x =>
    cases b with
    | none => simp [combineX_none_left, combineX_none_right]
    | some y =>
      cases op <;> simp only [combineX, Option.some.injEq]
      · omega
      · omega
      · split <;> split <;> omega
      · split <;> split <;> omega

theorem mergeX_nil_left (op : Agg) (r : List (Int × Option Int)) : mergeX op [] r = r := by
  simp [mergeX]

theorem mergeX_nil_right (op : Agg) (l : List (Int × Option Int)) : mergeX op l [] = l := by
  cases l <;> simp [mergeX]

theorem mergeX_lt (op : Agg) {k1 k2 : Int} (h : k1 < k2) (v1 v2 : Option Int) (l r : List (Int × Option Int)) :
    mergeX op ((k1, v1) :: l) ((k2, v2) :: r) = (k1, v1) :: mergeX op l ((k2, v2) :: r) := by
  simp [mergeX, h]

theorem mergeX_gt (op : Agg) {k1 k2 : Int} (h : k2 < k1) (v1 v2 : Option Int) (l r : List (Int × Option Int)) :
    mergeX op ((k1, v1) :: l) ((k2, v2) :: r) = (k2, v2) :: mergeX op ((k1, v1) :: l) r := by
  have : ¬ k1 < k2 := by omega
  simp [mergeX, h, this]

theorem mergeX_eq (op : Agg) {k1 k2 : Int} (h : k1 = k2) (v1 v2 : Option Int) (l r : List (Int × Option Int)) :
    mergeX op ((k1, v1) :: l) ((k2, v2) :: r) = (k1, combineX op v1 v2) :: mergeX op l r := by
  subst h
  simp [mergeX]

/-- The exact merge of grouped partial aggregates is associative — for all association lists. -/
theorem mergeX_assoc (op : Agg) (a b c : List (Int × Option Int)) :
    mergeX op (mergeX op a b) c = mergeX op a (mergeX op b c) := by
  induction a generalizing b c with
  | nil => simp [mergeX_nil_left]
  | cons x a iha =>
    induction b generalizing c with
    | nil => simp [mergeX_nil_left, mergeX_nil_right]
    | cons y b ihb =>
      induction c with
      | nil => simp [mergeX_nil_right]
      | cons z c ihc =>
        obtain ⟨k1, v1⟩ := x
        obtain ⟨k2, v2⟩ := y
        obtain ⟨k3, v3⟩ := z
        rcases Int.lt_trichotomy k1 k2 with h12 | h12 | h12
        · -- k1 < k2
          rcases Int.lt_trichotomy k1 k3 with h13 | h13 | h13
          · -- x first
            rw [mergeX_lt op h12, mergeX_lt op h13, iha]
            rcases Int.lt_trichotomy k2 k3 with h23 | h23 | h23
            · rw [mergeX_lt op h23, mergeX_lt op h12]
            · rw [mergeX_eq op h23, mergeX_lt op h12]
            · rw [mergeX_gt op h23, mergeX_lt op h13]
          · -- k1 = k3 < k2
            have h32 : k3 < k2 := by omega
            rw [mergeX_lt op h12, mergeX_eq op h13, mergeX_gt op h32, mergeX_eq op h13, iha]
          · -- k3 < k1 < k2
            have h32 : k3 < k2 := by omega
            have e : mergeX op (mergeX op ((k1, v1) :: a) ((k2, v2) :: b)) ((k3, v3) :: c)
                = (k3, v3) :: mergeX op (mergeX op ((k1, v1) :: a) ((k2, v2) :: b)) c := by
              conv => lhs; rw [mergeX_lt op h12, mergeX_gt op h13]
              rw [mergeX_lt op h12]
            rw [e, mergeX_gt op h32, mergeX_gt op h13, ihc]
        · -- k1 = k2
          rcases Int.lt_trichotomy k1 k3 with h13 | h13 | h13
          · have h23 : k2 < k3 := by omega
            rw [mergeX_eq op h12, mergeX_lt op h13, mergeX_lt op h23, mergeX_eq op h12, iha]
          · have h23 : k2 = k3 := by omega
            rw [mergeX_eq op h12, mergeX_eq op h13, mergeX_eq op h23, mergeX_eq op h12, iha, combineX_assoc]
          · have h32 : k3 < k2 := by omega
            have e : mergeX op (mergeX op ((k1, v1) :: a) ((k2, v2) :: b)) ((k3, v3) :: c)
                = (k3, v3) :: mergeX op (mergeX op ((k1, v1) :: a) ((k2, v2) :: b)) c := by
              conv => lhs; rw [mergeX_eq op h12, mergeX_gt op h13]
              rw [mergeX_eq op h12]
            rw [e, mergeX_gt op h32, mergeX_gt op h13, ihc]
        · -- k2 < k1
          rcases Int.lt_trichotomy k2 k3 with h23 | h23 | h23
          · rw [mergeX_gt op h12, mergeX_lt op h23, mergeX_lt op h23, mergeX_gt op h12, ihb]
          · rw [mergeX_gt op h12, mergeX_eq op h23, mergeX_eq op h23, mergeX_gt op h12, ihb]
          · have h31 : k3 < k1 := by omega
            have e : mergeX op (mergeX op ((k1, v1) :: a) ((k2, v2) :: b)) ((k3, v3) :: c)
                = (k3, v3) :: mergeX op (mergeX op ((k1, v1) :: a) ((k2, v2) :: b)) c := by
              conv => lhs; rw [mergeX_gt op h12, mergeX_gt op h23]
              rw [mergeX_gt op h12]
            rw [e, mergeX_gt op h23, mergeX_gt op h31, ihc]

theorem groupX_append (op : Agg) (a b : List (Int × Option Int)) :
    groupX op (a ++ b) = mergeX op (groupX op a) (groupX op b) := by
  induction a with
  | nil => simp [groupX, mergeX_nil_left]
  | cons x a ih => simp [groupX, ih, mergeX_assoc]

/-- Evaluating any bracketing of exact partial results gives the right-nested merge of the leaves. -/
def mergeXList (op : Agg) : List (List (Int × Option Int)) → List (Int × Option Int)
  | [] => []
  | l :: ls => mergeX op l (mergeXList op ls)

theorem mergeXList_append (op : Agg) (xs ys : List (List (Int × Option Int))) :
    mergeXList op (xs ++ ys) = mergeX op (mergeXList op xs) (mergeXList op ys) := by
  induction xs with
  | nil => simp [mergeXList, mergeX_nil_left]
  | cons x xs ih => simp [mergeXList, ih, mergeX_assoc]

theorem evalX (op : Agg) (t : Tree (List (Int × Option Int))) :
    t.eval (mergeX op) = mergeXList op t.leaves := by
  induction t with
  | leaf a => simp [Tree.eval, Tree.leaves, mergeXList, mergeX_nil_right]
  | node l r ihl ihr => simp [Tree.eval, Tree.leaves, mergeXList_append, ihl, ihr]

theorem mergeXList_group (op : Agg) (parts : List (List (Int × Option Int))) :
    mergeXList op (parts.map (groupX op)) = groupX op parts.flatten := by
  induction parts with
  | nil => simp [mergeXList, groupX]
  | cons p ps ih => simp [mergeXList, ih, groupX_append]

/-! ### streaming operators -/

theorem runChunks_flatten {σ α β : Type} (op : StreamOp σ α β) (h : op.Lawful) (s : σ) (chunks : List (List α)) :
    op.runChunks s chunks = op.step s chunks.flatten := by
  induction chunks generalizing s with
  | nil => simp [StreamOp.runChunks, h.1]
  | cons c cs ih =>
    simp only [StreamOp.runChunks, List.flatten_cons]
    rw [ih, h.2 s c cs.flatten]

theorem chunksOf_flatten {α : Type} (n : Nat) (l : List α) : (chunksOf n l).flatten = l := by
  fun_induction chunksOf n l <;> simp_all

theorem enumFrom_append {α : Type} (i : Nat) (a b : List α) :
    enumFrom i (a ++ b) = enumFrom i a ++ enumFrom (i + a.length) b := by
  induction a generalizing i with
  | nil => simp [enumFrom]
  | cons x a ih =>
    simp only [List.cons_append, enumFrom, ih, List.length_cons]
    have : i + 1 + a.length = i + (a.length + 1) := by omega
    rw [this]

theorem enumFrom_shift {α : Type} (i k : Nat) (l : List α) :
    enumFrom (i + k) l = (enumFrom i l).map (fun p => (p.1 + k, p.2)) := by
  induction l generalizing i with
  | nil => simp [enumFrom]
  | cons x l ih =>
    simp only [enumFrom, List.map_cons]
    congr 1
    have : i + k + 1 = (i + 1) + k := by omega
    rw [this, ih]


theorem mapOp_lawful {α β : Type} (f : α → β) : (mapOp f).Lawful := by
  constructor <;> intros <;> simp [mapOp]

theorem filterOp_lawful {α : Type} : (filterOp (α := α)).Lawful := by
  constructor <;> intros <;> simp [filterOp]

theorem nonzeroIndicesOp_lawful : nonzeroIndicesOp.Lawful := by
  constructor
  · intro s; simp [nonzeroIndicesOp, enumFrom]
  · intro s a b
    simp only [nonzeroIndicesOp]
    refine Prod.ext ?_ ?_
    · simp only [List.length_append]; omega
    · simp only
      rw [enumFrom_append, List.filter_append, List.map_append]
      congr 1
      have := enumFrom_shift 0 a.length b
      rw [this, List.filter_map, List.map_map]
      apply List.map_congr_left
      intro p _
      simp only [Function.comp]
      omega

theorem accumulateOp_lawful (acc : Int → Int → Int) : (accumulateOp acc).Lawful := by
  constructor <;> intros <;> simp [accumulateOp, List.foldl_append]

theorem topNOp_lawful (n : Nat) (beats : Int → Int → Bool)
    (sortFull : List Int × List Nat → List Int × List Nat)
    (heapReplace : List Int × List Nat → Int → Nat → List Int × List Nat) :
    (topNOp n beats sortFull heapReplace).Lawful := by
  constructor <;> intros <;> simp [topNOp, List.foldl_append]

/-! ### `combine_results` -/

/-- The entry stands for the evaluation of some bracketing of the contiguous run `lo .. hi-1` of partition results. -/
def SegOk {α : Type} (f : α → α → α) (parts : List α) (s : Seg α) : Prop :=
  s.lo ≤ s.hi ∧ s.hi ≤ parts.length ∧
    ∃ t : Tree α, t.leaves = (parts.drop s.lo).take (s.hi - s.lo) ∧ s.val = t.eval f

theorem take_drop_split {α : Type} (l : List α) (lo mid hi : Nat) (h1 : lo ≤ mid) (h2 : mid ≤ hi) :
    (l.drop lo).take (hi - lo) = (l.drop lo).take (mid - lo) ++ (l.drop mid).take (hi - mid) := by
  have e : hi - lo = (mid - lo) + (hi - mid) := by omega
  rw [e, List.take_add, List.drop_drop]
  have : lo + (mid - lo) = mid := by omega
  rw [this]

theorem mergeFirst_ok {α : Type} (f : α → α → α) (parts : List α) (sl : Bool) (s s' : List (Seg α))
    (h : ∀ x ∈ s, SegOk f parts x) (hm : mergeFirst f sl s = some s') : ∀ x ∈ s', SegOk f parts x := by
  induction s generalizing s' with
  | nil => simp [mergeFirst] at hm
  | cons a rest ih =>
    cases rest with
    | nil => simp [mergeFirst] at hm
    | cons b rest =>
      simp only [mergeFirst] at hm
      split at hm
      · rename_i hc
        simp only [Option.some.injEq] at hm
        subst hm
        have hadj : a.hi = b.lo := by
          simp only [Bool.and_eq_true, decide_eq_true_eq] at hc
          exact hc.2
        intro x hx
        rcases List.mem_cons.mp hx with hx | hx
        · subst hx
          obtain ⟨ha1, ha2, ta, hta, hva⟩ := h a (by simp)
          obtain ⟨hb1, hb2, tb, htb, hvb⟩ := h b (by simp)
          refine ⟨by simp only; omega, by simpa using hb2, Tree.node ta tb, ?_, ?_⟩
          · simp only [Tree.leaves, hta, htb]
            rw [← hadj]
            exact (take_drop_split parts a.lo a.hi b.hi ha1 (by omega)).symm
          · simp only [Tree.eval, hva, hvb]
        · exact h x (by simp [hx])
      · cases hr : mergeFirst f sl (b :: rest) with
        | none => simp [hr] at hm
        | some r =>
          simp only [hr, Option.map_some, Option.some.injEq] at hm
          subst hm
          intro x hx
          rcases List.mem_cons.mp hx with hx | hx
          · subst hx; exact h _ (by simp)
          · exact ih r (fun y hy => h y (List.mem_cons_of_mem a hy)) hr x hx

theorem combineResults_ok {α : Type} (f : α → α → α) (parts : List α) (req : Bool) (fuel : Nat) (s : List (Seg α))
    (h : ∀ x ∈ s, SegOk f parts x) : ∀ x ∈ combineResults f req fuel s, SegOk f parts x := by
  induction fuel generalizing s with
  | zero => simpa [combineResults] using h
  | succ n ih =>
    simp only [combineResults]
    cases h1 : mergeFirst f true s with
    | some s' => exact ih s' (mergeFirst_ok f parts true s s' h h1)
    | none =>
      simp only
      split
      · exact h
      · cases h2 : mergeFirst f false s with
        | some s' => exact ih s' (mergeFirst_ok f parts false s s' h h2)
        | none => exact h

theorem mem_insertSeg {α : Type} (x y : Seg α) (s : List (Seg α)) :
    y ∈ insertSeg x s → y = x ∨ y ∈ s := by
  induction s with
  | nil => simp [insertSeg]
  | cons z zs ih =>
    simp only [insertSeg]
    split
    · intro h; simpa using h
    · intro h
      rcases List.mem_cons.mp h with h | h
      · exact Or.inr (by simp [h])
      · rcases ih h with h | h
        · exact Or.inl h
        · exact Or.inr (List.mem_cons_of_mem z h)

theorem leaf_ok {α : Type} (f : α → α → α) (parts : List α) (i : Nat) (v : α) (h : parts[i]? = some v) :
    SegOk f parts ⟨i, i + 1, 0, v⟩ := by
  have hi : i < parts.length := by
    rcases Nat.lt_or_ge i parts.length with h1 | h1
    · exact h1
    · rw [List.getElem?_eq_none h1] at h; simp at h
  refine ⟨by simp, by simp only; omega, Tree.leaf v, ?_, rfl⟩
  have : i + 1 - i = 1 := by omega
  simp only [Tree.leaves, this]
  rw [List.getElem?_eq_getElem hi] at h
  simp only [Option.some.injEq] at h
  rw [← h]
  simp [List.take_one, List.head?_drop, List.getElem?_eq_getElem hi]

theorem worker_ok {α : Type} (f : α → α → α) (parts : List α) (is : List Nat) (s : List (Seg α))
    (h : ∀ x ∈ s, SegOk f parts x) : ∀ x ∈ worker f parts is s, SegOk f parts x := by
  induction is generalizing s with
  | nil => simpa [worker] using h
  | cons i is ih =>
    simp only [worker]
    cases hv : parts[i]? with
    | none => exact ih s h
    | some v =>
      simp only
      apply ih
      apply combineResults_ok
      intro x hx
      rcases mem_insertSeg _ _ _ hx with hx | hx
      · subst hx; exact leaf_ok f parts i v hv
      · exact h x hx

theorem foldl_insertSeg_ok {α : Type} (f : α → α → α) (parts : List α) (xs acc : List (Seg α))
    (hx : ∀ x ∈ xs, SegOk f parts x) (ha : ∀ x ∈ acc, SegOk f parts x) :
    ∀ x ∈ xs.foldl (fun acc x => insertSeg x acc) acc, SegOk f parts x := by
  induction xs generalizing acc with
  | nil => simpa using ha
  | cons y ys ih =>
    simp only [List.foldl_cons]
    apply ih (insertSeg y acc) (fun x h => hx x (List.mem_cons_of_mem y h))
    intro x h
    rcases mem_insertSeg _ _ _ h with h | h
    · subst h; exact hx _ (by simp)
    · exact ha x h

theorem schedule_ok {α : Type} (f : α → α → α) (parts : List α) (assignment : List (List Nat)) :
    ∀ x ∈ schedule f parts assignment, SegOk f parts x := by
  unfold schedule finish
  apply combineResults_ok
  apply foldl_insertSeg_ok
  · intro x hx
    simp only [List.mem_flatten, List.mem_map] at hx
    obtain ⟨l, ⟨is, _, rfl⟩, hx⟩ := hx
    exact worker_ok f parts is [] (by simp) x hx
  · simp

end LM.C02L
