import LocustModel.Lemmas.C09Steps
/-
  C09 helper lemmas, part 5: induction over histories with crashes (`Reach`); directory listings exist.
-/
namespace LM.Crash

theorem Op.plan_ingest {m : Mem} {r : Req} {phs : List Phase} {m' : Mem} {new : List Req}
    (h : (Op.ingest r).plan m = some (phs, m', new)) : phs = (ingestPlan m r).1 ∧ m' = (ingestPlan m r).2 ∧ new = [r] := by
  simp only [Op.plan, Option.some.injEq, Prod.mk.injEq] at h
  exact ⟨h.1.symm, h.2.1.symm, h.2.2.symm⟩

theorem Op.plan_flush {m : Mem} {comp : List (Tbl × List Nat)} {phs : List Phase} {m' : Mem} {new : List Req}
    (h : (Op.flush comp).plan m = some (phs, m', new)) : flushPlan m comp = some (phs, m') ∧ new = [] := by
  simp only [Op.plan, Option.map_eq_some_iff, Prod.mk.injEq] at h
  obtain ⟨⟨a, b⟩, hx, rfl, rfl, rfl⟩ := h
  exact ⟨hx, rfl⟩

/-- One operation from a durable state: where every prefix of its trace leaves the disk. -/
theorem Dur.op {fs : FS} {log : List Req} {m : Mem} (h : Dur fs log m) {op : Op} {phs : List Phase} {m' : Mem}
    {new : List Req} (hp : op.plan m = some (phs, m', new)) {tr : List Eff} (htr : PhasesTrace phs tr) :
    (∀ pre, pre <+: tr → ∃ md, Dur (applyEffs fs pre) (log ++ op.survivors m pre) md ∧ (md = m ∨ md = m') ∧
        (op.survivors m pre = [] ∨ op.survivors m pre = new)) ∧
    Dur (applyEffs fs tr) (log ++ new) m' := by
  cases op with
  | ingest r =>
      obtain ⟨rfl, rfl, rfl⟩ := Op.plan_ingest hp
      have htr' := ingest_trace htr
      subst htr'
      refine ⟨?_, ?_⟩
      · intro pre hpre
        rcases h.wal_phase r hpre with ⟨hn, hd⟩ | ⟨_, hy, hd⟩
        · exact ⟨m, by simpa [Op.survivors, hn] using hd, Or.inl rfl, Or.inl (by simp [Op.survivors, hn])⟩
        · exact ⟨_, by simpa [Op.survivors, hy, Op.inflight] using hd, Or.inr rfl, Or.inr (by simp [Op.survivors, hy, Op.inflight])⟩
      · rcases h.wal_phase r (List.prefix_refl _) with ⟨hn, _⟩ | ⟨_, _, hd⟩
        · exact absurd (by simp [storeEffs]) hn
        · exact hd
  | flush comp =>
      obtain ⟨hf, rfl⟩ := Op.plan_flush hp
      obtain ⟨hpre, hfull⟩ := h.flush hf htr
      refine ⟨?_, by simpa using hfull⟩
      intro pre hp
      have hs : (Op.flush comp).survivors m pre = [] := by simp [Op.survivors, Op.inflight]
      rw [hs]
      rcases hpre pre hp with hd | hd
      · exact ⟨m, by simpa using hd, Or.inl rfl, Or.inl rfl⟩
      · exact ⟨m', by simpa using hd, Or.inr rfl, Or.inl rfl⟩

/-- **The invariant**, together with any property `Inv` of the memory that the empty database has and every planned
    operation keeps: every reachable world — process up or down, after any number of crashes at any effect prefix — durably
    holds a state with `Inv` whose content is the log; while the process is up, that state is its memory. -/
theorem Reach.dur_inv {Inv : Mem → Prop} (h0 : Inv Mem.fresh)
    (hstep : ∀ (m : Mem) (op : Op) (phs : List Phase) (m' : Mem) (new : List Req), Inv m → op.plan m = some (phs, m', new) → Inv m')
    {w : World} (h : Reach w) : ∃ m, Dur w.fs w.log m ∧ Inv m ∧ ∀ m', w.mem = some m' → m' = m := by
  induction h with
  | init => exact ⟨Mem.fresh, Dur.init, h0, fun _ h => by cases h⟩
  | @opened fs log ls m dels tr _ hls hr htr ih =>
      obtain ⟨m0, hd, hi, _⟩ := ih
      obtain ⟨dels0, hr0, hsafe, _⟩ := hd.recover hls
      rw [hr0] at hr
      simp only [Except.ok.injEq, Prod.mk.injEq] at hr
      obtain ⟨rfl, rfl⟩ := hr
      exact ⟨m0, hd.pool (hd.recover_safe hsafe) htr (List.prefix_refl tr), hi, fun _ h => by cases h; rfl⟩
  | @openCrash fs log ls m dels tr pre _ hls hr htr hpre ih =>
      obtain ⟨m0, hd, hi, _⟩ := ih
      obtain ⟨dels0, hr0, hsafe, _⟩ := hd.recover hls
      rw [hr0] at hr
      simp only [Except.ok.injEq, Prod.mk.injEq] at hr
      obtain ⟨rfl, rfl⟩ := hr
      exact ⟨m0, hd.pool (hd.recover_safe hsafe) htr hpre, hi, fun _ h => by cases h⟩
  | @done fs m log op phs m' new tr _ hp htr ih =>
      obtain ⟨m0, hd, hi, hm⟩ := ih
      have := hm m rfl
      subst this
      exact ⟨m', (hd.op hp htr).2, hstep _ _ _ _ _ hi hp, fun _ h => by cases h; rfl⟩
  | @crash fs m log op phs m' new tr pre _ hp htr hpre ih =>
      obtain ⟨m0, hd, hi, hm⟩ := ih
      have := hm m rfl
      subst this
      obtain ⟨md, hd', hmd, _⟩ := (hd.op hp htr).1 pre hpre
      refine ⟨md, hd', ?_, fun _ h => by cases h⟩
      rcases hmd with rfl | rfl
      · exact hi
      · exact hstep _ _ _ _ _ hi hp
  | @stop fs m log _ ih =>
      obtain ⟨m0, hd, hi, _⟩ := ih
      exact ⟨m0, hd, hi, fun _ h => by cases h⟩

theorem Reach.dur {w : World} (h : Reach w) : ∃ m, Dur w.fs w.log m ∧ ∀ m', w.mem = some m' → m' = m := by
  obtain ⟨m, hd, _, hm⟩ := Reach.dur_inv (Inv := fun _ => True) trivial (fun _ _ _ _ _ _ _ => trivial) h
  exact ⟨m, hd, hm⟩

/-! ### recovering again -/

/-- A trace of deletions never creates a file, and leaves none of the files whose `remove` it contains. -/
theorem removals_mono : ∀ (es : List Eff) (fs : FS), (∀ e ∈ es, ∃ p, e = .rmBegin p ∨ e = .remove p) →
    ∀ q, applyEffs fs es q ≠ none → fs q ≠ none
  | [], _, _, _, hq => hq
  | e :: es, fs, hes, q, hq => by
      have h1 := removals_mono es (applyEff fs e) (fun e' he' => hes e' (by simp [he'])) q hq
      obtain ⟨p, he⟩ := hes e (by simp)
      rcases he with rfl | rfl
      · exact h1
      · intro hq'; apply h1; simp only [applyEff, FS.set]; split <;> simp [hq']

theorem removals_gone : ∀ (es : List Eff) (fs : FS) (q : Path), (∀ e ∈ es, ∃ p, e = .rmBegin p ∨ e = .remove p) →
    Eff.remove q ∈ es → applyEffs fs es q = none
  | [], _, _, _, hq => by cases hq
  | e :: es, fs, q, hes, hq => by
      rcases List.mem_cons.1 hq with rfl | hq
      · simp only [applyEffs_cons]
        cases hc : applyEffs (applyEff fs (.remove q)) es q with
        | none => rfl
        | some f =>
            exfalso
            exact removals_mono es (applyEff fs (.remove q)) (fun e' he' => hes e' (by simp [he'])) q (by simp [hc])
              (by simp [applyEff])
      · exact removals_gone es _ q (fun e' he' => hes e' (by simp [he'])) hq

/-- Recovery, then any prefix of its own deletions, then recovery again: same state, nothing new to delete, and nothing at
    all once the first recovery has completed. -/
theorem Dur.recover_idem {fs : FS} {log : List Req} {m0 : Mem} (hd : Dur fs log m0) {ls : List Path} (hls : Listing fs ls)
    {m : Mem} {dels : List Path} (hr : LM.Crash.recover fs ls = .ok (m, dels))
    {tr : List Eff} (htr : PoolTrace (recoverPhase dels).tasks tr) {pre : List Eff} (hpre : pre <+: tr)
    {ls' : List Path} (hls' : Listing (applyEffs fs pre) ls') :
    ∃ dels', LM.Crash.recover (applyEffs fs pre) ls' = .ok (m, dels') ∧ (∀ p ∈ dels', p ∈ dels) ∧ (pre = tr → dels' = []) := by
  obtain ⟨dels0, hr0, hsafe, _⟩ := hd.recover hls
  rw [hr0] at hr
  simp only [Except.ok.injEq, Prod.mk.injEq] at hr
  obtain ⟨rfl, rfl⟩ := hr
  have hd' := hd.pool (hd.recover_safe hsafe) htr hpre
  obtain ⟨dels', hr', hsafe', _⟩ := hd'.recover hls'
  have honly : ∀ e ∈ tr, ∃ p, e = .rmBegin p ∨ e = .remove p := by
    intro e he
    obtain ⟨t, ht, he'⟩ := htr.mem e he
    simp only [recoverPhase] at ht
    obtain ⟨p, _, rfl⟩ := List.mem_map.1 ht
    simp only [removeTask, removeEffs, List.mem_cons, List.not_mem_nil, or_false] at he'
    exact ⟨p, he'⟩
  have hsub : ∀ p ∈ dels', p ∈ dels0 := by
    intro p hp
    obtain ⟨hpl, hkind⟩ := (hsafe' p).1 hp
    have hex : fs p ≠ none :=
      removals_mono pre fs (fun e he => honly e (mem_of_prefix hpre he)) p ((hls'.2 p).1 hpl).2
    exact (hsafe p).2 ⟨(hls.2 p).2 ⟨((hls'.2 p).1 hpl).1, hex⟩, hkind⟩
  refine ⟨dels', hr', hsub, ?_⟩
  intro hfull
  subst hfull
  cases hdl : dels' with
  | nil => rfl
  | cons p rest =>
      exfalso
      have hp : p ∈ dels' := by simp [hdl]
      have hex := ((hls'.2 p).1 ((hsafe' p).1 hp).1).2
      have hrem : Eff.remove p ∈ pre :=
        htr.mem_of_task (removeTask p) (List.mem_map_of_mem (hsub p hp)) _ (by simp [removeTask, removeEffs])
      exact hex (removals_gone pre fs p honly hrem)

/-! ### directory listings exist (non-vacuity of the `Listing` hypothesis) -/

theorem listing_set {fs : FS} {ls : List Path} (h : Listing fs ls) (p : Path) (v : Option File) :
    ∃ ls', Listing (fs.set p v) ls' := by
  by_cases hv : inWalDir p = true ∧ v ≠ none
  · refine ⟨p :: ls.filter (fun q => q ≠ p), ?_, ?_⟩
    · rw [List.nodup_cons]
      exact ⟨by simp, h.1.sublist List.filter_sublist⟩
    · intro q
      by_cases hq : q = p
      · subst hq; simp [hv.1, hv.2]
      · simp [hq, FS.set, h.2 q]
  · refine ⟨ls.filter (fun q => q ≠ p), h.1.sublist List.filter_sublist, ?_⟩
    intro q
    by_cases hq : q = p
    · subst hq
      simp only [List.mem_filter, ne_eq, not_true_eq_false, decide_false, FS.set_same]
      exact ⟨fun hc => by simp at hc, fun hc => absurd hc hv⟩
    · simp [hq, FS.set, h.2 q]

theorem listing_eff {fs : FS} {ls : List Path} (h : Listing fs ls) (e : Eff) : ∃ ls', Listing (applyEff fs e) ls' := by
  cases e with
  | mkdir b => exact ⟨ls, h⟩
  | sync b => exact ⟨ls, h⟩
  | rmBegin p => exact ⟨ls, h⟩
  | create b => exact listing_set h _ _
  | write b f => exact listing_set h _ _
  | remove p => exact listing_set h _ _
  | rename b =>
      simp only [applyEff]
      cases fs (tmpP b) with
      | none => exact ⟨ls, h⟩
      | some f =>
          obtain ⟨l1, h1⟩ := listing_set h (finP b) (some f)
          exact listing_set h1 _ _

theorem listing_effs : ∀ (es : List Eff) {fs : FS} {ls : List Path}, Listing fs ls → ∃ ls', Listing (applyEffs fs es) ls'
  | [], _, ls, h => ⟨ls, h⟩
  | e :: es, _, _, h => by
      obtain ⟨l1, h1⟩ := listing_eff h e
      exact listing_effs es h1

theorem listing_empty : Listing FS.empty [] := ⟨List.nodup_nil, fun p => by simp [FS.empty]⟩

/-- Every reachable file system has a directory listing. -/
theorem Reach.listing {w : World} (h : Reach w) : ∃ ls, Listing w.fs ls := by
  induction h with
  | init => exact ⟨[], listing_empty⟩
  | opened _ _ _ _ ih => obtain ⟨l, hl⟩ := ih; exact listing_effs _ hl
  | openCrash _ _ _ _ _ ih => obtain ⟨l, hl⟩ := ih; exact listing_effs _ hl
  | done _ _ _ ih => obtain ⟨l, hl⟩ := ih; exact listing_effs _ hl
  | crash _ _ _ _ ih => obtain ⟨l, hl⟩ := ih; exact listing_effs _ hl
  | stop _ ih => exact ih

end LM.Crash
