import LocustModel.Query.ArithShell
/-
  Helper lemmas: the column-at-a-time operator shells compute, slot by slot, what the row-at-a-time model
  (`Arith.cell`) computes, whatever values sit under the NULL slots.
-/
namespace LM.ArithShell
open LM LM.Arith

/-- `performChecked` never faults, so `pcT` is its result. -/
theorem performChecked_eq_pcT (op : Op) (l r : Int) : performChecked op l r = .ok (pcT op l r) := by
  cases op <;> simp only [pcT, performChecked] <;> (try split) <;> rfl

/-- The row-level model as a total function. -/
def cellT (op : Op) (a b : Option Int) : Option Int × Bool :=
  match a, b with
  | some x, some y => (some (pcT op x y).1, (pcT op x y).2)
  | _, _ => (none, false)

theorem cell_eq_cellT (op : Op) (a b : Option Int) : cell op a b = .ok (cellT op a b) := by
  cases a <;> cases b <;> simp [cell, cellT, performChecked_eq_pcT]

/-- Row-at-a-time evaluation of one operator over two columns of cells. -/
def rowsEval (op : Op) : List (Option Int) → List (Option Int) → List (Option Int) × Bool
  | a :: as, b :: bs =>
      let c := cellT op a b
      let rest := rowsEval op as bs
      (c.1 :: rest.1, c.2 || rest.2)
  | _, _ => ([], false)

theorem pcT_add_comm (l r : Int) : pcT .add l r = pcT .add r l := by
  simp [pcT, performChecked, ovfAdd, Int.add_comm]

theorem pcT_mul_comm (l r : Int) : pcT .mul l r = pcT .mul r l := by
  simp [pcT, performChecked, ovfMul, Int.mul_comm]

theorem pcT_comm (op : Op) (h : commutes op = true) (l r : Int) : pcT op l r = pcT op r l := by
  cases op <;> simp [commutes] at h
  · exact pcT_add_comm l r
  · exact pcT_mul_comm l r

def optOf (d : Int) (p : Bool) : Option Int := if p then some d else none

theorem view_some_cons (d : Int) (ds : List Int) (p : Bool) (ps : List Bool) :
    view (d :: ds) (some (p :: ps)) = optOf d p :: view ds (some ps) := by
  simp [view, optOf]

theorem view_none_cons (d : Int) (ds : List Int) : view (d :: ds) none = some d :: view ds none := by
  simp [view]

-- vector ∘ vector -------------------------------------------------------------------------------------------

theorem vv_nn (op : Op) (ls rs : List Int) :
    (view (checkedVV op ls rs).1 none, (checkedVV op ls rs).2) = rowsEval op (view ls none) (view rs none) := by
  induction ls generalizing rs with
  | nil => simp [checkedVV, view, rowsEval]
  | cons l ls ih =>
    cases rs with
    | nil => simp [checkedVV, view, rowsEval]
    | cons r rs =>
      have := ih rs
      simp only [checkedVV, view_none_cons, rowsEval, cellT]
      rw [← this]

theorem vv_sn (op : Op) (n : Nat) (ls rs : List Int) (pl : List Bool)
    (h1 : ls.length = n) (h2 : rs.length = n) (h3 : pl.length = n) :
    (view (nullableVV op ls rs pl).1 (some pl), (nullableVV op ls rs pl).2)
      = rowsEval op (view ls (some pl)) (view rs none) := by
  induction n generalizing ls rs pl with
  | zero =>
    cases ls <;> cases rs <;> cases pl <;> simp_all [nullableVV, view, rowsEval]
  | succ n ih =>
    match ls, rs, pl, h1, h2, h3 with
    | l :: ls, r :: rs, p :: pl, h1, h2, h3 =>
      have := ih ls rs pl (by simpa using h1) (by simpa using h2) (by simpa using h3)
      simp only [nullableVV, List.tail_cons, List.headD_cons, view_some_cons, view_none_cons, rowsEval]
      rw [← this]; cases p <;> simp [optOf, cellT]

theorem vv_ns (op : Op) (n : Nat) (ls rs : List Int) (pr : List Bool)
    (h1 : ls.length = n) (h2 : rs.length = n) (h3 : pr.length = n) :
    (view (nullableVV op ls rs pr).1 (some pr), (nullableVV op ls rs pr).2)
      = rowsEval op (view ls none) (view rs (some pr)) := by
  induction n generalizing ls rs pr with
  | zero =>
    cases ls <;> cases rs <;> cases pr <;> simp_all [nullableVV, view, rowsEval]
  | succ n ih =>
    match ls, rs, pr, h1, h2, h3 with
    | l :: ls, r :: rs, p :: pr, h1, h2, h3 =>
      have := ih ls rs pr (by simpa using h1) (by simpa using h2) (by simpa using h3)
      simp only [nullableVV, List.tail_cons, List.headD_cons, view_some_cons, view_none_cons, rowsEval]
      rw [← this]; cases p <;> simp [optOf, cellT]

theorem vv_ss (op : Op) (n : Nat) (ls rs : List Int) (pl pr : List Bool)
    (h1 : ls.length = n) (h2 : rs.length = n) (h3 : pl.length = n) (h4 : pr.length = n) :
    (view (nullableVV op ls rs (combineNullMaps pl pr)).1 (some (combineNullMaps pl pr)),
     (nullableVV op ls rs (combineNullMaps pl pr)).2)
      = rowsEval op (view ls (some pl)) (view rs (some pr)) := by
  induction n generalizing ls rs pl pr with
  | zero =>
    cases ls <;> cases rs <;> cases pl <;> cases pr <;> simp_all [nullableVV, view, rowsEval, combineNullMaps]
  | succ n ih =>
    match ls, rs, pl, pr, h1, h2, h3, h4 with
    | l :: ls, r :: rs, p :: pl, q :: pr, h1, h2, h3, h4 =>
      have := ih ls rs pl pr (by simpa using h1) (by simpa using h2) (by simpa using h3) (by simpa using h4)
      simp only [combineNullMaps] at this ⊢
      simp only [List.zipWith_cons_cons, nullableVV, List.tail_cons, List.headD_cons, view_some_cons, rowsEval]
      rw [← this]; cases p <;> cases q <;> simp [optOf, cellT]

-- vector ∘ scalar -------------------------------------------------------------------------------------------

theorem vs_n (op : Op) (ls : List Int) (k : Int) :
    (view (checkedVS op ls k).1 none, (checkedVS op ls k).2)
      = rowsEval op (view ls none) (List.replicate ls.length (some k)) := by
  induction ls with
  | nil => simp [checkedVS, view, rowsEval]
  | cons l ls ih =>
    simp only [checkedVS, view_none_cons, List.length_cons, List.replicate_succ, rowsEval, cellT]
    rw [← ih]

theorem vs_s (op : Op) (n : Nat) (ls : List Int) (k : Int) (pl : List Bool)
    (h1 : ls.length = n) (h3 : pl.length = n) :
    (view (nullableVS op ls k pl).1 (some pl), (nullableVS op ls k pl).2)
      = rowsEval op (view ls (some pl)) (List.replicate n (some k)) := by
  induction n generalizing ls pl with
  | zero => cases ls <;> cases pl <;> simp_all [nullableVS, view, rowsEval]
  | succ n ih =>
    match ls, pl, h1, h3 with
    | l :: ls, p :: pl, h1, h3 =>
      have := ih ls pl (by simpa using h1) (by simpa using h3)
      simp only [nullableVS, List.tail_cons, List.headD_cons, view_some_cons, List.replicate_succ, rowsEval]
      rw [← this]; cases p <;> simp [optOf, cellT]

-- scalar ∘ vector -------------------------------------------------------------------------------------------

theorem sv_n (op : Op) (k : Int) (rs : List Int) :
    (view (checkedSV op k rs).1 none, (checkedSV op k rs).2)
      = rowsEval op (List.replicate rs.length (some k)) (view rs none) := by
  induction rs with
  | nil => simp [checkedSV, view, rowsEval]
  | cons r rs ih =>
    simp only [checkedSV, view_none_cons, List.length_cons, List.replicate_succ, rowsEval, cellT]
    rw [← ih]

theorem sv_s (op : Op) (n : Nat) (k : Int) (rs : List Int) (pr : List Bool)
    (h1 : rs.length = n) (h3 : pr.length = n) :
    (view (nullableSV op k rs pr).1 (some pr), (nullableSV op k rs pr).2)
      = rowsEval op (List.replicate n (some k)) (view rs (some pr)) := by
  induction n generalizing rs pr with
  | zero => cases rs <;> cases pr <;> simp_all [nullableSV, view, rowsEval]
  | succ n ih =>
    match rs, pr, h1, h3 with
    | r :: rs, p :: pr, h1, h3 =>
      have := ih rs pr (by simpa using h1) (by simpa using h3)
      simp only [nullableSV, List.tail_cons, List.headD_cons, view_some_cons, List.replicate_succ, rowsEval]
      rw [← this]; cases p <;> simp [optOf, cellT]

/-- Swapping the operands of a commutative operator does not change the row-wise result. -/
theorem rowsEval_comm (op : Op) (h : commutes op = true) (as bs : List (Option Int)) :
    rowsEval op as bs = rowsEval op bs as := by
  induction as generalizing bs with
  | nil => cases bs <;> simp [rowsEval]
  | cons a as ih =>
    cases bs with
    | nil => simp [rowsEval]
    | cons b bs =>
      simp only [rowsEval, ih bs]
      cases a <;> cases b <;> simp [cellT, pcT_comm op h]

-- lengths ------------------------------------------------------------------------------------------------------

theorem checkedVV_length (op : Op) (n : Nat) (ls rs : List Int) (h1 : ls.length = n) (h2 : rs.length = n) :
    (checkedVV op ls rs).1.length = n := by
  induction n generalizing ls rs with
  | zero => cases ls <;> cases rs <;> simp_all [checkedVV]
  | succ n ih =>
    match ls, rs, h1, h2 with
    | l :: ls, r :: rs, h1, h2 => simp [checkedVV, ih ls rs (by simpa using h1) (by simpa using h2)]

theorem nullableVV_length (op : Op) (n : Nat) (ls rs : List Int) (ps : List Bool) (h1 : ls.length = n) (h2 : rs.length = n) :
    (nullableVV op ls rs ps).1.length = n := by
  induction n generalizing ls rs ps with
  | zero => cases ls <;> cases rs <;> simp_all [nullableVV]
  | succ n ih =>
    match ls, rs, h1, h2 with
    | l :: ls, r :: rs, h1, h2 => simp [nullableVV, ih ls rs ps.tail (by simpa using h1) (by simpa using h2)]

theorem checkedVS_length (op : Op) (ls : List Int) (k : Int) : (checkedVS op ls k).1.length = ls.length := by
  induction ls with
  | nil => simp [checkedVS]
  | cons l ls ih => simp [checkedVS, ih]

theorem nullableVS_length (op : Op) (ls : List Int) (k : Int) (ps : List Bool) : (nullableVS op ls k ps).1.length = ls.length := by
  induction ls generalizing ps with
  | nil => simp [nullableVS]
  | cons l ls ih => simp [nullableVS, ih]

theorem checkedSV_length (op : Op) (k : Int) (rs : List Int) : (checkedSV op k rs).1.length = rs.length := by
  induction rs with
  | nil => simp [checkedSV]
  | cons r rs ih => simp [checkedSV, ih]

theorem nullableSV_length (op : Op) (k : Int) (rs : List Int) (ps : List Bool) : (nullableSV op k rs ps).1.length = rs.length := by
  induction rs generalizing ps with
  | nil => simp [nullableSV]
  | cons r rs ih => simp [nullableSV, ih]

theorem combineNullMaps_length (n : Nat) (a b : List Bool) (ha : a.length = n) (hb : b.length = n) :
    (combineNullMaps a b).length = n := by
  simp [combineNullMaps, ha, hb]


/-- An operand buffer of a partition with `n` rows: data and bitmap (if any) have `n` entries. -/
def WfOperand (n : Nat) : Operand → Prop
  | .scalar _ => True
  | .vec d p => d.length = n ∧ ∀ ps, p = some ps → ps.length = n

/-- The operand as a column of cells. -/
def operandView (n : Nat) : Operand → List (Option Int)
  | .scalar k => List.replicate n (some k)
  | .vec d p => view d p

theorem dispatch_rowwise (op : Op) (n : Nat) (l r : Operand) (hl : WfOperand n l) (hr : WfOperand n r)
    (hv : (∃ d p, l = .vec d p) ∨ (∃ d p, r = .vec d p)) :
    ∃ d p o, dispatch op l r = .ok d p o ∧ WfOperand n (.vec d p) ∧
      (view d p, o) = rowsEval op (operandView n l) (operandView n r) := by
  cases l with
  | scalar a =>
    cases r with
    | scalar b => rcases hv with ⟨_, _, h⟩ | ⟨_, _, h⟩ <;> cases h
    | vec rs pr =>
      obtain ⟨h1, h2⟩ := hr
      cases pr with
      | none =>
        by_cases hc : commutes op = true
        · refine ⟨(checkedVS op rs a).1, none, (checkedVS op rs a).2, by simp [dispatch, hc], ⟨by rw [checkedVS_length]; exact h1, by intro ps hps; cases hps⟩, ?_⟩
          simp only [operandView]
          rw [rowsEval_comm op hc, ← h1]; exact vs_n op rs a
        · refine ⟨(checkedSV op a rs).1, none, (checkedSV op a rs).2, by simp [dispatch, hc], ⟨by rw [checkedSV_length]; exact h1, by intro ps hps; cases hps⟩, ?_⟩
          simp only [operandView]; rw [← h1]; exact sv_n op a rs
      | some ps =>
        have h3 := h2 ps rfl
        by_cases hc : commutes op = true
        · refine ⟨(nullableVS op rs a ps).1, some ps, (nullableVS op rs a ps).2, by simp [dispatch, hc], ⟨by rw [nullableVS_length]; exact h1, by intro qs hqs; cases hqs; exact h3⟩, ?_⟩
          simp only [operandView]
          rw [rowsEval_comm op hc]; exact vs_s op n rs a ps h1 h3
        · refine ⟨(nullableSV op a rs ps).1, some ps, (nullableSV op a rs ps).2, by simp [dispatch, hc], ⟨by rw [nullableSV_length]; exact h1, by intro qs hqs; cases hqs; exact h3⟩, ?_⟩
          simp only [operandView]; exact sv_s op n a rs ps h1 h3
  | vec ls pl =>
    obtain ⟨g1, g2⟩ := hl
    cases r with
    | scalar b =>
      cases pl with
      | none =>
        refine ⟨(checkedVS op ls b).1, none, (checkedVS op ls b).2, by simp [dispatch], ⟨by rw [checkedVS_length]; exact g1, by intro ps hps; cases hps⟩, ?_⟩
        simp only [operandView]; rw [← g1]; exact vs_n op ls b
      | some ps =>
        refine ⟨(nullableVS op ls b ps).1, some ps, (nullableVS op ls b ps).2, by simp [dispatch], ⟨by rw [nullableVS_length]; exact g1, by intro qs hqs; cases hqs; exact g2 ps rfl⟩, ?_⟩
        simp only [operandView]; exact vs_s op n ls b ps g1 (g2 ps rfl)
    | vec rs pr =>
      obtain ⟨h1, h2⟩ := hr
      cases pl with
      | none =>
        cases pr with
        | none =>
          refine ⟨(checkedVV op ls rs).1, none, (checkedVV op ls rs).2, by simp [dispatch, combineNulls2], ⟨checkedVV_length op n ls rs g1 h1, by intro ps hps; cases hps⟩, ?_⟩
          simp only [operandView]; exact vv_nn op ls rs
        | some qs =>
          refine ⟨(nullableVV op ls rs qs).1, some qs, (nullableVV op ls rs qs).2, by simp [dispatch, combineNulls2], ⟨nullableVV_length op n ls rs qs g1 h1, by intro ps hps; cases hps; exact h2 qs rfl⟩, ?_⟩
          simp only [operandView]; exact vv_ns op n ls rs qs g1 h1 (h2 qs rfl)
      | some ps =>
        cases pr with
        | none =>
          refine ⟨(nullableVV op ls rs ps).1, some ps, (nullableVV op ls rs ps).2, by simp [dispatch, combineNulls2], ⟨nullableVV_length op n ls rs ps g1 h1, by intro qs hqs; cases hqs; exact g2 ps rfl⟩, ?_⟩
          simp only [operandView]; exact vv_sn op n ls rs ps g1 h1 (g2 ps rfl)
        | some qs =>
          refine ⟨(nullableVV op ls rs (combineNullMaps ps qs)).1, some (combineNullMaps ps qs),
            (nullableVV op ls rs (combineNullMaps ps qs)).2, by simp [dispatch, combineNulls2],
            ⟨nullableVV_length op n ls rs _ g1 h1, by intro x hx; cases hx; exact combineNullMaps_length n ps qs (g2 ps rfl) (h2 qs rfl)⟩, ?_⟩
          simp only [operandView]; exact vv_ss op n ls rs ps qs g1 h1 (g2 ps rfl) (h2 qs rfl)


end LM.ArithShell
