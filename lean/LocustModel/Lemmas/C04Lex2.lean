import LocustModel.Lemmas.C04Lex
/-
  C04 helper lemmas: two grouping columns.  partition + merge_deduplicate_partitioned + merge_drop on lexicographically
  ascending key rows compute the canonical script / union of the order-embedded keys (`enc2`).
-/
namespace LM.C04L
open LM LM.Merge LM.GroupMerge

/-- order-embedding of a two-column key into one integer (second column an i64) -/
def enc2 (p : Int × Int) : Int := p.1 * 18446744073709551616 + (p.2 + 9223372036854775808)
def dec2fst (k : Int) : Int := k / 18446744073709551616
def dec2snd (k : Int) : Int := k % 18446744073709551616 - 9223372036854775808

def LexAsc (A : List (Int × Int)) : Prop := A.Pairwise fun p q => p.1 < q.1 ∨ (p.1 = q.1 ∧ p.2 < q.2)
def SndI64 (A : List (Int × Int)) : Prop := ∀ p ∈ A, inI64 p.2

theorem enc2_lt (p q : Int × Int) (hp : inI64 p.2) (hq : inI64 q.2) :
    enc2 p < enc2 q ↔ (p.1 < q.1 ∨ (p.1 = q.1 ∧ p.2 < q.2)) := by
  unfold inI64 I64_MIN I64_MAX at hp hq
  unfold enc2
  constructor
  · intro h; omega
  · intro h; omega

theorem dec2_enc2 (p : Int × Int) (hp : inI64 p.2) : dec2fst (enc2 p) = p.1 ∧ dec2snd (enc2 p) = p.2 := by
  unfold inI64 I64_MIN I64_MAX at hp
  unfold enc2 dec2fst dec2snd
  constructor <;> omega

theorem takeRun_eq (e : Int) (xs : List Int) :
    takeRun e xs = ((xs.takeWhile (· = e)).length, xs.dropWhile (· = e)) := by
  induction xs with
  | nil => simp [takeRun]
  | cons x t ih =>
    by_cases h : x = e
    · simp [takeRun, h, ih]
    · simp [takeRun, h]

theorem takeWhile_map_fst (e : Int) (A : List (Int × Int)) :
    (A.map (·.1)).takeWhile (· = e) = (A.takeWhile (fun p => p.1 = e)).map (·.1) ∧
    (A.map (·.1)).dropWhile (· = e) = (A.dropWhile (fun p => p.1 = e)).map (·.1) := by
  induction A with
  | nil => simp
  | cons p t ih =>
    by_cases h : p.1 = e <;> simp [List.takeWhile_cons, List.dropWhile_cons, h, ih]


def blk (e : Int) (A : List (Int × Int)) := A.takeWhile (fun p => p.1 = e)
def rst (e : Int) (A : List (Int × Int)) := A.dropWhile (fun p => p.1 = e)

/-- the key the next run of `partition` starts with -/
def firstKey : List (Int × Int) → List (Int × Int) → Option Int
  | [], [] => none
  | p :: _, [] => some p.1
  | [], q :: _ => some q.1
  | p :: _, q :: _ => some (if p.1 ≤ q.1 then p.1 else q.1)

theorem blk_rst (e : Int) (A : List (Int × Int)) : blk e A ++ rst e A = A := List.takeWhile_append_dropWhile

theorem blk_fst (e : Int) (A : List (Int × Int)) : ∀ p ∈ blk e A, p.1 = e := by
  induction A with
  | nil => simp [blk]
  | cons q t ih =>
    intro p hp
    by_cases h : q.1 = e
    · simp only [blk, List.takeWhile_cons, h, decide_true, if_true, List.mem_cons] at hp
      rcases hp with rfl | hp
      · exact h
      · exact ih p hp
    · simp [blk, List.takeWhile_cons, h] at hp

theorem lexAsc_tail {p : Int × Int} {t : List (Int × Int)} (h : LexAsc (p :: t)) :
    (∀ q ∈ t, p.1 < q.1 ∨ (p.1 = q.1 ∧ p.2 < q.2)) ∧ LexAsc t := List.pairwise_cons.mp h

theorem rst_gt (e : Int) (A : List (Int × Int)) (hA : LexAsc A) (hmin : ∀ p ∈ A, e ≤ p.1) :
    ∀ p ∈ rst e A, e < p.1 := by
  induction A with
  | nil => simp [rst]
  | cons p t ih =>
    obtain ⟨hpt, ht⟩ := lexAsc_tail hA
    by_cases h : p.1 = e
    · simp only [rst, List.dropWhile_cons, h, decide_true, if_true]
      exact ih ht (fun q hq => hmin q (by simp [hq]))
    · have hp : e < p.1 := by have := hmin p (by simp); omega
      simp only [rst, List.dropWhile_cons, h, decide_false, Bool.false_eq_true, if_false]
      intro q hq
      rcases List.mem_cons.mp hq with rfl | hq
      · exact hp
      · rcases hpt q hq with h1 | ⟨h1, _⟩ <;> omega

theorem blk_snd_strict (e : Int) (A : List (Int × Int)) (hA : LexAsc A) : StrictAsc ((blk e A).map (·.2)) := by
  have hsub : List.Sublist (blk e A) A := List.takeWhile_sublist _
  have hb : LexAsc (blk e A) := List.Pairwise.sublist hsub hA
  have hf := blk_fst e A
  unfold StrictAsc
  rw [List.pairwise_map]
  refine List.Pairwise.imp_of_mem ?_ hb
  intro p q hp hq hpq
  have h1 := hf p hp
  have h2 := hf q hq
  rcases hpq with h | ⟨_, h⟩
  · omega
  · exact h

theorem rst_lexAsc (e : Int) (A : List (Int × Int)) (hA : LexAsc A) : LexAsc (rst e A) :=
  List.Pairwise.sublist (List.dropWhile_sublist _) hA

theorem mem_specKeys (l r : List Int) (x : Int) (h : x ∈ specKeys l r) : x ∈ l ∨ x ∈ r := by
  fun_induction specKeys l r <;> simp_all <;> grind

theorem partitionLoop_step (limit fuel : Nat) (A B : List (Int × Int)) (minE : Nat) (e : Int)
    (he : firstKey A B = some e) (hlim : minE < limit) :
    partitionLoop false limit (fuel + 1) (A.map (·.1)) (B.map (·.1)) minE =
      ⟨(blk e A).length, (blk e B).length⟩ ::
        partitionLoop false limit fuel ((rst e A).map (·.1)) ((rst e B).map (·.1))
          (minE + max (blk e A).length (blk e B).length) := by
  have hnl : ¬ minE ≥ limit := by omega
  cases A with
  | nil =>
    cases B with
    | nil => simp [firstKey] at he
    | cons q B' =>
      simp only [firstKey, Option.some.injEq] at he
      subst he
      simp only [partitionLoop, hnl, if_false, List.map_nil, List.map_cons, takeRun_eq]
      have := takeWhile_map_fst q.1 (q :: B')
      simp only [List.map_cons] at this
      simp [blk, rst, this.1, this.2]
  | cons p A' =>
    cases B with
    | nil =>
      simp only [firstKey, Option.some.injEq] at he
      subst he
      simp only [partitionLoop, hnl, if_false, List.map_nil, List.map_cons, takeRun_eq]
      have := takeWhile_map_fst p.1 (p :: A')
      simp only [List.map_cons] at this
      simp [blk, rst, this.1, this.2]
    | cons q B' =>
      simp only [firstKey, Option.some.injEq] at he
      simp only [partitionLoop, hnl, if_false, List.map_cons, takeRun_eq, cmpEq]
      have hA := takeWhile_map_fst e (p :: A')
      have hB := takeWhile_map_fst e (q :: B')
      simp only [List.map_cons] at hA hB
      have he' : (if decide (p.1 ≤ q.1) = true then p.1 else q.1) = e := by
        by_cases h : p.1 ≤ q.1 <;> simp [h] at he ⊢ <;> exact he
      simp only [Bool.false_eq_true, if_false, he']
      simp [blk, rst, hA.1, hA.2, hB.1, hB.2]


theorem firstKey_min (A B : List (Int × Int)) (e : Int) (hA : LexAsc A) (hB : LexAsc B) (he : firstKey A B = some e) :
    (∀ p ∈ A, e ≤ p.1) ∧ (∀ p ∈ B, e ≤ p.1) ∧ 1 ≤ (blk e A).length + (blk e B).length := by
  have hmin : ∀ (p : Int × Int) (t : List (Int × Int)), LexAsc (p :: t) → ∀ q ∈ p :: t, p.1 ≤ q.1 := by
    intro p t h q hq
    rcases List.mem_cons.mp hq with rfl | hq
    · omega
    · rcases (lexAsc_tail h).1 q hq with h1 | ⟨h1, _⟩ <;> omega
  cases A with
  | nil =>
    cases B with
    | nil => simp [firstKey] at he
    | cons q B' =>
      simp only [firstKey, Option.some.injEq] at he
      subst he
      exact ⟨by simp, hmin q B' hB, by simp [blk, List.takeWhile_cons]⟩
  | cons p A' =>
    cases B with
    | nil =>
      simp only [firstKey, Option.some.injEq] at he
      subst he
      exact ⟨hmin p A' hA, by simp, by simp [blk, List.takeWhile_cons]⟩
    | cons q B' =>
      simp only [firstKey, Option.some.injEq] at he
      by_cases h : p.1 ≤ q.1
      · simp [h] at he
        subst he
        refine ⟨hmin p A' hA, ?_, by simp [blk, List.takeWhile_cons]; omega⟩
        intro x hx; have := hmin q B' hB x hx; omega
      · simp [h] at he
        subst he
        refine ⟨?_, hmin q B' hB, by simp [blk, List.takeWhile_cons]; omega⟩
        intro x hx; have := hmin p A' hA x hx; omega

theorem blk_enc (e : Int) (A : List (Int × Int)) :
    (blk e A).map enc2 = ((blk e A).map (·.2)).map (fun y => enc2 (e, y)) := by
  rw [List.map_map]
  apply List.map_congr_left
  intro p hp
  have := blk_fst e A p hp
  simp [enc2, this]

theorem take_drop_map {α β : Type} (f : α → β) (X Y : List α) :
    (X.map f ++ Y.map f).take X.length = X.map f ∧ (X.map f ++ Y.map f).drop X.length = Y.map f :=
  ⟨List.take_left' (by simp), List.drop_left' (by simp)⟩

/-- **partition + merge_deduplicate_partitioned on two key columns** compute the canonical script and union of the
    order-embedded keys (any number of rows; `limit` above the number of rows). -/
theorem mdp_partition_spec (limit fuel : Nat) (A B : List (Int × Int)) (minE : Nat)
    (hA : LexAsc A) (hB : LexAsc B) (iA : SndI64 A) (iB : SndI64 B)
    (hf : A.length + B.length ≤ fuel) (hlim : minE + A.length + B.length < limit) :
    mergeDedupPartitioned (partitionLoop false limit fuel (A.map (·.1)) (B.map (·.1)) minE)
        (A.map (·.2)) (B.map (·.2)) =
      some ((specKeys (A.map enc2) (B.map enc2)).map dec2snd, specOps (A.map enc2) (B.map enc2)) := by
  induction fuel generalizing A B minE with
  | zero =>
    have h1 : A = [] := by cases A <;> simp_all
    have h2 : B = [] := by cases B <;> simp_all
    subst h1; subst h2
    simp [partitionLoop, mergeDedupPartitioned, specKeys, specOps]
  | succ f ih =>
    cases he : firstKey A B with
    | none =>
      have h1 : A = [] := by cases A <;> cases B <;> simp_all [firstKey]
      have h2 : B = [] := by cases A <;> cases B <;> simp_all [firstKey]
      subst h1; subst h2
      have : ¬ minE ≥ limit := by omega
      simp [partitionLoop, this, mergeDedupPartitioned, specKeys, specOps]
    | some e =>
      obtain ⟨mA, mB, hpos⟩ := firstKey_min A B e hA hB he
      rw [partitionLoop_step limit f A B minE e he (by omega)]
      have eA := blk_rst e A
      have eB := blk_rst e B
      have lA : (blk e A).length + (rst e A).length = A.length := by rw [← List.length_append, eA]
      have lB : (blk e B).length + (rst e B).length = B.length := by rw [← List.length_append, eB]
      -- the rest, by induction
      have ihr := ih (rst e A) (rst e B) (minE + max (blk e A).length (blk e B).length)
        (rst_lexAsc e A hA) (rst_lexAsc e B hB)
        (fun p hp => iA p (by rw [← eA]; exact List.mem_append_right _ hp))
        (fun p hp => iB p (by rw [← eB]; exact List.mem_append_right _ hp))
        (by omega) (by omega)
      -- the first group
      have hg := mdpGroup_spec ((blk e A).length + (blk e B).length) ((blk e A).map (·.2)) ((blk e B).map (·.2))
        (blk_snd_strict e A hA) (blk_snd_strict e B hB) (by simp)
      have sA : A.map (·.2) = (blk e A).map (·.2) ++ (rst e A).map (·.2) := by rw [← List.map_append, eA]
      have sB : B.map (·.2) = (blk e B).map (·.2) ++ (rst e B).map (·.2) := by rw [← List.map_append, eB]
      have tA := take_drop_map (fun x : Int × Int => x.2) (blk e A) (rst e A)
      have tB := take_drop_map (fun x : Int × Int => x.2) (blk e B) (rst e B)
      have hlen : ¬ ((A.map (·.2)).length < (blk e A).length ∨ (B.map (·.2)).length < (blk e B).length) := by
        simp; omega
      simp only [mergeDedupPartitioned, hlen, if_false]
      rw [sA, sB]
      simp only [tA.1, tA.2, tB.1, tB.2, hg, ihr, Option.map_some]
      -- the specification side: block decomposition
      have h12 : ∀ x, (x ∈ (blk e A).map enc2 ∨ x ∈ (blk e B).map enc2) → ∀ y,
          (y ∈ (rst e A).map enc2 ∨ y ∈ (rst e B).map enc2) → x < y := by
        intro x hx y hy
        have hx' : ∃ p, (p ∈ blk e A ∨ p ∈ blk e B) ∧ enc2 p = x := by
          rcases hx with hx | hx <;> simp only [List.mem_map] at hx <;> obtain ⟨p, hp, rfl⟩ := hx
          · exact ⟨p, Or.inl hp, rfl⟩
          · exact ⟨p, Or.inr hp, rfl⟩
        have hy' : ∃ q, (q ∈ rst e A ∨ q ∈ rst e B) ∧ enc2 q = y := by
          rcases hy with hy | hy <;> simp only [List.mem_map] at hy <;> obtain ⟨q, hq, rfl⟩ := hy
          · exact ⟨q, Or.inl hq, rfl⟩
          · exact ⟨q, Or.inr hq, rfl⟩
        obtain ⟨p, hp, rfl⟩ := hx'
        obtain ⟨q, hq, rfl⟩ := hy'
        have hp1 : p.1 = e := by rcases hp with hp | hp; exact blk_fst e A p hp; exact blk_fst e B p hp
        have hq1 : e < q.1 := by
          rcases hq with hq | hq
          · exact rst_gt e A hA mA q hq
          · exact rst_gt e B hB mB q hq
        have hpi : inI64 p.2 := by
          rcases hp with hp | hp
          · exact iA p (by rw [← eA]; exact List.mem_append_left _ hp)
          · exact iB p (by rw [← eB]; exact List.mem_append_left _ hp)
        have hqi : inI64 q.2 := by
          rcases hq with hq | hq
          · exact iA q (by rw [← eA]; exact List.mem_append_right _ hq)
          · exact iB q (by rw [← eB]; exact List.mem_append_right _ hq)
        exact (enc2_lt p q hpi hqi).mpr (Or.inl (by omega))
      have happ := specOps_append ((blk e A).map enc2) ((blk e B).map enc2) ((rst e A).map enc2) ((rst e B).map enc2) h12
      rw [← List.map_append, ← List.map_append, eA, eB] at happ
      have hmono : ∀ x y : Int, x < y ↔ enc2 (e, x) < enc2 (e, y) := by
        intro x y; unfold enc2; constructor <;> intro h <;> omega
      have hmap := specOps_map (fun y => enc2 (e, y)) hmono ((blk e A).map (·.2)) ((blk e B).map (·.2))
      rw [← blk_enc e A, ← blk_enc e B] at hmap
      rw [happ.1, happ.2, hmap.1, hmap.2, List.map_append, List.map_map]
      congr 2
      -- decoding the block's keys gives back the second column
      have : ((specKeys ((blk e A).map (·.2)) ((blk e B).map (·.2))).map (dec2snd ∘ fun y => enc2 (e, y))) =
          specKeys ((blk e A).map (·.2)) ((blk e B).map (·.2)) := by
        conv => rhs; rw [← List.map_id (specKeys ((blk e A).map (·.2)) ((blk e B).map (·.2)))]
        apply List.map_congr_left
        intro y hy
        have hyi : inI64 y := by
          rcases mem_specKeys _ _ y hy with h | h <;> simp only [List.mem_map] at h <;> obtain ⟨p, hp, rfl⟩ := h
          · exact iA p (by rw [← eA]; exact List.mem_append_left _ hp)
          · exact iB p (by rw [← eB]; exact List.mem_append_left _ hp)
        simp only [Function.comp, id]
        exact (dec2_enc2 (e, y) hyi).2
      rw [this]


theorem lexAsc_enc (A : List (Int × Int)) (hA : LexAsc A) (iA : SndI64 A) : StrictAsc (A.map enc2) := by
  unfold StrictAsc
  rw [List.pairwise_map]
  refine List.Pairwise.imp_of_mem ?_ hA
  intro p q hp hq hpq
  exact (enc2_lt p q (iA p hp) (iA q hq)).mpr hpq

/-- **Two grouping columns.** For lexicographically strictly ascending key rows (fewer than 2^32 in total — the
    u32 run counters of `partition`), partition + merge_deduplicate_partitioned + merge_drop produce exactly the
    canonical script of the order-embedded keys, and the merged key columns are the decoded union. -/
theorem mergeKeys_two (A B : List (Int × Int)) (hA : LexAsc A) (hB : LexAsc B) (iA : SndI64 A) (iB : SndI64 B)
    (hlen : A.length + B.length < 4294967295) :
    mergeKeys [A.map (·.1), A.map (·.2)] [B.map (·.1), B.map (·.2)] =
      some ([(specKeys (A.map enc2) (B.map enc2)).map dec2fst, (specKeys (A.map enc2) (B.map enc2)).map dec2snd],
            specOps (A.map enc2) (B.map enc2)) := by
  have hm := mdp_partition_spec 4294967295 (A.length + B.length) A B 0 hA hB iA iB (by omega) (by omega)
  have hfst : ∀ (X : List (Int × Int)), SndI64 X → X.map (·.1) = (X.map enc2).map dec2fst := by
    intro X iX
    rw [List.map_map]
    apply List.map_congr_left
    intro p hp
    exact (dec2_enc2 p (iX p hp)).1.symm
  have hd := mergeDrop_specOps dec2fst (A.map enc2) (B.map enc2)
  rw [← hfst A iA, ← hfst B iB] at hd
  simp only [mergeKeys, mergeKeys.refine, partition, List.length_map, Nat.min_def]
  simp only [show ¬ (18446744073709551615 : Nat) ≤ 4294967295 by omega, if_false]
  rw [show (Option.bind (some (partitionLoop false 4294967295 (A.length + B.length) (A.map (·.1)) (B.map (·.1)) 0,
        A.map (·.2), B.map (·.2))) fun x => _) = _ from rfl]
  simp [hm, hd]
end LM.C04L
