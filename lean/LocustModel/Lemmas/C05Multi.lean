import LocustModel.Lemmas.C05Stable
/-
  C05, multi-key combination:  merge_partitioned ∘ subpartition* ∘ partition  (+ merge_keep)
  is the limited stable merge under the lexicographic comparator.   Part 1: runs and group-wise merges.
-/
namespace LM.OrderSpec
open LM LM.Order

variable {β : Type}

/-! ### small facts about `mergeAll` -/

theorem mergeAll_nil_left (le : β → β → Bool) (r : List β) : mergeAll le [] r = r := by simp [mergeAll]
theorem mergeAll_nil_right (le : β → β → Bool) (l : List β) : mergeAll le l [] = l := by
  cases l <;> simp [mergeAll]

/-- Proof device: the unlimited stable merge with its take-left flags. -/
def mergeAllF (le : β → β → Bool) : List β → List β → List β × List Nat
  | [], r => (r, r.map fun _ => 0)
  | l, [] => (l, l.map fun _ => 1)
  | a :: l, b :: r =>
      if le a b then
        let (m, o) := mergeAllF le l (b :: r)
        (a :: m, 1 :: o)
      else
        let (m, o) := mergeAllF le (a :: l) r
        (b :: m, 0 :: o)

theorem mergeAllF_fst (le : β → β → Bool) (l r : List β) : (mergeAllF le l r).1 = mergeAll le l r := by
  fun_induction mergeAllF le l r <;> simp_all [mergeAll]

/-- A limit that covers both inputs does not limit. -/
theorem merge_eq_mergeAllF (le : β → β → Bool) (l r : List β) (n : Nat) (h : l.length + r.length ≤ n) :
    merge le l r n = mergeAllF le l r := by
  fun_induction merge le l r n
  · have hl : (‹List β›) = [] := List.eq_nil_of_length_eq_zero (by omega)
    have hr : (‹List β›) = [] := List.eq_nil_of_length_eq_zero (by omega)
    simp_all [mergeAllF]
  · rename_i r n
    simp only [mergeAllF]
    rw [List.take_of_length_le (by simpa using h)]
  · rename_i l n hl
    cases l with
    | nil => simp at hl
    | cons a l =>
      simp only [mergeAllF]
      rw [List.take_of_length_le (by simpa using h)]
  · rename_i a l b r n hab m o hmo ih
    simp only [mergeAllF, hab, if_true]
    rw [← ih (by simp at h ⊢; omega), hmo]
  · rename_i a l b r n hab m o hmo ih
    have hab' : le a b = false := by simpa using hab
    simp only [mergeAllF, hab']
    rw [← ih (by simp at h ⊢; omega), hmo]
    simp

/-- The merge only looks at comparisons between a left and a right row. -/
theorem mergeAll_congr (le le' : β → β → Bool) (l r : List β)
    (h : ∀ x ∈ l, ∀ y ∈ r, le x y = le' x y) : mergeAll le l r = mergeAll le' l r := by
  fun_induction mergeAll le l r
  · simp [mergeAll]
  · rename_i l hl; cases l <;> simp_all [mergeAll]
  · rename_i a l b r hab ih
    have : le' a b = true := by rw [← h a (by simp) b (by simp)]; exact hab
    simp only [mergeAll, this, if_true]
    rw [ih (fun x hx y hy => h x (by simp [hx]) y hy)]
  · rename_i a l b r hab ih
    have : le' a b = false := by rw [← h a (by simp) b (by simp)]; simpa using hab
    simp only [mergeAll, this]
    rw [ih (fun x hx y hy => h x hx y (by simp [hy]))]
    simp

/-- `x` comes strictly before `y`. -/
def SB (le : β → β → Bool) (x y : β) : Prop := le x y = true ∧ le y x = false

/-- If every row of the first pair of blocks comes strictly before every row of the second pair, the merge of the
    concatenations is the concatenation of the merges. -/
theorem mergeAll_append (le : β → β → Bool) : ∀ (l₁ r₁ l₂ r₂ : List β),
    (∀ x ∈ l₁ ++ r₁, ∀ y ∈ l₂ ++ r₂, SB le x y) →
    mergeAll le (l₁ ++ l₂) (r₁ ++ r₂) = mergeAll le l₁ r₁ ++ mergeAll le l₂ r₂
  | [], [], l₂, r₂, _ => by simp [mergeAll]
  | [], b :: r₁, l₂, r₂, h => by
    have ih := mergeAll_append le [] r₁ l₂ r₂ (fun x hx y hy => h x (by simp at hx ⊢; exact Or.inr hx) y hy)
    simp only [List.nil_append, mergeAll_nil_left] at ih ⊢
    cases l₂ with
    | nil => simp [mergeAll]
    | cons a l₂ =>
      have hb := h b (by simp) a (by simp)
      simp only [List.cons_append, mergeAll, hb.2]
      simp only [Bool.false_eq_true, if_false]
      rw [ih]
  | a :: l₁, [], l₂, r₂, h => by
    have ih := mergeAll_append le l₁ [] l₂ r₂ (fun x hx y hy => h x (by simp at hx ⊢; exact Or.inr hx) y hy)
    simp only [List.nil_append, mergeAll_nil_right, List.append_nil] at ih ⊢
    cases r₂ with
    | nil => simp [mergeAll_nil_right]
    | cons b r₂ =>
      have hb := h a (by simp) b (by simp)
      simp only [List.cons_append, mergeAll, hb.1, if_true]
      rw [ih]
  | a :: l₁, b :: r₁, l₂, r₂, h => by
    simp only [List.cons_append, mergeAll]
    split
    · have ih := mergeAll_append le l₁ (b :: r₁) l₂ r₂ (fun x hx y hy => h x (by
        simp at hx ⊢; rcases hx with hx | hx | hx <;> simp [hx]) y hy)
      simp only [List.cons_append] at ih
      rw [ih]; simp
    · have ih := mergeAll_append le (a :: l₁) r₁ l₂ r₂ (fun x hx y hy => h x (by
        simp at hx ⊢; rcases hx with hx | hx | hx <;> simp [hx]) y hy)
      simp only [List.cons_append] at ih
      rw [ih]; simp

/-! ### runs -/

theorem runLen_le (p : β → Bool) (S : List β) : runLen p S ≤ S.length := by
  induction S with
  | nil => simp [runLen]
  | cons a S ih => simp only [runLen]; split <;> simp <;> omega

theorem runLen_take (p : β → Bool) : ∀ (S : List β), ∀ y ∈ S.take (runLen p S), p y = true
  | [], y, hy => by simp [runLen] at hy
  | a :: S, y, hy => by
    simp only [runLen] at hy
    split at hy
    · rename_i ha
      rw [List.take_succ_cons] at hy
      rcases List.mem_cons.mp hy with rfl | hy
      · exact ha
      · exact runLen_take p S y hy
    · simp at hy

/-- In a sorted list whose rows are all ≥ `e`, every row after the run of rows tied with `e` is strictly after `e`. -/
theorem runLen_drop {c : β → β → Bool} (hc : TotalPre c) (e : β) : ∀ (S : List β), Sorted c S →
    (∀ y ∈ S, c e y = true) → ∀ y ∈ S.drop (runLen (eqv c e) S), c y e = false
  | [], _, _, y, hy => by simp at hy
  | a :: S, hs, hmin, y, hy => by
    have hs' := List.pairwise_cons.mp hs
    simp only [runLen] at hy
    split at hy
    · rw [List.drop_succ_cons] at hy
      exact runLen_drop hc e S hs'.2 (fun y hy => hmin y (by simp [hy])) y hy
    · rename_i ha
      simp only [List.drop_zero] at hy
      have hea : c e a = true := hmin a (by simp)
      have hae : c a e = false := by
        cases h : c a e
        · rfl
        · exact absurd (by simp [eqv, hea, h]) ha
      rcases List.mem_cons.mp hy with rfl | hy
      · exact hae
      · cases h : c y e
        · rfl
        · have := hc.trans _ _ _ (hs'.1 y hy) h
          rw [hae] at this; exact absurd this (by simp)

/-- Sum of the left / right sizes of a list of groups. -/
def sumL : List (Nat × Nat) → Nat
  | [] => 0
  | g :: gs => g.1 + sumL gs
def sumR : List (Nat × Nat) → Nat
  | [] => 0
  | g :: gs => g.2 + sumR gs

theorem sumL_append (G₁ G₂ : List (Nat × Nat)) : sumL (G₁ ++ G₂) = sumL G₁ + sumL G₂ := by
  induction G₁ with
  | nil => simp [sumL]
  | cons g gs ih => simp [sumL, ih]; omega
theorem sumR_append (G₁ G₂ : List (Nat × Nat)) : sumR (G₁ ++ G₂) = sumR G₁ + sumR G₂ := by
  induction G₁ with
  | nil => simp [sumR]
  | cons g gs ih => simp [sumR, ih]; omega

/-- The groups of `runs` consume both lists completely (given enough fuel and a reflexive comparator). -/
theorem runsAux_sums {c : β → β → Bool} (hc : TotalPre c) : ∀ (fuel : Nat) (l r : List β), l.length + r.length ≤ fuel →
    sumL (runsAux c fuel l r) = l.length ∧ sumR (runsAux c fuel l r) = r.length
  | 0, l, r, h => by
    have hl : l = [] := List.eq_nil_of_length_eq_zero (by omega)
    have hr : r = [] := List.eq_nil_of_length_eq_zero (by omega)
    subst hl; subst hr; simp [runsAux, sumL, sumR]
  | fuel + 1, [], [], _ => by simp [runsAux, sumL, sumR]
  | fuel + 1, a :: l, [], h => by
    simp only [runsAux, sumL, sumR]
    have h1 : runLen (eqv c a) (a :: l) = runLen (eqv c a) l + 1 := by simp [runLen, eqv_refl hc a]
    have h2 := runLen_le (eqv c a) l
    have ih := runsAux_sums hc fuel ((a :: l).drop (runLen (eqv c a) (a :: l))) [] (by
      simp [List.length_drop] at h ⊢; omega)
    rw [ih.1, ih.2]; simp [List.length_drop]; omega
  | fuel + 1, [], b :: r, h => by
    simp only [runsAux, sumL, sumR]
    have h1 : runLen (eqv c b) (b :: r) = runLen (eqv c b) r + 1 := by simp [runLen, eqv_refl hc b]
    have h2 := runLen_le (eqv c b) r
    have ih := runsAux_sums hc fuel [] ((b :: r).drop (runLen (eqv c b) (b :: r))) (by
      simp [List.length_drop] at h ⊢; omega)
    rw [ih.1, ih.2]; simp [List.length_drop]; omega
  | fuel + 1, a :: l, b :: r, h => by
    simp only [runsAux, sumL, sumR]
    have hpos : 1 ≤ runLen (eqv c (if c a b = true then a else b)) (a :: l)
        + runLen (eqv c (if c a b = true then a else b)) (b :: r) := by
      split
      · simp [runLen, eqv_refl hc a]; omega
      · simp only [runLen, eqv_refl hc b, if_true]; omega
    have h2 := runLen_le (eqv c (if c a b = true then a else b)) (a :: l)
    have h3 := runLen_le (eqv c (if c a b = true then a else b)) (b :: r)
    have ih := runsAux_sums hc fuel ((a :: l).drop (runLen (eqv c (if c a b = true then a else b)) (a :: l)))
      ((b :: r).drop (runLen (eqv c (if c a b = true then a else b)) (b :: r))) (by
      simp only [List.length_drop, List.length_cons] at h h2 h3 ⊢; omega)
    rw [ih.1, ih.2]; simp only [List.length_drop, List.length_cons] at h2 h3 ⊢; omega

theorem runs_sums {c : β → β → Bool} (hc : TotalPre c) (l r : List β) :
    sumL (runs c l r) = l.length ∧ sumR (runs c l r) = r.length := runsAux_sums hc _ l r (Nat.le_refl _)

/-! ### group-wise merge -/

/-- Concatenation over the groups of the merge of the two group slices (what merge_partitioned computes before
    the limit cut). -/
def gmerge (le : β → β → Bool) : List (Nat × Nat) → List β → List β → List β
  | [], _, _ => []
  | (gl, gr) :: gs, l, r => mergeAll le (l.take gl) (r.take gr) ++ gmerge le gs (l.drop gl) (r.drop gr)

theorem gmerge_append (le : β → β → Bool) : ∀ (G₁ G₂ : List (Nat × Nat)) (l r : List β),
    gmerge le (G₁ ++ G₂) l r = gmerge le G₁ l r ++ gmerge le G₂ (l.drop (sumL G₁)) (r.drop (sumR G₁))
  | [], G₂, l, r => by simp [gmerge, sumL, sumR]
  | (gl, gr) :: gs, G₂, l, r => by
    simp only [List.cons_append, gmerge, sumL, sumR, List.append_assoc]
    rw [gmerge_append le gs G₂, List.drop_drop, List.drop_drop]

/-- Only the rows covered by the groups matter. -/
theorem gmerge_prefix (le : β → β → Bool) : ∀ (G : List (Nat × Nat)) (l₁ l₂ r₁ r₂ : List β),
    sumL G ≤ l₁.length → sumR G ≤ r₁.length → gmerge le G (l₁ ++ l₂) (r₁ ++ r₂) = gmerge le G l₁ r₁
  | [], _, _, _, _, _, _ => by simp [gmerge]
  | (gl, gr) :: gs, l₁, l₂, r₁, r₂, hl, hr => by
    simp only [sumL, sumR] at hl hr
    simp only [gmerge]
    rw [List.take_append_of_le_length (by omega), List.take_append_of_le_length (by omega)]
    rw [List.drop_append_of_le_length (by omega), List.drop_append_of_le_length (by omega)]
    rw [gmerge_prefix le gs _ _ _ _ (by simp [List.length_drop]; omega) (by simp [List.length_drop]; omega)]

theorem lexOf_cons_of_eqv (c : β → β → Bool) (K : List (β → β → Bool)) (x y : β) (h : eqv c x y = true) :
    lexOf (c :: K) x y = lexOf K x y := by
  simp [eqv] at h; simp [lexOf, h.1, h.2]

theorem SB_lexOf_cons (c : β → β → Bool) (K : List (β → β → Bool)) (x y : β) (h1 : c x y = true) (h2 : c y x = false) :
    SB (lexOf (c :: K)) x y := by
  simp [SB, lexOf, h1, h2]

theorem sorted_lex_imp_sorted_head {c : β → β → Bool} {K : List (β → β → Bool)} {S : List β}
    (h : Sorted (lexOf (c :: K)) S) : Sorted c S := by
  refine List.Pairwise.imp ?_ h
  intro a b hab
  simp only [lexOf] at hab
  cases hc : c a b
  · simp [hc] at hab
  · rfl

/-- Run decomposition: for lists sorted lexicographically by `c :: K`, merging run by run (runs of the first key)
    with the remaining keys is the lexicographic merge. -/
theorem gmerge_runsAux {c : β → β → Bool} (hc : TotalPre c) (K : List (β → β → Bool)) :
    ∀ (fuel : Nat) (l r : List β), l.length + r.length ≤ fuel →
      Sorted (lexOf (c :: K)) l → Sorted (lexOf (c :: K)) r →
      gmerge (lexOf K) (runsAux c fuel l r) l r = mergeAll (lexOf (c :: K)) l r
  | 0, l, r, h, _, _ => by
    have hl : l = [] := List.eq_nil_of_length_eq_zero (by omega)
    have hr : r = [] := List.eq_nil_of_length_eq_zero (by omega)
    subst hl; subst hr; simp [runsAux, gmerge, mergeAll]
  | fuel + 1, [], [], _, _, _ => by simp [runsAux, gmerge, mergeAll]
  | fuel + 1, a :: l, [], h, hl, hr => by
    simp only [runsAux, gmerge, List.take_nil, List.drop_nil, mergeAll_nil_right]
    have h1 : runLen (eqv c a) (a :: l) = runLen (eqv c a) l + 1 := by simp [runLen, eqv_refl hc a]
    have h2 := runLen_le (eqv c a) l
    have ih := gmerge_runsAux hc K fuel ((a :: l).drop (runLen (eqv c a) (a :: l))) [] (by
      simp [List.length_drop] at h ⊢; omega) (Sorted.sublist (List.drop_sublist _ _) hl) hr
    rw [ih, mergeAll_nil_right, List.take_append_drop]
  | fuel + 1, [], b :: r, h, hl, hr => by
    simp only [runsAux, gmerge, List.take_nil, List.drop_nil, mergeAll_nil_left]
    have h1 : runLen (eqv c b) (b :: r) = runLen (eqv c b) r + 1 := by simp [runLen, eqv_refl hc b]
    have h2 := runLen_le (eqv c b) r
    have ih := gmerge_runsAux hc K fuel [] ((b :: r).drop (runLen (eqv c b) (b :: r))) (by
      simp [List.length_drop] at h ⊢; omega) hl (Sorted.sublist (List.drop_sublist _ _) hr)
    rw [ih, mergeAll_nil_left, List.take_append_drop]
  | fuel + 1, a :: l, b :: r, h, hl, hr => by
    simp only [runsAux, gmerge]
    generalize he : (if c a b = true then a else b) = e
    have hlc := sorted_lex_imp_sorted_head hl
    have hrc := sorted_lex_imp_sorted_head hr
    have hlc' := List.pairwise_cons.mp hlc
    have hrc' := List.pairwise_cons.mp hrc
    -- e is a minimum of both lists
    have hea : c e a = true := by
      rw [← he]; split
      · rcases hc.total a a with h1 | h1 <;> exact h1
      · rename_i hab; rcases hc.total a b with h1 | h1
        · exact absurd h1 hab
        · exact h1
    have heb : c e b = true := by
      rw [← he]; split
      · rename_i hab; exact hab
      · rcases hc.total b b with h1 | h1 <;> exact h1
    have hminl : ∀ y ∈ a :: l, c e y = true := by
      intro y hy; rcases List.mem_cons.mp hy with rfl | hy
      · exact hea
      · exact hc.trans _ _ _ hea (hlc'.1 y hy)
    have hminr : ∀ y ∈ b :: r, c e y = true := by
      intro y hy; rcases List.mem_cons.mp hy with rfl | hy
      · exact heb
      · exact hc.trans _ _ _ heb (hrc'.1 y hy)
    have hpos : 1 ≤ runLen (eqv c e) (a :: l) + runLen (eqv c e) (b :: r) := by
      rw [← he]; split
      · simp [runLen, eqv_refl hc a]; omega
      · simp only [runLen, eqv_refl hc b, if_true]; omega
    have h2 := runLen_le (eqv c e) (a :: l)
    have h3 := runLen_le (eqv c e) (b :: r)
    have ih := gmerge_runsAux hc K fuel ((a :: l).drop (runLen (eqv c e) (a :: l)))
      ((b :: r).drop (runLen (eqv c e) (b :: r))) (by
        simp only [List.length_drop, List.length_cons] at h h2 h3 ⊢; omega)
      (Sorted.sublist (List.drop_sublist _ _) hl) (Sorted.sublist (List.drop_sublist _ _) hr)
    rw [ih]
    -- split both lists at the run boundary
    have hsplit := mergeAll_append (lexOf (c :: K)) ((a :: l).take (runLen (eqv c e) (a :: l)))
      ((b :: r).take (runLen (eqv c e) (b :: r))) ((a :: l).drop (runLen (eqv c e) (a :: l)))
      ((b :: r).drop (runLen (eqv c e) (b :: r))) (by
        intro x hx y hy
        have hxe : eqv c e x = true := by
          rcases List.mem_append.mp hx with hx | hx
          · exact runLen_take _ _ x hx
          · exact runLen_take _ _ x hx
        have hye : c y e = false := by
          rcases List.mem_append.mp hy with hy | hy
          · exact runLen_drop hc e _ hlc hminl y hy
          · exact runLen_drop hc e _ hrc hminr y hy
        have hey : c e y = true := by
          rcases List.mem_append.mp hy with hy | hy
          · exact hminl y ((List.drop_sublist _ _).subset hy)
          · exact hminr y ((List.drop_sublist _ _).subset hy)
        simp [eqv] at hxe
        apply SB_lexOf_cons
        · exact hc.trans _ _ _ hxe.2 hey
        · cases hyx : c y x
          · rfl
          · have := hc.trans _ _ _ hyx hxe.2
            rw [hye] at this; exact absurd this (by simp))
    rw [List.take_append_drop, List.take_append_drop] at hsplit
    rw [hsplit]
    congr 1
    -- inside the run all rows tie on the first key
    apply mergeAll_congr
    intro x hx y hy
    have hxe := runLen_take _ _ x hx
    have hye := runLen_take _ _ y hy
    exact (lexOf_cons_of_eqv c K x y (eqv_trans hc (eqv_symm hxe) hye)).symm

theorem gmerge_runs {c : β → β → Bool} (hc : TotalPre c) (K : List (β → β → Bool)) (l r : List β)
    (hl : Sorted (lexOf (c :: K)) l) (hr : Sorted (lexOf (c :: K)) r) :
    gmerge (lexOf K) (runs c l r) l r = mergeAll (lexOf (c :: K)) l r :=
  gmerge_runsAux hc K _ l r (Nat.le_refl _) hl hr

end LM.OrderSpec
