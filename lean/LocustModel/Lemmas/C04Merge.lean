import LocustModel.Query.Merge
/-
  C04 helper lemmas about the two-way merge of grouped partial results
  (merge_deduplicate → MergeOp list → merge_aggregate / merge_drop): the lockstep invariants.
-/
namespace LM.C04L
open LM LM.Merge

/-- Specification: merge two key-sorted association lists (group key ↦ partial aggregate),
    combining the values of equal keys. This is "group by over the union of the rows". -/
def specMerge (op : Agg) : List (Int × Int) → List (Int × Int) → Except MergeErr (List (Int × Int))
  | [], r => .ok r
  | l, [] => .ok l
  | (k1, v1) :: l, (k2, v2) :: r =>
      if k1 < k2 then
        match specMerge op l ((k2, v2) :: r) with
        | .ok t => .ok ((k1, v1) :: t) | .error e => .error e
      else if k2 < k1 then
        match specMerge op ((k1, v1) :: l) r with
        | .ok t => .ok ((k2, v2) :: t) | .error e => .error e
      else
        match combine op v1 v2 with
        | .error e => .error e
        | .ok v => match specMerge op l r with
          | .ok t => .ok ((k1, v) :: t) | .error e => .error e

/-- No group is invented: every key of the merged result is a key of one of the inputs. -/
theorem dedup_sound (last : Option Int) (l r : List Int) (x : Int) :
    x ∈ (mergeDedup false last l r).1 → x ∈ l ∨ x ∈ r := by
  fun_induction mergeDedup false last l r <;> simp_all <;> grind

/-- No group is lost: every key of either input is in the result, or is the key that the previous
    step already emitted (`last`) and is being merged into. -/
theorem dedup_complete (last : Option Int) (l r : List Int) (x : Int) :
    x ∈ l ∨ x ∈ r → x ∈ (mergeDedup false last l r).1 ∨ last = some x := by
  fun_induction mergeDedup false last l r <;> simp_all <;> grind

theorem mergeDrop_left_tail {α : Type} (l r : List α) :
    mergeDrop (l.map fun _ => MergeOp.takeLeft) l r = some l := by
  induction l with
  | nil => simp [mergeDrop]
  | cons a l ih => simp [mergeDrop, ih]

theorem mergeDrop_right_tail {α : Type} (l r : List α) :
    mergeDrop (r.map fun _ => MergeOp.takeRight) l r = some r := by
  induction r with
  | nil => simp [mergeDrop]
  | cons b r ih => simp [mergeDrop, ih]

/-- Replaying the ops with `merge_drop` on the key columns reproduces the deduplicated keys, so the ops
    are a well-formed script for both inputs (never index out of bounds). -/
theorem merge_drop_replays (last : Option Int) (l r : List Int) :
    mergeDrop (mergeDedup false last l r).2 l r = some (mergeDedup false last l r).1 := by
  fun_induction mergeDedup false last l r <;>
    simp_all [mergeDrop, mergeDrop_left_tail, mergeDrop_right_tail]

/-! ### Value-level specification, in lockstep over keys and partial aggregates -/

/-- Keys of the union of two strictly ascending key lists. -/
def specKeys : List Int → List Int → List Int
  | [], kr => kr
  | kl, [] => kl
  | k1 :: kl, k2 :: kr =>
      if k1 < k2 then k1 :: specKeys kl (k2 :: kr)
      else if k2 < k1 then k2 :: specKeys (k1 :: kl) kr
      else k1 :: specKeys kl kr

/-- Aggregates of the union: the partial aggregates of a key present on both sides are combined,
    all others are carried over. -/
def specVals (op : Agg) : List Int → List Int → List Int → List Int → Except MergeErr (List Int)
  | [], _, _, vr => .ok vr
  | _ :: _, [], vl, _ => .ok vl
  | k1 :: kl, k2 :: kr, v1 :: vl, v2 :: vr =>
      if k1 < k2 then
        match specVals op kl (k2 :: kr) vl (v2 :: vr) with
        | .ok t => .ok (v1 :: t) | .error e => .error e
      else if k2 < k1 then
        match specVals op (k1 :: kl) kr (v1 :: vl) vr with
        | .ok t => .ok (v2 :: t) | .error e => .error e
      else
        match combine op v1 v2 with
        | .error e => .error e
        | .ok v => match specVals op kl kr vl vr with
          | .ok t => .ok (v :: t) | .error e => .error e
  | _ :: _, _ :: _, _, _ => .error .fault

def StrictAsc (l : List Int) : Prop := l.Pairwise (· < ·)

theorem mergeAggLoop_left_tail (op : Agg) (l r acc : List Int) (ks : List Int) (h : ks.length = l.length) :
    mergeAggLoop op (ks.map fun _ => MergeOp.takeLeft) l r acc = .ok (acc.reverse ++ l) := by
  induction l generalizing acc ks with
  | nil => cases ks <;> simp_all [mergeAggLoop]
  | cons a l ih =>
    cases ks with
    | nil => simp at h
    | cons k ks => simp at h; simp [mergeAggLoop, ih _ ks h]

theorem mergeAggLoop_right_tail (op : Agg) (l r acc : List Int) (ks : List Int) (h : ks.length = r.length) :
    mergeAggLoop op (ks.map fun _ => MergeOp.takeRight) l r acc = .ok (acc.reverse ++ r) := by
  induction r generalizing acc ks with
  | nil => cases ks <;> simp_all [mergeAggLoop]
  | cons b r ih =>
    cases ks with
    | nil => simp at h
    | cons k ks => simp at h; simp [mergeAggLoop, ih _ ks h]

/-- Pushing a key that is smaller than everything on the right back onto the left list only
    prepends its value. -/
theorem specVals_cons_lt (op : Agg) (k0 v0 : Int) (kl kr vl vr : List Int)
    (hvl : vl.length = kl.length) (hvr : vr.length = kr.length) (hlt : ∀ y ∈ kr, k0 < y) :
    specVals op (k0 :: kl) kr (v0 :: vl) vr =
      (match specVals op kl kr vl vr with | .ok t => .ok (v0 :: t) | .error e => .error e) := by
  cases kr with
  | nil =>
    cases vr with
    | nil =>
      cases kl with
      | nil =>
        have : vl = [] := by cases vl <;> simp_all
        subst this; simp [specVals]
      | cons _ _ => simp [specVals]
    | cons _ _ => simp at hvr
  | cons b r =>
    cases vr with
    | nil => simp at hvr
    | cons w vr' =>
      have : k0 < b := hlt b (by simp)
      simp [specVals, this]

/-- Core invariant of the two loops run in lockstep: with a pending last key `k0` (already emitted,
    value `v0` on top of the accumulator) that is below everything left and not above anything right,
    the aggregate loop over the ops produced by merge_deduplicate computes the specification applied
    to the inputs with the pending pair pushed back. -/
theorem loop_pending (op : Agg) (last : Option Int) (kl kr : List Int) :
    ∀ (k0 v0 : Int) (av vl vr : List Int), last = some k0 →
      StrictAsc kl → StrictAsc kr → vl.length = kl.length → vr.length = kr.length →
      (∀ y ∈ kl, k0 < y) → (∀ y ∈ kr, k0 ≤ y) →
      mergeAggLoop op (mergeDedup false last kl kr).2 vl vr (v0 :: av) =
        (match specVals op (k0 :: kl) kr (v0 :: vl) vr with
          | .ok t => .ok (av.reverse ++ t) | .error e => .error e) := by
  fun_induction mergeDedup false last kl kr with
  | case1 x l =>
    -- right exhausted
    intro k0 v0 av vl vr _ _ _ hvl hvr _ _
    have : vr = [] := by cases vr <;> simp_all
    subst this
    simp only []
    rw [mergeAggLoop_left_tail op vl [] (v0 :: av) l hvl.symm]
    simp [specVals]
  | case2 b r =>
    -- left exhausted, pending key equals next right key
    intro k0 v0 av vl vr hk _ hr hvl hvr _ hle
    have hk : k0 = b := by simp at hk; exact hk.symm
    subst hk
    have : vl = [] := by cases vl <;> simp_all
    subst this
    cases vr with
    | nil => simp at hvr
    | cons w vr' =>
      simp at hvr
      simp only [mergeAggLoop, specVals]
      have h1 : ¬ k0 < k0 := by omega
      simp only [h1, if_false]
      cases hc : combine op v0 w with
      | error e => simp
      | ok c =>
        simp only []
        rw [mergeAggLoop_right_tail op [] vr' (c :: av) r hvr.symm]
        simp [specVals]
  | case3 last b r h =>
    -- left exhausted, pending key below next right key
    intro k0 v0 av vl vr hk _ hr hvl hvr _ hle
    subst hk
    have hne : k0 ≠ b := by intro hh; subst hh; simp at h
    have hlt : k0 < b := by have := hle b (by simp); omega
    have : vl = [] := by cases vl <;> simp_all
    subst this
    cases vr with
    | nil => simp at hvr
    | cons w vr' =>
      simp at hvr
      have := mergeAggLoop_right_tail op [] (w :: vr') (v0 :: av) (b :: r) (by simp [hvr])
      simp only [List.map_cons] at this
      simp only []
      rw [this]
      simp [specVals, hlt]
  | case4 a l b r m o hm ih =>
    -- both non-empty, merge right
    intro k0 v0 av vl vr hk hl hr hvl hvr hlt hle
    have hk : k0 = b := by simp at hk; exact hk.symm
    subst hk
    cases vr with
    | nil => simp at hvr
    | cons w vr' =>
      cases vl with
      | nil => simp at hvl
      | cons v vl' =>
        simp at hvr hvl
        have hr' : StrictAsc r := (List.pairwise_cons.mp hr).2
        have hbr : ∀ y ∈ r, k0 < y := (List.pairwise_cons.mp hr).1
        simp only [mergeAggLoop, hm]
        have h1 : ¬ k0 < k0 := by omega
        have hspec : specVals op (k0 :: a :: l) (k0 :: r) (v0 :: v :: vl') (w :: vr') =
            (match combine op v0 w with
              | .error e => .error e
              | .ok c => match specVals op (a :: l) r (v :: vl') vr' with
                | .ok t => .ok (c :: t) | .error e => .error e) := by
          simp only [specVals, h1, if_false]
        rw [hspec]
        cases hc : combine op v0 w with
        | error e => simp
        | ok c =>
          simp only []
          have ih' := ih k0 c av (v :: vl') vr' rfl hl hr' (by simp [hvl]) hvr hlt
            (fun y hy => by have := hbr y hy; omega)
          simp only [hm] at ih'
          rw [ih', specVals_cons_lt op k0 c (a :: l) r (v :: vl') vr' (by simp [hvl]) hvr hbr]
  | case5 last a l b r h hcmp m o hm ih =>
    -- both non-empty, take left
    intro k0 v0 av vl vr hk hl hr hvl hvr hlt hle
    subst hk
    have hne : k0 ≠ b := by intro hh; subst hh; simp at h
    have hlt0 : k0 < b := by have := hle b (by simp); omega
    have hab : a ≤ b := by simpa [cmpEq] using hcmp
    cases vr with
    | nil => simp at hvr
    | cons w vr' =>
      cases vl with
      | nil => simp at hvl
      | cons v vl' =>
        simp at hvr hvl
        have hl' : StrictAsc l := (List.pairwise_cons.mp hl).2
        have hal : ∀ y ∈ l, a < y := (List.pairwise_cons.mp hl).1
        have hbr : ∀ y ∈ r, b < y := (List.pairwise_cons.mp hr).1
        simp only [mergeAggLoop, hm]
        have ih' := ih a v (v0 :: av) vl' (w :: vr') rfl hl' hr hvl (by simp [hvr]) hal
          (fun y hy => by
            rcases List.mem_cons.mp hy with h1 | h1
            · subst h1; exact hab
            · have := hbr y h1; omega)
        simp only [hm] at ih'
        rw [ih']
        have hspec : specVals op (k0 :: a :: l) (b :: r) (v0 :: v :: vl') (w :: vr') =
            (match specVals op (a :: l) (b :: r) (v :: vl') (w :: vr') with
              | .ok t => .ok (v0 :: t) | .error e => .error e) := by
          simp only [specVals, hlt0, if_true]
        rw [hspec]
        cases specVals op (a :: l) (b :: r) (v :: vl') (w :: vr') <;> simp
  | case6 last a l b r h hcmp m o hm ih =>
    -- both non-empty, take right
    intro k0 v0 av vl vr hk hl hr hvl hvr hlt hle
    subst hk
    have hne : k0 ≠ b := by intro hh; subst hh; simp at h
    have hlt0 : k0 < b := by have := hle b (by simp); omega
    have hba : b < a := by
      have : ¬ a ≤ b := by simpa [cmpEq] using hcmp
      omega
    cases vr with
    | nil => simp at hvr
    | cons w vr' =>
      cases vl with
      | nil => simp at hvl
      | cons v vl' =>
        simp at hvr hvl
        have hr' : StrictAsc r := (List.pairwise_cons.mp hr).2
        have hal : ∀ y ∈ l, a < y := (List.pairwise_cons.mp hl).1
        have hbr : ∀ y ∈ r, b < y := (List.pairwise_cons.mp hr).1
        simp only [mergeAggLoop, hm]
        have ih' := ih b w (v0 :: av) (v :: vl') vr' rfl hl hr' (by simp [hvl]) hvr
          (fun y hy => by
            rcases List.mem_cons.mp hy with h1 | h1
            · subst h1; exact hba
            · have := hal y h1; omega)
          (fun y hy => by have := hbr y hy; omega)
        simp only [hm] at ih'
        rw [ih', specVals_cons_lt op b w (a :: l) r (v :: vl') vr' (by simp [hvl]) hvr hbr]
        have h1 : ¬ a < b := by omega
        have hspec : specVals op (k0 :: a :: l) (b :: r) (v0 :: v :: vl') (w :: vr') =
            (match specVals op (a :: l) r (v :: vl') vr' with
              | .ok t => .ok (v0 :: w :: t) | .error e => .error e) := by
          simp only [specVals, hlt0, if_true, h1, if_false, hba]
          cases specVals op (a :: l) r (v :: vl') vr' <;> simp
        rw [hspec]
        cases specVals op (a :: l) r (v :: vl') vr' <;> simp

theorem specKeys_cons_lt (k0 : Int) (kl kr : List Int) (hlt : ∀ y ∈ kr, k0 < y) :
    specKeys (k0 :: kl) kr = k0 :: specKeys kl kr := by
  cases kr with
  | nil => cases kl <;> simp [specKeys]
  | cons b r => have : k0 < b := hlt b (by simp); simp [specKeys, this]

/-- Key-level invariant: with pending (already emitted) key `k0`, the keys still to be emitted are
    the union of the remaining inputs minus `k0`. -/
theorem keys_pending (last : Option Int) (kl kr : List Int) :
    ∀ (k0 : Int), last = some k0 → StrictAsc kl → StrictAsc kr →
      (∀ y ∈ kl, k0 < y) → (∀ y ∈ kr, k0 ≤ y) →
      k0 :: (mergeDedup false last kl kr).1 = specKeys (k0 :: kl) kr := by
  fun_induction mergeDedup false last kl kr with
  | case1 x l => intro k0 _ _ _ _ _; simp [specKeys]
  | case2 b r =>
    intro k0 hk _ hr _ _
    have hk : k0 = b := by simp at hk; exact hk.symm
    subst hk
    have h1 : ¬ k0 < k0 := by omega
    simp [specKeys, h1]
  | case3 last b r h =>
    intro k0 hk _ hr _ hle
    subst hk
    have hne : k0 ≠ b := by intro hh; subst hh; simp at h
    have hlt : k0 < b := by have := hle b (by simp); omega
    simp [specKeys, hlt]
  | case4 a l b r m o hm ih =>
    intro k0 hk hl hr hlt hle
    have hk : k0 = b := by simp at hk; exact hk.symm
    subst hk
    have hr' : StrictAsc r := (List.pairwise_cons.mp hr).2
    have hbr : ∀ y ∈ r, k0 < y := (List.pairwise_cons.mp hr).1
    have h1 : ¬ k0 < k0 := by omega
    have ih' := ih k0 rfl hl hr' hlt (fun y hy => by have := hbr y hy; omega)
    simp only [hm] at ih'
    simp only [specKeys, h1, if_false]
    rw [specKeys_cons_lt k0 (a :: l) r hbr] at ih'
    simp at ih'
    simp [ih']
  | case5 last a l b r h hcmp m o hm ih =>
    intro k0 hk hl hr hlt hle
    subst hk
    have hne : k0 ≠ b := by intro hh; subst hh; simp at h
    have hlt0 : k0 < b := by have := hle b (by simp); omega
    have hab : a ≤ b := by simpa [cmpEq] using hcmp
    have hl' : StrictAsc l := (List.pairwise_cons.mp hl).2
    have hal : ∀ y ∈ l, a < y := (List.pairwise_cons.mp hl).1
    have hbr : ∀ y ∈ r, b < y := (List.pairwise_cons.mp hr).1
    have ih' := ih a rfl hl' hr hal (fun y hy => by
      rcases List.mem_cons.mp hy with h1 | h1
      · subst h1; exact hab
      · have := hbr y h1; omega)
    simp only [hm] at ih'
    rw [specKeys_cons_lt k0 (a :: l) (b :: r) (fun y hy => by
      rcases List.mem_cons.mp hy with h1 | h1
      · subst h1; exact hlt0
      · have := hbr y h1; omega)]
    simp [hm, ih']
  | case6 last a l b r h hcmp m o hm ih =>
    intro k0 hk hl hr hlt hle
    subst hk
    have hne : k0 ≠ b := by intro hh; subst hh; simp at h
    have hlt0 : k0 < b := by have := hle b (by simp); omega
    have hba : b < a := by
      have : ¬ a ≤ b := by simpa [cmpEq] using hcmp
      omega
    have hr' : StrictAsc r := (List.pairwise_cons.mp hr).2
    have hal : ∀ y ∈ l, a < y := (List.pairwise_cons.mp hl).1
    have hbr : ∀ y ∈ r, b < y := (List.pairwise_cons.mp hr).1
    have ih' := ih b rfl hl hr' (fun y hy => by
        rcases List.mem_cons.mp hy with h1 | h1
        · subst h1; exact hba
        · have := hal y h1; omega)
      (fun y hy => by have := hbr y hy; omega)
    simp only [hm] at ih'
    rw [specKeys_cons_lt b (a :: l) r hbr] at ih'
    have h1 : ¬ a < b := by omega
    simp only [specKeys, hlt0, if_true, h1, if_false, hba]
    simp at ih'
    simp [ih']

/-- **Groups, once each.** For strictly ascending (= duplicate-free, sorted) group keys of two
    partial results, merge_deduplicate emits exactly the sorted union of the keys — every distinct
    group exactly once. All lengths, all key values. -/
theorem dedup_keys (kl kr : List Int) (hl : StrictAsc kl) (hr : StrictAsc kr) :
    (mergeDedup false none kl kr).1 = specKeys kl kr := by
  cases kl with
  | nil => cases kr <;> simp [mergeDedup, specKeys]
  | cons a l =>
    cases kr with
    | nil => simp [mergeDedup, specKeys]
    | cons b r =>
      have hal : ∀ y ∈ l, a < y := (List.pairwise_cons.mp hl).1
      have hbr : ∀ y ∈ r, b < y := (List.pairwise_cons.mp hr).1
      have hl' : StrictAsc l := (List.pairwise_cons.mp hl).2
      have hr' : StrictAsc r := (List.pairwise_cons.mp hr).2
      by_cases hab : a ≤ b
      · have hc : cmpEq false a b = true := by simp [cmpEq, hab]
        have := keys_pending (some a) l (b :: r) a rfl hl' hr hal (fun y hy => by
          rcases List.mem_cons.mp hy with h1 | h1
          · subst h1; exact hab
          · have := hbr y h1; omega)
        simp only [mergeDedup, hc]
        simp
        rw [this]
      · have hc : ¬ cmpEq false a b = true := by simp [cmpEq, hab]
        have hba : b < a := by omega
        have := keys_pending (some b) (a :: l) r b rfl hl hr' (fun y hy => by
          rcases List.mem_cons.mp hy with h1 | h1
          · subst h1; exact hba
          · have := hal y h1; omega) (fun y hy => by have := hbr y hy; omega)
        simp only [mergeDedup, hc]
        simp
        rw [this, specKeys_cons_lt b (a :: l) r hbr]
        have h1 : ¬ a < b := by omega
        simp [specKeys, h1, hba]

/-- **Aggregates per group over all rows.** Driving merge_aggregate with the ops of merge_deduplicate
    combines exactly the partial aggregates of equal keys and carries all others over, position by
    position aligned with `dedup_keys` — or fails with the specification's own error (overflow
    of the exact sum). Holds for every aggregator, all lengths, all key and value contents. -/
theorem merge_aggregate_spec (op : Agg) (kl kr vl vr : List Int)
    (hl : StrictAsc kl) (hr : StrictAsc kr) (hvl : vl.length = kl.length) (hvr : vr.length = kr.length) :
    mergeAggregate op (mergeDedup false none kl kr).2 vl vr = specVals op kl kr vl vr := by
  cases kl with
  | nil =>
    have : vl = [] := by cases vl <;> simp_all
    subst this
    simp [mergeAggregate, specVals]
  | cons a l =>
    cases kr with
    | nil =>
      have : vr = [] := by cases vr <;> simp_all
      subst this
      cases vl with
      | nil => simp at hvl
      | cons v vl' => simp [mergeAggregate, specVals]
    | cons b r =>
      cases vl with
      | nil => simp at hvl
      | cons v vl' =>
        cases vr with
        | nil => simp at hvr
        | cons w vr' =>
          simp at hvl hvr
          have hal : ∀ y ∈ l, a < y := (List.pairwise_cons.mp hl).1
          have hbr : ∀ y ∈ r, b < y := (List.pairwise_cons.mp hr).1
          have hl' : StrictAsc l := (List.pairwise_cons.mp hl).2
          have hr' : StrictAsc r := (List.pairwise_cons.mp hr).2
          simp only [mergeAggregate, List.isEmpty_cons, Bool.false_eq_true, if_false]
          by_cases hab : a ≤ b
          · have hc : cmpEq false a b = true := by simp [cmpEq, hab]
            have := loop_pending op (some a) l (b :: r) a v [] vl' (w :: vr') rfl hl' hr hvl
              (by simp [hvr]) hal (fun y hy => by
                rcases List.mem_cons.mp hy with h1 | h1
                · subst h1; exact hab
                · have := hbr y h1; omega)
            simp only [mergeDedup, hc]
            simp only [if_true, reduceCtorEq, if_false, mergeAggLoop]
            simp at this
            simp [this]
            cases specVals op (a :: l) (b :: r) (v :: vl') (w :: vr') <;> simp
          · have hc : ¬ cmpEq false a b = true := by simp [cmpEq, hab]
            have hba : b < a := by omega
            have := loop_pending op (some b) (a :: l) r b w [] (v :: vl') vr' rfl hl hr'
              (by simp [hvl]) hvr (fun y hy => by
                rcases List.mem_cons.mp hy with h1 | h1
                · subst h1; exact hba
                · have := hal y h1; omega) (fun y hy => by have := hbr y hy; omega)
            simp only [mergeDedup, hc]
            simp only [reduceCtorEq, if_false, mergeAggLoop]
            simp at this
            rw [specVals_cons_lt op b w (a :: l) r (v :: vl') vr' (by simp [hvl]) hvr hbr] at this
            have h1 : ¬ a < b := by omega
            simp [this, specVals, h1, hba]
            cases specVals op (a :: l) r (v :: vl') vr' <;> simp

example : StrictAsc [1, 4, 9] ∧ StrictAsc [4, 5] := by simp [StrictAsc]
example : specKeys [1, 4, 9] [4, 5] = [1, 4, 5, 9] := by simp [specKeys]
example : specVals .sum [1, 4, 9] [4, 5] [10, 20, 30] [7, 8] = .ok [10, 27, 8, 30] := by
  simp [specVals, combine, I64_MAX, inI64, I64_MIN]

end LM.C04L
