import LocustModel.Lemmas.StoreDurableRun
/-
  Invariant `Durable`, part 6: a restart after any history SUCCEEDS (no assert / unwrap / expect of
  Storage::recover, InnerLocustDB::new or the lazy column-name query can fire), for every replay order.
-/
namespace LM.Store
set_option linter.unusedSectionVars false
set_option linter.unusedSimpArgs false
set_option linter.unusedVariables false

variable {ν κ : Type} [DecidableEq ν]

theorem queryColumnNames_ok_of {T : Tables ν κ} {n : ν} {tmc : TableMem ν κ} {bs : List (Batch ν κ)} {L : List (CName ν)}
    (h1 : T (.metaCols n) = some tmc) (h2 : tableBatches tmc = .ok bs)
    (h3 : readColumn .columnName bs = L.map Cell.cname) (hne : L ≠ []) : queryColumnNames T n = .ok L := by
  simp only [queryColumnNames, h1, h2, h3]
  cases L with
  | nil => exact absurd rfl hne
  | cons c cs =>
    have := allCnames_map (κ := κ) (c :: cs)
    simp only [List.map_cons] at this ⊢
    rw [this]

theorem applyShare_total (T : Tables ν κ) (sh : Share ν κ) (tm : TableMem ν κ) (s : List (CName ν))
    (hT : T sh.1 = some tm) (hs : tm.colNames = some s) (h1 : sh.2.nrows ≠ 0) (h2 : sh.2.cols ≠ []) :
    ∃ T', applyShare T sh = .ok T' := by
  have hc : sh.2.cols.isEmpty = false := by
    cases hq : sh.2.cols with
    | nil => exact absurd hq h2
    | cons a as => rfl
  simp [applyShare, hT, ingestHomogeneous, hs, h1, hc]

theorem names_ne_nil_of_log {log : List (Request ν κ)} (hlc : LogCat log) (t : TName ν) (h : logOf t log ≠ []) :
    ∃ c, c ∈ namesIn (logOf t log) := by
  obtain ⟨b, bs, hb⟩ := List.exists_cons_of_ne_nil h
  have hbm : b ∈ logOf t log := by rw [hb]; simp
  simp only [logOf, List.mem_flatMap] at hbm
  obtain ⟨r, hr, hbr⟩ := hbm
  have hin := (shareOf_mem t b r).mp hbr
  have hcols := (hlc.shareOk r hr _ hin).2
  obtain ⟨c, cs, hc⟩ := List.exists_cons_of_ne_nil (names_nonempty_of_cols b hcols)
  refine ⟨c, ?_⟩
  rw [hb]
  simp [namesIn, hc]

/-- Replaying one share never faults. -/
theorem replayShare_total {P : Params ν κ} {cat files} {pre processed : List (Request ν κ)} {r : Request ν κ}
    {T0 T : Tables ν κ} {done : Request ν κ} {sh : Share ν κ}
    (hr : RInv cat files pre processed T0) (hlcP : LogCat (pre ++ processed)) (hwfR : (r.map (·.1)).Nodup)
    (hwithin : ∀ n mb, (TName.metaCols n, mb) ∈ r →
      ∃ b, (TName.user n, b) ∈ r ∧ ∃ L : List (CName ν), colCells .columnName mb = L.map Cell.cname ∧ ∀ c ∈ L, c ∈ b.names)
    (hokR : ∀ x ∈ r, x.2.nrows ≠ 0 ∧ x.2.cols ≠ [])
    (hs : ShareInv P pre processed r T0 T done) (hdone : ∀ x ∈ done, x ∈ r) (hsh : sh ∈ r)
    (hfresh : sh.1 ∉ done.map (·.1)) : ∃ T', replayShare P T sh = .ok T' := by
  have hnil : shareOf sh.1 done = [] := by
    apply shareOf_eq_nil_of_forall
    intro x hx e
    exact hfresh (by rw [← e]; exact List.mem_map_of_mem (f := (·.1)) hx)
  have hT0 : T sh.1 = T0 sh.1 := hs.untouched sh.1 hnil
  obtain ⟨hn, hc⟩ := hokR sh hsh
  unfold replayShare
  simp only
  have hat := createIfEmpty_at P T sh.1
  rw [hat]
  simp only
  cases hT : T sh.1 with
  | none =>
    simp only [Option.getD_none]
    cases hcn : (newTable P sh.1 (some [])).colNames with
    | none => exact absurd hcn (newTable_colNames_ne_none P sh.1)
    | some s =>
      simp only
      exact applyShare_total _ sh _ s (by rw [hat, hT]; rfl) hcn hn hc
  | some tm =>
    simp only [Option.getD_some]
    have hce : (createIfEmpty P T sh.1).1 = T := by rw [createIfEmpty_some P T sh.1 tm hT]
    cases hcn : tm.colNames with
    | some s =>
      simp only
      rw [hce]
      exact applyShare_total _ sh tm s hT hcn hn hc
    | none =>
      simp only
      rw [hce]
      have htm0 : T0 sh.1 = some tm := by rw [← hT0]; exact hT
      have hok := hr.tabs sh.1 tm htm0
      -- only user tables can have an uninitialised name set
      cases hsh1 : sh.1 with
      | metaTables =>
        obtain ⟨s, hs1, _⟩ := hok.namesCat (by rw [hsh1]; intro n e; cases e)
        rw [hcn] at hs1; cases hs1
      | metaCols n =>
        obtain ⟨s, hs1, _⟩ := hok.namesCat (by rw [hsh1]; intro n' e; cases e)
        rw [hcn] at hs1; cases hs1
      | user n =>
        simp only
        rw [hsh1] at hT htm0 hok
        -- the column catalogue of `n` exists and lists at least one name
        have hlogne : logOf (.user n) (pre ++ processed) ≠ [] := by
          rcases hok.nonempty with h | h
          · exact h
          · cases h
        have hmc0 : ∃ tmc0, T0 (.metaCols n) = some tmc0 := by
          cases h0 : T0 (.metaCols n) with
          | some x => exact ⟨x, rfl⟩
          | none =>
            exfalso
            have := (hr.absent _ h0).2.1
            exact hlogne ((hlcP.pair n).mpr this)
        obtain ⟨tmc0, htmc0⟩ := hmc0
        obtain ⟨tmc', _, htmc, _⟩ := hs.some_ _ tmc0 htmc0
        have hcont := hs.content hr (.metaCols n) _ htmc
        obtain ⟨L0, hL1, hL2, hL3⟩ := hlcP.cols n
        have hL1' : ∃ L1 : List (CName ν), readColumn .columnName (shareOf (.metaCols n) done) = L1.map Cell.cname ∧
            ∀ x ∈ L1, True := by
          apply readColumn_cnames
          intro mb hmb
          have hin : (TName.metaCols n, mb) ∈ r := hdone _ ((shareOf_mem _ mb done).mp hmb)
          obtain ⟨b, hb, L, hLc, hLs⟩ := hwithin n mb hin
          exact ⟨L, hLc, fun _ _ => trivial⟩
        obtain ⟨L1, hL4, _⟩ := hL1'
        have hread : readColumn .columnName (logOf (.metaCols n) (pre ++ processed) ++ shareOf (.metaCols n) done)
            = (L0 ++ L1).map Cell.cname := by
          rw [readColumn_append, hL1, hL4, List.map_append]
        have hL0ne : L0 ++ L1 ≠ [] := by
          obtain ⟨c, hc'⟩ := names_ne_nil_of_log hlcP (.user n) hlogne
          have : c ∈ L0 := (hL3 c).mpr hc'
          intro e
          rw [List.append_eq_nil_iff] at e
          rw [e.1] at this; cases this
        have hq := queryColumnNames_ok_of htmc hcont hread hL0ne
        simp only [ensureNames, hT, hcn, hq]
        apply applyShare_total _ sh { tm with colNames := some (L0 ++ L1) } (L0 ++ L1) _ rfl hn hc
        rw [hsh1]; simp [setTable]

theorem segment_total {P : Params ν κ} {cat files} {pre processed : List (Request ν κ)} {r : Request ν κ} {T0 : Tables ν κ}
    (hr : RInv cat files pre processed T0) (hlcP : LogCat (pre ++ processed)) (hwfR : (r.map (·.1)).Nodup)
    (hwithin : ∀ n mb, (TName.metaCols n, mb) ∈ r →
      ∃ b, (TName.user n, b) ∈ r ∧ ∃ L : List (CName ν), colCells .columnName mb = L.map Cell.cname ∧ ∀ c ∈ L, c ∈ b.names)
    (hokR : ∀ x ∈ r, x.2.nrows ≠ 0 ∧ x.2.cols ≠ []) :
    ∀ (l2 done : Request ν κ) (T : Tables ν κ), ShareInv P pre processed r T0 T done → (∀ x ∈ done ++ l2, x ∈ r) →
      ((done ++ l2).map (·.1)).Nodup → ∃ T', foldE (replayShare P) l2 T = .ok T' := by
  intro l2
  induction l2 with
  | nil => intro done T _ _ _; exact ⟨T, rfl⟩
  | cons sh l2 ih =>
    intro done T hs hmem hnd
    have hfresh : sh.1 ∉ done.map (·.1) := by
      rw [List.map_append, List.nodup_append] at hnd
      intro hin
      exact hnd.2.2 _ hin sh.1 (by simp) rfl
    have hdone : ∀ x ∈ done, x ∈ r := fun x hx => hmem x (List.mem_append_left _ hx)
    have hsh : sh ∈ r := hmem sh (by simp)
    obtain ⟨T1, h1⟩ := replayShare_total hr hlcP hwfR hwithin hokR hs hdone hsh hfresh
    have hs1 := hs.step hr hlcP hwfR hwithin hdone hsh hfresh h1
    have hnd' : ((done ++ [sh]) ++ l2).map (·.1) = (done ++ sh :: l2).map (·.1) := by simp
    obtain ⟨T', h2⟩ := ih (done ++ [sh]) T1 hs1 (by intro x hx; exact hmem x (by simpa using hx)) (by rw [hnd']; exact hnd)
    exact ⟨T', by simp only [foldE, h1]; exact h2⟩

/-- Replaying all segments never faults (ids contiguous, every share replayable). -/
theorem replay_total {P : Params ν κ} {cat files} {pre : List (Request ν κ)} (order : Nat → Request ν κ → Request ν κ)
    (hord : ∀ id r, (order id r).Perm r) :
    ∀ (segs : List (WalFile ν κ)) (processed : List (Request ν κ)) (next : Option Nat) (a k : Nat) (T : Tables ν κ),
      RInv cat files pre processed T → LogCatAll (pre ++ processed ++ segs.map (·.req)) →
      segs.map (·.id) = List.range' a k → (next = none ∨ next = some a) →
      ∃ T', replay P order segs next T = .ok T' := by
  intro segs
  induction segs with
  | nil => intro processed next a k T _ _ _ _; exact ⟨T, rfl⟩
  | cons f fs ih =>
    intro processed next a k T hr hlc hids hnext
    cases k with
    | zero => simp [List.range'] at hids
    | succ k =>
      simp only [List.map_cons, List.range', List.cons.injEq] at hids
      obtain ⟨hid, hids'⟩ := hids
      have hcontig : contigOk next f.id = true := by
        rcases hnext with h | h
        · rw [h]; rfl
        · rw [h]; simp [contigOk, hid]
      have hlcP : LogCat (pre ++ processed) := hlc (pre ++ processed) (List.map (·.req) (f :: fs)) rfl
      have hlcR : LogCat (pre ++ processed ++ [f.req]) := hlc _ (fs.map (·.req)) (by simp)
      have hrmem : f.req ∈ pre ++ processed ++ [f.req] := by simp
      have hwfR := hlcR.wf _ hrmem
      have hperm := hord f.id f.req
      have hndl : ((order f.id f.req).map (·.1)).Nodup := (List.Perm.nodup_iff (hperm.map _)).mpr hwfR
      obtain ⟨T1, h1⟩ := segment_total hr hlcP hwfR (hlcR.within _ hrmem) (hlcR.shareOk _ hrmem)
        (order f.id f.req) [] T (ShareInv.init P pre processed f.req T)
        (by intro x hx; simp at hx; exact hperm.subset hx) (by simpa using hndl)
      have hr1 := segment_ok hr hlcP hlcR hperm h1
      obtain ⟨T', h2⟩ := ih (processed ++ [f.req]) (some (f.id + 1)) (a + 1) k T1 hr1 (by simpa using hlc) hids'
        (Or.inr (by rw [hid]))
      exact ⟨T', by simp only [replay, hcontig, Bool.not_true, Bool.false_eq_true, if_false, h1]; exact h2⟩

/-- After any history a restart succeeds, whatever the replay order. -/
theorem DurableAt.recover_total {P : Params ν κ} {w : World ν κ} {order : Nat → Request ν κ → Request ν κ} {pre}
    (hInit : CName.columnName ∈ P.metaColsInit) (hord : ∀ id r, (order id r).Perm r) (hd : DurableAt w pre) :
    ∃ w', LM.Store.recover P w.disk w.log w.lossy order = .ok w' := by
  obtain ⟨hle, hids, hcur, hsize⟩ := hd.wal
  have hcur' : (w.disk.metaFile.getD ⟨0, fun _ => []⟩).cursor = w.mem.cat.earliest := by
    cases hm : w.disk.metaFile with
    | none => simp [hm] at hcur ⊢; exact hcur
    | some mf => simp [hm] at hcur ⊢; exact hcur
  have hkept : w.disk.wal.filter (fun f => !(decide (f.id < (w.disk.metaFile.getD ⟨0, fun _ => []⟩).cursor))) = w.disk.wal := by
    apply filter_ge_all
    intro f hf
    have := mem_ids_of_range hids f hf
    omega
  have hsorted : sortById w.disk.wal = w.disk.wal := sortById_sorted w.disk.wal _ _ hids
  have hmeta : (w.disk.metaFile.getD ⟨0, fun _ => []⟩).parts = w.mem.cat.parts := hd.metaEq.symm
  have hR0 := recover_init_rinv (P := P) hInit hd
  obtain ⟨T, hT⟩ := replay_total order hord w.disk.wal [] none _ _ _ hR0 (by simpa [← hd.log] using hd.logcat) hids (Or.inl rfl)
  unfold LM.Store.recover
  simp only [hkept, hsorted, hmeta]
  rw [hT]
  exact ⟨_, rfl⟩

-- ------------------------------------------------------------------------------------------------ a flush cannot fail

theorem rowsLen_partRows (ps : List (MemPart ν κ)) (hr : ∀ p ∈ ps, ∃ r, p.rows = some r)
    (hl : ∀ p ∈ ps, ∀ r, p.rows = some r → p.len = rowsLen r) : rowsLen (partRows ps) = (ps.map (·.len)).sum := by
  induction ps with
  | nil => rfl
  | cons p ps ih =>
    obtain ⟨r, hr1⟩ := hr p (List.mem_cons_self ..)
    have h1 := hl p (List.mem_cons_self ..) r hr1
    have h2 := ih (fun q hq => hr q (List.mem_cons_of_mem _ hq)) (fun q hq => hl q (List.mem_cons_of_mem _ hq))
    have : partRows (p :: ps) = r ++ partRows ps := by simp [partRows, hr1]
    rw [this, rowsLen_append, h2, List.map_cons, List.sum_cons, h1]

theorem MidInv.query_total {cidOf : TName ν → Option Nat} {pre post : List (Request ν κ)} {rem} {st : FState ν κ}
    (hm : MidInv cidOf pre post rem st) (hlc : LogCat (pre ++ post)) (n : ν) (tm : TableMem ν κ)
    (htm : st.1.mem.tables (.user n) = some tm) : ∃ s, queryColumnNames st.1.mem.tables n = .ok s := by
  have hok := hm.tabs _ tm htm
  have hlogne : logOf (.user n) (pre ++ post) ≠ [] := by
    rcases hok.nonempty with h | h
    · exact h
    · cases h
  have hmc : ∃ tmc, st.1.mem.tables (.metaCols n) = some tmc := by
    cases h0 : st.1.mem.tables (.metaCols n) with
    | some x => exact ⟨x, rfl⟩
    | none => exact absurd ((hlc.pair n).mpr (hm.absent _ h0).2.1) hlogne
  obtain ⟨tmc, htmc⟩ := hmc
  have hc := (hm.tabs _ tmc htmc).content
  obtain ⟨L, hL1, _, hL3⟩ := hlc.cols n
  obtain ⟨c, hc'⟩ := names_ne_nil_of_log hlc (.user n) hlogne
  have hne : L ≠ [] := by
    intro e; have := (hL3 c).mpr hc'; rw [e] at this; cases this
  exact ⟨L, queryColumnNames_ok_of htmc hc hL1 hne⟩

theorem compactNames_total {T : Tables ν κ} {t : TName ν} {tm : TableMem ν κ} {cat files} {pre post : List (Request ν κ)}
    (hT : T t = some tm) (hok : TableOk t tm cat files pre post)
    (hq : ∀ n, t = .user n → ∃ s, queryColumnNames T n = .ok s) :
    ∃ T1 names, compactNames T t tm = .ok (T1, names) := by
  unfold compactNames
  cases hcn : tm.colNames with
  | some s => exact ⟨T, s, rfl⟩
  | none =>
    simp only
    cases t with
    | user n =>
      obtain ⟨s, hs⟩ := hq n rfl
      simp only [ensureNames, hT, hcn, hs]
      exact ⟨_, _, rfl⟩
    | metaTables =>
      obtain ⟨s, hs1, _⟩ := hok.namesCat (by intro n e; cases e)
      rw [hcn] at hs1; cases hs1
    | metaCols n =>
      obtain ⟨s, hs1, _⟩ := hok.namesCat (by intro n' e; cases e)
      rw [hcn] at hs1; cases hs1

theorem compactOne_total {P : Params ν κ} {fi : FlushIn ν} {cidOf : TName ν → Option Nat} {pre post : List (Request ν κ)}
    {c : TName ν × Nat} {rest : List (TName ν × Nat)} {st : FState ν κ}
    (hre : ∀ bs, P.reencode bs = bs) (hlc : LogCat (pre ++ post)) (hm : MidInv cidOf pre post (c :: rest) st) :
    ∃ st', compactOne P fi cidOf st c = .ok st' := by
  unfold compactOne
  simp only
  cases htm : st.1.mem.tables c.1 with
  | none => exact ⟨st, rfl⟩
  | some tm =>
    cases hcid : cidOf c.1 with
    | none => exact ⟨st, rfl⟩
    | some cid =>
      simp only
      obtain ⟨hdel0, _⟩ := hm.pending c (List.mem_cons_self ..)
      have hlive : liveFiles st c.1 = st.1.disk.parts c.1 := by simp [liveFiles, hdel0]
      have hok0 := hm.tabs c.1 tm htm
      rw [hlive] at hok0
      obtain ⟨T1, names, hcn⟩ := compactNames_total htm hok0
        (fun n e => by rw [e] at htm; exact hm.query_total hlc n tm htm)
      obtain ⟨tm1, htm1, hsd, hok1, _, hcover⟩ := compactNames_spec htm hok0 (fun n s hq => hm.query hlc n s hq) hcn
      simp only [hcn, htm1]
      split
      · exact ⟨st, rfl⟩
      · rename_i hnone _
        exfalso
        have := allRows_ok (tm1.parts.drop c.2) (fun p hp => by
          obtain ⟨r, h1, _⟩ := hok1.parts.rows p (List.mem_of_mem_drop hp); exact ⟨r, h1⟩)
        rw [this] at hnone; cases hnone
      · rename_i first rest' oldRows holds hall
        have hsub : ∀ p ∈ tm1.parts.drop c.2, p ∈ tm1.parts := fun p hp => List.mem_of_mem_drop hp
        have hallr : ∀ p ∈ tm1.parts.drop c.2, ∃ r, p.rows = some r := fun p hp => by
          obtain ⟨r, h1, _⟩ := hok1.parts.rows p (hsub p hp); exact ⟨r, h1⟩
        have holdRows : oldRows = partRows (tm1.parts.drop c.2) := by
          have := allRows_ok _ hallr
          rw [hall] at this; exact Option.some.inj this
        have hcov : ∀ c' ∈ namesIn oldRows, c' ∈ names := by
          intro c' hc'
          apply hcover
          rw [logOf_append, namesIn_append]
          apply List.mem_append_left
          rw [← hok1.flushed]
          have e : tm1.parts = tm1.parts.take c.2 ++ tm1.parts.drop c.2 := (List.take_append_drop c.2 tm1.parts).symm
          rw [e]
          exact namesIn_partRows_sub _ _ c' (by rw [← holdRows]; exact hc')
        have hlen : rowsLen (P.reencode (oldRows.map (project names))) = ((tm1.parts.drop c.2).map (·.len)).sum := by
          rw [map_project_id names oldRows hcov, hre, holdRows]
          exact rowsLen_partRows _ hallr (fun p hp => hok1.parts.lens p (hsub p hp))
        split
        · rename_i hne; exact absurd hlen hne
        · exact ⟨_, rfl⟩

theorem compactFold_total {P : Params ν κ} {fi : FlushIn ν} {cidOf : TName ν → Option Nat} {pre post : List (Request ν κ)}
    (hre : ∀ bs, P.reencode bs = bs) (hkc : ∀ t, fi.keysCompact t ≠ []) (hlc : LogCat (pre ++ post)) :
    ∀ (cs : List (TName ν × Nat)) (st : FState ν κ), (cs.map (·.1)).Nodup → MidInv cidOf pre post cs st →
      ∃ st', foldE (compactOne P fi cidOf) cs st = .ok st' := by
  intro cs
  induction cs with
  | nil => intro st _ _; exact ⟨st, rfl⟩
  | cons c cs ih =>
    intro st hnd hm
    simp only [List.map_cons, List.nodup_cons] at hnd
    obtain ⟨st1, h1⟩ := compactOne_total (fi := fi) hre hlc hm
    obtain ⟨st', h2⟩ := ih st1 hnd.2 (compactOne_mid hre hkc hlc hm hnd.1 h1)
    exact ⟨st', by simp only [foldE, h1]; exact h2⟩

/-- Batching + compactions after a freeze cannot fail, whatever was ingested since the freeze
    (no unwrap / assert of `compact`, `Table::compact`, the lazy name query). -/
theorem StageA.batch_total {P : Params ν κ} {w : World ν κ} {fi : FlushIn ν} {lo hi pre midF postF}
    (hre : ∀ bs, P.reencode bs = bs) (hfi : FlushWF fi) (ha : StageA w lo hi pre midF postF) :
    ∃ r, flushBatchW P w fi = .ok r := by
  have hlc : LogCat ((pre ++ midF.map (·.req)) ++ postF.map (·.req)) := by
    rw [← ha.log]
    have := ha.dur.logcat.whole
    simpa [unfreeze] using this
  obtain ⟨st', h⟩ := compactFold_total (P := P) hre hfi.keysCompact hlc fi.compactions _ hfi.once (stage1_mid fi ha hfi)
  exact ⟨st', h⟩

/-- A flush after any history cannot fail. -/
theorem DurableAt.flush_total {P : Params ν κ} {w : World ν κ} {fi : FlushIn ν} {pre}
    (hre : ∀ bs, P.reencode bs = bs) (hfi : FlushWF fi) (hd : DurableAt w pre) : ∃ w', LM.Store.flush P w fi = .ok w' := by
  obtain ⟨⟨w3, toDel⟩, h⟩ := (StageA.begin hd).batch_total (P := P) hre hfi
  rw [flush_eq_steps]
  simp only [h]
  exact ⟨_, rfl⟩

-- ------------------------------------------------------------------------------------------------ an ingestion cannot fail

/-- What a request must satisfy beyond `ReqWF` for `ingest_efficient` not to hit an assert: user tables only, every
    table buffer has at least one row and one column (`Buffer::push_typed_cols` asserts both). -/
def ReqOk (r : Request ν κ) : Prop := ∀ sh ∈ r, (∃ n, sh.1 = TName.user n) ∧ sh.2.nrows ≠ 0 ∧ sh.2.cols ≠ []

theorem applyFold_total : ∀ (evs : Request ν κ) (T : Tables ν κ),
    (∀ sh ∈ evs, ∃ tm s, T sh.1 = some tm ∧ tm.colNames = some s) → (∀ sh ∈ evs, sh.2.nrows ≠ 0 ∧ sh.2.cols ≠ []) →
    ∃ T', foldE applyShare evs T = .ok T' := by
  intro evs
  induction evs with
  | nil => intro T _ _; exact ⟨T, rfl⟩
  | cons sh evs ih =>
    intro T hT hok
    obtain ⟨tm, s, h1, h2⟩ := hT sh (List.mem_cons_self ..)
    obtain ⟨hn, hc⟩ := hok sh (List.mem_cons_self ..)
    obtain ⟨T1, hT1⟩ := applyShare_total T sh tm s h1 h2 hn hc
    have hT1eq := applyShare_at T T1 sh tm h1 hT1
    obtain ⟨T', h'⟩ := ih T1 (by
      intro sh' hsh'
      obtain ⟨tm', s', g1, g2⟩ := hT sh' (List.mem_cons_of_mem _ hsh')
      by_cases e : sh'.1 = sh.1
      · rw [hT1eq, e, setTable_same]
        exact ⟨_, s ++ namesIn [sh.2], rfl, by simp [appendTo, h2]⟩
      · rw [hT1eq, setTable_other _ _ _ _ e]
        exact ⟨tm', s', g1, g2⟩) (fun sh' hsh' => hok sh' (List.mem_cons_of_mem _ hsh'))
    exact ⟨T', by simp only [foldE, hT1]; exact h'⟩

theorem PreRel.query_fwd {P : Params ν κ} {T T2 : Tables ν κ} (hrel : PreRel P T T2) (n : ν) (s : List (CName ν))
    (h : queryColumnNames T n = .ok s) : queryColumnNames T2 n = .ok s := by
  obtain ⟨a, ha⟩ := queryColumnNames_ok_some T n s h
  obtain ⟨a', h1, h2, _⟩ := hrel.some_ _ a ha
  rw [queryColumnNames_congr T T2 n a a' ha h1 h2]; exact h

/-- One iteration of the first loop cannot fail, and afterwards the tables of the share are ready for the second loop. -/
theorem ingestPre1_total {P : Params ν κ} {T : Tables ν κ} {acc : PreAcc ν κ} {sh : Share ν κ} {n : ν}
    (hrel : PreRel P T acc.tables) (hsh : sh.1 = .user n)
    (hq : ∀ tm, T (.user n) = some tm → tm.colNames = none → ∃ s, queryColumnNames T n = .ok s) :
    ∃ acc', ingestPre1 P acc sh = .ok acc' := by
  unfold ingestPre1
  rw [hsh]
  simp only
  have rel1 := hrel.create (.user n)
  have rel2 := rel1.create (.metaCols n)
  have hu : ∃ tmu, (createIfEmpty P (createIfEmpty P acc.tables (.user n)).1 (.metaCols n)).1 (.user n) = some tmu := by
    rw [createIfEmpty_other P _ _ _ (by simp), createIfEmpty_at]; exact ⟨_, rfl⟩
  obtain ⟨tmu, htmu⟩ := hu
  have hen : ∃ T3 names, ensureNames (createIfEmpty P (createIfEmpty P acc.tables (.user n)).1 (.metaCols n)).1 n = .ok (T3, names) := by
    unfold ensureNames
    rw [htmu]
    simp only
    cases hcn : tmu.colNames with
    | some s => exact ⟨_, _, rfl⟩
    | none =>
      simp only
      -- the table existed before the call with an uninitialised name set
      cases hT : T (.user n) with
      | none =>
        rcases rel2.none_ _ hT with h1 | h1
        · rw [h1] at htmu; cases htmu
        · rw [h1] at htmu; cases htmu; simp [newTable] at hcn
      | some tm =>
        obtain ⟨tm', h1, _, h3⟩ := rel2.some_ _ tm hT
        rw [htmu] at h1; cases h1
        have htmnone : tm.colNames = none := by
          rcases h3 with h3 | ⟨h3, _⟩
          · rw [← h3]; exact hcn
          · exact h3
        obtain ⟨s, hs⟩ := hq tm hT htmnone
        rw [rel2.query_fwd n s hs]
        exact ⟨_, _, rfl⟩
  obtain ⟨T3, names, h3⟩ := hen
  simp only [h3]
  exact ⟨_, rfl⟩

theorem ensureNames_result {T2 T3 : Tables ν κ} {n : ν} {names : List (CName ν)} (h : ensureNames T2 n = .ok (T3, names)) :
    (∃ tm3, T3 (.user n) = some tm3 ∧ tm3.colNames = some names) ∧ (∀ t, t ≠ .user n → T3 t = T2 t) := by
  unfold ensureNames at h
  split at h
  · cases h
  · rename_i tm2 htm2
    split at h
    · rename_i s hs
      cases h
      exact ⟨⟨tm2, htm2, hs⟩, fun _ _ => rfl⟩
    · split at h
      · cases h
        exact ⟨⟨{ tm2 with colNames := some names }, by simp [setTable], rfl⟩, fun t ht => by simp [setTable, ht]⟩
      · cases h

/-- Tables that the second loop needs: every table of a processed share exists with an initialised name set, and so
    does its column catalogue. -/
def Ready (done : Request ν κ) (T' : Tables ν κ) : Prop :=
  ∀ sh ∈ done, ∃ n, sh.1 = TName.user n ∧ (∃ tm s, T' (.user n) = some tm ∧ tm.colNames = some s) ∧
    (∃ tmc, T' (.metaCols n) = some tmc)

theorem ingestPre1_ready {P : Params ν κ} {acc acc' : PreAcc ν κ} {sh : Share ν κ} {done : Request ν κ}
    (hr : Ready done acc.tables) (h : ingestPre1 P acc sh = .ok acc') : Ready (done ++ [sh]) acc'.tables := by
  unfold ingestPre1 at h
  split at h
  · rename_i n hsh
    simp only at h
    split at h
    · cases h
    · rename_i T3 names hen
      cases h
      obtain ⟨⟨tm3, h1, h2⟩, hoth⟩ := ensureNames_result hen
      -- existing tables stay, name sets only get initialised
      have hkeep : ∀ t tm s, acc.tables t = some tm → tm.colNames = some s → ∃ tm', T3 t = some tm' ∧ tm'.colNames = some s := by
        intro t tm s g1 g2
        by_cases e : t = .user n
        · subst e
          have hc1 : (createIfEmpty P (createIfEmpty P acc.tables (.user n)).1 (.metaCols n)).1 (.user n) = some tm := by
            rw [createIfEmpty_other P _ _ _ (by simp), createIfEmpty_at, g1]; rfl
          unfold ensureNames at hen
          rw [hc1] at hen
          simp only [g2] at hen
          cases hen
          exact ⟨tm, hc1, g2⟩
        · rw [hoth t e]
          by_cases e2 : t = .metaCols n
          · subst e2
            rw [createIfEmpty_at, createIfEmpty_other P _ _ _ (by simp), g1]
            exact ⟨tm, rfl, g2⟩
          · rw [createIfEmpty_other P _ _ t e2, createIfEmpty_other P _ _ t e, g1]
            exact ⟨tm, rfl, g2⟩
      have hkeepSome : ∀ t tm, acc.tables t = some tm → ∃ tm', T3 t = some tm' := by
        intro t tm g1
        by_cases e : t = .user n
        · subst e; exact ⟨tm3, h1⟩
        · rw [hoth t e]
          by_cases e2 : t = .metaCols n
          · subst e2; rw [createIfEmpty_at]; exact ⟨_, rfl⟩
          · rw [createIfEmpty_other P _ _ t e2, createIfEmpty_other P _ _ t e, g1]; exact ⟨tm, rfl⟩
      intro x hx
      rcases List.mem_append.mp hx with hx | hx
      · obtain ⟨m, g1, ⟨tm, s, g2, g3⟩, ⟨tmc, g4⟩⟩ := hr x hx
        obtain ⟨tm', g5, g6⟩ := hkeep _ tm s g2 g3
        obtain ⟨tmc', g7⟩ := hkeepSome _ tmc g4
        exact ⟨m, g1, ⟨tm', s, g5, g6⟩, ⟨tmc', g7⟩⟩
      · simp at hx; subst hx
        refine ⟨n, hsh, ⟨tm3, names, h1, h2⟩, ?_⟩
        show ∃ tmc, T3 (.metaCols n) = some tmc
        rw [hoth (.metaCols n) (by simp), createIfEmpty_at]; exact ⟨_, rfl⟩
  · cases h

theorem preFold_total {P : Params ν κ} {log : List (Request ν κ)} {T : Tables ν κ}
    (hSome : ∀ n tm s, T (.user n) = some tm → tm.colNames = some s → NamesRight log n s)
    (hQuery : ∀ n s, queryColumnNames T n = .ok s → NamesRight log n s)
    (hNone : ∀ n, T (.user n) = none → NamesRight log n [])
    (hq : ∀ n tm, T (.user n) = some tm → tm.colNames = none → ∃ s, queryColumnNames T n = .ok s) :
    ∀ (r done : Request ν κ) (acc : PreAcc ν κ), PreOut P log T done acc → Ready done acc.tables →
      ((done ++ r).map (·.1)).Nodup → (∀ sh ∈ r, ∃ n, sh.1 = TName.user n) →
      ∃ acc', foldE (ingestPre1 P) r acc = .ok acc' ∧ PreOut P log T (done ++ r) acc' ∧ Ready (done ++ r) acc'.tables := by
  intro r
  induction r with
  | nil => intro done acc ho hr _ _; exact ⟨acc, rfl, by simpa using ho, by simpa using hr⟩
  | cons sh r ih =>
    intro done acc ho hr hnd hu
    obtain ⟨n, hn⟩ := hu sh (List.mem_cons_self ..)
    obtain ⟨acc1, h1⟩ := ingestPre1_total ho.rel hn (hq n)
    have hnd1 : ((done ++ [sh]).map (·.1)).Nodup := by
      have : (done ++ sh :: r) = (done ++ [sh]) ++ r := by simp
      rw [this, List.map_append] at hnd
      exact (List.nodup_append.mp hnd).1
    have ho1 := PreOut.step hSome hQuery hNone ho hnd1 h1
    have hr1 := ingestPre1_ready hr h1
    obtain ⟨acc', h2, ho2, hr2⟩ := ih (done ++ [sh]) acc1 ho1 hr1 (by simpa using hnd)
      (fun x hx => hu x (List.mem_cons_of_mem _ hx))
    exact ⟨acc', by simp only [foldE, h1]; exact h2, by simpa using ho2, by simpa using hr2⟩

/-- `ingest_efficient` of a well-formed request after any history cannot fail. -/
theorem DurableAt.ingest_total {P : Params ν κ} {w : World ν κ} {r : Request ν κ} {bytes : Nat} {pre}
    (hd : DurableAt w pre) (hwf : ReqWF r) (hok : ReqOk r) : ∃ w', LM.Store.ingest P w r bytes = .ok w' := by
  have hSome : ∀ n tm s, w.mem.tables (.user n) = some tm → tm.colNames = some s → NamesRight w.log n s := by
    intro n tm s h1 h2 c
    rw [hd.log]; exact (hd.tabs _ tm h1).namesUser n rfl s h2 c
  have hQuery : ∀ n s, queryColumnNames w.mem.tables n = .ok s → NamesRight w.log n s :=
    fun n s hq => (hd.query n s hq).1
  have hNone : ∀ n, w.mem.tables (.user n) = none → NamesRight w.log n [] := by
    intro n h1 c
    rw [(hd.absent _ h1).2.1]; simp [namesIn]
  have hlc := hd.logcat.whole
  have hq : ∀ n tm, w.mem.tables (.user n) = some tm → tm.colNames = none → ∃ s, queryColumnNames w.mem.tables n = .ok s := by
    intro n tm htm _
    have hokt := hd.tabs _ tm htm
    have hlogne : logOf (.user n) w.log ≠ [] := by
      rw [hd.log]
      rcases hokt.nonempty with h | h
      · exact h
      · cases h
    have hmc : ∃ tmc, w.mem.tables (.metaCols n) = some tmc := by
      cases h0 : w.mem.tables (.metaCols n) with
      | some x => exact ⟨x, rfl⟩
      | none => exact absurd ((hlc.pair n).mpr (hd.absent _ h0).2.1) hlogne
    obtain ⟨tmc, htmc⟩ := hmc
    have hc := (hd.tabs _ tmc htmc).content
    rw [← hd.log] at hc
    obtain ⟨L, hL1, _, hL3⟩ := hlc.cols n
    obtain ⟨c, hc'⟩ := names_ne_nil_of_log hlc (.user n) hlogne
    have hne : L ≠ [] := by
      intro e; have := (hL3 c).mpr hc'; rw [e] at this; cases this
    exact ⟨L, queryColumnNames_ok_of htmc hc hL1 hne⟩
  obtain ⟨acc, hacc, ho, hready⟩ := preFold_total hSome hQuery hNone hq r [] _ (PreOut.init P w.log w.mem.tables)
    (by intro x hx; cases hx) (by simpa using hwf.1) (fun sh hsh => (hok sh hsh).1)
  simp only [List.nil_append] at ho hready
  -- the second loop
  have hcat : ∀ t tm0, (∀ n, t ≠ .user n) → w.mem.tables t = some tm0 → ∃ tm s, acc.tables t = some tm ∧ tm.colNames = some s := by
    intro t tm0 hnu h0
    obtain ⟨s, hs, _⟩ := (hd.tabs t tm0 h0).namesCat hnu
    obtain ⟨tm', g1, _, g3⟩ := ho.rel.some_ t tm0 h0
    rcases g3 with g3 | ⟨_, n', _, e, _⟩
    · exact ⟨tm', s, g1, by rw [g3]; exact hs⟩
    · exact absurd e (hnu n')
  have hmt : ∃ tmm, w.mem.tables .metaTables = some tmm := by
    cases h0 : w.mem.tables .metaTables with
    | some x => exact ⟨x, rfl⟩
    | none => exact absurd rfl (hd.absent _ h0).1
  have hT : ∀ sh ∈ augment r acc, ∃ tm s, acc.tables sh.1 = some tm ∧ tm.colNames = some s := by
    intro sh hsh
    rcases (mem_augment _ _ _).mp hsh with h | h | h
    · obtain ⟨n, hn, ⟨tm, s, g1, g2⟩, _⟩ := hready sh h
      rw [hn]; exact ⟨tm, s, g1, g2⟩
    · have e : sh = (TName.metaTables, metaTablesBatch acc.metaRows) := by
        unfold mtPart at h; split at h
        · cases h
        · simpa using h
      rw [e]
      obtain ⟨tmm, htmm⟩ := hmt
      exact hcat _ tmm (by intro n e; cases e) htmm
    · simp only [mcPart, List.mem_map] at h
      obtain ⟨x, hx, rfl⟩ := h
      obtain ⟨_, b, hb, _⟩ := ho.colsSub x hx
      obtain ⟨n, hn, _, ⟨tmc, htmc⟩⟩ := hready _ hb
      simp only at hn; cases hn
      simp only
      cases h0 : w.mem.tables (.metaCols x.1) with
      | some tm0 => exact hcat _ tm0 (by intro n e; cases e) h0
      | none =>
        rcases ho.rel.none_ _ h0 with g | g
        · rw [g] at htmc; cases htmc
        · exact ⟨_, P.metaColsInit, g, by simp [newTable]⟩
  have hA : ∀ sh ∈ augment r acc, sh.2.nrows ≠ 0 ∧ sh.2.cols ≠ [] := by
    intro sh hsh
    rcases (mem_augment _ _ _).mp hsh with h | h | h
    · exact (hok sh h).2
    · unfold mtPart at h; split at h
      · cases h
      · rename_i hne
        simp at h; subst h
        constructor
        · simp only [metaTablesBatch]
          intro e
          exact hne (by simpa using e)
        · simp [metaTablesBatch]
    · simp only [mcPart, List.mem_map] at h
      obtain ⟨x, hx, rfl⟩ := h
      obtain ⟨hne, _⟩ := ho.colsSub x hx
      constructor
      · simp only [metaColsBatch]
        intro e
        exact hne (by simpa using e)
      · simp [metaColsBatch]
  obtain ⟨T', hT'⟩ := applyFold_total (augment r acc) acc.tables hT hA
  unfold LM.Store.ingest
  simp only [hacc, hT']
  exact ⟨_, rfl⟩

-- ------------------------------------------------------------------------------------------------ a whole history cannot fail

def OpOk : Op ν κ → Prop
  | .ingest r _ => ReqOk r
  | _ => True

def HistOk (ops : List (Op ν κ)) : Prop := ∀ op ∈ ops, OpOk op

theorem step_total (P : Params ν κ) (hP : ParamsOk P) (w : World ν κ) (op : Op ν κ) (hop : OpWF op) (hok : OpOk op)
    (hd : Durable w) : ∃ w', step P w op = .ok w' := by
  obtain ⟨pre, hd⟩ := hd
  cases op with
  | ingest r bytes => exact hd.ingest_total hop hok
  | flush fi => exact hd.flush_total hP.reencode hop
  | restart order => exact hd.recover_total hP.init hop

theorem run_total_from (P : Params ν κ) (hP : ParamsOk P) : ∀ (ops : List (Op ν κ)) (w : World ν κ), HistWF ops → HistOk ops →
    Durable w → ∃ w', run P ops w = .ok w' := by
  intro ops
  induction ops with
  | nil => intro w _ _ _; exact ⟨w, rfl⟩
  | cons op ops ih =>
    intro w hwf hok hd
    obtain ⟨w1, h1⟩ := step_total P hP w op (hwf op (List.mem_cons_self ..)) (hok op (List.mem_cons_self ..)) hd
    have hd1 := durable_step P hP w w1 op (hwf op (List.mem_cons_self ..)) hd h1
    obtain ⟨w', h'⟩ := ih w1 (fun o ho => hwf o (List.mem_cons_of_mem _ ho)) (fun o ho => hok o (List.mem_cons_of_mem _ ho)) hd1
    exact ⟨w', by simp only [run, foldE, h1]; exact h'⟩

/-- Every well-formed history runs to completion: no step of the machine faults. -/
theorem run_total (P : Params ν κ) (hP : ParamsOk P) (ops : List (Op ν κ)) (hwf : HistWF ops) (hok : HistOk ops) :
    ∃ w, run P ops (initWorld P) = .ok w :=
  run_total_from P hP ops _ hwf hok (durable_init P)

end LM.Store
