import LocustModel.Lemmas.C15Order
/- Helper lemmas for C15: the BTreeMap index equals a linear scan over the sub-partitions; routing inside groups. -/
namespace LM.Routing

/-- Routing without the index: the first sub-partition whose `last_column` is ≥ the name. -/
def routeSpec (metas : List SubMeta) (name : Name) : Option Name :=
  (metas.find? (fun s => nameLe name s.lastColumn)).map (·.key)

theorem btInsert_append (m : List (Name × Nat)) (k : Name) (v : Nat)
    (h : ∀ e ∈ m, nameLt e.1 k = true) : btInsert m k v = m ++ [(k, v)] := by
  induction m with
  | nil => rfl
  | cons e rest ih =>
    obtain ⟨k', v'⟩ := e
    have hk : nameLt k' k = true := h (k', v') (by simp)
    have hne : (k == k') = false := by
      have := ((nameLt_iff _ _).1 hk).2
      simp; exact fun h => this h.symm
    have hle : nameLe k k' = false := not_le_of_lt hk
    simp only [btInsert, hne, hle]
    simp [ih (fun e he => h e (List.mem_cons_of_mem _ he))]

theorem byLastFrom_eq (acc : List (Name × Nat)) (metas : List SubMeta) (n : Nat)
    (hs : (metas.map (·.lastColumn)).Pairwise (fun a b => nameLt a b = true))
    (hacc : ∀ e ∈ acc, ∀ s ∈ metas, nameLt e.1 s.lastColumn = true) :
    byLastFrom acc metas n = acc ++ (metas.zipIdx n).map (fun p => (p.1.lastColumn, p.2)) := by
  induction metas generalizing acc n with
  | nil => simp [byLastFrom]
  | cons s rest ih =>
    simp only [byLastFrom]
    rw [btInsert_append acc s.lastColumn n (fun e he => hacc e he s (by simp))]
    simp only [List.map_cons, List.pairwise_cons] at hs
    rw [ih (acc ++ [(s.lastColumn, n)]) (n + 1) hs.2]
    · simp [List.zipIdx_cons]
    · intro e he t ht
      rcases List.mem_append.1 he with he | he
      · exact hacc e he t (List.mem_cons_of_mem _ ht)
      · simp at he; subst he
        exact hs.1 t.lastColumn (List.mem_map_of_mem ht)

theorem find_zipIdx (pre l : List SubMeta) (name : Name) :
    (((l.zipIdx pre.length).map (fun p => (p.1.lastColumn, p.2))).find? (fun e => nameLe name e.1)).bind
        (fun e => ((pre ++ l)[e.2]?).map (·.key))
      = (l.find? (fun s => nameLe name s.lastColumn)).map (·.key) := by
  induction l generalizing pre with
  | nil => simp
  | cons s rest ih =>
    simp only [List.zipIdx_cons, List.map_cons, List.find?_cons]
    cases h : nameLe name s.lastColumn with
    | true => simp
    | false =>
      simp only []
      have := ih (pre ++ [s])
      simp only [List.length_append, List.length_cons, List.length_nil, List.append_assoc,
        List.cons_append, List.nil_append] at this
      exact this

/-- The index (`subpartitions_by_last_column`) is a faithful index whenever the `last_column`s increase strictly. -/
theorem route_eq_routeSpec (metas : List SubMeta) (name : Name)
    (hs : (metas.map (·.lastColumn)).Pairwise (fun a b => nameLt a b = true)) :
    route metas name = routeSpec metas name := by
  unfold route routeSpec byLast lowerBound
  rw [byLastFrom_eq [] metas 0 hs (by simp)]
  have := find_zipIdx [] metas name
  simpa using this

theorem routeSpec_cons (s : SubMeta) (rest : List SubMeta) (name : Name) :
    routeSpec (s :: rest) name = if nameLe name s.lastColumn = true then some s.key else routeSpec rest name := by
  unfold routeSpec
  rw [List.find?_cons]
  cases nameLe name s.lastColumn <;> simp

theorem mkMeta_last {α} (Hn : Name → List UInt8) (U : Nat → Bool) (g : List (Col α) × Nat) :
    (mkMeta Hn U g).lastColumn = (g.1.map (·.name)).getLast?.getD [] := rfl

/-! ### groups of a strictly sorted list -/

theorem getLast_mem_le {α} (g : List (Col α)) (hg : g ≠ [])
    (hs : g.Pairwise (fun a b => nameLt a.name b.name = true)) :
    (∃ l ∈ g, (g.map (·.name)).getLast?.getD [] = l.name) ∧
    ∀ c ∈ g, nameLe c.name ((g.map (·.name)).getLast?.getD []) = true := by
  induction g with
  | nil => exact absurd rfl hg
  | cons x xs ih =>
    cases xs with
    | nil =>
      simp [nameLe_refl]
    | cons y ys =>
      rw [List.pairwise_cons] at hs
      obtain ⟨⟨l, hl, hlast⟩, hle⟩ := ih (by simp) hs.2
      have hrew : ((x :: y :: ys).map (·.name)).getLast?.getD [] = ((y :: ys).map (·.name)).getLast?.getD [] := by
        simp [List.getLast?_cons_cons]
      rw [hrew]
      refine ⟨⟨l, List.mem_cons_of_mem _ hl, hlast⟩, ?_⟩
      intro c hc
      rcases List.mem_cons.1 hc with rfl | hc
      · rw [hlast]; exact le_of_lt (hs.1 l hl)
      · exact hle c hc

/-- Core of `route_correct`: in a strictly sorted sequence cut into non-empty consecutive groups, the first group
    whose last name is ≥ `c` is the group that contains `c`. -/
theorem routeSpec_groups {α} (Hn : Name → List UInt8) (U : Nat → Bool) (gs : List (List (Col α) × Nat))
    (hne : ∀ g ∈ gs, g.1 ≠ [])
    (hs : ((gs.map (·.1)).flatten).Pairwise (fun a b => nameLt a.name b.name = true)) :
    ∀ g ∈ gs, ∀ c ∈ g.1, routeSpec (gs.map (mkMeta Hn U)) c.name = some (mkMeta Hn U g).key := by
  induction gs with
  | nil => simp
  | cons g0 rest ih =>
    simp only [List.map_cons, List.flatten_cons, List.pairwise_append] at hs
    obtain ⟨hs0, hsr, hcross⟩ := hs
    obtain ⟨⟨l, hl, hlast⟩, hle⟩ := getLast_mem_le g0.1 (hne g0 (by simp)) hs0
    intro g hg c hc
    rcases List.mem_cons.1 hg with rfl | hg
    · rw [List.map_cons, routeSpec_cons, mkMeta_last, hle c hc]; rfl
    · have hcflat : c ∈ (rest.map (·.1)).flatten := by
        simp only [List.mem_flatten, List.mem_map]
        exact ⟨g.1, ⟨g, hg, rfl⟩, hc⟩
      have hlt : nameLt l.name c.name = true := hcross l hl c hcflat
      have hnle : nameLe c.name ((g0.1.map (·.name)).getLast?.getD []) = false := by
        rw [hlast]; exact not_le_of_lt hlt
      rw [List.map_cons, routeSpec_cons, mkMeta_last, hnle]
      exact ih (fun g hg => hne g (List.mem_cons_of_mem _ hg)) hsr g hg c hc

/-- The `last_column`s of the groups increase strictly. -/
theorem lasts_strict {α} (Hn : Name → List UInt8) (U : Nat → Bool) (gs : List (List (Col α) × Nat))
    (hne : ∀ g ∈ gs, g.1 ≠ [])
    (hs : ((gs.map (·.1)).flatten).Pairwise (fun a b => nameLt a.name b.name = true)) :
    ((gs.map (mkMeta Hn U)).map (·.lastColumn)).Pairwise (fun a b => nameLt a b = true) := by
  induction gs with
  | nil => simp
  | cons g0 rest ih =>
    simp only [List.map_cons, List.flatten_cons, List.pairwise_append] at hs
    obtain ⟨hs0, hsr, hcross⟩ := hs
    obtain ⟨⟨l, hl, hlast⟩, _⟩ := getLast_mem_le g0.1 (hne g0 (by simp)) hs0
    simp only [List.map_cons, List.pairwise_cons]
    refine ⟨?_, ih (fun g hg => hne g (List.mem_cons_of_mem _ hg)) hsr⟩
    intro b hb
    simp only [List.mem_map] at hb
    obtain ⟨m, ⟨g, hg, rfl⟩, rfl⟩ := hb
    have hgne := hne g (List.mem_cons_of_mem _ hg)
    -- the last of g is an element of g, which lies in the flattened rest
    have hsg : g.1.Pairwise (fun a b => nameLt a.name b.name = true) := by
      have : g.1 ∈ rest.map (·.1) := List.mem_map_of_mem hg
      exact (List.pairwise_flatten.1 hsr).1 g.1 this
    obtain ⟨⟨l', hl', hlast'⟩, _⟩ := getLast_mem_le g.1 hgne hsg
    have : l' ∈ (rest.map (·.1)).flatten := by
      simp only [List.mem_flatten, List.mem_map]
      exact ⟨g.1, ⟨g, hg, rfl⟩, hl'⟩
    simp only [mkMeta]
    rw [hlast, hlast']
    exact hcross l hl l' this

end LM.Routing
