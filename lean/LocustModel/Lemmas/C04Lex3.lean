import LocustModel.Lemmas.C04Lex2
import LocustModel.Lemmas.C04Tree
/-
  C04 helper lemmas: two grouping columns, whole merges and merge trees — simulation by the order-embedded
  one-column merge.
-/
namespace LM.C04L
open LM LM.Merge LM.GroupMerge

def part2 (R : List (Int × Int)) (v : List Int) : Part := ⟨[R.map (·.1), R.map (·.2)], v⟩
def part1 (R : List (Int × Int)) (v : List Int) : Part := ⟨[R.map enc2], v⟩
def decRow (k : Int) : Int × Int := (dec2fst k, dec2snd k)

/-- decode a one-column result over embedded keys into the two key columns -/
def decodeRes : MergeRes → MergeRes
  | .ok ⟨[K], v⟩ => .ok (part2 (K.map decRow) v)
  | r => r

/-- well-formed two-column partial result -/
def WF2 (R : List (Int × Int)) (v : List Int) : Prop := LexAsc R ∧ SndI64 R ∧ v.length = R.length

theorem specKeys_length_le (l r : List Int) : (specKeys l r).length ≤ l.length + r.length := by
  fun_induction specKeys l r <;> simp_all <;> omega

theorem specVals_length (op : Agg) : ∀ (kl kr vl vr t : List Int), vl.length = kl.length → vr.length = kr.length →
    specVals op kl kr vl vr = .ok t → t.length = (specKeys kl kr).length
  | [], kr, vl, vr, t, _, hr, h => by simp [specVals] at h; subst h; simp [specKeys, hr]
  | k1 :: kl, [], vl, vr, t, hl, _, h => by simp [specVals] at h; subst h; simp [specKeys, hl]
  | k1 :: kl, k2 :: kr, [], vr, t, hl, _, h => by simp at hl
  | k1 :: kl, k2 :: kr, v1 :: vl, [], t, _, hr, h => by simp at hr
  | k1 :: kl, k2 :: kr, v1 :: vl, v2 :: vr, t, hl, hr, h => by
      simp only [specVals] at h
      by_cases h1 : k1 < k2
      · simp only [h1, if_true] at h
        cases hs : specVals op kl (k2 :: kr) vl (v2 :: vr) with
        | error e => simp [hs] at h
        | ok t' =>
          simp [hs] at h; subst h
          have := specVals_length op kl (k2 :: kr) vl (v2 :: vr) t' (by simpa using hl) hr hs
          simp [specKeys, h1, this]
      · by_cases h2 : k2 < k1
        · simp only [h1, h2, if_true, if_false] at h
          cases hs : specVals op (k1 :: kl) kr (v1 :: vl) vr with
          | error e => simp [hs] at h
          | ok t' =>
            simp [hs] at h; subst h
            have := specVals_length op (k1 :: kl) kr (v1 :: vl) vr t' hl (by simpa using hr) hs
            simp [specKeys, h1, h2, this]
        · simp only [h1, h2, if_false] at h
          cases hc : combine op v1 v2 with
          | error e => simp [hc] at h
          | ok c =>
            cases hs : specVals op kl kr vl vr with
            | error e => simp [hc, hs] at h
            | ok t' =>
              simp [hc, hs] at h; subst h
              have := specVals_length op kl kr vl vr t' (by simpa using hl) (by simpa using hr) hs
              simp [specKeys, h1, h2, this]
termination_by kl kr => kl.length + kr.length

theorem specKeys_strict (l r : List Int) (hl : StrictAsc l) (hr : StrictAsc r) : StrictAsc (specKeys l r) := by
  fun_induction specKeys l r with
  | case1 kr => exact hr
  | case2 kl _ => exact hl
  | case3 k1 kl k2 kr hlt ih =>
    have hl' := (List.pairwise_cons.mp hl)
    have ih' := ih hl'.2 hr
    unfold StrictAsc at *
    refine List.pairwise_cons.mpr ⟨?_, ih'⟩
    intro x hx
    rcases mem_specKeys _ _ x hx with h | h
    · exact hl'.1 x h
    · rcases List.mem_cons.mp h with rfl | h
      · exact hlt
      · have := (List.pairwise_cons.mp hr).1 x h; omega
  | case4 k1 kl k2 kr hnlt hlt ih =>
    have hr' := (List.pairwise_cons.mp hr)
    have ih' := ih hl hr'.2
    unfold StrictAsc at *
    refine List.pairwise_cons.mpr ⟨?_, ih'⟩
    intro x hx
    rcases mem_specKeys _ _ x hx with h | h
    · rcases List.mem_cons.mp h with rfl | h
      · exact hlt
      · have := (List.pairwise_cons.mp hl).1 x h; omega
    · exact hr'.1 x h
  | case5 k1 kl k2 kr hnlt hnlt2 ih =>
    have hl' := (List.pairwise_cons.mp hl)
    have hr' := (List.pairwise_cons.mp hr)
    have ih' := ih hl'.2 hr'.2
    unfold StrictAsc at *
    refine List.pairwise_cons.mpr ⟨?_, ih'⟩
    intro x hx
    rcases mem_specKeys _ _ x hx with h | h
    · exact hl'.1 x h
    · have := hr'.1 x h; omega

/-- merging two well-formed two-column partial results = merging their order-embedded one-column versions -/
theorem mergeParts_two (op : Agg) (A B : List (Int × Int)) (va vb : List Int) (wA : WF2 A va) (wB : WF2 B vb)
    (hlen : A.length + B.length < 4294967295) :
    mergeParts op (part2 A va) (part2 B vb) = decodeRes (mergeParts op (part1 A va) (part1 B vb)) ∧
    (∀ P, mergeParts op (part1 A va) (part1 B vb) = .ok P →
      ∃ R v, P = part1 R v ∧ WF2 R v ∧ R.length ≤ A.length + B.length) := by
  obtain ⟨hA, iA, lA⟩ := wA
  obtain ⟨hB, iB, lB⟩ := wB
  have sA := lexAsc_enc A hA iA
  have sB := lexAsc_enc B hB iB
  have hk := dedup_keys (A.map enc2) (B.map enc2) sA sB
  have ho := dedup_ops (A.map enc2) (B.map enc2) sA sB
  have h2 := mergeKeys_two A B hA hB iA iB hlen
  have hv := merge_aggregate_spec op (A.map enc2) (B.map enc2) va vb sA sB (by simp [lA]) (by simp [lB])
  rw [ho] at hv
  have e1 : mergeParts op (part2 A va) (part2 B vb) =
      (match mergeAggregate op (specOps (A.map enc2) (B.map enc2)) va vb with
       | .ok v => MergeRes.ok ⟨[(specKeys (A.map enc2) (B.map enc2)).map dec2fst,
                                (specKeys (A.map enc2) (B.map enc2)).map dec2snd], v⟩
       | .error .overflow => .overflow
       | .error .fault => .fault) := by
    unfold mergeParts part2
    simp only [h2]
    rfl
  have e2 : mergeParts op (part1 A va) (part1 B vb) =
      (match mergeAggregate op (specOps (A.map enc2) (B.map enc2)) va vb with
       | .ok v => MergeRes.ok ⟨[specKeys (A.map enc2) (B.map enc2)], v⟩
       | .error .overflow => .overflow
       | .error .fault => .fault) := by
    unfold mergeParts part1
    simp only [mergeKeys, hk, ho]
    rfl
  constructor
  · rw [e1, e2]
    cases hm : mergeAggregate op (specOps (A.map enc2) (B.map enc2)) va vb with
    | ok v => simp [decodeRes, part2, decRow, List.map_map, Function.comp_def]
    | error e => cases e <;> simp [decodeRes]
  · intro P hP
    rw [e2] at hP
    cases hm : mergeAggregate op (specOps (A.map enc2) (B.map enc2)) va vb with
    | error e => rw [hm] at hP; cases e <;> simp at hP
    | ok v =>
      rw [hm] at hP
      simp at hP
      subst hP
      have hvl := specVals_length op (A.map enc2) (B.map enc2) va vb v (by simp [lA]) (by simp [lB]) (by rw [← hv]; exact hm)
      -- every key of the union is the embedding of a row
      have hmem : ∀ k ∈ specKeys (A.map enc2) (B.map enc2), ∃ p, (p ∈ A ∨ p ∈ B) ∧ enc2 p = k := by
        intro k hk'
        rcases mem_specKeys _ _ k hk' with h | h <;> simp only [List.mem_map] at h <;> obtain ⟨p, hp, rfl⟩ := h
        · exact ⟨p, Or.inl hp, rfl⟩
        · exact ⟨p, Or.inr hp, rfl⟩
      have hround : ∀ k ∈ specKeys (A.map enc2) (B.map enc2), enc2 (decRow k) = k ∧ inI64 (decRow k).2 := by
        intro k hk'
        obtain ⟨p, hp, rfl⟩ := hmem k hk'
        have hpi : inI64 p.2 := by rcases hp with hp | hp; exact iA p hp; exact iB p hp
        have := dec2_enc2 p hpi
        refine ⟨?_, ?_⟩
        · show enc2 (dec2fst (enc2 p), dec2snd (enc2 p)) = enc2 p
          rw [this.1, this.2]
        · show inI64 (dec2snd (enc2 p))
          rw [this.2]; exact hpi
      have hsorted : StrictAsc (specKeys (A.map enc2) (B.map enc2)) := specKeys_strict _ _ sA sB
      refine ⟨(specKeys (A.map enc2) (B.map enc2)).map decRow, v, ?_, ⟨?_, ?_, ?_⟩, ?_⟩
      · simp only [part1, List.map_map]
        congr 2
        conv => lhs; rw [← List.map_id (specKeys (A.map enc2) (B.map enc2))]
        apply List.map_congr_left
        intro k hk'
        simp [(hround k hk').1]
      · unfold LexAsc
        rw [List.pairwise_map]
        refine List.Pairwise.imp_of_mem ?_ hsorted
        intro k1 k2 h1 h2' hlt
        have r1 := hround k1 h1
        have r2 := hround k2 h2'
        have := (enc2_lt (decRow k1) (decRow k2) r1.2 r2.2).mp (by rw [r1.1, r2.1]; exact hlt)
        exact this
      · intro p hp
        simp only [List.mem_map] at hp
        obtain ⟨k, hk', rfl⟩ := hp
        exact (hround k hk').2
      · simp [hvl]
      · have := specKeys_length_le (A.map enc2) (B.map enc2)
        simpa using this


theorem decodeRes_part1 (R : List (Int × Int)) (v : List Int) (iR : SndI64 R) :
    decodeRes (.ok (part1 R v)) = .ok (part2 R v) := by
  have : (R.map enc2).map decRow = R := by
    rw [List.map_map]
    conv => rhs; rw [← List.map_id R]
    apply List.map_congr_left
    intro p hp
    have := dec2_enc2 p (iR p hp)
    simp only [Function.comp, decRow, this.1, this.2, id]
  simp [decodeRes, part1, this]

/-- number of key rows of the leaves a tree visits (with multiplicity) -/
def treeRows (leaves : List (List (Int × Int) × List Int)) : Tree → Nat
  | .leaf i => (leaves.getD i ([], [])).1.length
  | .node l r => treeRows leaves l + treeRows leaves r

/-- **Any merge tree over two-column partial results** is the decoded image of the same tree over the order-embedded
    one-column partial results — so every one-column theorem (bracketing independence, exact union) transfers. -/
theorem evalTree_two (op : Agg) (leaves : List (List (Int × Int) × List Int)) (t : Tree)
    (wf : ∀ l ∈ leaves, WF2 l.1 l.2) (hv : ∀ i ∈ t.leaves, i < leaves.length)
    (hsize : treeRows leaves t < 4294967295) :
    evalTree op (leaves.map fun l => part2 l.1 l.2) t =
        decodeRes (evalTree op (leaves.map fun l => part1 l.1 l.2) t) ∧
    (∀ P, evalTree op (leaves.map fun l => part1 l.1 l.2) t = .ok P →
        ∃ R v, P = part1 R v ∧ WF2 R v ∧ R.length ≤ treeRows leaves t) := by
  induction t with
  | leaf i =>
    have hi : i < leaves.length := hv i (by simp [Tree.leaves])
    have hw := wf leaves[i] (List.getElem_mem hi)
    constructor
    · simp only [evalTree, List.getElem?_map, List.getElem?_eq_getElem hi, Option.map_some]
      rw [decodeRes_part1 _ _ hw.2.1]
    · intro P hP
      simp only [evalTree, List.getElem?_map, List.getElem?_eq_getElem hi, Option.map_some] at hP
      simp at hP
      refine ⟨leaves[i].1, leaves[i].2, hP.symm, hw, ?_⟩
      simp [treeRows, List.getD, hi]
  | node l r ihl ihr =>
    have hvl : ∀ i ∈ l.leaves, i < leaves.length := fun i hi => hv i (by simp [Tree.leaves, hi])
    have hvr : ∀ i ∈ r.leaves, i < leaves.length := fun i hi => hv i (by simp [Tree.leaves, hi])
    simp only [treeRows] at hsize
    obtain ⟨el, wl⟩ := ihl hvl (by omega)
    obtain ⟨er, wr⟩ := ihr hvr (by omega)
    simp only [evalTree, el, er]
    cases hL : evalTree op (leaves.map fun l => part1 l.1 l.2) l with
    | ok PL =>
      obtain ⟨RL, vL, rfl, wL, sL⟩ := wl PL hL
      cases hR : evalTree op (leaves.map fun l => part1 l.1 l.2) r with
      | ok PR =>
        obtain ⟨RR, vR, rfl, wR, sR⟩ := wr PR hR
        rw [decodeRes_part1 _ _ wL.2.1, decodeRes_part1 _ _ wR.2.1]
        have hm := mergeParts_two op RL RR vL vR wL wR (by omega)
        refine ⟨hm.1, ?_⟩
        intro P hP
        obtain ⟨R, v, h1, h2, h3⟩ := hm.2 P hP
        exact ⟨R, v, h1, h2, by simp only [treeRows]; omega⟩
      | overflow =>
        rw [decodeRes_part1 _ _ wL.2.1]
        exact ⟨by simp [decodeRes], by intro P hP; simp at hP⟩
      | fault =>
        rw [decodeRes_part1 _ _ wL.2.1]
        exact ⟨by simp [decodeRes], by intro P hP; simp at hP⟩
    | overflow => exact ⟨by simp [decodeRes], by intro P hP; simp at hP⟩
    | fault => exact ⟨by simp [decodeRes], by intro P hP; simp at hP⟩
/-- a two-column exact partial result: key rows with their (nullable) partial aggregates -/
def xpartOf (l : List (Int × Int) × List (Option Int)) : XPart := (l.1.map enc2).zip l.2

theorem encPart_xpartOf (l : List (Int × Int) × List (Option Int)) (h : l.2.length = l.1.length) :
    encPart (xpartOf l) = part1 l.1 (l.2.map encV) := by
  simp only [encPart, xpartOf, part1, Part.mk.injEq]
  constructor
  · congr 1
    rw [List.map_fst_zip]; simp [h]
  · have : ((l.1.map enc2).zip l.2).map (fun p => encV p.2) = (((l.1.map enc2).zip l.2).map (·.2)).map encV := by
      rw [List.map_map]; rfl
    rw [this, List.map_snd_zip]; simp [h]

/-- **Bracketing independence with two grouping columns.** -/
theorem partition_indep_two (op : Agg) (leaves : List (List (Int × Int) × List (Option Int))) (t1 t2 : Tree)
    (wf : ∀ l ∈ leaves, LexAsc l.1 ∧ SndI64 l.1 ∧ l.2.length = l.1.length)
    (hl : t1.leaves = t2.leaves) (hv : ∀ i ∈ t1.leaves, i < leaves.length)
    (hs1 : treeRows (leaves.map fun l => (l.1, l.2.map encV)) t1 < 4294967295)
    (hs2 : treeRows (leaves.map fun l => (l.1, l.2.map encV)) t2 < 4294967295)
    (h1 : NodesInRng op (leaves.map xpartOf) t1) (h2 : NodesInRng op (leaves.map xpartOf) t2) :
    evalTree op (leaves.map fun l => part2 l.1 (l.2.map encV)) t1 =
      evalTree op (leaves.map fun l => part2 l.1 (l.2.map encV)) t2 := by
  have wf' : ∀ l ∈ leaves.map (fun l => (l.1, l.2.map encV)), WF2 l.1 l.2 := by
    intro l hl'
    simp only [List.mem_map] at hl'
    obtain ⟨l0, hl0, rfl⟩ := hl'
    obtain ⟨a, b, c⟩ := wf l0 hl0
    exact ⟨a, b, by simp [c]⟩
  have e1 := (evalTree_two op (leaves.map fun l => (l.1, l.2.map encV)) t1 wf' (by simpa using hv) hs1).1
  have e2 := (evalTree_two op (leaves.map fun l => (l.1, l.2.map encV)) t2 wf'
    (by rw [← hl]; simpa using hv) hs2).1
  simp only [List.map_map, Function.comp_def] at e1 e2
  rw [e1, e2]
  congr 1
  -- the embedded one-column parts are the in-band images of the exact parts
  have hparts : (leaves.map fun l => part1 l.1 (l.2.map encV)) = (leaves.map xpartOf).map encPart := by
    rw [List.map_map]
    apply List.map_congr_left
    intro l hl'
    exact (encPart_xpartOf l (wf l hl').2.2).symm
  rw [hparts]
  have hs : ∀ p ∈ leaves.map xpartOf, XSorted p := by
    intro p hp
    simp only [List.mem_map] at hp
    obtain ⟨l, hl', rfl⟩ := hp
    obtain ⟨a, b, c⟩ := wf l hl'
    unfold XSorted xpartOf
    rw [List.map_fst_zip (by simp [c])]
    exact lexAsc_enc l.1 a b
  have r1 := evalTree_sim op (leaves.map xpartOf) hs t1 (by simpa using hv) h1
  have r2 := evalTree_sim op (leaves.map xpartOf) hs t2 (by rw [← hl]; simpa using hv) h2
  rw [r1, r2, xeval_eq_xunion op _ hs t1, xeval_eq_xunion op _ hs t2, hl]
end LM.C04L
