import LocustModel.Lemmas.StoreDurableRun
import LocustModel.Lemmas.StoreInterleave
/-
  A concrete, non-trivial history of the storage machine used by the non-vacuity `example`s of Thm/C08, C13, C18:
  two tables, columns that come and go, a plain flush, a flush that COMPACTS the two partitions of table 1 into one,
  a restart, ingestion after the restart (lazy name-set initialisation), another flush.
-/
namespace LM.Store.Ex
open LM.Store

abbrev P0 : Params Nat Nat := ⟨id, 0, [.columnName]⟩

def idOrder : Nat → Request Nat Nat → Request Nat Nat := fun _ r => r
/-- a replay order that reverses the tables of every request -/
def revOrder : Nat → Request Nat Nat → Request Nat Nat := fun _ r => r.reverse

def fiPlain : FlushIn Nat := ⟨[], fun _ => ["all"], fun _ => ["all"]⟩
/-- merge all partitions of user table 1 (suffix index 0) -/
def fiCompact : FlushIn Nat := ⟨[(.user 1, 0)], fun _ => ["all"], fun _ => ["a", "b"]⟩

def r1 : Request Nat Nat := [(.user 1, ⟨1, [(.user 7, [.val 5])]⟩)]
def r2 : Request Nat Nat := [(.user 1, ⟨2, [(.user 8, [.val 6, .null])]⟩), (.user 2, ⟨1, [(.user 7, [.val 1])]⟩)]
def r3 : Request Nat Nat := [(.user 1, ⟨1, [(.user 7, [.val 9]), (.user 9, [.val 3])]⟩)]

def opsA : List (Op Nat Nat) :=
  [.ingest r1 10, .flush fiPlain, .ingest r2 20, .flush fiCompact, .restart idOrder, .ingest r3 5]

def opsB : List (Op Nat Nat) := opsA ++ [.restart revOrder, .flush fiPlain]

theorem P0_ok : ParamsOk P0 := ⟨fun _ => rfl, by simp⟩

theorem fiPlain_wf : FlushWF fiPlain := ⟨by simp [fiPlain], fun _ => by simp [fiPlain], fun _ => by simp [fiPlain]⟩
theorem fiCompact_wf : FlushWF fiCompact := ⟨by simp [fiCompact], fun _ => by simp [fiCompact], fun _ => by simp [fiCompact]⟩
theorem r1_wf : ReqWF r1 := ⟨by simp [r1], by intro sh h; simp [r1] at h; subst h; simp [Batch.names]⟩
theorem r2_wf : ReqWF r2 := ⟨by simp [r2], by intro sh h; simp [r2] at h; rcases h with rfl | rfl <;> simp [Batch.names]⟩
theorem r3_wf : ReqWF r3 := ⟨by simp [r3], by intro sh h; simp [r3] at h; subst h; simp [Batch.names]⟩
theorem idOrder_perm : ∀ id r, (idOrder id r).Perm r := fun _ r => List.Perm.refl r
theorem revOrder_perm : ∀ id r, (revOrder id r).Perm r := fun _ r => List.reverse_perm r

theorem opsA_wf : HistWF opsA := by
  intro op h
  simp only [opsA, List.mem_cons, List.mem_nil_iff, or_false] at h
  rcases h with rfl | rfl | rfl | rfl | rfl | rfl
  · exact r1_wf
  · exact fiPlain_wf
  · exact r2_wf
  · exact fiCompact_wf
  · exact idOrder_perm
  · exact r3_wf

theorem opsB_wf : HistWF opsB := by
  intro op h
  simp only [opsB, List.mem_append, List.mem_cons, List.mem_nil_iff, or_false] at h
  rcases h with h | rfl | rfl
  · exact opsA_wf op h
  · exact revOrder_perm
  · exact fiPlain_wf

-- ------------------------------------------------------------------------------------------------ interleaved histories

/-- `r1`; a force_flush request; the flush thread takes it and FREEZES; `r2` is ingested while the flush is between
    "buffers frozen" and "catalogue persisted" (before batching); `r3` after batching, still before persist_metastore;
    the flush completes; clean restart with reversed replay. -/
def iopsFlush : List (IOp Nat Nat) :=
  [.ingest r1 10, .forceReq, .flushBegin 1, .ingest r2 20, .flushBatch fiPlain, .ingest r3 5, .flushMeta, .flushGcParts, .flushGcWal, .flushAnswer]

def iopsA : List (IOp Nat Nat) := iopsFlush ++ [.restart revOrder]

/-- As `iopsFlush`, and a SECOND force_flush is requested while the first flush is past its freeze. -/
def iopsLate : List (IOp Nat Nat) :=
  [.ingest r1 10, .forceReq, .flushBegin 1, .ingest r2 20, .forceReq, .flushBatch fiPlain, .flushMeta, .flushGcParts, .flushGcWal, .flushAnswer]

theorem iopsFlush_wf : IHistWF iopsFlush := by
  intro op h
  simp only [iopsFlush, List.mem_cons, List.mem_nil_iff, or_false] at h
  rcases h with rfl | rfl | rfl | rfl | rfl | rfl | rfl | rfl | rfl | rfl
  · exact r1_wf
  · trivial
  · trivial
  · exact r2_wf
  · exact fiPlain_wf
  · exact r3_wf
  · trivial
  · trivial
  · trivial
  · trivial

theorem iopsA_wf : IHistWF iopsA := by
  intro op h
  simp only [iopsA, List.mem_append, List.mem_cons, List.mem_nil_iff, or_false] at h
  rcases h with h | rfl
  · exact iopsFlush_wf op h
  · exact revOrder_perm

theorem iopsLate_wf : IHistWF iopsLate := by
  intro op h
  simp only [iopsLate, List.mem_cons, List.mem_nil_iff, or_false] at h
  rcases h with rfl | rfl | rfl | rfl | rfl | rfl | rfl | rfl | rfl | rfl
  · exact r1_wf
  · trivial
  · trivial
  · exact r2_wf
  · trivial
  · exact fiPlain_wf
  · trivial
  · trivial
  · trivial
  · trivial

end LM.Store.Ex
