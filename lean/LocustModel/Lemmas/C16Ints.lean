import LocustModel.Wire.ApiInts
/-
  Lemmas for C16 (integer response codec): the statistics loop computes bounds of the first and
  second differences (exactly, in i128); each encoder loop produces exactly the differences its decoder
  loop sums up.  The double-delta pair and the Range decoder work modulo 2^64 (`wrap64`): the lemmas
  below show that the wrapped intermediate values still determine the exact result whenever the result
  is an i64.
-/
namespace LM.Wire.ApiInts
open LM

theorem mem_deltasFrom_cons {prev c : Int} {rest : List Int} {d : Int} :
    d ∈ deltasFrom prev (c :: rest) ↔ d = c - prev ∨ d ∈ deltasFrom c rest := by
  simp [deltasFrom]

/-! ### Two's-complement facts -/

/-- `wrap64 x` differs from `x` by a multiple of 2^64. -/
theorem wrap64_spec (x : Int) : ∃ k : Int, wrap64 x = x + 18446744073709551616 * k :=
  ⟨-((x + 9223372036854775808) / 18446744073709551616), by unfold wrap64; omega⟩

/-- A value congruent to an i64 `y` modulo 2^64 wraps to `y`. -/
theorem wrap64_eq_of_congr {x y k : Int} (hy : inI64 y) (h : x = y + 18446744073709551616 * k) :
    wrap64 x = y := by
  unfold inI64 I64_MIN I64_MAX at hy; unfold wrap64; omega

theorem wrap64_sub_wrap64 (a b : Int) : wrap64 (wrap64 a - wrap64 b) = wrap64 (a - b) := by
  unfold wrap64; omega

theorem wrap64_wrap64_add (a b : Int) : wrap64 (wrap64 a + b) = wrap64 (a + b) := by
  unfold wrap64; omega

theorem wrap64_add_wrap64 (a b : Int) : wrap64 (a + wrap64 b) = wrap64 (a + b) := by
  unfold wrap64; omega

/-- `start.wrapping_add((i as i64).wrapping_mul(step))` is exact whenever `start + i * step` is an i64. -/
theorem wrap_range_elem (a s i : Int) (h : inI64 (a + i * s)) :
    wrap64 (a + wrap64 (wrap64 i * s)) = a + i * s := by
  obtain ⟨k1, h1⟩ := wrap64_spec i
  obtain ⟨k2, h2⟩ := wrap64_spec (wrap64 i * s)
  apply wrap64_eq_of_congr (k := k1 * s + k2) h
  rw [h2, h1, Int.add_mul, Int.mul_add, Int.mul_assoc]
  omega

/-! ### Statistics -/

/-- The statistics loop returns bounds for all first differences (`deltasFrom prev rest`) and all second
    differences — exact integers, whatever their size. -/
theorem statsLoop_spec : ∀ (rest : List Int) (prev pd : Int) (st : DeltaStats),
    let st' := statsLoop rest prev pd st
    st'.minDelta ≤ st.minDelta ∧ st.maxDelta ≤ st'.maxDelta ∧
    st'.minDD ≤ st.minDD ∧ st.maxDD ≤ st'.maxDD ∧
    (∀ d ∈ deltasFrom prev rest, st'.minDelta ≤ d ∧ d ≤ st'.maxDelta) ∧
    (∀ dd ∈ deltasFrom pd (deltasFrom prev rest), st'.minDD ≤ dd ∧ dd ≤ st'.maxDD)
  | [], prev, pd, st => ⟨Int.le_refl _, Int.le_refl _, Int.le_refl _, Int.le_refl _,
      by simp [deltasFrom], by simp [deltasFrom]⟩
  | c :: rest, prev, pd, st => by
    obtain ⟨h1, h2, h3, h4, h5, h6⟩ :=
      statsLoop_spec rest c (c - prev)
        { minDelta := min st.minDelta (c - prev), maxDelta := max st.maxDelta (c - prev),
          minDD := min st.minDD (c - prev - pd), maxDD := max st.maxDD (c - prev - pd) }
    simp only at h1 h2 h3 h4
    simp only [statsLoop]
    refine ⟨by omega, by omega, by omega, by omega, ?_, ?_⟩
    · intro d hd'
      rcases mem_deltasFrom_cons.mp hd' with rfl | hr
      · omega
      · exact h5 d hr
    · intro dd hdd
      simp only [deltasFrom] at hdd
      rcases mem_deltasFrom_cons.mp hdd with rfl | hr
      · omega
      · exact h6 dd hr

/-- For i64 inputs every first difference has magnitude < 2^64 and every second difference < 2^65, so the
    i128 subtractions of `determine_delta_compressability` cannot overflow (they are modelled as exact). -/
theorem deltas_in_i128 : ∀ (rest : List Int) (prev : Int), inI64 prev → (∀ x ∈ rest, inI64 x) →
    ∀ d ∈ deltasFrom prev rest, -18446744073709551616 < d ∧ d < 18446744073709551616
  | [], _, _, _, d, hd => by simp [deltasFrom] at hd
  | c :: rest, prev, hp, hall, d, hd => by
    have hc : inI64 c := hall c (by simp)
    rcases mem_deltasFrom_cons.mp hd with rfl | hr
    · unfold inI64 I64_MIN I64_MAX at hp hc; omega
    · exact deltas_in_i128 rest c hc (fun x hx => hall x (by simp [hx])) d hr

theorem ddeltas_in_i128 : ∀ (ds : List Int) (pd : Int),
    (-18446744073709551616 < pd ∧ pd < 18446744073709551616) →
    (∀ d ∈ ds, -18446744073709551616 < d ∧ d < 18446744073709551616) →
    ∀ dd ∈ deltasFrom pd ds, -36893488147419103232 < dd ∧ dd < 36893488147419103232
  | [], _, _, _, dd, hd => by simp [deltasFrom] at hd
  | c :: rest, pd, hp, hall, dd, hd => by
    have hc := hall c (by simp)
    rcases mem_deltasFrom_cons.mp hd with rfl | hr
    · omega
    · exact ddeltas_in_i128 rest c hc (fun x hx => hall x (by simp [hx])) dd hr

/-! ### Delta layouts (checked i64 arithmetic) -/

/-- `delta_encode` yields the adjacent differences, and the delta decoder sums them back. -/
theorem deltaLoop_rt (lo hi : Int) (hlo : I64_MIN ≤ lo) (hhi : hi ≤ I64_MAX) :
    ∀ (rest : List Int) (prev : Int), (∀ x ∈ rest, inI64 x) →
      (∀ d ∈ deltasFrom prev rest, lo ≤ d ∧ d ≤ hi) →
      deltaLoop lo hi prev rest = .ok (deltasFrom prev rest) ∧
      deltaDecodeLoop prev (deltasFrom prev rest) = .ok rest
  | [], _, _, _ => by simp [deltaLoop, deltasFrom, deltaDecodeLoop]
  | c :: rest, prev, hall, hb => by
    have hd := hb (c - prev) (by simp [deltasFrom])
    have hdi : inI64 (c - prev) := by unfold inI64; omega
    have hc : inI64 c := hall c (by simp)
    obtain ⟨e1, e2⟩ := deltaLoop_rt lo hi hlo hhi rest c (fun x hx => hall x (by simp [hx]))
      (fun d hd' => hb d (by simp [deltasFrom, hd']))
    have hsum : prev + (c - prev) = c := by omega
    constructor
    · simp [deltaLoop, deltasFrom, subI64, hdi, hd, e1]
    · simp [deltasFrom, deltaDecodeLoop, addI64, hsum, hc, e2]

/-! ### Double-delta layouts (arithmetic modulo 2^64) -/

/-- `double_delta_encode` yields the exact second differences although it keeps the first differences only
    modulo 2^64 (`pd` is the exact previous first difference, the loop carries `wrap64 pd`), and the
    double-delta decoder — which carries the same wrapped first difference — sums them back to the input.
    No hypothesis on the size of the first differences. -/
theorem ddLoop_rt (lo hi : Int) (hlo : I64_MIN ≤ lo) (hhi : hi ≤ I64_MAX) :
    ∀ (rest : List Int) (prev pd : Int), (∀ x ∈ rest, inI64 x) →
      (∀ dd ∈ deltasFrom pd (deltasFrom prev rest), lo ≤ dd ∧ dd ≤ hi) →
      ddLoop lo hi prev (wrap64 pd) rest = .ok (deltasFrom pd (deltasFrom prev rest)) ∧
      ddDecodeLoop prev (wrap64 pd) (deltasFrom pd (deltasFrom prev rest)) = rest
  | [], _, _, _, _ => by simp [ddLoop, deltasFrom, ddDecodeLoop]
  | c :: rest, prev, pd, hall, hb => by
    have hdd := hb (c - prev - pd) (by simp [deltasFrom])
    have hddi : inI64 (c - prev - pd) := by unfold inI64; omega
    have hc : inI64 c := hall c (by simp)
    obtain ⟨e1, e2⟩ := ddLoop_rt lo hi hlo hhi rest c (c - prev) (fun x hx => hall x (by simp [hx]))
      (fun d hd' => hb d (by simp [deltasFrom, hd']))
    -- encoder: wrap64 (wrap64 (c - prev) - wrap64 pd) = c - prev - pd
    have henc : wrap64 (wrap64 (c - prev) - wrap64 pd) = c - prev - pd := by
      rw [wrap64_sub_wrap64, wrap64_id hddi]
    -- decoder: wrap64 (wrap64 pd + dd) = wrap64 (c - prev);  wrap64 (prev + wrap64 (c - prev)) = c
    have hld : wrap64 (wrap64 pd + (c - prev - pd)) = wrap64 (c - prev) := by
      rw [wrap64_wrap64_add]; congr 1; omega
    have hl : wrap64 (prev + wrap64 (c - prev)) = c := by
      rw [wrap64_add_wrap64]
      have : prev + (c - prev) = c := by omega
      rw [this, wrap64_id hc]
    constructor
    · simp [ddLoop, deltasFrom, henc, hdd, e1]
    · simp [deltasFrom, ddDecodeLoop, hld, hl, e2]

/-! ### Range layout (arithmetic modulo 2^64) -/

/-- The Range decoder reproduces every arithmetic progression of i64 values, whatever the size of the
    intermediate product `i * step`. -/
theorem range_rt (a s : Int) : ∀ (rest : List Int) (prev : Int) (i : Nat),
    prev = a + (i : Int) * s → (∀ d ∈ deltasFrom prev rest, d = s) → (∀ x ∈ rest, inI64 x) →
    rangeDecodeFrom a s (i + 1) rest.length = rest
  | [], _, _, _, _, _ => by simp [rangeDecodeFrom]
  | c :: rest, prev, i, hp, hc, hall => by
    have hd : c - prev = s := hc _ (by simp [deltasFrom])
    have hci : inI64 c := hall c (by simp)
    have hval : a + ((i + 1 : Nat) : Int) * s = c := by
      have : ((i + 1 : Nat) : Int) * s = (i : Int) * s + s := by
        rw [Int.natCast_succ, Int.add_mul, Int.one_mul]
      omega
    have ih := range_rt a s rest c (i + 1) hval.symm (fun d hd' => hc d (by simp [deltasFrom, hd']))
      (fun x hx => hall x (by simp [hx]))
    have hw := wrap_range_elem a s ((i + 1 : Nat) : Int) (by rw [hval]; exact hci)
    simp only [List.length_cons, rangeDecodeFrom, hw, hval, ih]

end LM.Wire.ApiInts
