import LocustModel.Wire.ApiInts
/-
  Lemmas for C16 (integer response codec): the statistics loop computes bounds of the first and
  second differences; each encoder loop produces exactly the differences its decoder loop sums up.
-/
namespace LM.Wire.ApiInts
open LM

theorem mem_deltasFrom_cons {prev c : Int} {rest : List Int} {d : Int} :
    d ∈ deltasFrom prev (c :: rest) ↔ d = c - prev ∨ d ∈ deltasFrom c rest := by
  simp [deltasFrom]

/-- The statistics loop succeeds when all adjacent differences fit i64, and returns bounds for all
    first differences (`deltasFrom prev rest`) and all second differences. -/
theorem statsLoop_spec : ∀ (rest : List Int) (prev pd : Int) (st : DeltaStats),
    (∀ d ∈ deltasFrom prev rest, inI64 d) →
    ∃ st', statsLoop rest prev pd st = .ok st' ∧
      st'.minDelta ≤ st.minDelta ∧ st.maxDelta ≤ st'.maxDelta ∧
      st'.minDD ≤ st.minDD ∧ st.maxDD ≤ st'.maxDD ∧
      (∀ d ∈ deltasFrom prev rest, st'.minDelta ≤ d ∧ d ≤ st'.maxDelta) ∧
      (∀ dd ∈ deltasFrom pd (deltasFrom prev rest), st'.minDD ≤ dd ∧ dd ≤ st'.maxDD)
  | [], prev, pd, st, _ => ⟨st, rfl, Int.le_refl _, Int.le_refl _, Int.le_refl _, Int.le_refl _,
      by simp [deltasFrom], by simp [deltasFrom]⟩
  | c :: rest, prev, pd, st, h => by
    have hd : inI64 (c - prev) := h _ (by simp [deltasFrom])
    obtain ⟨st', he, h1, h2, h3, h4, h5, h6⟩ :=
      statsLoop_spec rest c (c - prev)
        { minDelta := min st.minDelta (c - prev), maxDelta := max st.maxDelta (c - prev),
          minDD := min st.minDD (c - prev - pd), maxDD := max st.maxDD (c - prev - pd) }
        (fun d hd' => h d (by simp [deltasFrom, hd']))
    simp only at h1 h2 h3 h4
    refine ⟨st', ?_, by omega, by omega, by omega, by omega, ?_, ?_⟩
    · simp [statsLoop, subI64, hd, he]
    · intro d hd'
      rcases mem_deltasFrom_cons.mp hd' with rfl | hr
      · omega
      · exact h5 d hr
    · intro dd hdd
      simp only [deltasFrom] at hdd
      rcases mem_deltasFrom_cons.mp hdd with rfl | hr
      · omega
      · exact h6 dd hr

/-- If some adjacent difference does not fit i64, the statistics loop panics (overflow). -/
theorem statsLoop_fault : ∀ (rest : List Int) (prev pd : Int) (st : DeltaStats),
    (∃ d ∈ deltasFrom prev rest, ¬ inI64 d) → statsLoop rest prev pd st = .error .overflow
  | [], _, _, _, h => by simp [deltasFrom] at h
  | c :: rest, prev, pd, st, h => by
    by_cases hd : inI64 (c - prev)
    · obtain ⟨d, hm, hn⟩ := h
      rcases mem_deltasFrom_cons.mp hm with rfl | hr
      · exact absurd hd hn
      · simp [statsLoop, subI64, hd, statsLoop_fault rest c _ _ ⟨d, hr, hn⟩]
    · simp [statsLoop, subI64, hd]

/-- `delta_encode` yields the adjacent differences, and the delta decoder sums them back. -/
theorem deltaLoop_rt (lo hi : Int) (hlo : I64_MIN ≤ lo) (hhi : hi ≤ I64_MAX) :
    ∀ (rest : List Int) (prev : Int), (∀ x ∈ rest, inI64 x) →
      (∀ d ∈ deltasFrom prev rest, lo ≤ d ∧ d ≤ hi) →
      deltaLoop lo hi prev rest = .ok (deltasFrom prev rest) ∧
      deltaDecodeLoop prev (deltasFrom prev rest) = .ok rest
  | [], _, _, _ => by simp [deltaLoop, deltasFrom, deltaDecodeLoop]
  | c :: rest, prev, hall, hb => by
    have hd := hb (c - prev) (by simp [deltasFrom])
    have hdi : inI64 (c - prev) := by unfold inI64; omega
    have hc : inI64 c := hall c (by simp)
    obtain ⟨e1, e2⟩ := deltaLoop_rt lo hi hlo hhi rest c (fun x hx => hall x (by simp [hx]))
      (fun d hd' => hb d (by simp [deltasFrom, hd']))
    have hsum : prev + (c - prev) = c := by omega
    constructor
    · simp [deltaLoop, deltasFrom, subI64, hdi, hd, e1]
    · simp [deltasFrom, deltaDecodeLoop, addI64, hsum, hc, e2]

/-- `double_delta_encode` yields the second differences, and the double-delta decoder sums them back. -/
theorem ddLoop_rt (lo hi : Int) (hlo : I64_MIN ≤ lo) (hhi : hi ≤ I64_MAX) :
    ∀ (rest : List Int) (prev pd : Int), (∀ x ∈ rest, inI64 x) →
      (∀ d ∈ deltasFrom prev rest, inI64 d) →
      (∀ dd ∈ deltasFrom pd (deltasFrom prev rest), lo ≤ dd ∧ dd ≤ hi) →
      ddLoop lo hi prev pd rest = .ok (deltasFrom pd (deltasFrom prev rest)) ∧
      ddDecodeLoop prev pd (deltasFrom pd (deltasFrom prev rest)) = .ok rest
  | [], _, _, _, _, _ => by simp [ddLoop, deltasFrom, ddDecodeLoop]
  | c :: rest, prev, pd, hall, hds, hb => by
    have hdi : inI64 (c - prev) := hds _ (by simp [deltasFrom])
    have hdd := hb (c - prev - pd) (by simp [deltasFrom])
    have hddi : inI64 (c - prev - pd) := by unfold inI64; omega
    have hc : inI64 c := hall c (by simp)
    obtain ⟨e1, e2⟩ := ddLoop_rt lo hi hlo hhi rest c (c - prev) (fun x hx => hall x (by simp [hx]))
      (fun d hd' => hds d (by simp [deltasFrom, hd']))
      (fun d hd' => hb d (by simp [deltasFrom, hd']))
    have hs1 : pd + (c - prev - pd) = c - prev := by omega
    have hs2 : prev + (c - prev) = c := by omega
    constructor
    · simp [ddLoop, deltasFrom, subI64, hdi, hddi, hdd, e1]
    · simp [deltasFrom, ddDecodeLoop, addI64, hs1, hs2, hdi, hc, e2]

/-- Multiples of the step up to the last index stay in i64 when the last one does. -/
theorem mul_inI64_of_le {s : Int} {j n : Nat} (hjn : j ≤ n) (hn : inI64 ((n : Int) * s)) :
    inI64 ((j : Int) * s) := by
  unfold inI64 I64_MIN I64_MAX at *
  have hj : (j : Int) ≤ (n : Int) := by exact_mod_cast hjn
  have hj0 : (0 : Int) ≤ (j : Int) := by omega
  rcases Int.le_total 0 s with hs | hs
  · have h1 : (j : Int) * s ≤ (n : Int) * s := Int.mul_le_mul_of_nonneg_right hj hs
    have h2 : 0 ≤ (j : Int) * s := Int.mul_nonneg hj0 hs
    omega
  · have h1 : (n : Int) * s ≤ (j : Int) * s := Int.mul_le_mul_of_nonpos_right hj hs
    have h2 : (j : Int) * s ≤ 0 := Int.mul_nonpos_of_nonneg_of_nonpos hj0 hs
    omega

/-- The Range decoder reproduces an arithmetic progression when no multiple of the step overflows. -/
theorem range_rt (a s : Int) : ∀ (rest : List Int) (prev : Int) (i : Nat),
    prev = a + (i : Int) * s → (∀ d ∈ deltasFrom prev rest, d = s) → (∀ x ∈ rest, inI64 x) →
    (∀ j : Nat, j ≤ i + rest.length → inI64 ((j : Int) * s)) →
    rangeDecodeFrom a s (i + 1) rest.length = .ok rest
  | [], _, _, _, _, _, _ => by simp [rangeDecodeFrom]
  | c :: rest, prev, i, hp, hc, hall, hm => by
    have hd : c - prev = s := hc _ (by simp [deltasFrom])
    have hci : inI64 c := hall c (by simp)
    have hmi : inI64 (((i + 1 : Nat) : Int) * s) := hm (i + 1) (by simp)
    have hval : a + ((i + 1 : Nat) : Int) * s = c := by
      have : ((i + 1 : Nat) : Int) * s = (i : Int) * s + s := by
        rw [Int.natCast_succ, Int.add_mul, Int.one_mul]
      omega
    have ih := range_rt a s rest c (i + 1) hval.symm (fun d hd' => hc d (by simp [deltasFrom, hd']))
      (fun x hx => hall x (by simp [hx]))
      (fun j hj => hm j (by simp only [List.length_cons]; omega))
    simp only [List.length_cons, rangeDecodeFrom, mulI64, hmi, if_true, addI64, hval, hci, ih]

theorem deltas_all_inI64_of_not_overflows {xs : List Int} (h : diffOverflows xs = false) :
    ∀ d ∈ deltas xs, inI64 d := by
  intro d hd
  simp only [diffOverflows, List.any_eq_false] at h
  have := h d hd
  simpa using this

end LM.Wire.ApiInts
