import LocustModel.Lemmas.StoreDurableRecover
/-
  Invariant `Durable`, part 5: it holds after EVERY history of the machine (`run P ops (initWorld P) = .ok w`),
  for well-formed inputs (`HistWF`) and parameters (`ParamsOk`); and the ghost log is the history's requests.
-/
namespace LM.Store
set_option linter.unusedSectionVars false
set_option linter.unusedSimpArgs false
set_option linter.unusedVariables false

variable {ν κ : Type} [DecidableEq ν]

/-- What the theorems assume about the parameters: compaction re-encodes losslessly (C07's theorem) and
    `Table::new` gives `_meta_columns_*` tables a name set that contains "column_name" (true since fix a0c515f). -/
structure ParamsOk (P : Params ν κ) : Prop where
  reencode : ∀ bs, P.reencode bs = bs
  init : CName.columnName ∈ P.metaColsInit

/-- What the theorems assume about the inputs of one step (facts of the Rust types / of the planner):
    a request is a map table ↦ (map column ↦ cells); at most one compaction per table and flush, key lists
    non-empty; the replay order of a request's tables is some permutation. -/
def OpWF : Op ν κ → Prop
  | .ingest r _ => ReqWF r
  | .flush fi => FlushWF fi
  | .restart order => ∀ id r, (order id r).Perm r

def HistWF (ops : List (Op ν κ)) : Prop := ∀ op ∈ ops, OpWF op

theorem logCat_nil : LogCat ([] : List (Request ν κ)) := by
  constructor
  · intro r hr; cases hr
  · intro r hr; cases hr
  · intro r hr; cases hr
  · intro r hr; cases hr
  · intro r hr; cases hr
  · intro n; simp [logOf]
  · intro n; exact ⟨[], rfl, List.nodup_nil, fun c => by simp [logOf, namesIn]⟩
  · exact ⟨[], rfl, List.nodup_nil, fun t => by simp [logOf]⟩

theorem durable_init (P : Params ν κ) : Durable (initWorld P) := by
  refine ⟨[], walInv_init P, rfl, rfl, rfl, ?_, ?_, ?_⟩
  · intro t tm ht
    simp only [initWorld, createIfEmpty_none P (fun _ => none) .metaTables rfl, setTable] at ht
    split at ht
    · rename_i e
      subst e
      cases ht
      constructor
      · rfl
      · exact ⟨by simp [newTable], by simp [newTable], by simp [newTable], by simp [newTable], rfl, by simp [newTable]⟩
      · rfl
      · rfl
      · rfl
      · rfl
      · right; rfl
      · intro n e; cases e
      · intro _; exact ⟨[.timestamp, .name], rfl, by simp [initWorld, emptyDisk, logOf, namesIn]⟩
    · cases ht
  · intro t ht
    simp only [initWorld, createIfEmpty_none P (fun _ => none) .metaTables rfl, setTable] at ht
    have hne : t ≠ .metaTables := by
      intro e; subst e; simp at ht
    exact ⟨hne, rfl, rfl, rfl⟩
  · intro l1 l2 e
    have : l1 = [] := by
      have h : ([] : List (Request ν κ)) = l1 ++ l2 := e
      exact (List.append_eq_nil_iff.mp h.symm).1
    subst this; exact logCat_nil

theorem durable_step (P : Params ν κ) (hP : ParamsOk P) (w w' : World ν κ) (op : Op ν κ) (hop : OpWF op)
    (hd : Durable w) (h : step P w op = .ok w') : Durable w' := by
  cases op with
  | ingest r bytes => exact durable_ingest P w w' r bytes hd hop h
  | flush fi => exact durable_flush P w w' fi hP.reencode hop hd h
  | restart order => exact durable_recover P w w' order hP.init hop hd h

theorem durable_fold (P : Params ν κ) (hP : ParamsOk P) : ∀ (ops : List (Op ν κ)) (w w' : World ν κ), HistWF ops →
    Durable w → run P ops w = .ok w' → Durable w' := by
  intro ops
  induction ops with
  | nil => intro w w' _ hd h; simp [run, foldE] at h; subst h; exact hd
  | cons op ops ih =>
    intro w w' hwf hd h
    simp only [run, foldE] at h
    split at h
    · rename_i w1 h1
      exact ih w1 w' (fun o ho => hwf o (List.mem_cons_of_mem _ ho))
        (durable_step P hP w w1 op (hwf op (List.mem_cons_self ..)) hd h1) h
    · cases h

/-- The invariant holds after every history. -/
theorem durable_run (P : Params ν κ) (hP : ParamsOk P) (ops : List (Op ν κ)) (hwf : HistWF ops) (w : World ν κ)
    (h : run P ops (initWorld P) = .ok w) : Durable w :=
  durable_fold P hP ops _ w hwf (durable_init P) h

-- ------------------------------------------------------------------------------------------------ the ghost log is the history

theorem ingest_log (P : Params ν κ) (w w' : World ν κ) (r : Request ν κ) (bytes : Nat) (h : ingest P w r bytes = .ok w') :
    ∃ acc, w'.log = w.log ++ [augment r acc] := by
  unfold LM.Store.ingest at h
  split at h
  · cases h
  · rename_i acc _
    simp only at h
    split at h
    · cases h
    · cases h; exact ⟨acc, rfl⟩

theorem flush_log (P : Params ν κ) (w w' : World ν κ) (fi : FlushIn ν) (h : flush P w fi = .ok w') : w'.log = w.log := by
  obtain ⟨w3, toDel, hs, rfl⟩ := flush_shape P w w' fi h
  have := hs.2.2.2.2.2
  simpa [deleteWal, deleteOrphans, persistMeta, batchAndPersist, freeze] using this

theorem recover_log (P : Params ν κ) (d : Disk ν κ) (log : List (Request ν κ)) (lossy : Bool)
    (order : Nat → Request ν κ → Request ν κ) (w' : World ν κ) (h : recover P d log lossy order = .ok w') : w'.log = log := by
  unfold LM.Store.recover at h
  simp only at h
  split at h
  · cases h
  · cases h; rfl

theorem acked_cons_ingest (r : Request ν κ) (bytes : Nat) (ops : List (Op ν κ)) (t : TName ν) :
    acked (Op.ingest r bytes :: ops) t = shareOf t r ++ acked ops t := by
  simp [acked, userRequests, logOf]

theorem acked_cons_flush (fi : FlushIn ν) (ops : List (Op ν κ)) (t : TName ν) :
    acked (Op.flush (κ := κ) fi :: ops) t = acked ops t := by
  simp [acked, userRequests]

theorem acked_cons_restart (o : Nat → Request ν κ → Request ν κ) (ops : List (Op ν κ)) (t : TName ν) :
    acked (Op.restart o :: ops) t = acked ops t := by
  simp [acked, userRequests]

/-- The share of user table `n` in the ghost log = the shares of the history's ingestion calls, in call order. -/
theorem run_log_user (P : Params ν κ) (n : ν) : ∀ (ops : List (Op ν κ)) (w w' : World ν κ), run P ops w = .ok w' →
    logOf (.user n) w'.log = logOf (.user n) w.log ++ acked ops (.user n) := by
  intro ops
  induction ops with
  | nil => intro w w' h; simp [run, foldE] at h; subst h; simp [acked, userRequests, logOf]
  | cons op ops ih =>
    intro w w' h
    simp only [run, foldE] at h
    split at h
    · rename_i w1 h1
      have := ih w1 w' h
      rw [this]
      cases op with
      | ingest r bytes =>
        obtain ⟨acc, hl⟩ := ingest_log P w w1 r bytes h1
        rw [hl, logOf_snoc, augment_user, acked_cons_ingest, List.append_assoc]
      | flush fi => rw [flush_log P w w1 fi h1, acked_cons_flush]
      | restart order => rw [recover_log P _ _ _ order w1 h1, acked_cons_restart]
    · cases h

theorem run_log_user_init (P : Params ν κ) (n : ν) (ops : List (Op ν κ)) (w : World ν κ)
    (h : run P ops (initWorld P) = .ok w) : logOf (.user n) w.log = acked ops (.user n) := by
  have := run_log_user P n ops _ w h
  simpa [initWorld, logOf] using this

theorem run_append (P : Params ν κ) (ops1 ops2 : List (Op ν κ)) (w w' : World ν κ)
    (h : run P (ops1 ++ ops2) w = .ok w') : ∃ w1, run P ops1 w = .ok w1 ∧ run P ops2 w1 = .ok w' := by
  induction ops1 generalizing w with
  | nil => exact ⟨w, rfl, h⟩
  | cons op ops ih =>
    have h' : run P (op :: (ops ++ ops2)) w = .ok w' := h
    simp only [run, foldE] at h'
    split at h'
    · rename_i w1 h1
      obtain ⟨w2, h2, h3⟩ := ih w1 h'
      refine ⟨w2, ?_, h3⟩
      show foldE (step P) (op :: ops) w = .ok w2
      simp only [foldE, h1]; exact h2
    · cases h'

theorem run_snoc (P : Params ν κ) (ops : List (Op ν κ)) (op : Op ν κ) (w0 w w' : World ν κ)
    (h1 : run P ops w0 = .ok w) (h2 : step P w op = .ok w') : run P (ops ++ [op]) w0 = .ok w' := by
  induction ops generalizing w0 with
  | nil => simp [run, foldE] at h1; subst h1; simp [run, foldE, h2]
  | cons o ops ih =>
    simp only [run, foldE] at h1
    split at h1
    · rename_i w1 h3
      simp only [List.cons_append, run, foldE, h3]
      exact ih w1 h1
    · cases h1

theorem histWF_snoc (ops : List (Op ν κ)) (op : Op ν κ) (h : HistWF ops) (hop : OpWF op) : HistWF (ops ++ [op]) := by
  intro o ho
  rcases List.mem_append.mp ho with ho | ho
  · exact h o ho
  · simp at ho; subst ho; exact hop

-- ------------------------------------------------------------------------------------------------ corollaries used by Thm/*

theorem userRequests_append (ops1 ops2 : List (Op ν κ)) : userRequests (ops1 ++ ops2) = userRequests ops1 ++ userRequests ops2 := by
  induction ops1 with
  | nil => rfl
  | cons op ops ih => cases op <;> simp [userRequests, ih]

theorem acked_append (ops1 ops2 : List (Op ν κ)) (t : TName ν) : acked (ops1 ++ ops2) t = acked ops1 t ++ acked ops2 t := by
  simp [acked, userRequests_append, logOf_append]

theorem rowsLen_append (a b : List (Batch ν κ)) : rowsLen (a ++ b) = rowsLen a + rowsLen b := by
  induction a with
  | nil => simp [rowsLen]
  | cons x xs ih => simp [rowsLen, ih]; omega

theorem colCells_missing (c : CName ν) (b : Batch ν κ) (h : c ∉ b.names) : colCells c b = List.replicate b.nrows Cell.null := by
  unfold colCells
  have : b.cols.lookup c = none := by
    rw [List.lookup_eq_none_iff]
    intro p hp
    simp only [Batch.names, List.mem_map, not_exists, not_and] at h
    have := h p hp
    simp only [bne_iff_ne, ne_eq]
    exact fun heq => this heq.symm
  rw [this]

/-- A column no batch mentions reads as NULL for every row. -/
theorem readColumn_missing (c : CName ν) (bs : List (Batch ν κ)) (h : c ∉ namesIn bs) :
    readColumn c bs = List.replicate (rowsLen bs) Cell.null := by
  induction bs with
  | nil => rfl
  | cons b bs ih =>
    have h1 : c ∉ b.names := fun hc => h (by simp [namesIn, hc])
    have h2 : c ∉ namesIn bs := fun hc => h (by simp only [namesIn, List.flatMap_cons, List.mem_append]; exact Or.inr hc)
    simp only [readColumn, List.flatMap_cons, rowsLen] at ih ⊢
    rw [colCells_missing c b h1, ih h2, List.replicate_append_replicate]

/-- Which tables exist in a durable world. -/
theorem DurableAt.exists_iff {w : World ν κ} {pre} (hd : DurableAt w pre) (t : TName ν) :
    (w.mem.tables t).isSome = true ↔ (t = .metaTables ∨ logOf t w.log ≠ []) := by
  cases ht : w.mem.tables t with
  | none =>
    obtain ⟨h1, h2, _⟩ := hd.absent t ht
    simp [h1, h2]
  | some tm =>
    have := (hd.tabs t tm ht).nonempty
    rw [← hd.log] at this
    simp only [Option.isSome_some, true_iff]
    rcases this with h | h
    · exact Or.inr h
    · exact Or.inl h

theorem fileNames_flatMap (ps : List (MemPart ν κ)) :
    fileNames (ps.flatMap filesOf) = expectedFiles (ps.map MemPart.toMeta) := by
  induction ps with
  | nil => rfl
  | cons p ps ih =>
    simp only [fileNames, expectedFiles, List.flatMap_cons, List.map_append, List.map_cons] at ih ⊢
    rw [ih]
    simp [filesOf, MemPart.toMeta, Function.comp]

/-- Directory of a durable world: the partition files of every table are exactly those of its catalogue entries. -/
theorem DurableAt.files_exact {w : World ν κ} {pre} (hd : DurableAt w pre) (t : TName ν) :
    fileNames (w.disk.parts t) = expectedFiles (w.mem.cat.parts t) := by
  cases ht : w.mem.tables t with
  | none =>
    obtain ⟨_, _, h3, h4⟩ := hd.absent t ht
    rw [h3, h4]; rfl
  | some tm =>
    have hok := hd.tabs t tm ht
    rw [hok.files, hok.cat, fileNames_flatMap]

theorem expectedFiles_length (ms : List PartMeta) : (expectedFiles ms).length = (ms.map (fun m => m.keys.length)).sum := by
  induction ms with
  | nil => rfl
  | cons m ms ih =>
    simp only [expectedFiles, List.flatMap_cons, List.length_append, List.length_map, List.map_cons, List.sum_cons] at ih ⊢
    rw [ih]

end LM.Store
