import LocustModel.Disk.ReadState
import LocustModel.Lemmas.C15Store
/-
  Helper lemmas for C15, read side: the handle map, the "make every column of the loaded file resident" loop, and the
  invariant that makes `Partition::get_cols` / `DiskReadScheduler::get_or_load` answer correctly whatever was read,
  found absent or evicted before.
-/
namespace LM.Routing

variable {α : Type}

/-! ### handle map -/

theorem getHandle_set_same (hs : List (Name × Handle α)) (n : Name) (h : Handle α) :
    getHandle (setHandle hs n h) n = some h := by
  simp [getHandle, setHandle]

theorem getHandle_set_other (hs : List (Name × Handle α)) (n n' : Name) (h : Handle α) (hne : n' ≠ n) :
    getHandle (setHandle hs n h) n' = getHandle hs n' := by
  unfold getHandle setHandle
  have h1 : (n == n') = false := by simp; exact fun e => hne e.symm
  rw [List.find?_cons]
  simp only [h1]
  congr 1
  rw [List.find?_filter]
  congr 1
  funext e
  by_cases h' : e.1 = n'
  · have : (e.1 == n) = false := by rw [h']; simpa using hne
    simp [h', hne]
  · have : (e.1 == n') = false := by simpa using h'
    simp [this]

theorem find_name_some {g : List (Col α)} {n : Name} {c : Col α}
    (h : g.find? (fun x => x.name == n) = some c) : c ∈ g ∧ c.name = n := by
  have h1 := List.mem_of_find?_eq_some h
  have h2 := List.find?_some h
  exact ⟨h1, by simpa using h2⟩

/-- The loop that makes the columns of a loaded file resident, read through `getHandle`: a name in the file gets the
    file's column (its `empty` flag keeps its old value, `false` for a new handle); other names are untouched. -/
theorem makeResident_get : ∀ (g : List (Col α)) (hs : List (Name × Handle α)) (n : Name),
    (g.map (·.name)).Nodup →
    getHandle (makeResident hs g) n =
      match g.find? (fun x => x.name == n) with
      | some c => some { empty := ((getHandle hs n).map (·.empty)).getD false, col := some c }
      | none => getHandle hs n
  | [], hs, n, _ => by simp [makeResident]
  | c :: rest, hs, n, hnd => by
    simp only [List.map_cons, List.nodup_cons] at hnd
    have ih := makeResident_get rest
      (setHandle hs c.name { (getHandle hs c.name).getD { empty := false, col := none } with col := some c }) n hnd.2
    have hunf : makeResident hs (c :: rest) = makeResident
        (setHandle hs c.name { (getHandle hs c.name).getD { empty := false, col := none } with col := some c }) rest := by
      simp [makeResident]
    rw [hunf, ih]
    by_cases hn : c.name = n
    · subst hn
      have hnone : rest.find? (fun x => x.name == c.name) = none := by
        rw [List.find?_eq_none]
        intro x hx hxe
        exact hnd.1 (by simp only [List.mem_map]; exact ⟨x, hx, by simpa using hxe⟩)
      simp only [hnone, List.find?_cons, beq_self_eq_true, getHandle_set_same]
      cases getHandle hs c.name <;> rfl
    · have hb : (c.name == n) = false := by simpa using hn
      rw [List.find?_cons]
      simp only [hb]
      rw [getHandle_set_other _ _ _ _ (fun e => hn e.symm)]

/-! ### layout facts and the invariant -/

/-- What the read side needs to know about the files of a partition (established for `subpartition` +
    `writeSubpartitions` by `layout_of_subpartition`). -/
structure Layout (fs : Files α) (id : Nat) (metas : List SubMeta) (cols : List (Col α)) : Prop where
  nodup : (names cols).Nodup
  /-- every column is in the file its name is routed to -/
  present : ∀ c ∈ cols, ∃ (i : Nat) (m : SubMeta) (g : List (Col α)), routeIdx metas c.name = some i ∧ metas[i]? = some m ∧
      load fs (partitionFilename id m.key) = some g ∧ c ∈ g
  /-- every routed index has a catalogue entry and a file -/
  routed : ∀ name i, routeIdx metas name = some i →
      ∃ (m : SubMeta) (g : List (Col α)), metas[i]? = some m ∧ load fs (partitionFilename id m.key) = some g
  /-- a file contains only columns of the partition, each name once -/
  sound : ∀ (i : Nat) (m : SubMeta) (g : List (Col α)), metas[i]? = some m → load fs (partitionFilename id m.key) = some g →
      (∀ c ∈ g, c ∈ cols) ∧ (g.map (·.name)).Nodup

structure Inv (fs : Files α) (id : Nat) (metas : List SubMeta) (cols : List (Col α)) (st : RState α) : Prop where
  /-- a cached column is the partition's column of that name -/
  cached : ∀ n h c, getHandle st.handles n = some h → h.col = some c → c ∈ cols ∧ c.name = n
  /-- an `empty` marker is only ever put on a name the partition does not contain -/
  marker : ∀ n h, getHandle st.handles n = some h → h.empty = true → n ∉ names cols
  /-- once a file is flagged as loaded, every one of its columns has a handle -/
  flagged : ∀ i ∈ st.loaded, ∀ m g, metas[i]? = some m → load fs (partitionFilename id m.key) = some g →
      ∀ c ∈ g, (getHandle st.handles c.name).isSome = true

theorem inv_init (fs : Files α) (id : Nat) (metas : List SubMeta) (cols : List (Col α)) :
    Inv fs id metas cols RState.init :=
  ⟨fun n h c hh => by simp [RState.init, getHandle] at hh, fun n h hh => by simp [RState.init, getHandle] at hh,
   fun i hi => by simp [RState.init] at hi⟩

theorem specGet_present {cols : List (Col α)} (hnd : (names cols).Nodup) {c : Col α} (hc : c ∈ cols) :
    specGet cols c.name = some c := by
  unfold specGet
  apply find_by_name cols c hc
  unfold names at hnd
  rwa [List.nodup_iff_pairwise_ne, List.pairwise_map] at hnd

theorem specGet_absent {cols : List (Col α)} {n : Name} (h : n ∉ names cols) : specGet cols n = none := by
  unfold specGet
  apply find_by_name_none
  intro c hc he
  exact h (by unfold names; rw [← he]; exact List.mem_map_of_mem hc)

/-- Overwriting one handle keeps the invariant if the new handle satisfies the two handle clauses. -/
theorem inv_setHandle {fs : Files α} {id : Nat} {metas : List SubMeta} {cols : List (Col α)} {st : RState α}
    (hI : Inv fs id metas cols st) (n : Name) (h : Handle α)
    (h1 : ∀ c, h.col = some c → c ∈ cols ∧ c.name = n) (h2 : h.empty = true → n ∉ names cols) :
    Inv fs id metas cols { st with handles := setHandle st.handles n h } := by
  refine ⟨?_, ?_, ?_⟩
  · intro n' h' c hh hc
    by_cases hn : n' = n
    · subst hn; simp only [getHandle_set_same, Option.some.injEq] at hh; subst hh; exact h1 c hc
    · rw [getHandle_set_other _ _ _ _ hn] at hh; exact hI.cached n' h' c hh hc
  · intro n' h' hh he
    by_cases hn : n' = n
    · subst hn; simp only [getHandle_set_same, Option.some.injEq] at hh; subst hh; exact h2 he
    · rw [getHandle_set_other _ _ _ _ hn] at hh; exact hI.marker n' h' hh he
  · intro i hi m g hm hl c hc
    by_cases hn : c.name = n
    · rw [hn]; simp [getHandle_set_same]
    · simp only []
      rw [getHandle_set_other _ _ _ _ hn]; exact hI.flagged i hi m g hm hl c hc

/-- Loading file `i` (making all its columns resident and flagging it) keeps the invariant. -/
theorem inv_makeResident {fs : Files α} {id : Nat} {metas : List SubMeta} {cols : List (Col α)} {st : RState α}
    (L : Layout fs id metas cols) (hI : Inv fs id metas cols st) (i : Nat) (m : SubMeta) (g : List (Col α))
    (hm : metas[i]? = some m) (hl : load fs (partitionFilename id m.key) = some g) :
    Inv fs id metas cols { handles := makeResident st.handles g, loaded := i :: st.loaded } := by
  obtain ⟨hsound, hnd⟩ := L.sound i m g hm hl
  refine ⟨?_, ?_, ?_⟩
  · intro n h c hh hc
    simp only [] at hh
    rw [makeResident_get g st.handles n hnd] at hh
    cases hf : g.find? (fun x => x.name == n) with
    | some c' =>
      rw [hf] at hh
      simp only [Option.some.injEq] at hh
      subst hh
      simp only [Option.some.injEq] at hc
      subst hc
      obtain ⟨h1, h2⟩ := find_name_some hf
      exact ⟨hsound _ h1, h2⟩
    | none => rw [hf] at hh; exact hI.cached n h c hh hc
  · intro n h hh he
    simp only [] at hh
    rw [makeResident_get g st.handles n hnd] at hh
    cases hf : g.find? (fun x => x.name == n) with
    | some c' =>
      rw [hf] at hh
      simp only [Option.some.injEq] at hh
      subst hh
      simp only [] at he
      -- the flag was inherited from an existing handle
      cases hold : getHandle st.handles n with
      | none => rw [hold] at he; simp at he
      | some h0 =>
        rw [hold] at he
        simp only [Option.map_some, Option.getD_some] at he
        exact hI.marker n h0 hold he
    | none => rw [hf] at hh; exact hI.marker n h hh he
  · intro j hj m' g' hm' hl' c hc
    simp only []
    rw [makeResident_get g st.handles c.name hnd]
    cases hf : g.find? (fun x => x.name == c.name) with
    | some c' => rfl
    | none =>
      simp only []
      rcases List.mem_cons.1 hj with rfl | hj'
      · -- the file just loaded: c ∈ g, so the search cannot fail
        rw [hm] at hm'
        simp only [Option.some.injEq] at hm'
        subst hm'
        rw [hl] at hl'
        simp only [Option.some.injEq] at hl'
        subst hl'
        rw [List.find?_eq_none] at hf
        exact absurd (by simp) (hf c hc)
      · exact hI.flagged j hj' m' g' hm' hl' c hc

/-- A present name is routed to the file that contains it: the routed index determines the file. -/
theorem present_in_routed {fs : Files α} {id : Nat} {metas : List SubMeta} {cols : List (Col α)}
    (L : Layout fs id metas cols) {c : Col α} (hc : c ∈ cols) {i : Nat} {m : SubMeta} {g : List (Col α)}
    (hr : routeIdx metas c.name = some i) (hm : metas[i]? = some m)
    (hl : load fs (partitionFilename id m.key) = some g) : c ∈ g := by
  obtain ⟨i', m', g', hr', hm', hl', hcg⟩ := L.present c hc
  rw [hr] at hr'
  simp only [Option.some.injEq] at hr'
  subst hr'
  rw [hm] at hm'
  simp only [Option.some.injEq] at hm'
  subst hm'
  rw [hl] at hl'
  simp only [Option.some.injEq] at hl'
  subst hl'
  exact hcg

theorem mem_names_iff {cols : List (Col α)} {n : Name} : n ∈ names cols ↔ ∃ c ∈ cols, c.name = n := by
  unfold names; simp [List.mem_map]

/-- `get_or_load` on the handle registered under `name`: the answer is the specified one and the invariant is kept. -/
theorem getOrLoad_step {fs : Files α} {id : Nat} {metas : List SubMeta} {cols : List (Col α)}
    (L : Layout fs id metas cols) (st : RState α) (hI : Inv fs id metas cols st) (name : Name) (h : Handle α)
    (hh : getHandle st.handles name = some h) :
    ∃ st', getOrLoad fs id metas st name h = .ok (specGet cols name, st') ∧ Inv fs id metas cols st' := by
  unfold getOrLoad
  by_cases he : h.empty = true
  · simp only [he, if_true]
    exact ⟨st, by rw [specGet_absent (hI.marker name h hh he)], hI⟩
  · simp only [he, Bool.false_eq_true, if_false]
    cases hcol : h.col with
    | some c =>
      obtain ⟨h1, h2⟩ := hI.cached name h c hh hcol
      simp only []
      exact ⟨st, by rw [← h2, specGet_present L.nodup h1], hI⟩
    | none =>
      simp only []
      have hsetE : ∀ hs : List (Name × Handle α), getHandle hs name = some h →
          setEmpty hs name = setHandle hs name { h with empty := true } := by
        intro hs hg; simp [setEmpty, hg]
      cases hr : routeIdx metas name with
      | none =>
        have habs : name ∉ names cols := by
          intro hp
          obtain ⟨c, hc, rfl⟩ := mem_names_iff.1 hp
          obtain ⟨i, _, _, hri, _⟩ := L.present c hc
          rw [hr] at hri; cases hri
        simp only []
        refine ⟨_, by rw [specGet_absent habs], ?_⟩
        rw [hsetE _ hh]
        exact inv_setHandle hI name _ (fun c hc => by simp [hcol] at hc) (fun _ => habs)
      | some i =>
        obtain ⟨m, g, hm, hl⟩ := L.routed name i hr
        obtain ⟨hsound, hnd⟩ := L.sound i m g hm hl
        simp only [hm, hl]
        have hI' := inv_makeResident L hI i m g hm hl
        cases hf : g.find? (fun c => c.name == name) with
        | some c =>
          obtain ⟨h1, h2⟩ := find_name_some hf
          simp only []
          exact ⟨_, by rw [← h2, specGet_present L.nodup (hsound c h1)], hI'⟩
        | none =>
          have habs : name ∉ names cols := by
            intro hp
            obtain ⟨c, hc, hcn⟩ := mem_names_iff.1 hp
            have hcg : c ∈ g := present_in_routed L hc (by rw [hcn]; exact hr) hm hl
            rw [List.find?_eq_none] at hf
            exact hf c hcg (by simp [hcn])
          have hkeep : getHandle (makeResident st.handles g) name = some h := by
            rw [makeResident_get g st.handles name hnd, hf]; exact hh
          simp only []
          refine ⟨_, by rw [specGet_absent habs], ?_⟩
          rw [hsetE _ hkeep]
          exact inv_setHandle hI' name _ (fun c hc => by simp [hcol] at hc) (fun _ => habs)

/-- One referenced column in `Partition::get_cols`. -/
theorem getCol_step {fs : Files α} {id : Nat} {metas : List SubMeta} {cols : List (Col α)}
    (L : Layout fs id metas cols) (st : RState α) (hI : Inv fs id metas cols st) (name : Name) :
    ∃ st', getCol fs id metas st name = .ok (specGet cols name, st') ∧ Inv fs id metas cols st' := by
  unfold getCol
  cases hh : getHandle st.handles name with
  | some h => exact getOrLoad_step L st hI name h hh
  | none =>
    simp only []
    by_cases hb : hasBeenLoaded st metas name = true
    · -- an `empty` handle is created: the name must be absent
      have habs : name ∉ names cols := by
        intro hp
        obtain ⟨c, hc, hcn⟩ := mem_names_iff.1 hp
        obtain ⟨i, m, g, hri, hm, hl, hcg⟩ := L.present c hc
        rw [hcn] at hri
        unfold hasBeenLoaded at hb
        rw [hri] at hb
        simp only [List.contains_eq_mem, decide_eq_true_eq] at hb
        have := hI.flagged i hb m g hm hl c hcg
        rw [hcn, hh] at this
        simp at this
      simp only [hb, if_true]
      have hI1 := inv_setHandle hI name ({ empty := true, col := none } : Handle α)
        (fun c hc => by simp at hc) (fun _ => habs)
      exact getOrLoad_step L _ hI1 name _ (getHandle_set_same _ _ _)
    · simp only [hb, Bool.false_eq_true, if_false]
      have hI1 := inv_setHandle hI name ({ empty := false, col := none } : Handle α)
        (fun c hc => by simp at hc) (fun he => by simp at he)
      exact getOrLoad_step L _ hI1 name _ (getHandle_set_same _ _ _)

theorem evict_inv {fs : Files α} {id : Nat} {metas : List SubMeta} {cols : List (Col α)} (st : RState α)
    (hI : Inv fs id metas cols st) (name : Name) : Inv fs id metas cols (evict st name) := by
  unfold evict
  cases hh : getHandle st.handles name with
  | none => exact hI
  | some h =>
    exact inv_setHandle hI name _ (fun c hc => by simp at hc) (fun he => hI.marker name h hh he)

theorem evictAll_inv {fs : Files α} {id : Nat} {metas : List SubMeta} {cols : List (Col α)} (st : RState α)
    (hI : Inv fs id metas cols st) : Inv fs id metas cols (evictAll st) := by
  unfold evictAll
  generalize st.handles.map (·.1) = ns
  induction ns generalizing st with
  | nil => exact hI
  | cons n rest ih => exact ih (evict st n) (evict_inv st hI n)

/-- Any sequence of reads and evictions, from any state satisfying the invariant. -/
theorem runOps_spec {fs : Files α} {id : Nat} {metas : List SubMeta} {cols : List (Col α)}
    (L : Layout fs id metas cols) : ∀ (ops : List ROp) (st : RState α), Inv fs id metas cols st →
    ∃ fin, runOps fs id metas st ops = .ok (specOps cols ops, fin) ∧ Inv fs id metas cols fin
  | [], st, hI => ⟨st, rfl, hI⟩
  | .get name :: rest, st, hI => by
    obtain ⟨st', e, hI'⟩ := getCol_step L st hI name
    obtain ⟨fin, e2, hF⟩ := runOps_spec L rest st' hI'
    exact ⟨fin, by simp [runOps, e, e2, specOps], hF⟩
  | .evict name :: rest, st, hI => by
    obtain ⟨fin, e2, hF⟩ := runOps_spec L rest (evict st name) (evict_inv st hI name)
    exact ⟨fin, by simp [runOps, e2, specOps], hF⟩
  | .evictAll :: rest, st, hI => by
    obtain ⟨fin, e2, hF⟩ := runOps_spec L rest (evictAll st) (evictAll_inv st hI)
    exact ⟨fin, by simp [runOps, e2, specOps], hF⟩

/-! ### the routed index -/

theorem route_eq_bind_routeIdx (metas : List SubMeta) (name : Name) :
    route metas name = (routeIdx metas name).bind (fun i => (metas[i]?).map (·.key)) := by
  unfold route routeIdx
  cases lowerBound (byLast metas) name <;> rfl

/-- The index the routing map yields is a valid catalogue index (the map is built by `enumerate`). -/
theorem routeIdx_lt (metas : List SubMeta) (name : Name) (i : Nat)
    (hs : (metas.map (·.lastColumn)).Pairwise (fun a b => nameLt a b = true))
    (h : routeIdx metas name = some i) : i < metas.length := by
  unfold routeIdx lowerBound byLast at h
  rw [byLastFrom_eq [] metas 0 hs (by simp)] at h
  simp only [List.nil_append] at h
  cases hf : ((metas.zipIdx 0).map (fun p => (p.1.lastColumn, p.2))).find? (fun e => nameLe name e.1) with
  | none => rw [hf] at h; simp at h
  | some e =>
    rw [hf] at h
    simp only [Option.map_some, Option.some.injEq] at h
    subst h
    have hmem := List.mem_of_find?_eq_some hf
    simp only [List.mem_map] at hmem
    obtain ⟨p, hp, rfl⟩ := hmem
    have := List.snd_lt_add_of_mem_zipIdx hp
    simpa using this

end LM.Routing
