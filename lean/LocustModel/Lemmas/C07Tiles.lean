import LocustModel.Store.C07Machine
/-
  C07 helper lemmas: the partition ranges `[offset, offset+len)` of a table tile `[0, next_partition_offset)` in
  offset order, and every step (`batch`, `compact` of any suffix, `evict`, `restart`) keeps it that way
  (`Table.next_partition_offset`, `Partition.range`, `Table::compact(id, range.start, …)`).  Independent of the
  re-encoding.
-/
namespace LM.C07M
open LM LM.Codec

/-- `ps` (in list order) cover `[o, e)` without gap or overlap -/
def tiles : Nat → List Part → Nat → Prop
  | o, [], e => o = e
  | o, p :: ps, e => p.offset = o ∧ tiles (o + p.len) ps e

def Tiled (t : Table) : Prop := tiles 0 t.parts t.nextOff

theorem tiles_append (a b : List Part) : ∀ (o e : Nat),
    tiles o (a ++ b) e ↔ ∃ m, tiles o a m ∧ tiles m b e := by
  induction a with
  | nil => intro o e; simp [tiles]
  | cons p ps ih =>
    intro o e
    simp only [List.cons_append, tiles, ih]
    constructor
    · rintro ⟨h1, m, h2, h3⟩; exact ⟨m, ⟨h1, h2⟩, h3⟩
    · rintro ⟨m, ⟨h1, h2⟩, h3⟩; exact ⟨h1, m, h2, h3⟩

theorem tiles_end (ps : List Part) : ∀ (o e : Nat), tiles o ps e → e = o + (ps.map (·.len)).sum := by
  induction ps with
  | nil => intro o e h; simp [tiles] at h; simp [h]
  | cons p ps ih =>
    intro o e h
    obtain ⟨_, h2⟩ := h
    rw [ih _ _ h2]; simp; omega

theorem tiles_nonresident (ps : List Part) : ∀ (o e : Nat), tiles o ps e →
    tiles o (ps.map fun p => { p with resident := false }) e := by
  induction ps with
  | nil => intro o e h; exact h
  | cons p ps ih => intro o e h; exact ⟨h.1, ih _ _ h.2⟩

theorem tiled_empty : Tiled {} := rfl

theorem tiled_ingest (t : Table) (h : Tiled t) (b : Batch) : Tiled (ingest t b) := h

theorem tiled_freeze {t t1 : Table} (h : Tiled t) (hf : freeze t = .ok t1) : Tiled t1 := by
  unfold freeze at hf
  split at hf
  · cases hf; exact h
  · cases hf

theorem tiled_batch (t : Table) (h : Tiled t) : Tiled (batch t) := by
  unfold batch
  split
  · exact h
  · unfold Tiled
    simp only
    rw [tiles_append]
    exact ⟨t.nextOff, h, rfl, rfl⟩

/-- compaction of ANY suffix: the merged partition takes the offset of the first and the summed length -/
theorem tiled_compact (re : Reenc) (t t' : Table) (k : Nat) (h : Tiled t) (hc : compact re t k = .ok t') : Tiled t' := by
  unfold compact at hc
  split at hc
  · cases hc; exact h
  · cases holds : t.parts.drop (t.parts.length - k) with
    | nil => simp [holds] at hc; subst hc; exact h
    | cons first olds' =>
      simp only [holds] at hc
      cases hr : rebuildCols re (first :: olds') t.colNames with
      | error e => simp [hr] at hc
      | ok cols =>
        simp only [hr] at hc
        cases hc
        have hsplit : t.parts = t.parts.take (t.parts.length - k) ++ (first :: olds') := by
          rw [← holds, List.take_append_drop]
        unfold Tiled at h ⊢
        rw [hsplit, tiles_append] at h
        obtain ⟨m, h1, h2⟩ := h
        simp only
        rw [tiles_append]
        refine ⟨m, h1, ?_⟩
        have he := tiles_end _ _ _ h2
        exact ⟨h2.1, he.symm⟩

theorem tiled_flush (re : Reenc) (t t' : Table) (k : Nat) (h : Tiled t) (hf : flush re t k = .ok t') : Tiled t' := by
  unfold flush at hf
  cases h1 : freeze t with
  | error e => simp [h1] at hf
  | ok t1 =>
    simp only [h1] at hf
    exact tiled_compact re (batch t1) t' k (tiled_batch t1 (tiled_freeze h h1)) hf

theorem tiled_evict (t : Table) (h : Tiled t) : Tiled (evict t) := tiles_nonresident _ _ _ h
theorem tiled_restart (t : Table) (h : Tiled t) : Tiled (restart t) := tiles_nonresident _ _ _ h

theorem tiled_step (re : Reenc) (t t' : Table) (s : Step) (h : Tiled t) (hs : step re t s = .ok t') : Tiled t' := by
  cases s with
  | ingest b => cases hs; exact tiled_ingest t h b
  | flush k => exact tiled_flush re t t' k h hs
  | evict => cases hs; exact tiled_evict t h
  | restart => cases hs; exact tiled_restart t h

theorem tiled_run (re : Reenc) (steps : List Step) : ∀ (t t' : Table), Tiled t → run re t steps = .ok t' → Tiled t' := by
  induction steps with
  | nil => intro t t' h hr; cases hr; exact h
  | cons s ss ih =>
    intro t t' h hr
    simp only [run] at hr
    cases h1 : step re t s with
    | error e => simp [h1] at hr
    | ok t1 =>
      simp only [h1] at hr
      exact ih t1 t' (tiled_step re t t1 s h h1) hr

end LM.C07M
