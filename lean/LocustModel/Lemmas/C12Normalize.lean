import LocustModel.Query.Normalize
/-
  Helper lemmas for C12: the shape invariant of the first loop of `Query::normalize`.
-/
namespace LM.Norm
open LM

/-- All aggregates pulled out of an expression carry the alias they were extracted under. -/
theorem extractAggregators_names (e : Expr) (names : List String) (al : String)
    (e' : Expr) (aggs : List (Agg × ColumnInfo)) (names' : List String)
    (h : extractAggregators e names al = .ok (e', aggs, names')) :
    ∀ a ∈ aggs, a.2.name = al := by
  induction e generalizing names e' aggs names' with
  | col n => simp [extractAggregators] at h; obtain ⟨_, h2, _⟩ := h; subst h2; simp
  | const v => simp [extractAggregators] at h; obtain ⟨_, h2, _⟩ := h; subst h2; simp
  | f1 t e ih =>
    simp only [extractAggregators] at h
    split at h
    · rename_i e1 aggs1 names1 heq
      simp at h; obtain ⟨_, h2, _⟩ := h; subst h2
      exact ih _ _ _ _ heq
    · cases h
    · cases h
  | f2 t a b iha ihb =>
    simp only [extractAggregators] at h
    split at h
    · rename_i a1 aggs1 names1 heq1
      split at h
      · rename_i b1 aggs2 names2 heq2
        simp at h; obtain ⟨_, h2, _⟩ := h; subst h2
        intro x hx
        rcases List.mem_append.mp hx with hx | hx
        · exact iha _ _ _ _ heq1 x hx
        · exact ihb _ _ _ _ heq2 x hx
      · cases h
      · cases h
    · cases h
    · cases h
  | agg a e _ =>
    simp only [extractAggregators] at h
    split at h
    · simp at h; obtain ⟨_, h2, _⟩ := h; subst h2; simp
    · cases h
    · cases h

/-- The source of an output column exists in the given projection / aggregate lists and carries `name`. -/
def SrcOk (sel : List ColumnInfo) (aggs : List (Agg × ColumnInfo)) (rc : ResultColumn) (name : String) : Prop :=
  match rc with
  | .proj i => ∃ c, sel[i]? = some c ∧ c.name = name
  | .agg i => ∃ a, aggs[i]? = some a ∧ a.2.name = name

theorem SrcOk.mono {sel aggs rc name} (sel' : List ColumnInfo) (aggs' : List (Agg × ColumnInfo))
    (h : SrcOk sel aggs rc name) : SrcOk (sel ++ sel') (aggs ++ aggs') rc name := by
  cases rc with
  | proj i =>
    obtain ⟨c, hc, hn⟩ := h
    refine ⟨c, ?_, hn⟩
    have hi : i < sel.length := (List.getElem?_eq_some_iff.mp hc).1
    rw [List.getElem?_append_left hi]; exact hc
  | agg i =>
    obtain ⟨a, ha, hn⟩ := h
    refine ⟨a, ?_, hn⟩
    have hi : i < aggs.length := (List.getElem?_eq_some_iff.mp ha).1
    rw [List.getElem?_append_left hi]; exact ha

/-- Invariant of the select loop after the items `done` have been processed. -/
structure Good (done : List ColumnInfo) (acc : NormAcc) : Prop where
  len : acc.finalSelectOrdering.length = done.length
  fplen : acc.finalProjection.length = done.length
  fpnames : ∀ (k : Nat) (ci : ColumnInfo), done[k]? = some ci →
    ∃ c : ColumnInfo, acc.finalProjection[k]? = some c ∧ c.name = ci.name
  src : ∀ (k : Nat) (ci : ColumnInfo), done[k]? = some ci →
    ∃ rc, acc.finalSelectOrdering[k]? = some rc ∧ SrcOk acc.select acc.aggregate rc ci.name

theorem Good.init : Good [] {} := by
  constructor <;> simp

theorem getElem?_snoc_cases {α : Type} (l : List α) (x : α) (k : Nat) (y : α)
    (h : (l ++ [x])[k]? = some y) : (k < l.length ∧ l[k]? = some y) ∨ (k = l.length ∧ y = x) := by
  by_cases hk : k < l.length
  · left; rw [List.getElem?_append_left hk] at h; exact ⟨hk, h⟩
  · right
    have hk' : l.length ≤ k := Nat.le_of_not_lt hk
    rw [List.getElem?_append_right hk'] at h
    have : k - l.length = 0 := by
      by_cases h0 : k - l.length = 0
      · exact h0
      · have : [x][k - l.length]? = none := by
          apply List.getElem?_eq_none; simp; omega
        rw [this] at h; cases h
    rw [this] at h; simp at h
    exact ⟨by omega, h.symm⟩

theorem Good.step {done : List ColumnInfo} {acc acc' : NormAcc} {ci : ColumnInfo}
    (g : Good done acc) (h : normSelectStep acc ci = .ok acc') : Good (done ++ [ci]) acc' := by
  unfold normSelectStep at h
  split at h
  · cases h
  · cases h
  · rename_i fullExpr aggregates names' heq
    have hnames := extractAggregators_names _ _ _ _ _ _ heq
    split at h
    · -- no aggregate in this item
      injection h with h; subst h
      constructor
      · simp [g.len]
      · simp [g.fplen]
      · intro k c hk
        rcases getElem?_snoc_cases _ _ _ _ hk with ⟨hlt, hk'⟩ | ⟨hk', hc⟩
        · obtain ⟨c', hc', hn⟩ := g.fpnames k c hk'
          refine ⟨c', ?_, hn⟩
          have : k < acc.finalProjection.length := by rw [g.fplen]; exact hlt
          simp [List.getElem?_append_left this, hc']
        · subst hc
          refine ⟨{ expr := .col ("_cs" ++ toString acc.selectColnames.length), name := c.name }, ?_, rfl⟩
          have : acc.finalProjection.length ≤ k := by rw [g.fplen, hk']; exact Nat.le_refl _
          simp [g.fplen, hk']
      · intro k c hk
        rcases getElem?_snoc_cases _ _ _ _ hk with ⟨hlt, hk'⟩ | ⟨hk', hc⟩
        · obtain ⟨rc, hrc, hs⟩ := g.src k c hk'
          refine ⟨rc, ?_, ?_⟩
          · have : k < acc.finalSelectOrdering.length := by rw [g.len]; exact hlt
            simp [List.getElem?_append_left this, hrc]
          · have := SrcOk.mono [{ expr := fullExpr, name := ci.name }] [] hs
            simpa using this
        · subst hc
          refine ⟨.proj acc.select.length, ?_, ?_⟩
          · have : acc.finalSelectOrdering.length ≤ k := by rw [g.len, hk']; exact Nat.le_refl _
            simp [g.len, hk']
          · exact ⟨{ expr := fullExpr, name := c.name }, by simp, rfl⟩
    · -- the item contains aggregates
      rename_i hne
      injection h with h; subst h
      constructor
      · simp [g.len]
      · simp [g.fplen]
      · intro k c hk
        rcases getElem?_snoc_cases _ _ _ _ hk with ⟨hlt, hk'⟩ | ⟨hk', hc⟩
        · obtain ⟨c', hc', hn⟩ := g.fpnames k c hk'
          refine ⟨c', ?_, hn⟩
          have : k < acc.finalProjection.length := by rw [g.fplen]; exact hlt
          simp [List.getElem?_append_left this, hc']
        · subst hc
          refine ⟨{ expr := fullExpr, name := c.name }, ?_, rfl⟩
          have : acc.finalProjection.length ≤ k := by rw [g.fplen, hk']; exact Nat.le_refl _
          simp [g.fplen, hk']
      · intro k c hk
        rcases getElem?_snoc_cases _ _ _ _ hk with ⟨hlt, hk'⟩ | ⟨hk', hc⟩
        · obtain ⟨rc, hrc, hs⟩ := g.src k c hk'
          refine ⟨rc, ?_, ?_⟩
          · have : k < acc.finalSelectOrdering.length := by rw [g.len]; exact hlt
            simp [List.getElem?_append_left this, hrc]
          · have := SrcOk.mono [] aggregates hs
            simpa using this
        · subst hc
          refine ⟨.agg acc.aggregate.length, ?_, ?_⟩
          · have : acc.finalSelectOrdering.length ≤ k := by rw [g.len, hk']; exact Nat.le_refl _
            simp [g.len, hk']
          · -- the first extracted aggregate sits at index `aggregate.len()`
            cases aggregates with
            | nil => simp at hne
            | cons a rest =>
              refine ⟨a, by simp, hnames a (by simp)⟩

theorem Good.loop {done : List ColumnInfo} {acc acc' : NormAcc} (rest : List ColumnInfo)
    (g : Good done acc) (h : normSelectLoop acc rest = .ok acc') : Good (done ++ rest) acc' := by
  induction rest generalizing done acc with
  | nil => simp [normSelectLoop] at h; subst h; simpa using g
  | cons ci rest ih =>
    simp only [normSelectLoop] at h
    split at h
    · rename_i acc1 heq
      have := ih (g.step heq) h
      simpa using this
    · cases h
    · cases h

end LM.Norm
