import LocustModel.Lemmas.C11Progress
/-
  C11 helper lemmas: a task none of whose bodies fails is answered with its value (`ok`), never with `Canceled`,
  under every schedule and whatever the other tasks do (`ValInv` is preserved by every step, for every `Cfg`).
-/
namespace LM.Sched

/-- partitions finished by the workers currently executing task `id` and not yet pushed -/
def claimed (busy : List (Nat × Nat)) (id : Nat) : Nat := (busy.map fun e => if e.1 = id then e.2 else 0).sum

def AllDone (t : Task) : Prop := (∀ b ∈ t.bodies, b = .done) ∧ t.final = .done

/-- still running and on track: every partition is either pushed, held by an executing worker, or unclaimed -/
def Live (busy queue : List (Nat × Nat)) (id : Nat) (t : Task) : Prop :=
  t.completed = false ∧ t.reply = none ∧ t.poisoned = false ∧
  t.batches + claimed busy id + (t.bodies.length - t.next) = t.bodies.length ∧
  t.batches < t.bodies.length ∧
  (t.next < t.bodies.length → referenced busy queue id = true)

def OnTrack (busy queue : List (Nat × Nat)) (id : Nat) (t : Task) : Prop :=
  t.reply = some .ok ∨ Live busy queue id t

def ValInv (p : Pool) (id : Nat) : Prop :=
  ∃ t, p.tasks[id]? = some t ∧ AllDone t ∧ OnTrack p.busy p.queue id t

theorem claimed_eq_zero (busy : List (Nat × Nat)) (id : Nat) (h : ∀ e ∈ busy, e.1 ≠ id) : claimed busy id = 0 := by
  induction busy with
  | nil => rfl
  | cons e b ih =>
    have h1 := h e (by simp)
    have h2 := ih (fun x hx => h x (by simp [hx]))
    simp [claimed] at h2 ⊢
    simp [h1, h2]

theorem claimed_append (b : List (Nat × Nat)) (e : Nat × Nat) (id : Nat) :
    claimed (b ++ [e]) id = claimed b id + (if e.1 = id then e.2 else 0) := by
  simp [claimed]

theorem claimed_eraseIdx (b : List (Nat × Nat)) (i : Nat) (hi : i < b.length) (id : Nat) :
    claimed (b.eraseIdx i) id + (if b[i].1 = id then b[i].2 else 0) = claimed b id := by
  unfold claimed
  exact sum_map_eraseIdx (fun e : Nat × Nat => if e.1 = id then e.2 else 0) b i hi

theorem sum_map_set {α : Type} (f : α → Nat) (l : List α) (i : Nat) (a : α) (h : i < l.length) :
    ((l.set i a).map f).sum + f l[i] = (l.map f).sum + f a := by
  induction l generalizing i with
  | nil => simp at h
  | cons x l ih =>
    cases i with
    | zero => simp; omega
    | succ i =>
      have := ih i (by simpa using h)
      simp [List.map_set] at this ⊢; omega

theorem claimed_set (b : List (Nat × Nat)) (i : Nat) (hi : i < b.length) (e : Nat × Nat) (id : Nat) :
    claimed (b.set i e) id + (if b[i].1 = id then b[i].2 else 0) = claimed b id + (if e.1 = id then e.2 else 0) := by
  unfold claimed
  exact sum_map_set (fun e : Nat × Nat => if e.1 = id then e.2 else 0) b i e hi

theorem not_referenced (busy queue : List (Nat × Nat)) (id : Nat) (h : referenced busy queue id = false) :
    (∀ e ∈ busy, e.1 ≠ id) ∧ (∀ e ∈ queue, e.1 ≠ id) := by
  have : ¬ (referenced busy queue id = true) := by simp [h]
  rw [referenced_iff] at this
  constructor
  · intro e he hid; exact this (Or.inl ⟨e, he, hid⟩)
  · intro e he hid; exact this (Or.inr ⟨e, he, hid⟩)

/-- a live task always has a holder -/
theorem live_referenced {busy queue : List (Nat × Nat)} {id : Nat} {t : Task} (h : Live busy queue id t) :
    referenced busy queue id = true := by
  obtain ⟨_, _, _, hsum, hlt, href⟩ := h
  cases hr : referenced busy queue id with
  | true => rfl
  | false =>
    have hz := claimed_eq_zero busy id (not_referenced busy queue id hr).1
    by_cases hn : t.next < t.bodies.length
    · rw [href hn] at hr; cases hr
    · omega

theorem live_mono {b q b' q' : List (Nat × Nat)} {id : Nat} {t : Task} (h : Live b q id t)
    (hc : claimed b' id = claimed b id) (hr : referenced b q id = true → referenced b' q' id = true) : Live b' q' id t := by
  obtain ⟨h1, h2, h3, h4, h5, h6⟩ := h
  exact ⟨h1, h2, h3, by rw [hc]; exact h4, h5, fun hn => hr (h6 hn)⟩

theorem onTrack_mono {b q b' q' : List (Nat × Nat)} {id : Nat} {t : Task} (h : OnTrack b q id t)
    (hc : claimed b' id = claimed b id) (hr : referenced b q id = true → referenced b' q' id = true) : OnTrack b' q' id t := by
  rcases h with h | h
  · exact Or.inl h
  · exact Or.inr (live_mono h hc hr)

theorem orphan_alldone {t : Task} (h : AllDone t) : AllDone t.orphan := by simpa [AllDone, Task.orphan] using h

theorem release_valinv (ts : List Task) (b q : List (Nat × Nat)) (id' id : Nat) (t : Task)
    (ht : ts[id]? = some t) (hA : AllDone t) (hO : OnTrack b q id t) :
    ∃ t', (release ts b q id')[id]? = some t' ∧ AllDone t' ∧ OnTrack b q id t' := by
  unfold release
  split
  · exact ⟨t, ht, hA, hO⟩
  · rename_i hnr
    split
    · exact ⟨t, ht, hA, hO⟩
    · rename_i t0 ht0
      have hid' : id' < ts.length := (List.getElem?_eq_some_iff.mp ht0).1
      by_cases hii : id' = id
      · subst hii
        rw [ht] at ht0; cases ht0
        refine ⟨t.orphan, by simp [setTask, hid'], orphan_alldone hA, ?_⟩
        rcases hO with hO | hO
        · left; simp [Task.orphan, hO]
        · have := live_referenced hO
          rw [this] at hnr; exact absurd rfl hnr
      · exact ⟨t, by simp [setTask, List.getElem?_set, hii, ht], hA, hO⟩

theorem referenced_cons_ne (b q : List (Nat × Nat)) (e : Nat × Nat) (id : Nat) (hne : e.1 ≠ id)
    (h : referenced b (e :: q) id = true) : referenced b q id = true := by
  rw [referenced_iff] at h ⊢
  rcases h with h | ⟨x, hx, hxi⟩
  · exact Or.inl h
  · simp at hx
    rcases hx with rfl | hx
    · exact absurd hxi hne
    · exact Or.inr ⟨x, hx, hxi⟩

theorem referenced_busy_append (b q : List (Nat × Nat)) (e : Nat × Nat) (id : Nat)
    (h : referenced b q id = true) : referenced (b ++ [e]) q id = true := by
  rw [referenced_iff] at h ⊢
  rcases h with ⟨x, hx, hxi⟩ | h
  · exact Or.inl ⟨x, by simp [hx], hxi⟩
  · exact Or.inr h

/-- `popLoop` keeps a fault-free task on track; the worker that takes a task is counted as a holder -/
theorem popLoop_valinv (busy : List (Nat × Nat)) (ts : List Task) (q : List (Nat × Nat)) (id : Nat) :
    ∀ (r : Option Nat) (q' : List (Nat × Nat)) (ts' : List Task), popLoop busy ts q = (r, q', ts') →
    ∀ t, ts[id]? = some t → AllDone t → OnTrack busy q id t →
    ∃ t', ts'[id]? = some t' ∧ AllDone t' ∧
      OnTrack (match r with | some id0 => busy ++ [(id0, 0)] | none => busy) q' id t' := by
  fun_induction popLoop busy ts q with
  | case1 ts =>
    intro r q' ts' hp t ht hA hO
    simp at hp; obtain ⟨rfl, rfl, rfl⟩ := hp
    exact ⟨t, ht, hA, hO⟩
  | case2 ts id0 par q hn ih =>
    intro r q' ts' hp t ht hA hO
    have hne : id0 ≠ id := by intro h; subst h; rw [hn] at ht; cases ht
    exact ih r q' ts' hp t ht hA (onTrack_mono hO rfl (referenced_cons_ne busy q (id0, par) id hne))
  | case3 ts id0 par q t0 ht0 hc ih =>
    intro r q' ts' hp t ht hA hO
    have hO' : OnTrack busy q id t := by
      by_cases hne : id0 = id
      · subst hne
        rw [ht] at ht0; cases ht0
        rcases hO with hO | hO
        · exact Or.inl hO
        · right
          obtain ⟨h1, h2, h3, h4, h5, h6⟩ := hO
          refine ⟨h1, h2, h3, h4, h5, fun hn => ?_⟩
          simp [Task.isCompleted, h1] at hc
          omega
      · exact onTrack_mono hO rfl (referenced_cons_ne busy q (id0, par) id hne)
    obtain ⟨t1, ht1, hA1, hO1⟩ := release_valinv ts busy q id0 id t ht hA hO'
    exact ih r q' ts' hp t1 ht1 hA1 hO1
  | case4 ts id0 par q t0 ht0 hc hpar =>
    intro r q' ts' hp t ht hA hO
    simp at hp; obtain ⟨rfl, rfl, rfl⟩ := hp
    refine ⟨t, ht, hA, onTrack_mono hO (by simp [claimed_append]) (fun h => ?_)⟩
    rw [referenced_iff] at h ⊢
    rcases h with ⟨x, hx, hxi⟩ | ⟨x, hx, hxi⟩
    · exact Or.inl ⟨x, by simp [hx], hxi⟩
    · simp at hx
      rcases hx with rfl | hx
      · exact Or.inr ⟨(id0, par - 1), by simp, hxi⟩
      · exact Or.inr ⟨x, by simp [hx], hxi⟩
  | case5 ts id0 par q t0 ht0 hc hpar =>
    intro r q' ts' hp t ht hA hO
    simp at hp; obtain ⟨rfl, rfl, rfl⟩ := hp
    refine ⟨t, ht, hA, onTrack_mono hO (by simp [claimed_append]) (fun h => ?_)⟩
    rw [referenced_iff] at h ⊢
    rcases h with ⟨x, hx, hxi⟩ | ⟨x, hx, hxi⟩
    · exact Or.inl ⟨x, by simp [hx], hxi⟩
    · simp at hx
      rcases hx with rfl | hx
      · exact Or.inl ⟨(id0, 0), by simp, hxi⟩
      · exact Or.inr ⟨x, hx, hxi⟩

theorem await_valinv (p : Pool) (id : Nat) (h : ValInv p id) : ValInv (await p) id := by
  obtain ⟨t, ht, hA, hO⟩ := h
  unfold await
  split
  · exact ⟨t, ht, hA, hO⟩
  · rcases hpl : popLoop p.busy p.tasks p.queue with ⟨r, q', ts'⟩
    obtain ⟨t', ht', hA', hO'⟩ := popLoop_valinv _ _ _ id _ _ _ hpl t ht hA hO
    cases r with
    | none => exact ⟨t', ht', hA', hO'⟩
    | some id0 => exact ⟨t', ht', hA', hO'⟩

theorem submit_valinv (p : Pool) (b : List Out) (f : Out) (id : Nat) (h : ValInv p id) : ValInv (submit p b f) id := by
  obtain ⟨t, ht, hA, hO⟩ := h
  have hid : id < p.tasks.length := (List.getElem?_eq_some_iff.mp ht).1
  refine ⟨t, by simp [submit, List.getElem?_append_left hid, ht], hA, onTrack_mono hO rfl (fun hr => ?_)⟩
  simp only [submit]
  rw [referenced_iff] at hr ⊢
  rcases hr with hr | ⟨x, hx, hxi⟩
  · exact Or.inl hr
  · exact Or.inr ⟨x, by simp [hx], hxi⟩

/-- the task just submitted is on track if none of its bodies fails -/
theorem submit_new_valinv (p : Pool) (hw : WF p) (b : List Out) (hb : ∀ x ∈ b, x = .done) :
    ValInv (submit p b .done) p.tasks.length := by
  refine ⟨{ bodies := b, final := .done, reply := if b.isEmpty then some .ok else none }, by simp [submit], ⟨hb, rfl⟩, ?_⟩
  cases b with
  | nil => left; rfl
  | cons x xs =>
    right
    have hz : claimed p.busy p.tasks.length = 0 :=
      claimed_eq_zero _ _ (fun e he => Nat.ne_of_lt (hw.2 e he))
    refine ⟨rfl, rfl, rfl, by simp [hz, submit], by simp, fun _ => ?_⟩
    simp only [submit]
    rw [referenced_iff]
    exact Or.inr ⟨(p.tasks.length, (x :: xs).length), by simp, rfl⟩

theorem referenced_eraseIdx_ne (b q : List (Nat × Nat)) (i : Nat) (hi : i < b.length) (id : Nat) (hne : b[i].1 ≠ id)
    (h : referenced b q id = true) : referenced (b.eraseIdx i) q id = true := by
  rw [referenced_iff] at h ⊢
  rcases h with ⟨x, hx, hxi⟩ | h
  · refine Or.inl ⟨x, mem_eraseIdx_of_ne b i hi x hx ?_, hxi⟩
    intro e; rw [e] at hxi; exact hne hxi
  · exact Or.inr h

theorem referenced_set_same (b q : List (Nat × Nat)) (i : Nat) (hi : i < b.length) (e : Nat × Nat) (he : e.1 = b[i].1) (id : Nat)
    (h : referenced b q id = true) : referenced (b.set i e) q id = true := by
  rw [referenced_iff] at h ⊢
  rcases h with ⟨x, hx, hxi⟩ | h
  · by_cases hxe : x = b[i]
    · refine Or.inl ⟨e, List.mem_iff_getElem.mpr ⟨i, by simpa using hi, by simp⟩, ?_⟩
      rw [he, ← hxe]; exact hxi
    · exact Or.inl ⟨x, mem_set_of_ne b i hi e x hx hxe, hxi⟩
  · exact Or.inr h

/-- `finish` for a worker of another task -/
theorem finish_valinv_ne (cfg : Cfg) (p : Pool) (i id' : Nat) (t' : Task) (f : Bool) (hi : i < p.busy.length)
    (hbi : p.busy[i].1 = id') (id : Nat) (hne : id' ≠ id) (h : ValInv p id) : ValInv (finish cfg p i id' t' f) id := by
  obtain ⟨t, ht, hA, hO⟩ := h
  have hO' : OnTrack (p.busy.eraseIdx i) p.queue id t := by
    apply onTrack_mono hO
    · have := claimed_eraseIdx p.busy i hi id
      rw [hbi] at this; simp [hne] at this; exact this
    · exact referenced_eraseIdx_ne _ _ _ hi _ (by rw [hbi]; exact hne)
  have ht' : (setTask p.tasks id' t')[id]? = some t := by simp [setTask, List.getElem?_set, hne, ht]
  obtain ⟨t1, ht1, hA1, hO1⟩ := release_valinv _ (p.busy.eraseIdx i) p.queue id' id t ht' hA hO'
  unfold finish
  split <;> exact ⟨t1, ht1, hA1, hO1⟩

/-- `finish` for a worker of the task itself: it suffices that the new task value is on track w.r.t. the remaining holders -/
theorem finish_valinv_same (cfg : Cfg) (p : Pool) (i id : Nat) (t' : Task) (f : Bool)
    (hid : id < p.tasks.length) (hA : AllDone t') (hO : OnTrack (p.busy.eraseIdx i) p.queue id t') :
    ValInv (finish cfg p i id t' f) id := by
  have ht' : (setTask p.tasks id t')[id]? = some t' := by simp [setTask, hid]
  obtain ⟨t1, ht1, hA1, hO1⟩ := release_valinv _ (p.busy.eraseIdx i) p.queue id id t' ht' hA hO
  unfold finish
  split <;> exact ⟨t1, ht1, hA1, hO1⟩

theorem pushResults_alldone (t : Task) (c : Nat) (hA : AllDone t) :
    AllDone (pushResults t c).1 ∧ (t.reply = some .ok → (pushResults t c).1.reply = some .ok) := by
  obtain ⟨hb, hf⟩ := hA
  unfold pushResults
  split
  · exact ⟨⟨hb, hf⟩, id⟩
  · split
    · exact ⟨⟨hb, hf⟩, id⟩
    · split
      · exact ⟨⟨hb, hf⟩, id⟩
      · simp only []
        split
        · split
          · exact ⟨⟨hb, hf⟩, fun h => by simp [Task.send, h]⟩
          · rename_i h1; rw [hf] at h1; cases h1
          · rename_i h1; rw [hf] at h1; cases h1
        · exact ⟨⟨hb, hf⟩, id⟩

theorem pushResults_live (t : Task) (c : Nat) (hA : AllDone t) (hc : t.completed = false) (hr : t.reply = none)
    (hp : t.poisoned = false) :
    (c = 0 → (pushResults t c).1 = t) ∧
    (c ≠ 0 → t.batches + c = t.bodies.length → (pushResults t c).1.reply = some .ok) ∧
    (c ≠ 0 → t.batches + c ≠ t.bodies.length → (pushResults t c).1 = { t with batches := t.batches + c }) := by
  unfold pushResults
  refine ⟨fun h0 => by simp [h0], fun h0 heq => ?_, fun h0 hne => ?_⟩
  · simp [h0, hp, hc, heq, hA.2, Task.send, hr]
  · simp [h0, hp, hc, hne]

theorem part_valinv (cfg : Cfg) (p : Pool) (i : Nat) (id : Nat) (h : ValInv p id) : ValInv (part cfg p i) id := by
  unfold part
  split
  · exact h
  · rename_i id' c hbi
    have hi := busy_lt hbi
    have hbe : p.busy[i] = (id', c) := (List.getElem?_eq_some_iff.mp hbi).2
    have hfst : p.busy[i].1 = id' := by rw [hbe]
    split
    · exact h
    · rename_i t0 ht0
      by_cases hne : id' = id
      · -- a worker of the task itself
        subst hne
        obtain ⟨t, ht, hA, hO⟩ := h
        rw [ht0] at ht; cases ht
        have hid : id' < p.tasks.length := (List.getElem?_eq_some_iff.mp ht0).1
        have hA1 : AllDone ({ t0 with next := t0.next + 1 } : Task) := hA
        have hce := claimed_eraseIdx p.busy i hi id'
        rw [hbe] at hce; simp at hce
        simp only []
        split
        · -- next_partition() = None
          rename_i hk
          have hge : t0.bodies.length ≤ t0.next := by
            rcases Nat.lt_or_ge t0.next t0.bodies.length with h | h
            · have := List.getElem?_eq_getElem h; simp at hk; omega
            · exact h
          have hpa := pushResults_alldone { t0 with next := t0.next + 1 } c hA1
          apply finish_valinv_same _ _ _ _ _ _ hid hpa.1
          rcases hO with hO | hO
          · exact Or.inl (hpa.2 hO)
          · obtain ⟨h1, h2, h3, h4, h5, h6⟩ := hO
            have hpl := pushResults_live { t0 with next := t0.next + 1 } c hA1 h1 h2 h3
            by_cases hc0 : c = 0
            · right
              rw [hpl.1 hc0]
              subst hc0
              refine ⟨h1, h2, h3, ?_, h5, fun hn => ?_⟩
              · simp at hce ⊢; omega
              · simp at hn; omega
            · by_cases heq : t0.batches + c = t0.bodies.length
              · exact Or.inl (hpl.2.1 hc0 heq)
              · right
                rw [hpl.2.2 hc0 heq]
                refine ⟨h1, h2, h3, ?_, ?_, fun hn => ?_⟩
                · simp; omega
                · simp; omega
                · simp at hn; omega
        · rename_i hk
          have hlt : t0.next < t0.bodies.length := by
            have := (List.getElem?_eq_some_iff.mp hk).1; simpa using this
          split
          · rename_i hcomp
            apply finish_valinv_same _ _ _ _ _ _ hid hA1
            rcases hO with hO | hO
            · exact Or.inl hO
            · have hc2 : t0.completed = true := hcomp
              rw [hO.1] at hc2; cases hc2
          · refine ⟨{ t0 with next := t0.next + 1 }, by simp [setTask, hid], hA1, ?_⟩
            rcases hO with hO | hO
            · exact Or.inl hO
            · right
              obtain ⟨h1, h2, h3, h4, h5, h6⟩ := hO
              have hcs := claimed_set p.busy i hi (id', c + 1) id'
              rw [hbe] at hcs; simp at hcs
              refine ⟨h1, h2, h3, ?_, h5, fun _ => ?_⟩
              · simp; omega
              · rw [referenced_iff]
                exact Or.inl ⟨(id', c + 1), List.mem_iff_getElem.mpr ⟨i, by simpa using hi, by simp⟩, rfl⟩
        · rename_i hk
          have := hA.1 _ (List.mem_of_getElem? hk); cases this
        · rename_i hk
          have := hA.1 _ (List.mem_of_getElem? hk); cases this
      · -- a worker of another task
        have fin : ∀ t' f, ValInv (finish cfg p i id' t' f) id := fun t' f => finish_valinv_ne cfg p i id' t' f hi hfst id hne h
        simp only []
        split
        · exact fin _ _
        · split
          · exact fin _ _
          · obtain ⟨t, ht, hA, hO⟩ := h
            refine ⟨t, by simp [setTask, List.getElem?_set, hne, ht], hA, onTrack_mono hO ?_ ?_⟩
            · have := claimed_set p.busy i hi (id', c + 1) id
              rw [hbe] at this; simp [hne] at this; exact this
            · exact referenced_set_same _ _ _ hi _ (by rw [hbe]) _
        · split
          · exact fin _ _
          · split <;> exact fin _ _
        · exact fin _ _

theorem step_valinv (cfg : Cfg) (p : Pool) (a : Act) (id : Nat) (h : ValInv p id) : ValInv (step cfg p a) id := by
  cases a with
  | submit b f => exact submit_valinv p b f id h
  | await => exact await_valinv p id h
  | part i => exact part_valinv cfg p i id h

theorem run_valinv (cfg : Cfg) (as : List Act) (p : Pool) (id : Nat) (h : ValInv p id) : ValInv (run cfg p as) id := by
  induction as generalizing p with
  | nil => exact h
  | cons a as ih => exact ih _ (step_valinv cfg p a id h)

/-- on track ⇒ the receiver has the value or is still waiting; never `Canceled`, never an error -/
theorem valinv_reply (p : Pool) (id : Nat) (h : ValInv p id) :
    ∃ t, p.tasks[id]? = some t ∧ (t.reply = some .ok ∨ t.reply = none) := by
  obtain ⟨t, ht, _, hO⟩ := h
  refine ⟨t, ht, ?_⟩
  rcases hO with hO | hO
  · exact Or.inl hO
  · exact Or.inr hO.2.1

end LM.Sched
