import LocustModel.Lemmas.C17Encode
import LocustModel.Lemmas.C17Json
import LocustModel.Thm.C16
/-
  Lemmas for C17 (whole responses, handlers, histories): the per-column theorem lifted through
  `encode_columns` / `.collect()` to a query response, through `encodeAll` / `collectResults` to a
  `/multi_query_cols` request, and through `serve` to any history of requests.
-/
namespace LM.Wire.Response
open LM LM.Wire.XorFloat LM.Gen.Status

/-- Integer columns: C16's layout theorem discharges `IntsOk`. -/
theorem binary_faithful (col : BCol) (o : Opts) (hwf : WfCol col) (hints : IntsInRange col)
    (hm : o.xor = true → mantissaTooLarge o.mantissa = false) :
    ∃ w, encodeColumn col o = .ok w ∧ BinColAgree o col w := by
  refine encode_column_faithful col o hwf hm ?_
  intro xs hx
  exact LM.C16.C16_ints_layout_roundtrip xs
    (fun x hxm => hints (.int x) (hx ▸ List.mem_map.mpr ⟨x, hxm, rfl⟩) x rfl)

/-- A query result inside the domain of the claims. -/
def GoodOut (o : QOut) : Prop :=
  ConsistentNames o.columns ∧ ∀ n c, (n, c) ∈ o.columns → WfCol c ∧ IntsInRange c

/-- A request inside the domain: xor compression is not asked for with a mantissa beyond 52 (documented assert). -/
def GoodReq : Req Batch → Prop
  | .multi _ (some eo) => eo.xor = true → mantissaTooLarge eo.mantissa = false
  | _ => True

/-- Every result the database can return is inside the domain. -/
def GoodBackend (B : Backend Db Batch) : Prop := ∀ db q o, B.run db q = .ok o → GoodOut o

theorem optsFor_mantissa_ok (eo : EncodingOpts) (n : String)
    (hm : eo.xor = true → mantissaTooLarge eo.mantissa = false) :
    (optsFor eo n).xor = true → mantissaTooLarge (optsFor eo n).mantissa = false := by
  intro hx
  simp only [optsFor] at hx ⊢
  split
  · rfl
  · exact hm hx

/-! ### one query response -/

theorem zip2_mem_left {R : α → β → Prop} {as : List α} {bs : List β} (h : Zip2 R as bs) {a : α} (ha : a ∈ as) :
    ∃ b, b ∈ bs ∧ R a b := by
  induction h with
  | nil => cases ha
  | cons hr _ ih =>
    rcases List.mem_cons.mp ha with rfl | hm
    · exact ⟨_, List.mem_cons_self, hr⟩
    · obtain ⟨b, hb, hrb⟩ := ih hm
      exact ⟨b, List.mem_cons_of_mem _ hb, hrb⟩

theorem zip2_mem_right {R : α → β → Prop} {as : List α} {bs : List β} (h : Zip2 R as bs) {b : β} (hb : b ∈ bs) :
    ∃ a, a ∈ as ∧ R a b := by
  induction h with
  | nil => cases hb
  | cons hr _ ih =>
    rcases List.mem_cons.mp hb with rfl | hm
    · exact ⟨_, List.mem_cons_self, hr⟩
    · obtain ⟨a, ha, hra⟩ := ih hm
      exact ⟨a, List.mem_cons_of_mem _ ha, hra⟩

theorem zip2_map {R : α → β → Prop} (f : α → β) (as : List α) (h : ∀ a ∈ as, R a (f a)) : Zip2 R as (as.map f) := by
  induction as with
  | nil => exact .nil
  | cons a rest ih => exact .cons (h a List.mem_cons_self) (ih (fun x hx => h x (List.mem_cons_of_mem _ hx)))

/-- `encodeColumns` succeeds column by column, names in place. -/
theorem encodeColumns_spec (eo : EncodingOpts) (cols : List (String × BCol))
    (hg : ∀ n c, (n, c) ∈ cols → WfCol c ∧ IntsInRange c)
    (hm : eo.xor = true → mantissaTooLarge eo.mantissa = false) :
    ∃ ws, encodeColumns eo cols = .ok ws ∧
      Zip2 (fun nc nw => nc.1 = nw.1 ∧ encodeColumn nc.2 (optsFor eo nc.1) = .ok nw.2 ∧
        BinColAgree (optsFor eo nc.1) nc.2 nw.2) cols ws := by
  induction cols with
  | nil => exact ⟨[], rfl, .nil⟩
  | cons nc rest ih =>
    obtain ⟨n, c⟩ := nc
    obtain ⟨hwf, hin⟩ := hg n c List.mem_cons_self
    obtain ⟨w, e, ag⟩ := binary_faithful c (optsFor eo n) hwf hin (optsFor_mantissa_ok eo n hm)
    obtain ⟨ws, e2, z⟩ := ih (fun n' c' h => hg n' c' (List.mem_cons_of_mem _ h))
    exact ⟨(n, w) :: ws, by simp [encodeColumns, e, e2], .cons ⟨rfl, e, ag⟩ z⟩

/-- One query result → one `QueryResponse`: built without a panic, agrees with the embedded result, and its
    serialisation does not panic either. -/
theorem binResponse_agree (eo : EncodingOpts) (o : QOut) (hg : GoodOut o)
    (hm : eo.xor = true → mantissaTooLarge eo.mantissa = false) :
    ∃ r, encodeResponse eo o.columns = .ok r ∧ BinAgree eo o r ∧ (∀ nw ∈ r, transmit nw.2 ≠ .serverPanic) := by
  obtain ⟨hc, hcols⟩ := hg
  obtain ⟨ws, e, z⟩ := encodeColumns_spec eo o.columns hcols hm
  have hcw : ConsistentNames ws := by
    intro n w₁ w₂ h1 h2
    obtain ⟨⟨n1, c1⟩, m1, hn1, e1, _⟩ := zip2_mem_right z h1
    obtain ⟨⟨n2, c2⟩, m2, hn2, e2, _⟩ := zip2_mem_right z h2
    simp only at hn1 hn2 e1 e2
    rw [hn1] at m1 e1
    rw [hn2] at m2 e2
    have : c1 = c2 := hc n c1 c2 m1 m2
    subst this
    rw [e1] at e2
    exact Except.ok.inj e2
  refine ⟨collectMap ws, by simp [encodeResponse, e], ⟨?_, ?_⟩, ?_⟩
  · intro n c hmem
    obtain ⟨⟨n', w⟩, mw, hn, _, ag⟩ := zip2_mem_left z hmem
    simp only at hn ag
    subst hn
    exact ⟨w, by rw [collectMap_eq]; exact lookup_foldIns_mem id n w ws [] hcw mw, ag⟩
  · intro n w hmem
    rw [collectMap_eq] at hmem
    rcases mem_foldIns id ws [] hmem with h | ⟨w', h, _⟩
    · cases h
    · obtain ⟨⟨n', c⟩, mc, hn, _, _⟩ := zip2_mem_right z h
      simp only at hn
      exact ⟨c, hn ▸ mc⟩
  · intro nw hmem
    obtain ⟨n, w⟩ := nw
    rw [collectMap_eq] at hmem
    rcases mem_foldIns id ws [] hmem with h | ⟨w', h, hw⟩
    · cases h
    · simp only [id] at hw
      subst hw
      obtain ⟨⟨n', c⟩, _, _, _, ⟨c', ys, d, _, _⟩⟩ := zip2_mem_right z h
      intro hp
      simp [deliver, hp] at d

/-! ### `/multi_query_cols` -/

theorem collectResults_spec (rs : List QResult) :
    (∃ os, rs = os.map .ok ∧ collectResults rs = .ok os) ∨
    (∃ e, Except.error e ∈ rs ∧ collectResults rs = .error (errorOutcome .multi_query_cols e)) := by
  induction rs with
  | nil => exact Or.inl ⟨[], rfl, rfl⟩
  | cons r rest ih =>
    cases r with
    | error e => exact Or.inr ⟨e, List.mem_cons_self, rfl⟩
    | ok o =>
      rcases ih with ⟨os, h1, h2⟩ | ⟨e, h1, h2⟩
      · exact Or.inl ⟨o :: os, by simp [h1], by simp [collectResults, h2]⟩
      · exact Or.inr ⟨e, List.mem_cons_of_mem _ h1, by simp [collectResults, h2]⟩

theorem encodeAll_spec (eo : EncodingOpts) (os : List QOut) (hg : ∀ o ∈ os, GoodOut o)
    (hm : eo.xor = true → mantissaTooLarge eo.mantissa = false) :
    ∃ bs, encodeAll eo os = .ok bs ∧ Zip2 (BinAgree eo) os bs ∧ serializePanics bs = false := by
  induction os with
  | nil => exact ⟨[], rfl, .nil, rfl⟩
  | cons o rest ih =>
    obtain ⟨r, e, ag, np⟩ := binResponse_agree eo o (hg o List.mem_cons_self) hm
    obtain ⟨bs, e2, z, sp⟩ := ih (fun o' h => hg o' (List.mem_cons_of_mem _ h))
    refine ⟨r :: bs, by simp [encodeAll, e, e2], .cons ag z, ?_⟩
    simp only [serializePanics, List.any_cons, Bool.or_eq_false_iff] at sp ⊢
    refine ⟨?_, sp⟩
    simp only [List.any_eq_false, beq_iff_eq]
    intro nw hnw
    exact np nw hnw

/-! ### one request, then histories -/

theorem errorOutcome_status (ep : Endpoint) (e : QErr)
    (hh : ∀ ep, handlerUnwrapsResult ep = false) (hs : ∀ e, IsErrorStatus (mapErrStatus e)) :
    ∃ s, errorOutcome ep e = .error s ∧ IsErrorStatus s :=
  ⟨mapErrStatus e, by simp [errorOutcome, hh ep], hs e⟩

/-- One request: the HTTP outcome agrees with the embedded outcome. -/
theorem request_agrees (B : Backend Db Batch) (db : Db) (req : Req Batch)
    (hh : ∀ ep, handlerUnwrapsResult ep = false) (hs : ∀ e, IsErrorStatus (mapErrStatus e))
    (hB : GoodBackend B) (hreq : GoodReq req) :
    Agrees req.opts (embedded B db req).2 (serve B db req).2 ∧ (embedded B db req).1 = (serve B db req).1 := by
  cases req with
  | insert b => exact ⟨trivial, rfl⟩
  | query q =>
    refine ⟨?_, rfl⟩
    simp only [embedded, serve]
    cases hr : B.run db q with
    | ok o => simp only [handleQuery, Agrees]; exact jsonRows_agree o
    | error e =>
      obtain ⟨s, he, hst⟩ := errorOutcome_status .query e hh hs
      simp only [handleQuery, he, Agrees]; exact hst
  | queryCols q =>
    refine ⟨?_, rfl⟩
    simp only [embedded, serve]
    cases hr : B.run db q with
    | ok o => simp only [handleQueryCols, Agrees]; exact jsonCols_agree o (hB db q o hr).1
    | error e =>
      obtain ⟨s, he, hst⟩ := errorOutcome_status .query_cols e hh hs
      simp only [handleQueryCols, he, Agrees]; exact hst
  | multi qs opts =>
    refine ⟨?_, rfl⟩
    simp only [embedded, serve, Req.opts]
    have hgood : ∀ o, Except.ok o ∈ qs.map (B.run db) → GoodOut o := by
      intro o ho
      obtain ⟨q, _, hq⟩ := List.mem_map.mp ho
      exact hB db q o hq
    rcases collectResults_spec (qs.map (B.run db)) with ⟨os, h1, h2⟩ | ⟨e, h1, h2⟩
    · have hos : ∀ o ∈ os, GoodOut o := fun o ho => hgood o (h1 ▸ List.mem_map.mpr ⟨o, ho, rfl⟩)
      cases opts with
      | none =>
        simp only [handleMulti, h2, Agrees]
        exact ⟨os, h1, zip2_map _ os (fun o ho => jsonCols_agree o (hos o ho).1)⟩
      | some eo =>
        obtain ⟨bs, e, z, sp⟩ := encodeAll_spec eo os hos hreq
        simp only [handleMulti, h2, e, sp, Agrees]
        exact ⟨os, eo, rfl, h1, z⟩
    · obtain ⟨s, he, hst⟩ := errorOutcome_status .multi_query_cols e hh hs
      simp only [handleMulti, h2, he, Agrees]
      exact ⟨⟨e, h1⟩, hst⟩

/-- Any history of requests on one server: every request gets an outcome (none is lost), each agrees with what
    the embedded API returns for the same request at the same point of the history, and the database evolves
    identically (a failing request leaves it as it is). -/
theorem history_agrees (B : Backend Db Batch) (db : Db) (reqs : List (Req Batch))
    (hh : ∀ ep, handlerUnwrapsResult ep = false) (hs : ∀ e, IsErrorStatus (mapErrStatus e))
    (hB : GoodBackend B) (hreqs : ∀ r ∈ reqs, GoodReq r) :
    Zip2 (fun (re : Req Batch × Emb) resp => Agrees re.1.opts re.2 resp)
      (reqs.zip (embeddedAll B db reqs)) (serveAll B db reqs) := by
  induction reqs generalizing db with
  | nil => exact .nil
  | cons r rest ih =>
    obtain ⟨ag, hdb⟩ := request_agrees B db r hh hs hB (hreqs r List.mem_cons_self)
    simp only [embeddedAll, serveAll, List.zip_cons_cons]
    refine .cons ag ?_
    rw [hdb]
    exact ih _ (fun r' h => hreqs r' (List.mem_cons_of_mem _ h))

theorem serveAll_length (B : Backend Db Batch) (db : Db) (reqs : List (Req Batch)) :
    (serveAll B db reqs).length = reqs.length := by
  induction reqs generalizing db with
  | nil => rfl
  | cons r rest ih => simp [serveAll, ih]

end LM.Wire.Response
