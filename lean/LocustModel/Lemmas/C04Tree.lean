import LocustModel.Lemmas.C04Merge
import LocustModel.Query.GroupMerge
/-
  C04 helper lemmas: the exact (sentinel-free) merge of sorted partial results is associative, hence the result of
  a merge tree depends only on the sequence of its leaves; the engine's in-band merge simulates the exact one as
  long as no node value leaves i64 or equals the sentinel.
-/
namespace LM.C04L
open LM LM.Merge LM.GroupMerge

/-- Exact partial result of one grouping column: key ↦ aggregate (`none` = NULL), keys strictly ascending. -/
abbrev XPart := List (Int × Option Int)

def xmerge (op : Agg) : XPart → XPart → XPart
  | [], r => r
  | l, [] => l
  | (k1, v1) :: l, (k2, v2) :: r =>
      if k1 < k2 then (k1, v1) :: xmerge op l ((k2, v2) :: r)
      else if k2 < k1 then (k2, v2) :: xmerge op ((k1, v1) :: l) r
      else (k1, combineExact op v1 v2) :: xmerge op l r

def xlook : XPart → Int → Option (Option Int)
  | [], _ => none
  | (k', v) :: t, k => if k = k' then some v else xlook t k

def joinX (op : Agg) : Option (Option Int) → Option (Option Int) → Option (Option Int)
  | none, b => b
  | a, none => a
  | some a, some b => some (combineExact op a b)

def XSorted (A : XPart) : Prop := (A.map (·.1)).Pairwise (· < ·)

theorem xlook_none_of_lt (A : XPart) (k : Int) (h : ∀ p ∈ A, k < p.1) : xlook A k = none := by
  induction A with
  | nil => rfl
  | cons p t ih =>
    obtain ⟨k', v⟩ := p
    have h1 := h (k', v) (by simp)
    simp at h1
    have : ¬ k = k' := by omega
    simp [xlook, this]
    exact ih (fun p hp => h p (by simp [hp]))

theorem xsorted_cons {k : Int} {v : Option Int} {t : XPart} (h : XSorted ((k, v) :: t)) :
    (∀ p ∈ t, k < p.1) ∧ XSorted t := by
  unfold XSorted at *
  simp at h
  exact ⟨fun p hp => h.1 p.1 p.2 (by simp [hp]), h.2⟩

theorem xmerge_keys_mem (op : Agg) (A B : XPart) (p : Int × Option Int) (hp : p ∈ xmerge op A B) :
    (∃ q ∈ A, q.1 = p.1) ∨ (∃ q ∈ B, q.1 = p.1) := by
  fun_induction xmerge op A B <;> simp_all <;> grind

theorem xmerge_sorted (op : Agg) (A B : XPart) (hA : XSorted A) (hB : XSorted B) : XSorted (xmerge op A B) := by
  fun_induction xmerge op A B with
  | case1 r => exact hB
  | case2 l _ => exact hA
  | case3 k1 v1 l k2 v2 r hlt ih =>
    obtain ⟨ha1, ha2⟩ := xsorted_cons hA
    obtain ⟨hb1, hb2⟩ := xsorted_cons hB
    have := ih ha2 hB
    unfold XSorted at *
    simp only [List.map_cons, List.pairwise_cons]
    refine ⟨?_, this⟩
    intro x hx
    simp at hx
    obtain ⟨v, hv⟩ := hx
    rcases xmerge_keys_mem op _ _ _ hv with ⟨q, hq, hqe⟩ | ⟨q, hq, hqe⟩
    · have := ha1 q hq; simp at hqe; omega
    · simp at hq
      rcases hq with rfl | hq
      · simp at hqe; omega
      · have := hb1 q hq; simp at hqe; omega
  | case4 k1 v1 l k2 v2 r hnlt hlt ih =>
    obtain ⟨ha1, ha2⟩ := xsorted_cons hA
    obtain ⟨hb1, hb2⟩ := xsorted_cons hB
    have := ih hA hb2
    unfold XSorted at *
    simp only [List.map_cons, List.pairwise_cons]
    refine ⟨?_, this⟩
    intro x hx
    simp at hx
    obtain ⟨v, hv⟩ := hx
    rcases xmerge_keys_mem op _ _ _ hv with ⟨q, hq, hqe⟩ | ⟨q, hq, hqe⟩
    · simp at hq
      rcases hq with rfl | hq
      · simp at hqe; omega
      · have := ha1 q hq; simp at hqe; omega
    · have := hb1 q hq; simp at hqe; omega
  | case5 k1 v1 l k2 v2 r hnlt hnlt2 ih =>
    obtain ⟨ha1, ha2⟩ := xsorted_cons hA
    obtain ⟨hb1, hb2⟩ := xsorted_cons hB
    have := ih ha2 hb2
    have hk : k1 = k2 := by omega
    unfold XSorted at *
    simp only [List.map_cons, List.pairwise_cons]
    refine ⟨?_, this⟩
    intro x hx
    simp at hx
    obtain ⟨v, hv⟩ := hx
    rcases xmerge_keys_mem op _ _ _ hv with ⟨q, hq, hqe⟩ | ⟨q, hq, hqe⟩
    · have := ha1 q hq; simp at hqe; omega
    · have := hb1 q hq; simp at hqe; omega

theorem xlook_xmerge (op : Agg) (A B : XPart) (hA : XSorted A) (hB : XSorted B) (k : Int) :
    xlook (xmerge op A B) k = joinX op (xlook A k) (xlook B k) := by
  fun_induction xmerge op A B with
  | case1 r => simp [xlook, joinX]
  | case2 l hne =>
    cases h : xlook l k <;> simp [xlook, joinX]
  | case3 k1 v1 l k2 v2 r hlt ih =>
    obtain ⟨ha1, ha2⟩ := xsorted_cons hA
    obtain ⟨hb1, hb2⟩ := xsorted_cons hB
    have ih' := ih ha2 hB
    by_cases hk : k = k1
    · subst hk
      have h2 : ¬ k = k2 := by omega
      have : xlook r k = none := xlook_none_of_lt r k (fun p hp => by have := hb1 p hp; omega)
      simp [xlook, h2, this, joinX]
    · simp only [xlook, hk, if_false] at ih' ⊢
      exact ih'
  | case4 k1 v1 l k2 v2 r hnlt hlt ih =>
    obtain ⟨ha1, ha2⟩ := xsorted_cons hA
    obtain ⟨hb1, hb2⟩ := xsorted_cons hB
    have ih' := ih hA hb2
    by_cases hk : k = k2
    · subst hk
      have h2 : ¬ k = k1 := by omega
      have : xlook l k = none := xlook_none_of_lt l k (fun p hp => by have := ha1 p hp; omega)
      simp [xlook, h2, this, joinX]
    · simp only [xlook, hk, if_false] at ih' ⊢
      exact ih'
  | case5 k1 v1 l k2 v2 r hnlt hnlt2 ih =>
    obtain ⟨ha1, ha2⟩ := xsorted_cons hA
    obtain ⟨hb1, hb2⟩ := xsorted_cons hB
    have ih' := ih ha2 hb2
    have hk12 : k1 = k2 := by omega
    subst hk12
    by_cases hk : k = k1
    · subst hk; simp [xlook, joinX]
    · simp only [xlook, hk, if_false]
      exact ih'

theorem xpart_ext (A B : XPart) (hA : XSorted A) (hB : XSorted B) (h : ∀ k, xlook A k = xlook B k) : A = B := by
  induction A generalizing B with
  | nil =>
    cases B with
    | nil => rfl
    | cons q t => obtain ⟨k, v⟩ := q; have := h k; simp [xlook] at this
  | cons p t ih =>
    obtain ⟨k, v⟩ := p
    obtain ⟨ha1, ha2⟩ := xsorted_cons hA
    cases B with
    | nil => have := h k; simp [xlook] at this
    | cons q u =>
      obtain ⟨k', v'⟩ := q
      obtain ⟨hb1, hb2⟩ := xsorted_cons hB
      have hk : k = k' := by
        by_cases h1 : k < k'
        · have := h k
          have h2 : ¬ k = k' := by omega
          have h3 : xlook u k = none := xlook_none_of_lt u k (fun p hp => by have := hb1 p hp; omega)
          simp [xlook, h2, h3] at this
        · by_cases h2 : k' < k
          · have := h k'
            have h4 : ¬ k' = k := by omega
            have h3 : xlook t k' = none := xlook_none_of_lt t k' (fun p hp => by have := ha1 p hp; omega)
            simp [xlook, h4, h3] at this
          · omega
      subst hk
      have hv : v = v' := by have := h k; simpa [xlook] using this
      subst hv
      congr 1
      apply ih u ha2 hb2
      intro j
      by_cases hj : j = k
      · subst hj
        rw [xlook_none_of_lt t j ha1, xlook_none_of_lt u j hb1]
      · have := h j
        simpa [xlook, hj] using this


/-! ### associativity ⇒ any bracketing -/

theorem combineExact_assoc (op : Agg) (a b c : Option Int) :
    combineExact op (combineExact op a b) c = combineExact op a (combineExact op b c) := by
  cases a <;> cases b <;> cases c <;> cases op <;> simp [combineExact] <;> (try omega) <;> (repeat' split) <;> omega

theorem joinX_assoc (op : Agg) (a b c : Option (Option Int)) :
    joinX op (joinX op a b) c = joinX op a (joinX op b c) := by
  cases a <;> cases b <;> cases c <;> simp [joinX, combineExact_assoc]

theorem xmerge_nil_left (op : Agg) (A : XPart) : xmerge op [] A = A := by simp [xmerge]
theorem xmerge_nil_right (op : Agg) (A : XPart) : xmerge op A [] = A := by cases A <;> simp [xmerge]

theorem xmerge_assoc (op : Agg) (A B C : XPart) (hA : XSorted A) (hB : XSorted B) (hC : XSorted C) :
    xmerge op (xmerge op A B) C = xmerge op A (xmerge op B C) := by
  apply xpart_ext
  · exact xmerge_sorted op _ _ (xmerge_sorted op _ _ hA hB) hC
  · exact xmerge_sorted op _ _ hA (xmerge_sorted op _ _ hB hC)
  · intro k
    rw [xlook_xmerge op _ _ (xmerge_sorted op _ _ hA hB) hC, xlook_xmerge op _ _ hA hB,
        xlook_xmerge op _ _ hA (xmerge_sorted op _ _ hB hC), xlook_xmerge op _ _ hB hC, joinX_assoc]

/-- union of exact partial results, in order -/
def xunion (op : Agg) (xs : List XPart) : XPart := xs.foldr (xmerge op) []

theorem xunion_sorted (op : Agg) (xs : List XPart) (h : ∀ p ∈ xs, XSorted p) : XSorted (xunion op xs) := by
  induction xs with
  | nil => simp [xunion, XSorted]
  | cons a t ih =>
    simp only [xunion, List.foldr_cons]
    exact xmerge_sorted op _ _ (h a (by simp)) (ih (fun p hp => h p (by simp [hp])))

theorem xunion_append (op : Agg) (xs ys : List XPart) (hx : ∀ p ∈ xs, XSorted p) (hy : ∀ p ∈ ys, XSorted p) :
    xunion op (xs ++ ys) = xmerge op (xunion op xs) (xunion op ys) := by
  induction xs with
  | nil => simp [xunion, xmerge_nil_left]
  | cons a t ih =>
    have ht : ∀ p ∈ t, XSorted p := fun p hp => hx p (by simp [hp])
    have := ih ht
    simp only [xunion, List.cons_append, List.foldr_cons] at this ⊢
    rw [this]
    exact (xmerge_assoc op _ _ _ (hx a (by simp)) (xunion_sorted op t ht) (xunion_sorted op ys hy)).symm

/-- exact evaluation of a merge tree -/
def xeval (op : Agg) (parts : List XPart) : Tree → XPart
  | .leaf i => parts.getD i []
  | .node l r => xmerge op (xeval op parts l) (xeval op parts r)

theorem getD_sorted (parts : List XPart) (h : ∀ p ∈ parts, XSorted p) (i : Nat) : XSorted (parts.getD i []) := by
  by_cases hi : i < parts.length
  · simp [List.getD, hi]; exact h _ (List.getElem_mem hi)
  · simp [List.getD, hi, XSorted]

/-- **Any bracketing.** The exact result of a merge tree depends only on the sequence of its leaves. -/
theorem xeval_eq_xunion (op : Agg) (parts : List XPart) (h : ∀ p ∈ parts, XSorted p) (t : Tree) :
    xeval op parts t = xunion op (t.leaves.map fun i => parts.getD i []) := by
  induction t with
  | leaf i => simp [xeval, Tree.leaves, xunion, xmerge_nil_right]
  | node l r ihl ihr =>
    simp only [xeval, Tree.leaves, List.map_append]
    rw [xunion_append op _ _ (by intro p hp; simp at hp; obtain ⟨i, _, rfl⟩ := hp; exact getD_sorted parts h i)
          (by intro p hp; simp at hp; obtain ⟨i, _, rfl⟩ := hp; exact getD_sorted parts h i), ihl, ihr]

/-! ### simulation by the engine's in-band representation -/

def encV : Option Int → Int
  | none => I64_MAX
  | some v => v

def encPart (A : XPart) : Part := ⟨[A.map (·.1)], A.map fun p => encV p.2⟩

/-- a value that is neither the sentinel nor outside i64 -/
def rngV (o : Option Int) : Prop := ∀ v, o = some v → I64_MIN ≤ v ∧ v < I64_MAX
def InRng (A : XPart) : Prop := ∀ p ∈ A, rngV p.2

instance (o : Option Int) : Decidable (rngV o) :=
  match o with
  | none => isTrue (by intro v hv; cases hv)
  | some x =>
      if h : I64_MIN ≤ x ∧ x < I64_MAX then isTrue (by intro v hv; cases hv; exact h)
      else isFalse (fun hr => h (hr x rfl))
instance (A : XPart) : Decidable (InRng A) := by unfold InRng; exact inferInstance

theorem combine_sim (op : Agg) (a b : Option Int) (ha : rngV a) (hb : rngV b) (hc : rngV (combineExact op a b)) :
    combine op (encV a) (encV b) = .ok (encV (combineExact op a b)) := by
  cases a with
  | none => simp [combine, encV, combineExact]
  | some x =>
    have hx := ha x rfl
    have hx' : ¬ x = I64_MAX := by omega
    cases b with
    | none => simp [combine, encV, combineExact, hx']
    | some y =>
      have hy := hb y rfl
      have hy' : ¬ y = I64_MAX := by omega
      have hc' := hc _ rfl
      show combine op x y = .ok (encV (combineExact op (some x) (some y)))
      cases op
      · have : inI64 (x + y) := by simp only at hc'; unfold inI64; omega
        simp [combine, encV, combineExact, hx', hy', this]
      · have : inI64 (x + y) := by simp only at hc'; unfold inI64; omega
        simp [combine, encV, combineExact, hx', hy', this]
      · simp [combine, encV, combineExact, hx', hy']
      · simp [combine, encV, combineExact, hx', hy']

theorem inRng_tail {p : Int × Option Int} {t : XPart} (h : InRng (p :: t)) : rngV p.2 ∧ InRng t :=
  ⟨h p (by simp), fun q hq => h q (by simp [hq])⟩

theorem spec_sim (op : Agg) (A B : XPart) (hA : InRng A) (hB : InRng B) (hC : InRng (xmerge op A B)) :
    specKeys (A.map (·.1)) (B.map (·.1)) = (xmerge op A B).map (·.1) ∧
    specVals op (A.map (·.1)) (B.map (·.1)) (A.map fun p => encV p.2) (B.map fun p => encV p.2)
      = .ok ((xmerge op A B).map fun p => encV p.2) := by
  fun_induction xmerge op A B with
  | case1 r => simp [specKeys, specVals]
  | case2 l hne =>
    cases l with
    | nil => simp at hne
    | cons p t => simp [specKeys, specVals]
  | case3 k1 v1 l k2 v2 r hlt ih =>
    have ⟨_, hA'⟩ := inRng_tail hA
    have ⟨_, hC'⟩ := inRng_tail hC
    have ⟨ih1, ih2⟩ := ih hA' hB hC'
    simp only [List.map_cons] at ih1 ih2 ⊢
    simp [specKeys, specVals, hlt, ih1, ih2]
  | case4 k1 v1 l k2 v2 r hnlt hlt ih =>
    have ⟨_, hB'⟩ := inRng_tail hB
    have ⟨_, hC'⟩ := inRng_tail hC
    have ⟨ih1, ih2⟩ := ih hA hB' hC'
    simp only [List.map_cons] at ih1 ih2 ⊢
    simp [specKeys, specVals, hnlt, hlt, ih1, ih2]
  | case5 k1 v1 l k2 v2 r hnlt hnlt2 ih =>
    have ⟨ha, hA'⟩ := inRng_tail hA
    have ⟨hb, hB'⟩ := inRng_tail hB
    have ⟨hc, hC'⟩ := inRng_tail hC
    have ⟨ih1, ih2⟩ := ih hA' hB' hC'
    simp only [List.map_cons] at ih1 ih2 ⊢
    simp [specKeys, specVals, hnlt, hnlt2, ih1, ih2, combine_sim op v1 v2 ha hb hc]

theorem mergeParts_sim (op : Agg) (A B : XPart) (sA : XSorted A) (sB : XSorted B)
    (hA : InRng A) (hB : InRng B) (hC : InRng (xmerge op A B)) :
    mergeParts op (encPart A) (encPart B) = .ok (encPart (xmerge op A B)) := by
  have ⟨h1, h2⟩ := spec_sim op A B hA hB hC
  have sA' : StrictAsc (A.map fun p => p.1) := sA
  have sB' : StrictAsc (B.map fun p => p.1) := sB
  have hk := dedup_keys (A.map fun p => p.1) (B.map fun p => p.1) sA' sB'
  have hv := merge_aggregate_spec op (A.map fun p => p.1) (B.map fun p => p.1) (A.map fun p => encV p.2)
    (B.map fun p => encV p.2) sA' sB' (by simp) (by simp)
  simp only [mergeParts, encPart, mergeKeys]
  rw [hv, h2, hk, h1]

/-- every node of the tree has an exact value that fits i64 and is not the sentinel -/
def NodesInRng (op : Agg) (parts : List XPart) : Tree → Prop
  | .leaf i => InRng (parts.getD i [])
  | .node l r => NodesInRng op parts l ∧ NodesInRng op parts r ∧ InRng (xeval op parts (.node l r))

theorem nodesInRng_root (op : Agg) (parts : List XPart) (t : Tree) (h : NodesInRng op parts t) :
    InRng (xeval op parts t) := by
  cases t with
  | leaf i => exact h
  | node l r => exact h.2.2

theorem xeval_sorted (op : Agg) (parts : List XPart) (h : ∀ p ∈ parts, XSorted p) (t : Tree) :
    XSorted (xeval op parts t) := by
  induction t with
  | leaf i => exact getD_sorted parts h i
  | node l r ihl ihr => exact xmerge_sorted op _ _ ihl ihr

theorem evalTree_sim (op : Agg) (parts : List XPart) (hs : ∀ p ∈ parts, XSorted p) (t : Tree)
    (hv : ∀ i ∈ t.leaves, i < parts.length) (hr : NodesInRng op parts t) :
    evalTree op (parts.map encPart) t = .ok (encPart (xeval op parts t)) := by
  induction t with
  | leaf i =>
    have hi : i < parts.length := hv i (by simp [Tree.leaves])
    simp [evalTree, xeval, hi, List.getD]
  | node l r ihl ihr =>
    have hl := ihl (fun i hi => hv i (by simp [Tree.leaves, hi])) hr.1
    have hrr := ihr (fun i hi => hv i (by simp [Tree.leaves, hi])) hr.2.1
    simp only [evalTree, hl, hrr]
    exact mergeParts_sim op _ _ (xeval_sorted op parts hs l) (xeval_sorted op parts hs r)
      (nodesInRng_root op parts l hr.1) (nodesInRng_root op parts r hr.2.1) hr.2.2
end LM.C04L
