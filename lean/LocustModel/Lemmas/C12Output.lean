import LocustModel.Query.QueryTask
/-
  Helper lemmas for C12: `convert_to_output_format` on a batch result of consistent shape.
-/
namespace LM.Norm
open LM

variable {α : Type}

/-- `validate` makes every data column as long as `len()`. -/
theorem Batch.validate_lengths (b : Batch α) (h : b.validate = true) :
    ∀ c ∈ b.columns, c.length = b.len := by
  unfold Batch.validate at h
  simp only [Bool.and_eq_true] at h
  obtain ⟨h1, _⟩ := h
  unfold Batch.len
  cases hb : b.columns with
  | nil => intro c hc; cases hc
  | cons c0 cs =>
    rw [hb] at h1
    simp only [List.all_eq_true, beq_iff_eq] at h1
    intro c hc
    rcases List.mem_cons.mp hc with rfl | hc
    · rfl
    · exact h1 c hc

/-- The source columns, in select-list order, each of length `L`. -/
inductive Sources (b : Batch α) (L : Nat) : List ResultColumn → List (List α) → Prop where
  | nil : Sources b L [] []
  | cons {rc rcs c cs} : sourceColumn b rc = .ok c → c.length = L → Sources b L rcs cs →
      Sources b L (rc :: rcs) (c :: cs)

theorem Sources.length {b : Batch α} {L rcs cs} (h : Sources b L rcs cs) : cs.length = rcs.length := by
  induction h with
  | nil => rfl
  | cons _ _ _ ih => simp [ih]

theorem Sources.col_length {b : Batch α} {L rcs cs} (h : Sources b L rcs cs) : ∀ c ∈ cs, c.length = L := by
  induction h with
  | nil => intro c hc; cases hc
  | cons _ hl _ ih =>
    intro c hc
    rcases List.mem_cons.mp hc with rfl | hc
    · exact hl
    · exact ih c hc

theorem sourceColumn_mem (b : Batch α) (rc : ResultColumn) (c : List α) (h : sourceColumn b rc = .ok c) :
    c ∈ b.columns := by
  unfold sourceColumn at h
  cases rc with
  | proj i =>
    simp only at h
    split at h
    · cases h
    · split at h
      · cases h
      · rename_i idx _ c' hc
        injection h with h; subst h
        exact List.mem_of_getElem? hc
  | agg i =>
    simp only at h
    split at h
    · cases h
    · split at h
      · cases h
      · rename_i idx _ c' hc
        injection h with h; subst h
        exact List.mem_of_getElem? hc

/-- If every source resolves, the list of source columns exists. -/
theorem Sources.exists (b : Batch α) (hv : b.validate = true) (rcs : List ResultColumn)
    (h : ∀ rc ∈ rcs, ∃ c, sourceColumn b rc = .ok c) : ∃ cs, Sources b b.len rcs cs := by
  induction rcs with
  | nil => exact ⟨[], .nil⟩
  | cons rc rcs ih =>
    obtain ⟨c, hc⟩ := h rc List.mem_cons_self
    obtain ⟨cs, hcs⟩ := ih (fun x hx => h x (List.mem_cons_of_mem _ hx))
    exact ⟨c :: cs, .cons hc (b.validate_lengths hv c (sourceColumn_mem b rc c hc)) hcs⟩

theorem recordAt_ok {b : Batch α} {L rcs cs} (h : Sources b L rcs cs) (i : Nat) (hi : i < L) :
    recordAt b i rcs = .ok (cs.filterMap fun c => c[i]?) := by
  induction h with
  | nil => rfl
  | @cons rc rcs c cs hc hl _ ih =>
    simp only [recordAt, hc, ih]
    have : i < c.length := by rw [hl]; exact hi
    simp [List.getElem?_eq_getElem this]

theorem recordsFrom_ok {b : Batch α} {L rcs cs} (h : Sources b L rcs cs) (start k : Nat) (hk : start + k ≤ L) :
    recordsFrom b rcs start k = .ok ((List.range k).map fun j => cs.filterMap fun c => c[start + j]?) := by
  induction k generalizing start with
  | zero => rfl
  | succ k ih =>
    simp only [recordsFrom]
    rw [recordAt_ok h start (by omega), ih (start + 1) (by omega)]
    simp only [List.range_succ_eq_map, List.map_cons, List.map_map, Nat.add_zero]
    congr 2
    apply List.map_congr_left
    intro j _
    simp only [Function.comp]
    congr 1
    funext c
    congr 1
    omega

theorem sliceBox_ok (c : List α) (offset count : Nat) (h : offset + count ≤ c.length) :
    sliceBox c offset (offset + count) = .ok ((c.drop offset).take count) := by
  unfold sliceBox
  rw [if_pos ⟨by omega, h⟩]
  congr 2; omega

theorem columnsOut_ok {b : Batch α} {L rcs cs} (h : Sources b L rcs cs) (offset count : Nat)
    (hoc : offset + count ≤ L) (names : List String) (hn : names.length = rcs.length) :
    columnsOut b offset count names rcs = .ok (names.zip (cs.map fun c => (c.drop offset).take count)) := by
  induction h generalizing names with
  | nil =>
    cases names with
    | nil => rfl
    | cons n ns => simp at hn
  | @cons rc rcs c cs hc hl _ ih =>
    cases names with
    | nil => simp at hn
    | cons n ns =>
      simp only [columnsOut, hc]
      rw [sliceBox_ok c offset count (by rw [hl]; exact hoc)]
      simp only
      rw [ih ns (by simpa using hn)]
      rfl

theorem getElem?_slice (c : List α) (offset count k : Nat) (hk : k < count) :
    ((c.drop offset).take count)[k]? = c[offset + k]? := by
  rw [List.getElem?_take_of_lt hk, List.getElem?_drop]

theorem namesOk_exact (names : List String) : namesOk (names.map .exact) names = true := by
  induction names with
  | nil => rfl
  | cons n ns ih => simp [namesOk, NameSpec.ok, ih]

theorem zip_map_fst {β γ : Type} (l : List β) (m : List γ) (h : l.length = m.length) : (l.zip m).map (·.1) = l := by
  induction l generalizing m with
  | nil => rfl
  | cons x l ih =>
    cases m with
    | nil => simp at h
    | cons y m => simp [ih m (by simpa using h)]

theorem zip_map_snd {β γ : Type} (l : List β) (m : List γ) (h : l.length = m.length) : (l.zip m).map (·.2) = m := by
  induction l generalizing m with
  | nil => cases m with
    | nil => rfl
    | cons y m => simp at h
  | cons x l ih =>
    cases m with
    | nil => simp at h
    | cons y m => simp [ih m (by simpa using h)]

theorem runFront_ok (p : Parsed) (cat : Catalog) (plan : TaskPlan) (h : runFront p cat = .ok plan) :
    ∃ q q' cols, parseQuery p = .ok q ∧ cat.tableExists = true ∧ expandStar q cols = .ok q' ∧
      normalize q' = .ok plan.norm ∧ plan.outputColnames = q'.select.map (·.name) := by
  unfold runFront at h
  cases hq : parseQuery p with
  | err e => simp [hq] at h
  | fault f => simp [hq] at h
  | ok q =>
    simp only [hq, Res.ok_bind] at h
    -- the column-name lookup
    generalize hcols : (if q.referencesStar = true then
        match cat.metaCols with
        | .missing => Res.err .fatal
        | .notString => Res.err .fatal
        | .names l => Res.ok (some l)
      else Res.ok none) = lookup at h
    cases lookup with
    | err e => simp at h
    | fault f => simp at h
    | ok cols =>
      simp only [Res.ok_bind] at h
      cases ht : cat.tableExists with
      | false => simp [ht] at h
      | true =>
        simp only [ht, Bool.not_true, Bool.false_eq_true, if_false] at h
        cases hx : expandStar q cols with
        | err e => simp [hx] at h
        | fault f => simp [hx] at h
        | ok q' =>
          simp only [hx, Res.ok_bind] at h
          cases hn : normalize q' with
          | err e => simp [hn] at h
          | fault f => simp [hn] at h
          | ok n =>
            simp only [hn, Res.ok_bind, Res.pure_eq] at h
            injection h with h; subst h
            exact ⟨q, q', cols, rfl, rfl, hx, hn, rfl⟩

end LM.Norm
