/-
  Line-protocol helpers for the model drivers: tokens are separated by single spaces,
  lists are comma separated (`[]` for the empty list), `_` is NULL / none,
  byte strings are lower-case hex prefixed by `x` (`x` alone is the empty string).
-/
namespace LM.Proto

def splitTokens (line : String) : List String :=
  (line.trimAscii.toString.splitOn " ").filter (· ≠ "")

def parseInt? (s : String) : Option Int := s.toInt?

def parseNat? (s : String) : Option Nat := s.toNat?

def parseList (f : String → Option α) (s : String) : Option (List α) :=
  if s = "[]" then some [] else (s.splitOn ",").mapM f

def parseOpt (f : String → Option α) (s : String) : Option (Option α) :=
  if s = "_" then some none else (f s).map some

def hexDigit? (c : Char) : Option Nat :=
  if '0' ≤ c ∧ c ≤ '9' then some (c.toNat - '0'.toNat)
  else if 'a' ≤ c ∧ c ≤ 'f' then some (c.toNat - 'a'.toNat + 10)
  else if 'A' ≤ c ∧ c ≤ 'F' then some (c.toNat - 'A'.toNat + 10)
  else none

def parseHexBytesAux : List Char → Option (List UInt8)
  | [] => some []
  | [_] => none
  | a :: b :: rest => do
      let x ← hexDigit? a
      let y ← hexDigit? b
      let r ← parseHexBytesAux rest
      pure (UInt8.ofNat (x * 16 + y) :: r)

/-- `x68656c6c6f` → bytes. -/
def parseHexBytes? (s : String) : Option (List UInt8) :=
  match s.toList with
  | 'x' :: rest => parseHexBytesAux rest
  | _ => none

def hexChar (n : Nat) : Char :=
  if n < 10 then Char.ofNat ('0'.toNat + n) else Char.ofNat ('a'.toNat + n - 10)

def showHexBytes (bs : List UInt8) : String :=
  "x" ++ String.ofList (bs.flatMap fun b => [hexChar (b.toNat / 16), hexChar (b.toNat % 16)])

def showList (f : α → String) (xs : List α) : String :=
  if xs.isEmpty then "[]" else ",".intercalate (xs.map f)

def showOpt (f : α → String) : Option α → String
  | none => "_"
  | some a => f a

def showInt (i : Int) : String := toString i

/-- Generic stdin loop: one output line per input line. -/
partial def loop (h : IO.FS.Stream) (out : IO.FS.Stream) (step : String → String) : IO Unit := do
  let line ← h.getLine
  if line.isEmpty then return ()
  out.putStrLn (step line)
  loop h out step

def runDriver (step : String → String) : IO Unit := do
  let stdin ← IO.getStdin
  let stdout ← IO.getStdout
  loop stdin stdout step
  stdout.flush

end LM.Proto
