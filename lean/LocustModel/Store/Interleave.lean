import LocustModel.Store.Machine
import LocustModel.Store.Spec
import LocustModel.Gen.WalProtocol
/-
  The storage machine with `wal_flush` refined into its real steps, ingestion allowed in between, and the
  `force_flush` request protocol of `enforce_wal_limit` (C08, C13, C18 on INTERLEAVED histories).

  What the Rust does (src/scheduler/inner_locustdb.rs):
    enforce_wal_limit (ONE flush thread), per loop iteration:
        wal_size := *wal_size ;  pending := mem::take(pending_wal_flushes)            -- BEFORE the flush
        if wal_size > max_wal_size_bytes || !pending.is_empty() || too_many_wal_files { wal_flush(); for s in pending { s.send(()) } }
    wal_flush:
        { lock wal_size;  unflushed = earliest..next;  freeze every buffer;  *wal_size = 0;  notify_all }     `flushBegin`
        batch every table, persist_partitions, compactions (prepare_compact)                                   `flushBatch`
        persist_metastore(unflushed.end)               -- the CAPTURED end, serialised cursor = earliest       `flushMeta`
        delete_orphaned_partitions                                                                             `flushGcParts`
        delete_wal_segments(unflushed)                 -- the CAPTURED range                                   `flushGcWal`
      back in enforce_wal_limit: answer the requests taken BEFORE the flush                                    `flushAnswer`
    ingest_efficient: { lock wal_size; while *wal_size > max { wait }; … whole body … }  — excluded only by the freeze
        block; between any two of the steps above an ingestion may run: its segment gets an id ≥ unflushed.end, its
        rows go to the NEW open buffer, `wal_size` counts from 0 again.
    trigger_wal_flush (= force_flush): push a sender on pending_wal_flushes, block until the flush thread answers.

  `Machine.flush` is `flushBegin ; flushBatch ; flushMeta ; flushGcParts ; flushGcWal ; flushAnswer` without anything in between
  (`flush_eq_steps`).  A clean restart happens only when no flush is in flight and no force_flush call is blocked.
  The steps are enabled more often than in the code (a flush may start without a trigger, an ingestion may run although
  the log-size gate is closed): the safety theorems therefore cover a superset of the real histories; the gate and the
  trigger are the predicates `ingestWaits` / `flushTriggered` used by `C18_no_stuck_ingest`.
  Core-only (no Mathlib): imported by the drivers.
-/
namespace LM.Store

variable {ν κ : Type}

/-- How far the flush in flight has come. -/
inductive Stage where
  | frozen      -- freeze block done
  | batched     -- batching, persist_partitions and all compactions done
  | persisted   -- persist_metastore done
  | swept       -- delete_orphaned_partitions done
  | wiped       -- delete_wal_segments done: `wal_flush` has returned, the requests taken before it are not answered yet
  deriving DecidableEq, Repr

/-- The local variables of the running `wal_flush` (+ the requests this loop iteration took). -/
structure Flight (ν : Type) where
  lo : Nat                                   -- unflushed_wal_ids.start  (captured under the ingestion lock)
  hi : Nat                                   -- unflushed_wal_ids.end
  stage : Stage
  toDel : TName ν → List (Nat × String)      -- partitions_to_delete
  served : List Nat                          -- force_flush requests taken by this iteration (ghost value: see `forceReq`)

/-- State of the interleaved machine.  A force_flush request is represented by the ghost value "id the next log
    segment would get when the request was registered": everything acknowledged before the call has a smaller id. -/
structure IWorld (ν κ : Type) where
  w : World ν κ
  fl : Option (Flight ν)
  pending : List Nat                         -- pending_wal_flushes (registered, not yet taken)
  done : List Nat                            -- requests that were answered (force_flush returned)

inductive IOp (ν κ : Type) where
  | ingest (r : Request ν κ) (bytes : Nat)
  | forceReq                                 -- trigger_wal_flush: register the request
  | flushBegin (k : Nat)                     -- take the first k pending requests (those registered before the take); freeze block
  | flushBatch (fi : FlushIn ν)
  | flushMeta
  | flushGcParts
  | flushGcWal
  | flushAnswer                              -- `for sender in pending_wal_flushes { sender.send(()) }`: answer the requests taken before the flush
  | restart (order : Nat → Request ν κ → Request ν κ)

inductive IErr where
  | fault (f : Fault)
  | disabled                                 -- the step cannot happen in this state (not a failure of the code)
  deriving DecidableEq, Repr

variable [DecidableEq ν]

/-- Batching of all tables, `persist_partitions`, all planned compactions — `wal_flush` between the freeze block and
    `persist_metastore`, on a world whose buffers are frozen. -/
def flushBatchW (P : Params ν κ) (w : World ν κ) (fi : FlushIn ν) :
    Except Fault (World ν κ × (TName ν → List (Nat × String))) :=
  let cidOf : TName ν → Option Nat := fun t =>
    (w.mem.tables t).bind (fun tm => (flushTableBuffer (fi.keysNew t) (fi.choice t) tm).2)
  foldE (compactOne P fi cidOf) fi.compactions (batchAndPersist fi w, fun _ => [])

theorem flush_eq_steps (P : Params ν κ) (w : World ν κ) (fi : FlushIn ν) :
    flush P w fi =
      match flushBatchW P (freeze w) fi with
      | .error e => .error e
      | .ok (w3, toDel) =>
        .ok (deleteWal (deleteOrphans (persistMeta w3 w.mem.cat.nextWal) toDel) w.mem.cat.earliest w.mem.cat.nextWal) := by
  unfold flush flushBatchW
  simp only
  split <;> rename_i h <;> simp [h]

def liftW (iw : IWorld ν κ) (r : Except Fault (World ν κ)) : Except IErr (IWorld ν κ) :=
  match r with
  | .ok w' => .ok { iw with w := w' }
  | .error e => .error (.fault e)

def istep (P : Params ν κ) (iw : IWorld ν κ) : IOp ν κ → Except IErr (IWorld ν κ)
  | .ingest r bytes => liftW iw (ingest P iw.w r bytes)
  | .forceReq => .ok { iw with pending := iw.pending ++ [iw.w.mem.cat.nextWal] }
  | .flushBegin k =>
    match iw.fl with
    | some _ => .error .disabled            -- one flush thread: `wal_flush` is never called concurrently
    | none =>
      .ok { iw with w := freeze iw.w,
                    fl := some ⟨iw.w.mem.cat.earliest, iw.w.mem.cat.nextWal, .frozen, fun _ => [], iw.pending.take k⟩,
                    pending := iw.pending.drop k }
  | .flushBatch fi =>
    match iw.fl with
    | some f =>
      if f.stage = .frozen then
        match flushBatchW P iw.w fi with
        | .ok (w3, toDel) => .ok { iw with w := w3, fl := some { f with stage := .batched, toDel := toDel } }
        | .error e => .error (.fault e)
      else .error .disabled
    | none => .error .disabled
  | .flushMeta =>
    match iw.fl with
    | some f =>
      if f.stage = .batched then .ok { iw with w := persistMeta iw.w f.hi, fl := some { f with stage := .persisted } }
      else .error .disabled
    | none => .error .disabled
  | .flushGcParts =>
    match iw.fl with
    | some f =>
      if f.stage = .persisted then .ok { iw with w := deleteOrphans iw.w f.toDel, fl := some { f with stage := .swept } }
      else .error .disabled
    | none => .error .disabled
  | .flushGcWal =>
    match iw.fl with
    | some f =>
      if f.stage = .swept then .ok { iw with w := deleteWal iw.w f.lo f.hi, fl := some { f with stage := .wiped } }
      else .error .disabled
    | none => .error .disabled
  | .flushAnswer =>
    match iw.fl with
    | some f =>
      if f.stage = .wiped then .ok { iw with fl := none, done := iw.done ++ f.served }
      else .error .disabled
    | none => .error .disabled
  | .restart order =>
    match iw.fl, iw.pending with
    | none, [] => liftW iw (recover P iw.w.disk iw.w.log iw.w.lossy order)
    | _, _ => .error .disabled              -- not a clean restart (that is C09's subject)

def ifold (P : Params ν κ) : List (IOp ν κ) → IWorld ν κ → Except IErr (IWorld ν κ)
  | [], iw => .ok iw
  | op :: ops, iw =>
    match istep P iw op with
    | .ok iw' => ifold P ops iw'
    | .error e => .error e

def iinit (P : Params ν κ) : IWorld ν κ := ⟨initWorld P, none, [], []⟩

/-- Run an interleaved history from a fresh database. -/
def irun (P : Params ν κ) (ops : List (IOp ν κ)) : Except IErr (IWorld ν κ) := ifold P ops (iinit P)

/-- The steps of one flush, nothing in between. -/
def flushOps (fi : FlushIn ν) : List (IOp ν κ) := [.flushBegin 0, .flushBatch fi, .flushMeta, .flushGcParts, .flushGcWal, .flushAnswer]

/-- A sequential history as an interleaved one. -/
def embed : List (Op ν κ) → List (IOp ν κ)
  | [] => []
  | .ingest r b :: ops => .ingest r b :: embed ops
  | .flush fi :: ops => flushOps fi ++ embed ops
  | .restart o :: ops => .restart o :: embed ops

/-- The user's requests of an interleaved history, in the order in which the calls returned. -/
def iuserRequests : List (IOp ν κ) → List (Request ν κ)
  | [] => []
  | .ingest r _ :: ops => r :: iuserRequests ops
  | _ :: ops => iuserRequests ops

/-- C08 spec for interleaved histories: the shares of all returned calls, concatenated. -/
def iacked (ops : List (IOp ν κ)) (t : TName ν) : List (Batch ν κ) := logOf t (iuserRequests ops)

/-- Number of `ingest` steps after the last `flushBegin` (the calls that overlapped / followed the last freeze). -/
def sinceFreeze (ops : List (IOp ν κ)) : Nat :=
  ops.foldl (fun n op => match op with
    | .ingest _ _ => n + 1
    | .flushBegin _ => 0
    | _ => n) 0

-- ------------------------------------------------------------------------------------------------
-- The log-size gate of ingestion and the triggers of the flush thread (C18).

/-- `ingest_efficient`, head: `while *wal_size <cmp> self.opts.max_wal_size_bytes { wait }` — the comparison is the one
    found in the source (`Gen/WalProtocol.lean`, regenerated by every check run). -/
def ingestWaits (P : Params ν κ) (iw : IWorld ν κ) : Prop :=
  LM.Gen.WalProtocol.ingestGate.holds iw.w.mem.walSize P.maxWalSize = true

instance (P : Params ν κ) (iw : IWorld ν κ) : Decidable (ingestWaits P iw) := by unfold ingestWaits; exact inferInstance

/-- `enforce_wal_limit`: `wal_size <cmp> max_wal_size_bytes || !pending_wal_flushes.is_empty() || too_many_wal_files`
    (`wal_file_count = unflushed.end - unflushed.start <cmp> max_wal_files`), comparisons as found in the source. -/
def flushTriggered (P : Params ν κ) (maxWalFiles : Nat) (iw : IWorld ν κ) : Prop :=
  LM.Gen.WalProtocol.flushTriggerSize.holds iw.w.mem.walSize P.maxWalSize = true ∨ iw.pending ≠ [] ∨
  LM.Gen.WalProtocol.flushTriggerFiles.holds (iw.w.mem.cat.nextWal - iw.w.mem.cat.earliest) maxWalFiles = true

instance (P : Params ν κ) (m : Nat) (iw : IWorld ν κ) : Decidable (flushTriggered P m iw) := by
  unfold flushTriggered; exact inferInstance

/-- The steps the flush thread still has to perform for the flight in stage `st`. -/
def finishOps (st : Stage) (fi : FlushIn ν) : List (IOp ν κ) :=
  match st with
  | .frozen => [.flushBatch fi, .flushMeta, .flushGcParts, .flushGcWal, .flushAnswer]
  | .batched => [.flushMeta, .flushGcParts, .flushGcWal, .flushAnswer]
  | .persisted => [.flushGcParts, .flushGcWal, .flushAnswer]
  | .swept => [.flushGcWal, .flushAnswer]
  | .wiped => [.flushAnswer]

/-- The steps only the flush thread performs. -/
def IOp.isFlushThread : IOp ν κ → Bool
  | .flushBegin _ | .flushBatch _ | .flushMeta | .flushGcParts | .flushGcWal | .flushAnswer => true
  | _ => false

-- ------------------------------------------------------------------------------------------------
-- Variants that are NOT the code: used by `…_refuted`-style examples to show that the theorems are sensitive to
-- exactly the choices the Rust makes.

/-- `persist_metastore` writing `next_wal_id` as the cursor instead of the captured `unflushed.end`. -/
def persistMetaNext (w : World ν κ) (cursorEnd : Nat) : World ν κ :=
  let cat' : Cat ν := { w.mem.cat with earliest := cursorEnd }
  { w with mem := { w.mem with cat := cat' },
           disk := { w.disk with metaFile := some ⟨cat'.nextWal, cat'.parts⟩ } }

/-- The interleaved machine with (a) the cursor variant above and/or (b) the requests answered at the end of a flush
    being ALL requests pending when the flush has returned, instead of the ones taken before the flush began. -/
def istepVar (badCursor badTake : Bool) (P : Params ν κ) (iw : IWorld ν κ) (op : IOp ν κ) : Except IErr (IWorld ν κ) :=
  match op with
  | .flushMeta =>
    match iw.fl with
    | some f =>
      if f.stage = .batched then
        .ok { iw with w := (if badCursor then persistMetaNext iw.w f.hi else persistMeta iw.w f.hi),
                      fl := some { f with stage := .persisted } }
      else .error .disabled
    | none => .error .disabled
  | .flushAnswer =>
    match iw.fl with
    | some f =>
      if f.stage = .wiped then
        if badTake then .ok { iw with fl := none, done := iw.done ++ f.served ++ iw.pending, pending := [] }
        else .ok { iw with fl := none, done := iw.done ++ f.served }
      else .error .disabled
    | none => .error .disabled
  | op => istep P iw op

def ifoldVar (badCursor badTake : Bool) (P : Params ν κ) : List (IOp ν κ) → IWorld ν κ → Except IErr (IWorld ν κ)
  | [], iw => .ok iw
  | op :: ops, iw =>
    match istepVar badCursor badTake P iw op with
    | .ok iw' => ifoldVar badCursor badTake P ops iw'
    | .error e => .error e

-- ------------------------------------------------------------------------------------------------
-- Proof device: the world a frozen table would be without the freeze (rows of the frozen buffer back in front of
-- the open buffer; accounted size = all segments on disk).  Ingestion commutes with it.

def unfreezeT (tm : TableMem ν κ) : TableMem ν κ := { tm with buffer := tm.frozen ++ tm.buffer, frozen := [] }

def unfreeze (w : World ν κ) : World ν κ :=
  { w with mem := { w.mem with tables := fun t => (w.mem.tables t).map unfreezeT,
                               walSize := (w.disk.wal.map (·.bytes)).sum } }

end LM.Store
