import LocustModel.Proto
import LocustModel.Store.Machine
import LocustModel.Store.Spec
import LocustModel.Store.Effects
import LocustModel.Store.Interleave
/-
  Shared part of the C08 / C13 / C18 drivers: parsing of history lines, execution of the machine model on them
  (with the flush inputs — planner choice and sub-partition keys — inferred from the catalogue the harness
  observed after each flush), and canonical printing of model state and specification.

  History line:   <cfg> <step> <step> …
     cfg   = `cfg=<combine>,<part_bytes>,<io>,<cthreads>,<wal_files>,<wal_bytes>[,<mem_lz4>]`
     (C18 only, after the `L…` token) `E<phase>><phase>…` the file-system effects observed during the last step,
           phase = `<kind>:<hex path>,…` with kind w (store segment) s (store partition file) m (store catalogue)
           d (remove partition file) x (remove segment); `E_` when there was none
     step  = `I<share>;<share>…`        share = `<hex table>:<nrows>:<hex col>=<cell>.<cell>…/<hex col>=…`
           | `F<catalogue>` | `B<catalogue>`   force_flush / background flush, with the catalogue found on disk afterwards
           | `R`                         drop + reopen
           | INTERLEAVED flush (Store/Interleave.lean), observed through the sync-point hooks:
             `Q`            a force_flush call from another thread was registered (it blocks until answered)
             `Zb<k>`        the flush thread took k pending requests and ran its freeze block
             `Zp<catalogue>` batching + persist_partitions + compactions (catalogue = the one found on disk when THIS flush had completed)
             `Zm` `Zd` `Zx` persist_metastore / delete_orphaned_partitions / delete_wal_segments
             `Za`           `wal_flush` returned, the flush thread answered the requests it had taken
             `A<i>`         the harness saw the i-th `Q` call (0-based) return
             `I…` may occur between any two of them
           | `L<hex path>,…`             (C18 only, last token) the directory listing found after the last step
     catalogue = `C_` | `C<cursor>|<hex table>:<hex dir>:<id>:<offset>:<len>:<hex key>+<hex key>|…`
  Names are kept as their protocol tokens (`x<hex>`): hex preserves byte order, which is Rust's `str` order.
-/
namespace LM.Store.Drv
open LM LM.Proto LM.Store

abbrev N := String
abbrev K := String
abbrev W := World N K

def hexMetaCols : String := "x5f6d6574615f636f6c756d6e735f"   -- "_meta_columns_"
def hexMetaTables : String := "x5f6d6574615f7461626c6573"     -- "_meta_tables"

/-- Protocol token of a table's real name. -/
def tnameTok : TName N → String
  | .user n => n
  | .metaTables => hexMetaTables
  | .metaCols n => hexMetaCols ++ (n.drop 1).toString

def tnameOfTok (s : String) : TName N :=
  if s = hexMetaTables then .metaTables
  else if s.startsWith hexMetaCols then .metaCols ("x" ++ (s.drop hexMetaCols.length).toString)
  else .user s

def cnameTok : CName N → String
  | .user n => n
  | .timestamp => "x74696d657374616d70"
  | .name => "x6e616d65"
  | .columnName => "x636f6c756d6e5f6e616d65"
  | .columnNames => "x636f6c756d6e5f6e616d6573"

def params (maxWal : Nat) : Params N K := { reencode := id, maxWalSize := maxWal, metaColsInit := [.columnName] }

-- ---------------------------------------------------------------------------------------------- parsing

def parseCell (s : String) : Cell N K := if s = "_" then .null else .val s

def parseCol (s : String) : Option (CName N × List (Cell N K)) :=
  match s.splitOn "=" with
  | [n, cs] => some (.user n, if cs = "" then [] else (cs.splitOn ".").map parseCell)
  | _ => none

def parseShare (s : String) : Option (Share N K) :=
  match s.splitOn ":" with
  | [t, n, cols] => do
      let n ← n.toNat?
      let cs ← (cols.splitOn "/").mapM parseCol
      some (.user t, ⟨n, cs⟩)
  | _ => none

structure ObsPart where
  table : TName N
  dir : String
  pm : PartMeta

def parseObsPart (s : String) : Option ObsPart :=
  match s.splitOn ":" with
  | [t, dir, id, off, len, keys] => do
      let id ← id.toNat?
      let off ← off.toNat?
      let len ← len.toNat?
      some ⟨tnameOfTok t, dir, ⟨id, off, len, keys.splitOn "+"⟩⟩
  | _ => none

/-- `none` = unparsable; `some none` = no catalogue file. -/
def parseCatalogue (s : String) : Option (Option (Nat × List ObsPart)) :=
  if s = "C_" then some none else
  match (s.drop 1).toString.splitOn "|" with
  | cur :: parts => do
      let c ← cur.toNat?
      let ps ← parts.mapM parseObsPart
      some (some (c, ps))
  | [] => none

-- ---------------------------------------------------------------------------------------------- simulation

structure Sim where
  w : W
  tables : List (TName N)
  dirs : List (TName N × String)
  ops : List (Op N K)
  lastWasFlush : Bool
  lastObs : Option (Nat × List ObsPart)
  fault : Option String
  maxWal : Nat
  /-- classifier of the open finding `compaction-null-loss` (C07): some compaction so far merged rows that have a
      NULL cell (explicit, or because a batch did not mention the column) in a column of the table -/
  nullCompacted : Bool := false
  /-- effect phases of the last step of the history (an `I`/`R` token and the `B` that may follow it) -/
  lastEff : List (List (Eff N)) := []
  /-- interleaved machine: flush in flight, force_flush requests (Store/Interleave.lean) -/
  fl : Option (Flight N) := none
  pending : List Nat := []
  done : List Nat := []
  /-- history-only bookkeeping for the specs: number of `I` tokens, of `I` tokens since the last freeze (`Zb`/`F`/`B`),
      number of `I` tokens before each `Q`, the `Q`s the harness saw answered, does the line contain `Z`/`Q` tokens -/
  nIngest : Nat := 0
  sinceFreezeN : Nat := 0
  qMarks : List Nat := []
  answered : List Nat := []
  inter : Bool := false
  /-- partitions (table, id) the flush in flight created and merged away again (batch + compaction in the SAME
      `wal_flush`): they are in no catalogue ever stored, so their sub-partition keys are never observed -/
  unseen : List (TName N × Nat) := []

def Sim.init (maxWal : Nat) : Sim :=
  { w := initWorld (params maxWal), tables := [.metaTables], dirs := [], ops := [], lastWasFlush := false,
    lastObs := none, fault := none, maxWal := maxWal }

def addNew (xs : List (TName N)) (ys : List (TName N)) : List (TName N) :=
  ys.foldl (fun acc y => if acc.contains y then acc else acc ++ [y]) xs

/-- Key token of the single sub-partition `all` (default when a partition's keys were never observed). -/
def hexAll : String := "x616c6c"

def coreOf (m : PartMeta) : Nat × Nat × Nat := (m.id, m.offset, m.len)

def sortMetas (ms : List PartMeta) : List PartMeta := ms.mergeSort (fun a b => a.offset ≤ b.offset)

/-- Infer the flush inputs for table `t` from the observed catalogue of `t` (sorted by offset). -/
def inferTable (tm : TableMem N K) (obs : List PartMeta) : Option Nat × List String × List String :=
  let tm1 := batchTable ["all"] (freezeTable tm)
  let cur := tm1.parts.map (fun p => coreOf p.toMeta)
  let newId := tm.nextId
  let keysOf (id : Nat) : List String := ((obs.find? (fun m => m.id = id)).map (·.keys)).getD [hexAll]
  if obs.map coreOf = cur then (none, keysOf newId, [hexAll])
  else
    let cid := tm1.nextId
    let cand (i : Nat) : List (Nat × Nat × Nat) :=
      match cur.drop i with
      | [] => cur
      | first :: rest => cur.take i ++ [(cid, first.2.1, ((first :: rest).map (·.2.2)).sum)]
    match (List.range cur.length).find? (fun i => cand i = obs.map coreOf) with
    | some i => (some i, keysOf newId, keysOf cid)
    | none => (none, keysOf newId, [hexAll])

def inferFlush (s : Sim) (obs : List ObsPart) : FlushIn N :=
  let per := s.tables.filterMap (fun t =>
    match s.w.mem.tables t with
    | none => none
    | some tm =>
      let o := sortMetas ((obs.filter (fun p => p.table = t)).map (·.pm))
      some (t, inferTable tm o))
  { compactions := per.filterMap (fun x => x.2.1.map (fun i => (x.1, i))),
    keysNew := fun t => ((per.find? (fun x => x.1 = t)).map (·.2.2.1)).getD [hexAll],
    keysCompact := fun t => ((per.find? (fun x => x.1 = t)).map (·.2.2.2)).getD [hexAll] }

/-- Does the compaction of the suffix `i` of table `t` (after freeze + batch) merge a NULL cell? -/
def mergesNull (s : Sim) (t : TName N) (i : Nat) : Bool :=
  match s.w.mem.tables t with
  | none => false
  | some tm =>
    let tm1 := batchTable ["all"] (freezeTable tm)
    let rows := (allRows (tm1.parts.drop i)).getD []
    let names := dedupCNames (namesIn rows)
    names.any (fun c => (readColumn c rows).any (fun x => match x with | .null => true | _ => false))
where
  dedupCNames (xs : List (CName N)) : List (CName N) :=
    xs.foldl (fun acc x => if acc.contains x then acc else acc ++ [x]) []

/-- As `inferTable`, for a table whose buffer is ALREADY frozen (interleaved flush: `Zp` comes after `Zb`). -/
def inferTableFrozen (tm : TableMem N K) (obs : List PartMeta) : Option Nat × List String × List String :=
  let tm1 := batchTable ["all"] tm
  let cur := tm1.parts.map (fun p => coreOf p.toMeta)
  let newId := tm.nextId
  let keysOf (id : Nat) : List String := ((obs.find? (fun m => m.id = id)).map (·.keys)).getD [hexAll]
  if obs.map coreOf = cur then (none, keysOf newId, [hexAll])
  else
    let cid := tm1.nextId
    let cand (i : Nat) : List (Nat × Nat × Nat) :=
      match cur.drop i with
      | [] => cur
      | first :: rest => cur.take i ++ [(cid, first.2.1, ((first :: rest).map (·.2.2)).sum)]
    match (List.range cur.length).find? (fun i => cand i = obs.map coreOf) with
    | some i => (some i, keysOf newId, keysOf cid)
    | none => (none, keysOf newId, [hexAll])

def inferFlushFrozen (s : Sim) (obs : List ObsPart) : FlushIn N :=
  let per := s.tables.filterMap (fun t =>
    match s.w.mem.tables t with
    | none => none
    | some tm =>
      let o := sortMetas ((obs.filter (fun p => p.table = t)).map (·.pm))
      some (t, inferTableFrozen tm o))
  { compactions := per.filterMap (fun x => x.2.1.map (fun i => (x.1, i))),
    keysNew := fun t => ((per.find? (fun x => x.1 = t)).map (·.2.2.1)).getD [hexAll],
    keysCompact := fun t => ((per.find? (fun x => x.1 = t)).map (·.2.2.2)).getD [hexAll] }

/-- One step of the interleaved machine (`istep`); a step that is not enabled in the model state is a fault of the line. -/
def Sim.applyI (s : Sim) (op : IOp N K) (isFlushEnd : Bool) : Sim :=
  match istep (params s.maxWal) ⟨s.w, s.fl, s.pending, s.done⟩ op with
  | .ok iw => { s with w := iw.w, fl := iw.fl, pending := iw.pending, done := iw.done, lastWasFlush := isFlushEnd, inter := true, lastEff := [] }
  | .error (.fault e) => { s with fault := some (toString e), inter := true }
  | .error .disabled => { s with fault := some "step-not-enabled", inter := true }

def Sim.noteQ (s : Sim) : Sim := { s with qMarks := s.qMarks ++ [s.nIngest] }

def Sim.applyOp (s : Sim) (op : Op N K) (isFlush : Bool) : Sim :=
  match step (params s.maxWal) s.w op with
  | .ok w' => { s with w := w', ops := s.ops ++ [op], lastWasFlush := isFlush }
  | .error e => { s with fault := some (toString e), ops := s.ops ++ [op], lastWasFlush := isFlush }

def Sim.stepTok (s : Sim) (tok : String) : Sim :=
  if s.fault.isSome then s else
  match tok.toList with
  | 'I' :: _ =>
    match ((tok.drop 1).toString.splitOn ";").mapM parseShare with
    | none => { s with fault := some "bad-op" }
    | some r =>
      let ts := r.flatMap (fun sh => match sh.1 with | .user n => [TName.user n, TName.metaCols n] | t => [t])
      let s' := s.applyOp (.ingest r 0) false
      { s' with tables := addNew s'.tables ts, lastEff := ingestPhases s.w, nIngest := s.nIngest + 1, sinceFreezeN := s.sinceFreezeN + 1 }
  | 'F' :: _ | 'B' :: _ =>
    match parseCatalogue (tok.drop 1).toString with
    | none => { s with fault := some "bad-op" }
    | some obs =>
      let parts : List ObsPart := (obs.map (·.2)).getD []
      let s1 := { s with dirs := parts.foldl (fun (acc : List (TName N × String)) (p : ObsPart) => if acc.any (fun d => d.1 = p.table) then acc else acc ++ [(p.table, p.dir)]) s.dirs,
                         lastObs := obs }
      let fi := inferFlush s1 parts
      let s2 := { s1 with nullCompacted := s1.nullCompacted || fi.compactions.any (fun c => mergesNull s1 c.1 c.2) }
      let ph := match flushStages (params s.maxWal) s2.w fi with
        | .ok st => flushPhases s2.tables s2.w st
        | .error _ => []
      let isB := tok.startsWith "B"
      if s.fl.isSome then { s with fault := some "flush-while-in-flight" } else
      { (s2.applyOp (.flush fi) true) with lastEff := (if isB then s.lastEff else []) ++ ph, sinceFreezeN := 0 }
  | ['R'] =>
    if s.fl.isSome || !s.pending.isEmpty then { s with fault := some "restart-not-clean" } else
    { (s.applyOp (.restart (fun _ r => r)) false) with lastEff := [] }
  | ['Q'] => (s.applyI .forceReq false).noteQ
  | 'Z' :: 'b' :: _ =>
    match (tok.drop 2).toString.toNat? with
    | some k => { (s.applyI (.flushBegin k) false) with sinceFreezeN := 0, unseen := [] }
    | none => { s with fault := some "bad-op" }
  | 'Z' :: 'p' :: _ =>
    match parseCatalogue (tok.drop 2).toString with
    | none => { s with fault := some "bad-op" }
    | some obs =>
      let parts : List ObsPart := (obs.map (·.2)).getD []
      let s1 := { s with dirs := parts.foldl (fun (acc : List (TName N × String)) (p : ObsPart) => if acc.any (fun d => d.1 = p.table) then acc else acc ++ [(p.table, p.dir)]) s.dirs,
                         lastObs := obs }
      let fi := inferFlushFrozen s1 parts
      let s2 := s1.applyI (.flushBatch fi) false
      let unseen := s2.tables.flatMap (fun t =>
        let before := (s.w.disk.parts t).map (·.id)
        let seen := (parts.filter (fun p => p.table = t)).map (·.pm.id)
        ((((s2.w.disk.parts t).map (·.id)).eraseDups).filter (fun i => !before.contains i && !seen.contains i)).map (fun i => (t, i)))
      { s2 with unseen := unseen }
  | ['Z', 'm'] => s.applyI .flushMeta false
  | ['Z', 'd'] => s.applyI .flushGcParts false
  | ['Z', 'x'] => s.applyI .flushGcWal false
  | ['Z', 'a'] => s.applyI .flushAnswer true
  | 'A' :: _ =>
    match (tok.drop 1).toString.toNat? with
    | some i => { s with answered := s.answered ++ [i], inter := true }
    | none => { s with fault := some "bad-op" }
  | _ => { s with fault := some "bad-op" }

def parseCfgMaxWal (tok : String) : Nat :=
  match (tok.drop 4).toString.splitOn "," with
  | [_, _, _, _, _, wb] => wb.toNat?.getD 0
  | [_, _, _, _, _, wb, _] => wb.toNat?.getD 0     -- 7th field: mem_lz4 (in-memory representation only; not modelled)
  | _ => 0

/-- Run a history line; returns the simulation and the trailing `L…` token if present. -/
def runLine (line : String) : Option (Sim × Option String) :=
  match splitTokens line with
  | cfg :: toks =>
    if !cfg.startsWith "cfg=" then none else
    let (steps, ltok) := match toks.reverse with
      | last :: rest => if last.startsWith "L" then (rest.reverse, some last) else (toks, none)
      | [] => ([], none)
    some (steps.foldl Sim.stepTok (Sim.init (parseCfgMaxWal cfg)), ltok)
  | [] => none

/-- Like `runLine`, with the trailing `L…` and `E…` tokens (in this order, both optional). -/
def runLine2 (line : String) : Option (Sim × Option String × Option String) :=
  match splitTokens line with
  | cfg :: toks =>
    if !cfg.startsWith "cfg=" then none else
    let (toks1, etok) := match toks.reverse with
      | last :: rest => if last.startsWith "E" then (rest.reverse, some last) else (toks, none)
      | [] => ([], none)
    let (steps, ltok) := match toks1.reverse with
      | last :: rest => if last.startsWith "L" then (rest.reverse, some last) else (toks1, none)
      | [] => ([], none)
    some (steps.foldl Sim.stepTok (Sim.init (parseCfgMaxWal cfg)), ltok, etok)
  | [] => none

-- ---------------------------------------------------------------------------------------------- printing

def sortStrs (xs : List String) : List String := xs.mergeSort (fun a b => a ≤ b)

def cellTok : Cell N K → String
  | .null => "_"
  | .val c => c
  | .tname t => tnameTok t
  | .cname c => cnameTok c
  | .ts => "ts"

def dedupStrs (xs : List String) : List String :=
  xs.foldl (fun acc x => if acc.contains x then acc else acc ++ [x]) []

/-- `SELECT * FROM t` given the rows of `t` and the names listed by its column catalogue (sorted, not deduplicated:
    `QueryTask::new` sorts the catalogue's answer as it is). -/
def selectStar (bs : List (Batch N K)) (names : List (CName N)) : String :=
  let sorted := (names.map (fun c => (cnameTok c, c))).mergeSort (fun a b => a.1 ≤ b.1)
  if sorted.isEmpty then s!"empty{rowsLen bs}" else
  "/".intercalate (sorted.map (fun nc => nc.1 ++ "=" ++ ".".intercalate ((readColumn nc.2 bs).map cellTok)))

def userTables (s : Sim) : List N :=
  sortStrs (s.tables.filterMap (fun t => match t with | .user n => some n | _ => none))

/-- The implementation model's view. -/
def dumpModel (s : Sim) : String :=
  match s.fault with
  | some f => "fault:" ++ f
  | none =>
  let T := s.w.mem.tables
  let tabs := (userTables s).map (fun n =>
    "T" ++ n ++ "=" ++
      (match T (.user n) with
       | none => "err:fatal"
       | some tm =>
         match queryColumnNames T n, tableBatches tm with
         | .ok names, .ok bs => selectStar bs names
         | _, _ => "err:fatal"))
  let mt := "MT=" ++
    (match content s.w .metaTables with
     | .ok bs => showList id (sortStrs ((readColumn .name bs).map cellTok))
     | .error _ => "err:fatal")
  let mcs := (userTables s).map (fun n =>
    "MC" ++ n ++ "=" ++
      (match T (.metaCols n) with
       | none => "err:notimpl"
       | some tm => match tableBatches tm with
         | .ok bs => showList id (sortStrs ((readColumn .columnName bs).map cellTok))
         | .error _ => "err:fatal"))
  " ".intercalate (tabs ++ [mt] ++ mcs)

/-- The specification's view, computed from the history alone. -/
def dumpSpec (s : Sim) : String :=
  let users := userTables s
  let tabs := users.map (fun n =>
    let bs := acked s.ops (.user n)
    let names := dedupStrs (sortStrs ((namesIn bs).map cnameTok))
    "T" ++ n ++ "=" ++ "/".intercalate (names.map (fun c => c ++ "=" ++ ".".intercalate ((readColumn (.user c) bs).map cellTok))))
  let mt := "MT=" ++ showList id (sortStrs (users.flatMap (fun n => [n, tnameTok (.metaCols n)])))
  let mcs := users.map (fun n =>
    "MC" ++ n ++ "=" ++ showList id (dedupStrs (sortStrs ((namesIn (acked s.ops (.user n))).map cnameTok))))
  " ".intercalate (tabs ++ [mt] ++ mcs)

/-- `LocustDB::search_column_names(t, ".*")` per user table (C13): the names the column catalogue lists. -/
def dumpSearchModel (s : Sim) : String :=
  match s.fault with
  | some _ => ""
  | none =>
  " " ++ " ".intercalate ((userTables s).map (fun n =>
    "SC" ++ n ++ "=" ++
      (match s.w.mem.tables (.metaCols n) with
       | none => "err"
       | some tm => match tableBatches tm with
         | .ok bs => showList id (sortStrs ((readColumn .columnName bs).map cellTok))
         | .error _ => "err")))

def dumpSearchSpec (s : Sim) : String :=
  " " ++ " ".intercalate ((userTables s).map (fun n =>
    "SC" ++ n ++ "=" ++ showList id (dedupStrs (sortStrs ((namesIn (acked s.ops (.user n))).map cnameTok)))))

def hexAscii (s : String) : String :=
  String.ofList (s.toList.flatMap (fun c => [hexChar (c.toNat / 16), hexChar (c.toNat % 16)]))

def pad5 (n : Nat) : String :=
  let d := toString n
  String.ofList (List.replicate (5 - d.length) '0') ++ d

/-- Hex token of `tables/<dir>/<id:05>_<key>.part`. -/
def partPathTok (dir : String) (id : Nat) (key : String) : String :=
  "x" ++ hexAscii "tables/" ++ (dir.drop 1).toString ++ hexAscii "/" ++ hexAscii (pad5 id) ++ hexAscii "_" ++ (key.drop 1).toString ++ hexAscii ".part"

def dirOf (s : Sim) (t : TName N) : String := ((s.dirs.find? (fun d => d.1 = t)).map (·.2)).getD "x3f"

/-- Directory listing predicted by the model: catalogue file, log segments, partition files. -/
def listingModel (s : Sim) : String :=
  match s.fault with
  | some f => "fault:" ++ f
  | none =>
  let d := s.w.disk
  let metaF := if d.metaFile.isSome then ["x" ++ hexAscii "meta"] else []
  let wal := d.wal.map (fun f => "x" ++ hexAscii s!"wal/{f.id}.wal")
  let parts := s.tables.flatMap (fun t => (d.parts t).map (fun f => partPathTok (dirOf s t) f.id f.key))
  "L" ++ showList id (sortStrs (metaF ++ wal ++ parts))

/-- Hex token prefix `tables/<dir>/<id:05>_` of the files of one partition. -/
def partPrefixTok (dir : String) (id : Nat) : String :=
  "x" ++ hexAscii "tables/" ++ (dir.drop 1).toString ++ hexAscii "/" ++ hexAscii (pad5 id) ++ hexAscii "_"

/-- As `listingModel`, for a dump taken WHILE a flush is in flight.  The sub-partition keys of a partition that this
    flush created and merged away again (`Sim.unseen`) are not determined by the history line (`subpartition` — C15 —
    is not part of the storage machine and no stored catalogue ever lists that partition): as long as the model has
    files of such a partition (from `flushBatch` until `flushGcParts`), the prediction is "at least one file
    `tables/<dir>/<id>_*`", instantiated with the names found in the observed listing `ltok`; everything else
    (catalogue file, segments, every other partition's files, and the absence of that partition's files before the
    batch step and after `delete_orphaned_partitions`) is predicted exactly. -/
def listingModelObs (s : Sim) (ltok : Option String) : String :=
  match s.fault with
  | some f => "fault:" ++ f
  | none =>
  let d := s.w.disk
  let metaF := if d.metaFile.isSome then ["x" ++ hexAscii "meta"] else []
  let wal := d.wal.map (fun f => "x" ++ hexAscii s!"wal/{f.id}.wal")
  let listed : List String := match ltok with
    | some l => if l = "L[]" then [] else (l.drop 1).toString.splitOn ","
    | none => []
  let parts := s.tables.flatMap (fun t => (d.parts t).map (fun f => (t, f.id, partPathTok (dirOf s t) f.id f.key)))
  let isUnseen (x : TName N × Nat × String) : Bool := s.unseen.any (fun u => u.1 = x.1 && u.2 = x.2.1)
  let fixedP := (parts.filter (fun x => !isUnseen x)).map (·.2.2)
  let openP := (s.unseen.filter (fun u => parts.any (fun x => x.1 = u.1 && x.2.1 = u.2))).flatMap (fun u =>
    let pre := partPrefixTok (dirOf s u.1) u.2
    let obs := listed.filter (fun x => x.startsWith pre && x.endsWith (hexAscii ".part"))
    if obs.isEmpty then (parts.filter (fun x => x.1 = u.1 && x.2.1 = u.2)).map (·.2.2) else obs)
  "L" ++ showList id (sortStrs (metaF ++ wal ++ fixedP ++ openP))

def catalogueModel (s : Sim) : String :=
  match s.fault with
  | some f => "fault:" ++ f
  | none =>
  match s.w.disk.metaFile with
  | none => "C_"
  | some mf =>
    let tabs := (s.tables.map (fun t => (tnameTok t, t))).mergeSort (fun a b => a.1 ≤ b.1)
    let entries := tabs.flatMap (fun nt =>
      (sortMetas (mf.parts nt.2)).map (fun m =>
        s!"{nt.1}:{dirOf s nt.2}:{m.id}:{m.offset}:{m.len}:{"+".intercalate m.keys}"))
    "|".intercalate (s!"C{mf.cursor}" :: entries)

def effTok (s : Sim) (e : Eff N) : String × String :=
  match e with
  | .storeWal id => ("w", "x" ++ hexAscii s!"wal/{id}.wal")
  | .storePart t id k => ("s", partPathTok (dirOf s t) id k)
  | .storeMeta => ("m", "x" ++ hexAscii "meta")
  | .delPart t id k => ("d", partPathTok (dirOf s t) id k)
  | .delWal id => ("x", "x" ++ hexAscii s!"wal/{id}.wal")

/-- Effect phases predicted by the model for the last step: `E<kind>:<paths>><kind>:<paths>…`, empty phases dropped. -/
def effectsModel (s : Sim) : String :=
  match s.fault with
  | some f => "fault:" ++ f
  | none =>
  -- files of transient partitions (stored and removed in the same step) are left out, as in the harness
  let all := s.lastEff.flatten
  let removed (t : TName N) (id : Nat) : Bool := all.any (fun e => match e with | .delPart t' id' _ => t' = t && id' = id | _ => false)
  let storedP (t : TName N) (id : Nat) : Bool := all.any (fun e => match e with | .storePart t' id' _ => t' = t && id' = id | _ => false)
  let keep (e : Eff N) : Bool := match e with
    | .storePart t id _ => !(removed t id)
    | .delPart t id _ => !(storedP t id)
    | _ => true
  let phases := s.lastEff.filterMap (fun ph =>
    match (ph.filter keep).map (effTok s) with
    | [] => none
    | (k, p) :: rest => some (k ++ ":" ++ ",".intercalate (sortStrs (p :: rest.map (·.2)))))
  if phases.isEmpty then "E_" else "E" ++ ">".intercalate phases

/-- C18 / C08 mechanism, judged on the OBSERVED effect phases of a step: every partition file is stored before the
    catalogue file, and files (merged-away partitions, log segments) are removed only after the catalogue file was
    stored. -/
def judgeEffects (etok : String) : String :=
  if etok = "E_" then "OK" else
  let kinds := ((etok.drop 1).toString.splitOn ">").map (fun ph => (ph.take 1).toString)
  let idxM := kinds.findIdx? (· = "m")
  let bad := (List.range kinds.length).zip kinds |>.filter (fun (ik : Nat × String) =>
    match idxM with
    | none => ik.2 = "d" || ik.2 = "x"
    | some m => (ik.2 = "s" && ik.1 > m) || ((ik.2 = "d" || ik.2 = "x") && ik.1 < m))
  if bad.isEmpty then "OK" else s!"BAD effect-order {etok}"

/-- C18 spec, judged on the observed listing: exactly the catalogue file and the files the observed catalogue refers to. -/
def judgeListing (obs : Option (Nat × List ObsPart)) (ltok : String) : String :=
  let listed := if ltok = "L[]" then [] else (ltok.drop 1).toString.splitOn ","
  match obs with
  | none => "BAD no-catalogue-after-flush"
  | some (_, parts) =>
    let expected := sortStrs (("x" ++ hexAscii "meta") :: parts.flatMap (fun p => p.pm.keys.map (fun k => partPathTok p.dir p.pm.id k)))
    let extra := listed.filter (fun x => !(expected.contains x))
    let missing := expected.filter (fun x => !(listed.contains x))
    if extra.isEmpty && missing.isEmpty && listed.length = expected.length then "OK"
    else s!"BAD extra={showList id extra} missing={showList id missing}"

/-- C18 spec for histories with interleaved flushes, judged on the OBSERVED listing and catalogue after a completed
    flush: exactly the catalogue file, the files the observed catalogue refers to, and the log segments of the
    `k` ingestion calls that returned since that flush froze the buffers (ids `cursor .. cursor+k`, cursor = the one
    stored in the observed catalogue) — nothing the flush captured, nothing else. -/
def judgeListingInter (obs : Option (Nat × List ObsPart)) (k : Nat) (ltok : String) : String :=
  let listed := if ltok = "L[]" then [] else (ltok.drop 1).toString.splitOn ","
  match obs with
  | none => "BAD no-catalogue-after-flush"
  | some (cur, parts) =>
    let wal := (List.range' cur k).map (fun id => "x" ++ hexAscii s!"wal/{id}.wal")
    let expected := sortStrs ((("x" ++ hexAscii "meta") :: parts.flatMap (fun p => p.pm.keys.map (fun k => partPathTok p.dir p.pm.id k))) ++ wal)
    let extra := listed.filter (fun x => !(expected.contains x))
    let missing := expected.filter (fun x => !(listed.contains x))
    if extra.isEmpty && missing.isEmpty && listed.length = expected.length then "OK"
    else s!"BAD extra={showList id extra} missing={showList id missing}"

/-- C18 spec for force_flush, judged on the observed listing: a `Q` call the harness saw return (`A<i>`) was registered
    when `mark` ingestion calls had returned; their segments (ids `< mark`) must be gone. -/
def judgeAnswered (s : Sim) (ltok : String) : String :=
  let listed := if ltok = "L[]" then [] else (ltok.drop 1).toString.splitOn ","
  let bad := s.answered.filterMap (fun i =>
    match s.qMarks[i]? with
    | none => some s!"req{i}:unknown"
    | some mark =>
      match (List.range mark).find? (fun id => listed.contains ("x" ++ hexAscii s!"wal/{id}.wal")) with
      | some id => some s!"req{i}:registered-after-{mark}-calls:segment-{id}-still-there"
      | none =>
        match s.lastObs with
        | some (cur, _) => if cur < mark then some s!"req{i}:registered-after-{mark}-calls:cursor-{cur}" else none
        | none => if mark = 0 then none else some s!"req{i}:no-catalogue")
  if bad.isEmpty then "OK" else "BAD force_flush-answered-before-flushed " ++ ",".intercalate bad

/-- Ingestion-latency stream (C18): `n` back-to-back calls of sizes `sizes`, limit `limit`, accounted size `pre` at
    the start (recovered log).  A call waits while the accounted size exceeds the limit (`ingestWaits`); while it
    waits nothing but the flush thread can act, which flushes iff ITS condition holds (`flushTriggered`, with no
    request pending and the file-count trigger off); the freeze block resets the size. -/
def latencyModel (limit pre : Nat) (sizes : List Nat) : String :=
  let P := params limit
  let mk (ws : Nat) : IWorld N K := ⟨{ (initWorld P) with mem := { (initWorld P).mem with walSize := ws } }, none, [], []⟩
  let rec go (ws : Nat) : List Nat → String
    | [] => "returned"
    | b :: bs =>
      if decide (ingestWaits P (mk ws)) then
        if decide (flushTriggered P 1000000000 (mk ws)) then go (0 + b) bs else "hang:ingest"
      else go (ws + b) bs
  go pre sizes

end LM.Store.Drv
