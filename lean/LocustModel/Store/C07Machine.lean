import LocustModel.Proto
import LocustModel.Codec.Decode2
import LocustModel.Codec.Rebuild
/-
  C07 — one table under maintenance: where a row can live (`Table.buffer`, `Table.frozen_buffer`,
  `Table.partitions`) and the steps that move rows between those places.

    src/mem_store/table.rs          ingest_homogeneous (column_names), freeze_buffer, batch, plan_compaction, compact
    src/scheduler/inner_locustdb.rs wal_flush, flush_table_buffer, compact (column rebuild), evict_cache
    src/mem_store/partition.rs      get_cols (absent column ⇒ `Column::null`), evict
    src/scheduler/disk_read_scheduler.rs  get_or_load

  Rows are abstract at this layer (DESIGN.md Appendix B): a partition carries, per column it has, the cells a
  query reads from the stored column image (`D2.decodeQ`).  The one place where stored data is rewritten is
  compaction, which applies the parameter `re : Reenc` to the column's cells in the partitions being merged.
  The REAL re-encoding is `reencOf env` below: column image (the builder `env.build`, or `Column::null` when the
  partition lacks the column) → free `decode` (`D2.decode2`) → `push_*` (`Rebuild.pushDecoded`) → `finalize`
  (`env.build`) → what a query reads from the result.  That `reencOf env` is the concatenation is exactly
  `C07_decode2_eq_decode` + `C07_rebuild_cells` (or refuted, where the code is wrong).

  The builders (`ColumnBuffer::finalize` → `IntegerColumn::new_boxed` / `fast_build_string_column` / … +
  `lz4_or_pco_encode`) are the parameter `Env.build : cells ↦ image`; that the image reads back as those cells is
  C01's theorem and C07's explicit hypothesis `BuildOk`.  `plan_compaction` depends on byte sizes; the planner's
  result is an input (`flush k` merges the last `k` partitions in offset order; theorems are ∀ k).
  Eviction / reload / restart change residency only; that a reloaded column is the column written is C14/C15
  (files read back as written, found under their name) and C08 (restart), assumed here.
-/
namespace LM.C07M
open LM LM.Codec LM.D2 LM.Rebuild

abbrev Name := String

structure Env where
  dec : Section → Section
  build : List Cell → Col

/-- one table's share of an ingestion request -/
structure Batch where
  len : Nat
  cols : List (Name × List Cell)
  deriving Repr, Inhabited

structure Part where
  id : Nat
  offset : Nat
  len : Nat
  cols : List (Name × List Cell)   -- per stored column: the cells a query reads from its image
  resident : Bool := true
  deriving Repr, Inhabited

structure Table where
  buffer : List Batch := []
  frozen : List Batch := []
  parts : List Part := []          -- kept in offset order
  nextId : Nat := 0
  nextOff : Nat := 0
  colNames : List Name := []
  deriving Repr, Inhabited

inductive Step where
  | ingest (b : Batch)
  | flush (k : Nat)                -- k = number of partitions `plan_compaction` selected (0 = no compaction)
  | evict
  | restart
  deriving Repr, Inhabited

/-- input of a column re-encoding: per merged partition its length and the column's cells (`none`: the partition
    does not have the column) -/
abbrev ReencIn := List (Nat × Option (List Cell))
abbrev Reenc := ReencIn → Except Fault (List Cell)

def lookup {α : Type} (n : Name) : List (Name × α) → Option α
  | [] => none
  | (m, a) :: rest => if m = n then some a else lookup n rest

/-! ### logical content -/

def orNulls (len : Nat) : Option (List Cell) → List Cell
  | some cs => cs
  | none => List.replicate len .null

/-- cells of a column in a batch (`Buffer::push_typed_cols` pads absent columns with NULLs) -/
def batchCol (b : Batch) (n : Name) : List Cell := orNulls b.len (lookup n b.cols)

def batchesCol (bs : List Batch) (n : Name) : List Cell := bs.flatMap (batchCol · n)

def batchesLen (bs : List Batch) : Nat := (bs.map (·.len)).sum

/-- the columns of the buffer (`Buffer.buffer.keys()`; repetitions are harmless: `lookup` takes the first) -/
def batchesNames (bs : List Batch) : List Name := bs.flatMap fun b => b.cols.map (·.1)

/-- cells of a column in a partition; a column the partition does not have reads as NULLs -/
def partCol (p : Part) (n : Name) : List Cell := orNulls p.len (lookup n p.cols)

/-- SPEC: the content of column `n`: partitions by offset, then the frozen buffer, then the open buffer
    (`Table::snapshot`). -/
def content (t : Table) (n : Name) : List Cell :=
  t.parts.flatMap (partCol · n) ++ batchesCol t.frozen n ++ batchesCol t.buffer n

/-- the re-encoding that changes nothing: concatenation, NULLs for partitions without the column -/
def idReenc : Reenc := fun xs => .ok (xs.flatMap fun x => orNulls x.1 x.2)

/-! ### steps -/

def addNames (names : List Name) (new : List Name) : List Name :=
  new.foldl (fun acc n => if n ∈ acc then acc else acc ++ [n]) names

/-- `Table::ingest_homogeneous` -/
def ingest (t : Table) (b : Batch) : Table :=
  { t with buffer := t.buffer ++ [b], colNames := addNames t.colNames (b.cols.map (·.1)) }

/-- `Table::freeze_buffer`: `assert!(frozen_buffer.len() == 0)`, swap -/
def freeze (t : Table) : Except Fault Table :=
  if batchesLen t.frozen = 0 then .ok { t with frozen := t.buffer, buffer := [] } else .error .assert

/-- `Table::batch`: the frozen buffer becomes the partition `next_partition_id` at `next_partition_offset`
    (its columns: the builders applied to the buffered cells — read back as those cells, `BuildOk`) -/
def batch (t : Table) : Table :=
  if batchesLen t.frozen = 0 then { t with frozen := [] }
  else
    let cols := (batchesNames t.frozen).map fun n => (n, batchesCol t.frozen n)
    let p : Part := { id := t.nextId, offset := t.nextOff, len := batchesLen t.frozen, cols := cols }
    { t with frozen := [], parts := t.parts ++ [p], nextId := t.nextId + 1, nextOff := t.nextOff + batchesLen t.frozen }

/-- the rebuilt columns of the merged partition: `for column in &colnames { … }` -/
def rebuildCols (re : Reenc) (olds : List Part) : List Name → Except Fault (List (Name × List Cell))
  | [] => .ok []
  | n :: ns =>
    match re (olds.map fun p => (p.len, lookup n p.cols)) with
    | .error e => .error e
    | .ok cs =>
      match rebuildCols re olds ns with
      | .error e => .error e
      | .ok r => .ok ((n, cs) :: r)

/-- `InnerLocustDB::compact` + `Table::compact` for the last `k` partitions (offset order):
    new id from `next_partition_id()`, offset = start of the first merged partition. -/
def compact (re : Reenc) (t : Table) (k : Nat) : Except Fault Table :=
  if k = 0 ∨ k > t.parts.length then .ok t
  else
    let keep := t.parts.take (t.parts.length - k)
    let olds := t.parts.drop (t.parts.length - k)
    match olds with
    | [] => .ok t
    | first :: _ =>
      match rebuildCols re olds t.colNames with
      | .error e => .error e
      | .ok cols =>
        let p : Part := { id := t.nextId, offset := first.offset, len := (olds.map (·.len)).sum, cols := cols }
        .ok { t with parts := keep ++ [p], nextId := t.nextId + 1 }

/-- `wal_flush` for one table -/
def flush (re : Reenc) (t : Table) (k : Nat) : Except Fault Table :=
  match freeze t with
  | .error e => .error e
  | .ok t1 => compact re (batch t1) k

/-- `evict_cache`: every column handle in the LRU loses its data (`Partition::evict`); residency only -/
def evict (t : Table) : Table := { t with parts := t.parts.map fun p => { p with resident := false } }

/-- stop + `InnerLocustDB::new`: partitions come back non-resident from the meta store, unflushed rows are
    replayed from the WAL into the open buffer (C08), `next_partition_id/offset` by `fetch_max` -/
def restart (t : Table) : Table :=
  { t with parts := t.parts.map (fun p => { p with resident := false }), buffer := t.frozen ++ t.buffer, frozen := [] }

def step (re : Reenc) (t : Table) : Step → Except Fault Table
  | .ingest b => .ok (ingest t b)
  | .flush k => flush re t k
  | .evict => .ok (evict t)
  | .restart => .ok (restart t)

def run (re : Reenc) : Table → List Step → Except Fault Table
  | t, [] => .ok t
  | t, s :: ss =>
    match step re t s with
    | .error e => .error e
    | .ok t' => run re t' ss

/-- SPEC of a history: the rows ingested, in order -/
def ingested : List Step → List Batch
  | [] => []
  | .ingest b :: ss => b :: ingested ss
  | _ :: ss => ingested ss

/-! ### the real re-encoding -/

/-- `Column::null(name, len)` -/
def nullCol (len : Nat) : Col := ⟨len, [], [.null len]⟩

/-- what a query reads from a column image -/
def colCells (env : Env) (c : Col) : List Cell :=
  match decodeQ env.dec c with
  | .ok v => cellsOf v
  | .error _ => []

/-- the stored image of a column of a partition (`get_cols`; `Column::null` when absent) -/
def imageOf (env : Env) (x : Nat × Option (List Cell)) : Col :=
  match x.2 with
  | some cs => env.build cs
  | none => nullCol x.1

/-- the loop body of `compact` over the merged partitions: free `decode`, then `push_*` by decoded type -/
def pushParts (env : Env) : Buf → ReencIn → Except Fault Buf
  | b, [] => .ok b
  | b, x :: xs =>
    match decode2 env.dec (imageOf env x) with
    | .error e => .error e
    | .ok v =>
      match pushDecoded b v with
      | .error e => .error e
      | .ok b' => pushParts env b' xs

/-- column rebuild of `InnerLocustDB::compact`: … `assert_eq!(range.len(), builder.len())`, `finalize`; the
    result is what a query reads from the new image. -/
def reencOf (env : Env) : Reenc := fun xs =>
  match pushParts env {} xs with
  | .error e => .error e
  | .ok b =>
    if b.length = (xs.map (·.1)).sum then .ok (colCells env (env.build b.cells)) else .error .assert

/-- basic type of a cell (`none`: NULL) -/
def cellKind : Cell → Option Kind
  | .null => none
  | .int _ => some .int
  | .float _ => some .float
  | .str _ => some .str

/-- single-typed cells: NULLs and values of basic type `k` (C07's domain: DESIGN.md §4 "supported fragment") -/
def Uniform (k : Kind) (cs : List Cell) : Prop := ∀ c ∈ cs, cellKind c = none ∨ cellKind c = some k

/-- the basic types a column can have -/
def TypedK (k : Kind) : Prop := k = .int ∨ k = .float ∨ k = .str

/-- C01's theorem about the builders, as a hypothesis: for single-typed cells `cs` the image built from them is one
    of the builder images (`Img`: shape + library round trip), a query reads `cs` back from it, and its decoded basic
    type is that of the cells (an all-NULL column is `Column::null`). -/
def BuildOk (env : Env) : Prop :=
  ∀ (k : Kind) (cs : List Cell), TypedK k → Uniform k cs →
    ∃ v, Img env.dec (env.build cs) v ∧ cellsOf v = cs ∧ (valKind v = none ∨ valKind v = some k)

/-! ### line protocol (`hist` lines)

    hist <obs|-> <history>
      history : steps separated by `|` :  `I<len>@<name>=<cells>;<name>=<cells>…`  |  `F<k>`  |  `E`  |  `R`
                (`F<k>`: the flush merged `k` partitions, as observed by the harness)
      obs     : the compaction inputs observed so far: compactions separated by `|`, columns by `;`,
                `<col>=<type>~<signature>/<type>~<signature>…` (one entry per merged partition, in merge order)
    output:  <machine: content after the history> TAB <spec: ingested rows>
             both as  `cols:<names> rows:<row>;<row>…`  with columns sorted by name -/

open LM.Proto

def parseCellTok (s : String) : Option Cell :=
  if s = "_" then some .null else
  match s.toList with
  | 'i' :: r => (String.ofList r).toInt?.map .int
  | 'f' :: r =>
      let rec hx : List Char → Nat → Option Nat
        | [], acc => some acc
        | c :: cs, acc => (hexDigit? c).bind fun d => hx cs (acc * 16 + d)
      (hx r 0).map .float
  | 'x' :: _ => (parseHexBytes? s).map .str
  | _ => none

def parseBatchCol (s : String) : Option (Name × List Cell) :=
  match s.splitOn "=" with
  | [n, cs] => (parseList parseCellTok cs).map fun c => (n, c)
  | _ => none

def parseStep (s : String) : Option Step :=
  match s.toList with
  | 'I' :: r =>
      match (String.ofList r).splitOn "@" with
      | [len, cols] => do
          let l ← len.toNat?
          let cs ← if cols = "" then pure [] else (cols.splitOn ";").mapM parseBatchCol
          pure (.ingest ⟨l, cs⟩)
      | _ => none
  | 'F' :: r => (String.ofList r).toNat?.map .flush
  | ['E'] => some .evict
  | ['R'] => some .restart
  | _ => none

def hex16 (n : Nat) : String :=
  String.ofList ((List.range 16).reverse.map fun i => hexChar ((n / 16 ^ i) % 16))

def showCell : Cell → String
  | .null => "_"
  | .int i => "i" ++ toString i
  | .float b => "f" ++ hex16 b
  | .str s => showHexBytes s

def insertSorted (n : Name) : List Name → List Name
  | [] => [n]
  | m :: ms => if n < m then n :: m :: ms else if n = m then m :: ms else m :: insertSorted n ms

def sortNames (ns : List Name) : List Name := ns.foldl (fun acc n => insertSorted n acc) []

def showTable (names : List Name) (cols : List (List Cell)) : String :=
  let n := match cols with | [] => 0 | c :: _ => c.length
  let rows := (List.range n).map fun i => ",".intercalate (cols.map fun c => showCell (c.getD i .null))
  "cols:" ++ showList id names ++ " rows:" ++ (if rows.isEmpty then "[]" else ";".intercalate rows)

/-! The compaction inputs the harness observed (`compact:input` sync point: section type `~` codec signature of every
    column image handed to the free `decode`, per column in merge order) are carried on the line for the record and for
    replays; no finding is open, so nothing is classified. -/

def stepHist (toks : List String) : String :=
  match toks with
  | [_obs, histT] =>
    match (histT.splitOn "|").mapM parseStep with
    | none => "bad-op\tbad-op"
    | some steps =>
      let bs := ingested steps
      let names := sortNames (batchesNames bs)
      let spec := showTable names (names.map (batchesCol bs ·))
      -- the machine of `C07_history` with the re-encoding `C07_rebuild_id` establishes (`idReenc`):
      -- freeze / batch / compact(k) / evict / restart of the model are exercised, not just the concatenation.
      let m := match run idReenc {} steps with
        | .ok t => showTable names (names.map (content t ·))
        | .error _ => "panic"
      m ++ "\t" ++ spec
  | _ => "bad-op\tbad-op"

end LM.C07M
