import LocustModel.Store.Crash
/-
  Specification side of C09: what "durable" means for a file system, and which worlds a history with crashes can reach.
  Core-only.  Theorems are in Thm/C09.lean, lemmas in Lemmas/C09*.lean.
-/
namespace LM.Crash

/-- File names of a list of partitions. -/
def bases (ps : List MPart) : List Base := ps.map partBase

/-- Content of table `t` held by a list of partitions. -/
def pcontent (ps : List MPart) (t : Tbl) : List Row := (partsOf ps t).flatMap (·.rows)

/-- `Dur fs log m`: the file system `fs` durably holds the database state `m`, and `m` contains exactly the requests `log`.

    The clauses mention only *final* names: the catalogue, the partition files the catalogue references, and `wal/<id>.wal`.
    Everything else that may lie around — temp files (`..INCOMPLETE`, complete or torn), partition files the catalogue does
    not reference (orphans of an interrupted flush / compaction, merged-away partitions not yet removed) — is unconstrained:
    the invariant holds whatever they contain (DESIGN Appendix B, clauses 1–3). -/
structure Dur (fs : FS) (log : List Req) (m : Mem) : Prop where
  /-- the catalogue on disk is `m`'s (cursor + partition metadata); a database that never flushed has none -/
  cat : fs (finP .catalogue) = some (.catalogue m.cursor (m.parts.map (·.pm))) ∨
        (fs (finP .catalogue) = none ∧ m.cursor = 0 ∧ m.parts = [])
  /-- every partition file referenced by the catalogue exists, complete, with the partition's rows -/
  parts : ∀ p ∈ m.parts, fs (finP (partBase p)) = some (.part p.rows)
  /-- no two partitions share a file name -/
  keys : (bases m.parts).Nodup
  next : m.nextWal = m.cursor + m.pending.length
  /-- the segments with id ≥ cursor are exactly the unflushed requests, contiguous, each complete under its final name -/
  walLive : ∀ i (h : i < m.pending.length),
      fs (finP (.wal (m.cursor + i))) = some (.wal (m.cursor + i) m.pending[i])
  walAbove : ∀ k, m.nextWal ≤ k → fs (finP (.wal k)) = none
  /-- below the cursor: obsolete segments (complete, their own id) or nothing -/
  walBelow : ∀ k, k < m.cursor → fs (finP (.wal k)) = none ∨ ∃ r, fs (finP (.wal k)) = some (.wal k r)
  /-- catalogue partitions ++ unflushed segments = the log, per table, as lists (so: no loss, no duplicate, order kept) -/
  content : ∀ t, m.content t = ackedRows log t

/-- An effect that cannot disturb the durable state `m`: it touches a temp name only, or a partition file the catalogue
    does not reference, or removes a segment below the cursor. -/
def Safe (m : Mem) : Eff → Prop
  | .mkdir _ | .sync _ | .rmBegin _ | .create _ | .write _ _ => True
  | .rename b => (∃ t id, b = .part t id) ∧ b ∉ bases m.parts
  | .remove p => p.tmp = true ∨ (∃ k, p.base = .wal k ∧ k < m.cursor) ∨ ((∃ t id, p.base = .part t id) ∧ p.base ∉ bases m.parts)

/-! ### Histories with crashes -/

/-- `mem = none`: the process is not running (stopped or killed).  `log`: the requests the database has taken — the
    acknowledged ones plus those in-flight requests of earlier crashes whose segment had reached its final name. -/
structure World where
  fs : FS
  mem : Option Mem
  log : List Req

inductive Op where
  | ingest (r : Req)
  | flush (comp : List (Tbl × List Nat))

/-- Phases of an operation started in memory `m`, the memory when it has returned, the requests it acknowledges. -/
def Op.plan (m : Mem) : Op → Option (List Phase × Mem × List Req)
  | .ingest r => some ((ingestPlan m r).1, (ingestPlan m r).2, [r])
  | .flush comp => (flushPlan m comp).map fun x => (x.1, x.2, [])

/-- The request that is in flight while the operation runs. -/
def Op.inflight : Op → List Req
  | .ingest r => [r]
  | .flush _ => []

/-- What a crash after the effects `pre` of the operation leaves of its in-flight request: all of it iff the rename of its
    segment happened, else nothing. -/
def Op.survivors (m : Mem) (op : Op) (pre : List Eff) : List Req :=
  if Eff.rename (.wal m.nextWal) ∈ pre then op.inflight else []

/-- Worlds reachable by a history over {open, ingest, flush (any compaction decision), stop} in which the process may be
    killed after any prefix of the effects of any operation, including the effects of a recovery, any number of times.
    Effects of the tasks of one phase interleave arbitrarily (`PoolTrace`); directory listings come in any order. -/
inductive Reach : World → Prop where
  | init : Reach ⟨FS.empty, none, []⟩
  | opened {fs log ls m dels tr} : Reach ⟨fs, none, log⟩ → Listing fs ls → recover fs ls = .ok (m, dels) →
      PoolTrace (recoverPhase dels).tasks tr → Reach ⟨applyEffs fs tr, some m, log⟩
  | openCrash {fs log ls m dels tr pre} : Reach ⟨fs, none, log⟩ → Listing fs ls → recover fs ls = .ok (m, dels) →
      PoolTrace (recoverPhase dels).tasks tr → pre <+: tr → Reach ⟨applyEffs fs pre, none, log⟩
  | done {fs m log} {op : Op} {phs m' new tr} : Reach ⟨fs, some m, log⟩ → op.plan m = some (phs, m', new) →
      PhasesTrace phs tr → Reach ⟨applyEffs fs tr, some m', log ++ new⟩
  | crash {fs m log} {op : Op} {phs m' new tr pre} : Reach ⟨fs, some m, log⟩ → op.plan m = some (phs, m', new) →
      PhasesTrace phs tr → pre <+: tr → Reach ⟨applyEffs fs pre, none, log ++ op.survivors m pre⟩
  | stop {fs m log} : Reach ⟨fs, some m, log⟩ → Reach ⟨fs, none, log⟩

end LM.Crash
