import LocustModel.Store.Machine
/-
  File-system effects of the storage machine's steps, in the order `wal_flush` performs them (C08 mechanism
  "cursor advance and segment deletion after partitions are durable", C18 mechanism "deletion after catalogue
  persist").  A flush runs in PHASES; the effects of one phase may run concurrently on the io threads, the phases
  are sequential (each waits for its tasks):
     1. store the files of the new partitions (persist_partitions) and of the compacted partitions (prepare_compact)
     2. store the catalogue file (persist_metastore)
     3. remove the files of the merged-away partitions (delete_orphaned_partitions)
     4. remove the captured log segments (delete_wal_segments)
  `flushStages` is `flush` with its intermediate states exposed (`flush_eq_stages`).  Core-only (used by the drivers).
-/
namespace LM.Store

variable {ν κ : Type}

inductive Eff (ν : Type) where
  | storeWal (id : Nat)
  | storePart (t : TName ν) (id : Nat) (key : String)
  | storeMeta
  | delPart (t : TName ν) (id : Nat) (key : String)
  | delWal (id : Nat)
  deriving Repr

structure FlushStages (ν κ : Type) where
  w3 : World ν κ                              -- after batching, persist_partitions and all compactions
  toDel : TName ν → List (Nat × String)       -- files scheduled for deletion
  lo : Nat
  hi : Nat
  w' : World ν κ                              -- after persist_metastore and the deletions

variable [DecidableEq ν]

def flushStages (P : Params ν κ) (w : World ν κ) (fi : FlushIn ν) : Except Fault (FlushStages ν κ) :=
  let lo := w.mem.cat.earliest
  let hi := w.mem.cat.nextWal
  let w1 := freeze w
  let cidOf : TName ν → Option Nat := fun t =>
    (w1.mem.tables t).bind (fun tm => (flushTableBuffer (fi.keysNew t) (fi.choice t) tm).2)
  let w2 := batchAndPersist fi w1
  match foldE (compactOne P fi cidOf) fi.compactions (w2, fun _ => []) with
  | .error e => .error e
  | .ok (w3, toDel) =>
    .ok ⟨w3, toDel, lo, hi, deleteWal (deleteOrphans (persistMeta w3 hi) toDel) lo hi⟩

theorem flush_eq_stages (P : Params ν κ) (w : World ν κ) (fi : FlushIn ν) :
    flush P w fi = (flushStages P w fi).map (·.w') := by
  unfold flush flushStages
  simp only
  split <;> rename_i h <;> simp [h, Except.map]

/-- The phases of a flush, restricted to the tables `ts` (the driver knows the finite set of tables of a history). -/
def flushPhases (ts : List (TName ν)) (w : World ν κ) (st : FlushStages ν κ) : List (List (Eff ν)) :=
  [ ts.flatMap (fun t => ((st.w3.disk.parts t).drop (w.disk.parts t).length).map (fun f => Eff.storePart t f.id f.key)),
    [Eff.storeMeta],
    ts.flatMap (fun t => (st.toDel t).map (fun x => Eff.delPart t x.1 x.2)),
    (List.range' st.lo (st.hi - st.lo)).map Eff.delWal ]

/-- `persist_wal_segment` before the call returns. -/
def ingestPhases (w : World ν κ) : List (List (Eff ν)) := [[Eff.storeWal w.mem.cat.nextWal]]

end LM.Store
