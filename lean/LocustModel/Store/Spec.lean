import LocustModel.Store.Machine
/-
  Specifications of C08 / C13 / C18 over histories — independent of the machine's state:
    * `acked`        : what every returned ingestion call contributed to a table, in call order          (C08)
    * `specNames`    : the set of column names ever ingested into a table                                (C13)
    * `specTables`   : the set of tables ever ingested (each with its column catalogue table)            (C13)
    * `expectedFiles`: the files a catalogue refers to                                                   (C18)
-/
namespace LM.Store

variable {ν κ : Type} [DecidableEq ν]

/-- The batches of table `t` in one request. -/
def shareOf (t : TName ν) (r : Request ν κ) : List (Batch ν κ) :=
  (r.filter (fun sh => sh.1 = t)).map (·.2)

/-- The batches of table `t` in a list of requests, in order. -/
def logOf (t : TName ν) (log : List (Request ν κ)) : List (Batch ν κ) :=
  log.flatMap (shareOf t)

/-- The user's requests of a history, in call order (every `ingest` op is a call that returned). -/
def userRequests : List (Op ν κ) → List (Request ν κ)
  | [] => []
  | .ingest r _ :: ops => r :: userRequests ops
  | _ :: ops => userRequests ops

/-- C08 spec: the rows of user table `t` are the shares of all returned calls, concatenated. -/
def acked (ops : List (Op ν κ)) (t : TName ν) : List (Batch ν κ) := logOf t (userRequests ops)

/-- Column names mentioned by a list of batches (with repetitions). -/
def namesIn (bs : List (Batch ν κ)) : List (CName ν) := bs.flatMap Batch.names

/-- C13 spec: `c` is a column of `t` iff some returned call mentioned it. -/
def specHasColumn (ops : List (Op ν κ)) (t : TName ν) (c : CName ν) : Prop := c ∈ namesIn (acked ops t)

/-- C13 spec: table `t` was ingested. -/
def specHasTable (ops : List (Op ν κ)) (n : ν) : Prop := acked ops (TName.user n) ≠ []

/-- The names listed by the column catalogue of `n` as a query reads them (NULLs and non-strings are not names). -/
def listedColumns (bs : List (Batch ν κ)) : List (Cell ν κ) := readColumn .columnName bs

def listedTables (bs : List (Batch ν κ)) : List (Cell ν κ) := readColumn .name bs

/-- C18 spec: the partition files a catalogue refers to, per table. -/
def expectedFiles (ms : List PartMeta) : List (Nat × String) :=
  ms.flatMap (fun m => m.keys.map (fun k => (m.id, k)))

def fileNames (fs : List (PartFile ν κ)) : List (Nat × String) := fs.map (fun f => (f.id, f.key))

end LM.Store
