/-
  Crash model of LocustDB's disk store (property C09).  Self-contained, core-only.

  What is mirrored (Rust → Lean):
    FileBlobWriter::store            → `storeEffs`   = [mkdir; create tmp; write tmp; sync; rename tmp → final]
    FileBlobWriter::delete           → `removeEffs`  = [rmBegin; remove]
    Storage::persist_wal_segment /
      InnerLocustDB::ingest_efficient→ `ingestPlan`  (id = next_wal_id; one store of wal/<id>.wal, joined before return)
    InnerLocustDB::wal_flush         → `flushPlan`   (freeze; batch; persist_partitions; compactions; persist_metastore;
                                                       delete_orphaned_partitions; delete_wal_segments — in that order)
    Storage::recover + InnerLocustDB::new (replay, contiguity assert) + Table::restore_tables_from_disk → `recover`
                                       (`scanFilter`: only `<id>.wal` names are loaded; `<id>..INCOMPLETE` leftovers are removed)

  A file system is a finite map path ↦ content (here: a function `Path → Option File`, directory listings are supplied
  separately, in arbitrary order, see `Listing`).  File contents are abstract: a complete WAL segment, a complete partition
  file, a complete catalogue, or `torn` = any strict prefix of a blob (rejected by the length field of the 48-byte header of
  `VersionedChecksummedBlobWriter::load`, whatever the prefix length — so all strict prefixes behave alike).
  A crash = stop after any prefix of the effect trace and drop all memory.
-/
namespace LM.Crash

abbrev Tbl := String
abbrev Row := String

/-- One table's share of an ingestion request. -/
structure Share where
  table : Tbl
  rows : List Row
  deriving DecidableEq, Repr

/-- The data of one `ingest_efficient` call as it is written to the WAL (including the catalogue rows it adds). -/
structure Req where
  shares : List Share
  deriving DecidableEq, Repr

def Req.rowsOf (r : Req) (t : Tbl) : List Row :=
  (r.shares.filter (fun s => s.table = t)).flatMap (·.rows)

/-- Rows of table `t` in a list of requests, in order. -/
def rowsOfReqs (rs : List Req) (t : Tbl) : List Row := rs.flatMap (·.rowsOf t)

structure PartMeta where
  table : Tbl
  id : Nat
  offset : Nat
  len : Nat
  deriving DecidableEq, Repr

/-- The three kinds of files of a database directory: `meta`, `wal/<id>.wal`, `tables/<t>/<id>_all.part`. -/
inductive Base where
  | catalogue
  | wal (id : Nat)
  | part (t : Tbl) (id : Nat)
  deriving DecidableEq, Repr

/-- `tmp = true` is `path.with_extension(".INCOMPLETE")`, i.e. `<stem>..INCOMPLETE` in the same directory. -/
structure Path where
  base : Base
  tmp : Bool
  deriving DecidableEq, Repr

def finP (b : Base) : Path := ⟨b, false⟩
def tmpP (b : Base) : Path := ⟨b, true⟩

inductive File where
  | wal (id : Nat) (r : Req)
  | part (rows : List Row)
  | catalogue (cursor : Nat) (parts : List PartMeta)
  | torn
  deriving DecidableEq, Repr

abbrev FS := Path → Option File

def FS.empty : FS := fun _ => none
def FS.set (fs : FS) (p : Path) (v : Option File) : FS := fun q => if q = p then v else fs q

/-- Primitive file-system effects, one per invocation of the `verif::fs_effect` callback. -/
inductive Eff where
  | mkdir (b : Base)              -- `create_dir_all(parent)`            (callback `store:begin`)
  | create (b : Base)             -- `File::create(tmp)`: empty file      (`store:created`); also every strict prefix during the write
  | write (b : Base) (f : File)   -- `write_all(data)` completed          (`store:written`)
  | sync (b : Base)               -- `sync_all`                           (`store:synced`)  — no change for a process death
  | rename (b : Base)             -- `rename(tmp, path)`                  (`store:renamed`)
  | rmBegin (p : Path)            --                                      (`delete:begin`)
  | remove (p : Path)             -- `remove_file(path)`                  (`delete:done`)
  deriving DecidableEq, Repr

def Eff.base : Eff → Base
  | .mkdir b | .create b | .write b _ | .sync b | .rename b => b
  | .rmBegin p | .remove p => p.base

def applyEff (fs : FS) : Eff → FS
  | .mkdir _ => fs
  | .create b => fs.set (tmpP b) (some .torn)
  | .write b f => fs.set (tmpP b) (some f)
  | .sync _ => fs
  | .rename b =>
      match fs (tmpP b) with
      | some f => (fs.set (finP b) (some f)).set (tmpP b) none
      | none => fs
  | .rmBegin _ => fs
  | .remove p => fs.set p none

def applyEffs (fs : FS) (es : List Eff) : FS := es.foldl applyEff fs

/-- `FileBlobWriter::store(path, data)`. -/
def storeEffs (b : Base) (f : File) : List Eff := [.mkdir b, .create b, .write b f, .sync b, .rename b]
/-- `FileBlobWriter::delete(path)`. -/
def removeEffs (p : Path) : List Eff := [.rmBegin p, .remove p]

/-- A unit of work that runs on one thread: the effects of one `store` / `delete`, all on one base. -/
structure Task where
  base : Base
  effs : List Eff
  deriving Repr

def storeTask (b : Base) (f : File) : Task := ⟨b, storeEffs b f⟩
def removeTask (p : Path) : Task := ⟨p.base, removeEffs p⟩

inductive PhaseKind where
  | wal | persist | compact | catalogue | gcParts | gcWal | recoverGc
  deriving DecidableEq, Repr

/-- A step of the program: a set of tasks that may run concurrently (`io_threads > 1`); phases run one after another. -/
structure Phase where
  kind : PhaseKind
  tasks : List Task
  deriving Repr

/-! ### Memory -/

/-- An in-memory partition (rows resident, or loadable from its file). -/
structure MPart where
  pm : PartMeta
  rows : List Row
  deriving DecidableEq, Repr

/-- What the process knows: the in-memory catalogue (`MetaStore`) and the tables (partitions + open buffers; a buffer is
    the list of requests it was built from). -/
structure Mem where
  cursor : Nat            -- MetaStore.earliest_unflushed_wal_id
  nextWal : Nat           -- MetaStore.next_wal_id
  parts : List MPart      -- partitions of all tables, per table in offset order
  pending : List Req      -- requests ingested since the last freeze (content of the open buffers)
  deriving DecidableEq, Repr

def Mem.fresh : Mem := ⟨0, 0, [], []⟩

def partsOf (ps : List MPart) (t : Tbl) : List MPart := ps.filter (fun p => p.pm.table = t)

/-- Content of table `t` as a query sees it: partitions (by offset), then the open buffer. -/
def Mem.content (m : Mem) (t : Tbl) : List Row :=
  (partsOf m.parts t).flatMap (·.rows) ++ rowsOfReqs m.pending t

/-- `Table.next_partition_id`: one more than the largest id in use (restored by `fetch_max(id + 1)`). -/
def nextId (ps : List MPart) (t : Tbl) : Nat := (partsOf ps t).foldl (fun n p => max n (p.pm.id + 1)) 0
/-- `Table.next_partition_offset`. -/
def nextOff (ps : List MPart) (t : Tbl) : Nat := (partsOf ps t).foldl (fun n p => max n (p.pm.offset + p.pm.len)) 0

/-! ### Ingestion -/

/-- `ingest_efficient`: allocate the id, store `wal/<id>.wal` (joined before the call returns), append to the buffers. -/
def ingestPlan (m : Mem) (r : Req) : List Phase × Mem :=
  ([⟨.wal, [storeTask (.wal m.nextWal) (.wal m.nextWal r)]⟩],
   { m with nextWal := m.nextWal + 1, pending := m.pending ++ [r] })

/-! ### Flush -/

/-- Duplicate-free list of the elements of `l` (first occurrences; same result as `List.eraseDups`, structural so that it can
    be reasoned about). -/
def dedup (l : List Tbl) : List Tbl := l.foldr (fun a acc => a :: acc.filter (fun b => b ≠ a)) []

def tablesOfReqs (rs : List Req) : List Tbl := dedup (rs.flatMap (fun r => r.shares.map (·.table)))

/-- `Table::batch` for every table with a non-empty frozen buffer. -/
def batchParts (ps : List MPart) (pending : List Req) : List MPart :=
  (tablesOfReqs pending).filterMap fun t =>
    let rows := rowsOfReqs pending t
    if rows = [] then none
    else some ⟨⟨t, nextId ps t, nextOff ps t, rows.length⟩, rows⟩

/-- One compaction (`InnerLocustDB::compact` + `Storage::prepare_compact`): partitions `ids` of table `t` (a suffix, by
    offset, of its partitions — `plan_compaction` returns `by_offset[i..]`) are replaced by one new partition. -/
def compactOne (ps : List MPart) (t : Tbl) (ids : List Nat) : Option (MPart × List MPart) :=
  let mine := partsOf ps t
  let merged := mine.filter (fun p => p.pm.id ∈ ids)
  let kept := mine.filter (fun p => ¬ p.pm.id ∈ ids)
  if merged = [] ∨ mine ≠ kept ++ merged ∨ merged.length ≠ ids.eraseDups.length then none
  else
    let rows := merged.flatMap (·.rows)
    let off := (merged.head?.map (·.pm.offset)).getD 0
    let new : MPart := ⟨⟨t, nextId ps t, off, rows.length⟩, rows⟩
    some (new, ps.filter (fun p => ¬ (p.pm.table = t ∧ p.pm.id ∈ ids)) ++ [new])

/-- All compactions of one flush (one per table at most; decisions are an input, see the harness). -/
def compactAll : List MPart → List (Tbl × List Nat) → Option (List MPart × List MPart × List MPart)
  | ps, [] => some ([], [], ps)
  | ps, (t, ids) :: rest =>
      match compactOne ps t ids with
      | none => none
      | some (new, ps') =>
          match compactAll ps' rest with
          | none => none
          | some (news, olds, ps'') =>
              some (new :: news, (partsOf ps t).filter (fun p => p.pm.id ∈ ids) ++ olds, ps'')

def partBase (p : MPart) : Base := .part p.pm.table p.pm.id
def partTask (p : MPart) : Task := storeTask (partBase p) (.part p.rows)

/-- `InnerLocustDB::wal_flush`.  Phases, in the order the Rust issues them:
    persist_partitions (new partition files) → compactions (merged partition files; only the in-memory catalogue changes)
    → persist_metastore(unflushed.end) → delete_orphaned_partitions → delete_wal_segments(unflushed). -/
def flushPlan (m : Mem) (comp : List (Tbl × List Nat)) : Option (List Phase × Mem) :=
  let newParts := batchParts m.parts m.pending
  let parts1 := m.parts ++ newParts
  match compactAll parts1 comp with
  | none => none
  | some (news, olds, parts2) =>
      some ([ ⟨.persist, newParts.map partTask⟩,
              ⟨.compact, news.map partTask⟩,
              ⟨.catalogue, [storeTask .catalogue (.catalogue m.nextWal (parts2.map (·.pm)))]⟩,
              ⟨.gcParts, olds.map fun p => removeTask (finP (partBase p))⟩,
              ⟨.gcWal, (List.range' m.cursor (m.nextWal - m.cursor)).map fun k => removeTask (finP (.wal k))⟩ ],
            { cursor := m.nextWal, nextWal := m.nextWal, parts := parts2, pending := [] })

/-! ### Recovery -/

/-- How opening a database can fail: `hang` = a panic inside an io-pool job (swallowed; `rx.iter().take(n)` then waits
    forever), `panic` = a panic on the opening thread itself. -/
inductive Outcome where
  | hang | panic
  deriving DecidableEq, Repr

def inWalDir (p : Path) : Bool := match p.base with | .wal _ => true | _ => false

/-- `ls` is what `read_dir(wal/)` returns: every existing file of the directory exactly once, in any order. -/
def Listing (fs : FS) (ls : List Path) : Prop :=
  ls.Nodup ∧ ∀ p, p ∈ ls ↔ (inWalDir p = true ∧ fs p ≠ none)

structure Seg where
  path : Path
  id : Nat
  req : Req
  deriving DecidableEq, Repr

def loadMeta (fs : FS) : Except Outcome (Nat × List PartMeta) :=
  match fs (finP .catalogue) with
  | none => .ok (0, [])
  | some (.catalogue c ps) => .ok (c, ps)
  | some _ => .error .panic

/-- One job of the recovery pool: `writer.load(&wal_file).unwrap()`, `WalSegment::deserialize(..).unwrap()`.
    The id comes from the *content*, whatever the file is called. -/
def loadSeg (fs : FS) (p : Path) : Except Outcome Seg :=
  match fs p with
  | some (.wal id r) => .ok ⟨p, id, r⟩
  | _ => .error .hang

/-- `Table::restore_tables_from_disk` + first use of the partition (the Rust loads lazily; a missing / torn file panics
    on first use). -/
def loadPart (fs : FS) (pm : PartMeta) : Except Outcome MPart :=
  match fs (finP (.part pm.table pm.id)) with
  | some (.part rows) => .ok ⟨pm, rows⟩
  | _ => .error .panic

def contiguous : List Nat → Bool
  | a :: b :: rest => b == a + 1 && contiguous (b :: rest)
  | _ => true

/-- Which directory entries the recovery scan loads as segments: `path.extension() == "wal"`, i.e. the final names only
    (since the fix of finding C09-wal-temp; before, `Storage::recover` took every file of `wal/`). -/
def scanFilter (p : Path) : Bool := !p.tmp

/-- `Storage::recover` followed by the replay loop of `InnerLocustDB::new`.  Returns the rebuilt memory and the paths it
    deletes, which are effects of the recovery: first the stale temp files of `wal/` (`<id>..INCOMPLETE`, left by a store
    that died between create and rename; never loaded), then the segments with `id < cursor`. -/
def recover (fs : FS) (ls : List Path) : Except Outcome (Mem × List Path) := do
  let (c, pms) ← loadMeta fs
  let stale := ls.filter (fun p => !scanFilter p)
  let segs ← (ls.filter scanFilter).mapM (loadSeg fs)
  let obsolete := segs.filter (fun s => s.id < c)
  let live := (segs.filter (fun s => ¬ s.id < c)).mergeSort (fun a b => a.id ≤ b.id)
  let parts ← pms.mapM (loadPart fs)
  if contiguous (live.map (·.id)) then
    .ok ({ cursor := c, nextWal := live.foldl (fun n s => max n (s.id + 1)) c, parts := parts, pending := live.map (·.req) },
         stale ++ obsolete.map (·.path))
  else .error .panic

def recoverPhase (dels : List Path) : Phase := ⟨.recoverGc, dels.map removeTask⟩

/-! ### Traces: arbitrary interleavings of the tasks of a phase, phases in sequence -/

inductive Shuffle {α : Type} : List α → List α → List α → Prop where
  | nil : Shuffle [] [] []
  | left {a l1 l2 tr} : Shuffle l1 l2 tr → Shuffle (a :: l1) l2 (a :: tr)
  | right {a l1 l2 tr} : Shuffle l1 l2 tr → Shuffle l1 (a :: l2) (a :: tr)

/-- `tr` is an interleaving of the effect sequences of the tasks. -/
def PoolTrace : List Task → List Eff → Prop
  | [], tr => tr = []
  | t :: ts, tr => ∃ tr', PoolTrace ts tr' ∧ Shuffle t.effs tr' tr

/-- `tr` is a complete trace of the phases. -/
def PhasesTrace : List Phase → List Eff → Prop
  | [], tr => tr = []
  | ph :: rest, tr => ∃ a b, PoolTrace ph.tasks a ∧ PhasesTrace rest b ∧ tr = a ++ b

/-! ### Specification side -/

/-- What the acknowledged requests say table `t` contains. -/
def ackedRows (acked : List Req) (t : Tbl) : List Row := rowsOfReqs acked t

end LM.Crash
