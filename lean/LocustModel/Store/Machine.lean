import LocustModel.Prim
/-
  The abstract storage machine (DESIGN.md Appendix B) shared by C08, C13, C18.

  Mirrors, step by step and in the same ORDER:
    InnerLocustDB::ingest_efficient   (create_if_empty_no_ingest, lazy init_column_names, new_column_names,
                                       `_meta_tables` / `_meta_columns_<t>` rows added to the SAME request,
                                       Storage::persist_wal_segment, Table::ingest_homogeneous, wal_size += bytes)
    InnerLocustDB::wal_flush          (freeze: capture unflushed = earliest..next, swap buffers, wal_size := 0;
                                       flush_table_buffer: Table::batch + plan_compaction (id allocated at plan time);
                                       Storage::persist_partitions; InnerLocustDB::compact + Table::compact +
                                       Storage::prepare_compact; Storage::persist_metastore(unflushed.end);
                                       delete_orphaned_partitions; delete_wal_segments)
    Storage::recover + InnerLocustDB::new + Table::restore_tables_from_disk   (restart)

  Rows are abstract: a buffer is the list of batches it was built from, a partition carries the batches it was
  built from; content = concatenation.  Re-encoding in compaction is the parameter `reencode` (C07 owns `= id`).
  HashMap iteration orders that can matter are explicit inputs (request order, replay order, compaction order).
  Names: `ν` user names (tables and columns), `κ` data cells.  Catalogue tables are distinguished constructors, so
  "the user does not ingest into `_meta_*` tables" is part of the domain by construction.
  Core-only (no Mathlib): imported by the drivers.
-/
namespace LM.Store

/-- Table names. `metaCols n` is `_meta_columns_<n>`. -/
inductive TName (ν : Type) where
  | user (n : ν)
  | metaTables
  | metaCols (n : ν)
  deriving DecidableEq, Repr

/-- Column names. The last four are the literal names used by the catalogue tables
    (`columnNames` is the historical typo "column_names" of `Table::new`, kept so that the old code can be stated). -/
inductive CName (ν : Type) where
  | user (n : ν)
  | timestamp
  | name
  | columnName
  | columnNames
  deriving DecidableEq, Repr

/-- Cells. `tname`/`cname` are the string cells of the catalogue tables, `ts` the wall-clock timestamp (never compared). -/
inductive Cell (ν κ : Type) where
  | null
  | val (c : κ)
  | tname (t : TName ν)
  | cname (c : CName ν)
  | ts
  deriving DecidableEq, Repr

/-- One table's share of a request: `nrows` rows, some columns (each `nrows` cells). -/
structure Batch (ν κ : Type) where
  nrows : Nat
  cols : List (CName ν × List (Cell ν κ))
  deriving Repr

abbrev Share (ν κ : Type) := TName ν × Batch ν κ
/-- One `ingest_efficient` call, in the iteration order of its `HashMap` (an input). -/
abbrev Request (ν κ : Type) := List (Share ν κ)

variable {ν κ : Type}

def Batch.names (b : Batch ν κ) : List (CName ν) := b.cols.map (·.1)

/-- Number of rows of a list of batches. -/
def rowsLen : List (Batch ν κ) → Nat
  | [] => 0
  | b :: bs => b.nrows + rowsLen bs

/-- In-memory partition (`Partition`), ordered view by `range.start`.  `keys` is a ghost copy of the
    sub-partition keys held by the catalogue; `rows = none` models a partition whose files cannot be read. -/
structure MemPart (ν κ : Type) where
  id : Nat
  offset : Nat
  len : Nat
  keys : List String
  rows : Option (List (Batch ν κ))

/-- `PartitionMetadata` (catalogue entry). -/
structure PartMeta where
  id : Nat
  offset : Nat
  len : Nat
  keys : List String
  deriving DecidableEq, Repr

/-- One sub-partition file `tables/<t>/<id>_<key>.part` (its content abstractly: the partition's rows). -/
structure PartFile (ν κ : Type) where
  id : Nat
  key : String
  rows : List (Batch ν κ)

def MemPart.toMeta (p : MemPart ν κ) : PartMeta := ⟨p.id, p.offset, p.len, p.keys⟩

/-- `Table`. -/
structure TableMem (ν κ : Type) where
  buffer : List (Batch ν κ)
  frozen : List (Batch ν κ)
  parts : List (MemPart ν κ)
  nextId : Nat
  nextOff : Nat
  colNames : Option (List (CName ν))

abbrev Tables (ν κ : Type) := TName ν → Option (TableMem ν κ)

/-- `MetaStore` (in memory). -/
structure Cat (ν : Type) where
  nextWal : Nat
  earliest : Nat
  parts : TName ν → List PartMeta

/-- The catalogue file `meta`: only the cursor (`earliest_unflushed_wal_id`, serialised in the field
    called next_wal_id) and the partitions are stored. -/
structure MetaFile (ν : Type) where
  cursor : Nat
  parts : TName ν → List PartMeta

/-- `wal/<id>.wal`. -/
structure WalFile (ν κ : Type) where
  id : Nat
  req : Request ν κ
  bytes : Nat

structure Disk (ν κ : Type) where
  metaFile : Option (MetaFile ν)
  wal : List (WalFile ν κ)
  parts : TName ν → List (PartFile ν κ)

structure Mem (ν κ : Type) where
  tables : Tables ν κ
  cat : Cat ν
  walSize : Nat

/-- Whole state between two calls.  `log` is a ghost: every request written to the log so far (with the catalogue
    rows it carried); `lossy` is a ghost flag raised when a compaction dropped a column (its name set did not cover
    the merged partitions). -/
structure World (ν κ : Type) where
  mem : Mem ν κ
  disk : Disk ν κ
  log : List (Request ν κ)
  lossy : Bool

/-- Parameters: the external re-encoding of compaction, the log-size limit, and the initial name set that
    `Table::new` gives `_meta_columns_*` tables (`[columnName]` since fix a0c515f, `[columnNames]` before). -/
structure Params (ν κ : Type) where
  reencode : List (Batch ν κ) → List (Batch ν κ)
  maxWalSize : Nat
  metaColsInit : List (CName ν)

def emptyDisk : Disk ν κ := ⟨none, [], fun _ => []⟩

variable [DecidableEq ν]

def setTable (T : Tables ν κ) (t : TName ν) (tm : TableMem ν κ) : Tables ν κ :=
  fun t' => if t' = t then some tm else T t'

/-- `Table::new(name, lru, column_names)`: the name decides the initial name set. -/
def newTable (P : Params ν κ) (t : TName ν) (names : Option (List (CName ν))) : TableMem ν κ :=
  { buffer := [], frozen := [], parts := [], nextId := 0, nextOff := 0,
    colNames := match t with
      | .metaCols _ => some P.metaColsInit
      | .metaTables => some [.timestamp, .name]
      | .user _ => names }

/-- `create_if_empty_no_ingest`: returns whether the table was created (then a `_meta_tables` row is due). -/
def createIfEmpty (P : Params ν κ) (T : Tables ν κ) (t : TName ν) : Tables ν κ × Bool :=
  match T t with
  | some _ => (T, false)
  | none => (setTable T t (newTable P t (some [])), true)

-- ------------------------------------------------------------------------------------------------
-- Reading a table (what a query sees): partitions combined by range start, then frozen, then buffer.

/-- The cells of column `c` in one batch: NULLs when the batch did not mention it (`extend_to_largest`,
    empty handle, `ColName` → null vector). -/
def colCells (c : CName ν) (b : Batch ν κ) : List (Cell ν κ) :=
  match b.cols.lookup c with
  | some cs => cs
  | none => List.replicate b.nrows .null

def readColumn (c : CName ν) (bs : List (Batch ν κ)) : List (Cell ν κ) := bs.flatMap (colCells c)

/-- Rows of the partitions in offset order; the query's result combiner needs contiguous ranges starting at `a`
    (otherwise "Expected exactly one remaining partition" → error) and readable files. -/
def partsRows : List (MemPart ν κ) → Nat → Except Fault (List (Batch ν κ))
  | [], _ => .ok []
  | p :: ps, a =>
      if p.offset ≠ a then .error .assert else
      match p.rows with
      | none => .error .unwrap
      | some r =>
        match partsRows ps (a + p.len) with
        | .ok rs => .ok (r ++ rs)
        | .error e => .error e

/-- `Table::snapshot` + query: all batches of the table in row order. -/
def tableBatches (tm : TableMem ν κ) : Except Fault (List (Batch ν κ)) :=
  match partsRows tm.parts 0 with
  | .ok rs => .ok (rs ++ tm.frozen ++ tm.buffer)
  | .error e => .error e

def cnameOfCell : Cell ν κ → Option (CName ν)
  | .cname c => some c
  | _ => none

def allCnames : List (Cell ν κ) → Option (List (CName ν))
  | [] => some []
  | x :: xs => match cnameOfCell x, allCnames xs with
      | some c, some cs => some (c :: cs)
      | _, _ => none

/-- `query_column_names(n)`: the `column_name` column of `_meta_columns_<n>`; must exist, be non-empty and
    consist of strings only, otherwise the callers' `expect` panics. -/
def queryColumnNames (T : Tables ν κ) (n : ν) : Except Fault (List (CName ν)) :=
  match T (.metaCols n) with
  | none => .error .unwrap
  | some tm =>
    match tableBatches tm with
    | .error e => .error e
    | .ok bs =>
      match readColumn .columnName bs with
      | [] => .error .assert
      | cells => match allCnames cells with
          | some cs => .ok cs
          | none => .error .unwrap

-- ------------------------------------------------------------------------------------------------
-- ingest_efficient

structure PreAcc (ν κ : Type) where
  tables : Tables ν κ
  metaRows : List (TName ν)
  colRows : List (ν × List (CName ν))

/-- Load the name set of user table `n` if it is `None` (after a restart). -/
def ensureNames (T : Tables ν κ) (n : ν) : Except Fault (Tables ν κ × List (CName ν)) :=
  match T (.user n) with
  | none => .error .unwrap
  | some tm =>
    match tm.colNames with
    | some s => .ok (T, s)
    | none =>
      match queryColumnNames T n with
      | .ok s => .ok (setTable T (.user n) { tm with colNames := some s }, s)
      | .error e => .error e

/-- Body of the first loop of `ingest_efficient` for one table of the request. -/
def ingestPre1 (P : Params ν κ) (acc : PreAcc ν κ) (sh : Share ν κ) : Except Fault (PreAcc ν κ) :=
  match sh.1 with
  | .user n =>
    let c1 := createIfEmpty P acc.tables (.user n)
    let c2 := createIfEmpty P c1.1 (.metaCols n)
    let rows := acc.metaRows ++ (if c1.2 then [TName.user n] else []) ++ (if c2.2 then [TName.metaCols n] else [])
    match ensureNames c2.1 n with
    | .error e => .error e
    | .ok (T3, names) =>
      let newCols := sh.2.names.filter (fun c => !(names.contains c))
      .ok { tables := T3, metaRows := rows,
            colRows := acc.colRows ++ (if newCols.isEmpty then [] else [(n, newCols)]) }
  | _ => .error .assert   -- ingestion into catalogue tables: outside the modelled domain

def foldE {σ α : Type} (f : σ → α → Except Fault σ) : List α → σ → Except Fault σ
  | [], s => .ok s
  | a :: as, s => match f s a with
      | .ok s' => foldE f as s'
      | .error e => .error e

def metaTablesBatch (rows : List (TName ν)) : Batch ν κ :=
  { nrows := rows.length, cols := [(.timestamp, rows.map (fun _ => Cell.ts)), (.name, rows.map Cell.tname)] }

def metaColsBatch (names : List (CName ν)) : Batch ν κ :=
  { nrows := names.length, cols := [(.columnName, names.map Cell.cname)] }

/-- The request as it is written to the log and applied: the user's shares plus the catalogue rows. -/
def augment (r : Request ν κ) (acc : PreAcc ν κ) : Request ν κ :=
  r ++ (if acc.metaRows.isEmpty then [] else [(TName.metaTables, metaTablesBatch acc.metaRows)])
    ++ acc.colRows.map (fun nc => (TName.metaCols nc.1, metaColsBatch nc.2))

/-- `Table::ingest_homogeneous` (+ the asserts of `Buffer::push_typed_cols`: at least one row and one column). -/
def ingestHomogeneous (tm : TableMem ν κ) (b : Batch ν κ) : Except Fault (TableMem ν κ) :=
  match tm.colNames with
  | none => .error .unreachable
  | some s =>
    if b.nrows = 0 ∨ b.cols.isEmpty then .error .assert
    else .ok { tm with colNames := some (s ++ b.names), buffer := tm.buffer ++ [b] }

def applyShare (T : Tables ν κ) (sh : Share ν κ) : Except Fault (Tables ν κ) :=
  match T sh.1 with
  | none => .error .unwrap
  | some tm =>
    match ingestHomogeneous tm sh.2 with
    | .ok tm' => .ok (setTable T sh.1 tm')
    | .error e => .error e

/-- Is ingestion allowed to proceed (head of `ingest_efficient`: `while *wal_size > max_wal_size_bytes` wait)? -/
def ingestEnabled (P : Params ν κ) (w : World ν κ) : Prop := w.mem.walSize ≤ P.maxWalSize

def ingest (P : Params ν κ) (w : World ν κ) (r : Request ν κ) (bytes : Nat) : Except Fault (World ν κ) :=
  match foldE (ingestPre1 P) r { tables := w.mem.tables, metaRows := [], colRows := [] } with
  | .error e => .error e
  | .ok acc =>
    let events := augment r acc
    -- Storage::persist_wal_segment: id = next_wal_id++ ; store wal/<id>.wal
    let id := w.mem.cat.nextWal
    let cat' : Cat ν := { w.mem.cat with nextWal := id + 1 }
    let disk' : Disk ν κ := { w.disk with wal := w.disk.wal ++ [⟨id, events, bytes⟩] }
    match foldE applyShare events acc.tables with
    | .error e => .error e
    | .ok T' =>
      .ok { mem := { tables := T', cat := cat', walSize := w.mem.walSize + bytes },
            disk := disk', log := w.log ++ [events], lossy := w.lossy }

-- ------------------------------------------------------------------------------------------------
-- wal_flush

/-- Inputs of one flush that the model cannot compute: the planner's decisions (they depend on allocator
    sizes) in the order the compactions are executed, and the sub-partition keys chosen by `subpartition`. -/
structure FlushIn (ν : Type) where
  compactions : List (TName ν × Nat)      -- (table, index i): merge the suffix `by_offset[i..]`
  keysNew : TName ν → List String
  keysCompact : TName ν → List String

def FlushIn.choice (fi : FlushIn ν) (t : TName ν) : Option Nat :=
  (fi.compactions.find? (fun c => c.1 = t)).map (·.2)

/-- Ordered insertion by `offset` (the offset-ordered view of a `HashMap<PartitionID, _>`). -/
def insertByOffset {α : Type} (off : α → Nat) (p : α) : List α → List α
  | [] => [p]
  | q :: qs => if off p < off q then p :: q :: qs else q :: insertByOffset off p qs

/-- `Table::freeze_buffer` (the `assert!(frozen_buffer.len() == 0)` is discharged by invariant `frozen = []`). -/
def freezeTable (tm : TableMem ν κ) : TableMem ν κ := { tm with buffer := tm.frozen, frozen := tm.buffer }

/-- The partition `Table::batch` creates from the frozen buffer, if any. -/
def newPart? (keys : List String) (tm : TableMem ν κ) : Option (MemPart ν κ) :=
  if tm.frozen.isEmpty then none
  else some { id := tm.nextId, offset := tm.nextOff, len := rowsLen tm.frozen, keys := keys, rows := some tm.frozen }

/-- `Table::batch`. -/
def batchTable (keys : List String) (tm : TableMem ν κ) : TableMem ν κ :=
  match newPart? keys tm with
  | none => tm
  | some p => { tm with frozen := [], parts := insertByOffset MemPart.offset p tm.parts,
                        nextId := tm.nextId + 1, nextOff := tm.nextOff + p.len }

/-- Is `i` a possible answer of `plan_compaction` (a suffix of the offset-ordered partitions)? -/
def planValid (tm : TableMem ν κ) (i : Nat) : Bool := i < tm.parts.length

/-- `flush_table_buffer`: batch, then plan; a planned compaction takes its partition id NOW (`next_partition_id()`). -/
def flushTableBuffer (keys : List String) (choice : Option Nat) (tm : TableMem ν κ) : TableMem ν κ × Option Nat :=
  let tm1 := batchTable keys tm
  match choice with
  | none => (tm1, none)
  | some i => if planValid tm1 i then ({ tm1 with nextId := tm1.nextId + 1 }, some tm1.nextId) else (tm1, none)

def filesOf (p : MemPart ν κ) : List (PartFile ν κ) :=
  p.keys.map (fun k => ⟨p.id, k, p.rows.getD []⟩)

/-- Freeze block of `wal_flush` (under the ingestion lock): swap all buffers, `*wal_size = 0`. -/
def freeze (w : World ν κ) : World ν κ :=
  { w with mem := { w.mem with tables := fun t => (w.mem.tables t).map freezeTable, walSize := 0 } }

/-- Batching of all tables + `Storage::persist_partitions` (files first, then `insert_partition`). -/
def batchAndPersist (fi : FlushIn ν) (w : World ν κ) : World ν κ :=
  { w with
    mem := { w.mem with
      tables := fun t => (w.mem.tables t).map (fun tm => (flushTableBuffer (fi.keysNew t) (fi.choice t) tm).1),
      cat := { w.mem.cat with parts := fun t =>
        match (w.mem.tables t).bind (newPart? (fi.keysNew t)) with
        | none => w.mem.cat.parts t
        | some p => insertByOffset PartMeta.offset p.toMeta (w.mem.cat.parts t) } },
    disk := { w.disk with parts := fun t =>
        match (w.mem.tables t).bind (newPart? (fi.keysNew t)) with
        | none => w.disk.parts t
        | some p => w.disk.parts t ++ filesOf p } }

/-- Restrict a batch to the columns in `names` (`compact` iterates over `table.column_names()` only). -/
def project (names : List (CName ν)) (b : Batch ν κ) : Batch ν κ :=
  { b with cols := b.cols.filter (fun c => names.contains c.1) }

def coveredBy (names : List (CName ν)) (bs : List (Batch ν κ)) : Bool :=
  bs.all (fun b => b.names.all (fun c => names.contains c))

def allRows : List (MemPart ν κ) → Option (List (Batch ν κ))
  | [] => some []
  | p :: ps => match p.rows, allRows ps with
      | some r, some rs => some (r ++ rs)
      | _, _ => none

/-- Name set used by `compact` (lazy `init_column_names` for user tables restored from disk). -/
def compactNames (T : Tables ν κ) (t : TName ν) (tm : TableMem ν κ) : Except Fault (Tables ν κ × List (CName ν)) :=
  match tm.colNames with
  | some s => .ok (T, s)
  | none =>
    match t with
    | .user n => ensureNames T n
    | _ => .error .unreachable

/-- `InnerLocustDB::compact` + `Table::compact` + `Storage::prepare_compact` for table `t`, suffix index `i`,
    with the partition id `cid` taken at plan time.  Returns the files to delete later. -/
def compactOne (P : Params ν κ) (fi : FlushIn ν) (cidOf : TName ν → Option Nat)
    (st : World ν κ × (TName ν → List (Nat × String))) (c : TName ν × Nat) :
    Except Fault (World ν κ × (TName ν → List (Nat × String))) :=
  let w := st.1
  let t := c.1
  match w.mem.tables t, cidOf t with
  | some tm, some cid =>
    match compactNames w.mem.tables t tm with
    | .error e => .error e
    | .ok (T1, names) =>
      match T1 t with
      | none => .error .unwrap
      | some tm1 =>
        let olds := tm1.parts.drop c.2
        match olds, allRows olds with
        | [], _ => .ok st
        | _, none => .error .unwrap
        | first :: _, some oldRows =>
          let oldIds := olds.map (·.id)
          let rangeLen := (olds.map (·.len)).sum
          let rows := P.reencode (oldRows.map (project names))
          if rowsLen rows ≠ rangeLen then .error .assert else
          let np : MemPart ν κ := { id := cid, offset := first.offset, len := rowsLen rows,
                                    keys := fi.keysCompact t, rows := some rows }
          -- Table::compact: remove the old ids, insert the new partition
          let tm2 := { tm1 with parts := insertByOffset MemPart.offset np (tm1.parts.filter (fun p => !(oldIds.contains p.id))) }
          -- prepare_compact: write the new files, then delete_partitions + insert_partition in the in-memory catalogue
          let toDel := ((w.mem.cat.parts t).filter (fun m => oldIds.contains m.id)).flatMap (fun m => m.keys.map (fun k => (m.id, k)))
          let newCat := insertByOffset PartMeta.offset np.toMeta ((w.mem.cat.parts t).filter (fun m => !(oldIds.contains m.id)))
          let cat' : Cat ν := { w.mem.cat with parts := fun t' => if t' = t then newCat else w.mem.cat.parts t' }
          let disk' : Disk ν κ := { w.disk with parts := fun t' => if t' = t then w.disk.parts t ++ filesOf np else w.disk.parts t' }
          .ok ({ w with mem := { w.mem with tables := setTable T1 t tm2, cat := cat' }, disk := disk',
                        lossy := w.lossy || !(coveredBy names oldRows) },
               fun t' => if t' = t then st.2 t ++ toDel else st.2 t')
  | _, _ => .ok st

/-- `Storage::persist_metastore(end)`: advance the cursor, then write the whole in-memory catalogue. -/
def persistMeta (w : World ν κ) (cursorEnd : Nat) : World ν κ :=
  let cat' : Cat ν := { w.mem.cat with earliest := cursorEnd }
  { w with mem := { w.mem with cat := cat' },
           disk := { w.disk with metaFile := some ⟨cat'.earliest, cat'.parts⟩ } }

/-- `Storage::delete_orphaned_partitions`. -/
def deleteOrphans (w : World ν κ) (toDel : TName ν → List (Nat × String)) : World ν κ :=
  { w with disk := { w.disk with parts := fun t => (w.disk.parts t).filter (fun f => !((toDel t).contains (f.id, f.key))) } }

/-- `Storage::delete_wal_segments(lo..hi)`. -/
def deleteWal (w : World ν κ) (lo hi : Nat) : World ν κ :=
  { w with disk := { w.disk with wal := w.disk.wal.filter (fun f => !(decide (lo ≤ f.id) && decide (f.id < hi))) } }

/-- `InnerLocustDB::wal_flush`, all steps in the order of the Rust. -/
def flush (P : Params ν κ) (w : World ν κ) (fi : FlushIn ν) : Except Fault (World ν κ) :=
  -- freeze block: unflushed_wal_ids = earliest..next_wal_id, captured under the ingestion lock
  let lo := w.mem.cat.earliest
  let hi := w.mem.cat.nextWal
  let w1 := freeze w
  let cidOf : TName ν → Option Nat := fun t =>
    (w1.mem.tables t).bind (fun tm => (flushTableBuffer (fi.keysNew t) (fi.choice t) tm).2)
  let w2 := batchAndPersist fi w1
  match foldE (compactOne P fi cidOf) fi.compactions (w2, fun _ => []) with
  | .error e => .error e
  | .ok (w3, toDel) =>
    let w4 := persistMeta w3 hi
    let w5 := deleteOrphans w4 toDel
    .ok (deleteWal w5 lo hi)

-- ------------------------------------------------------------------------------------------------
-- restart: Storage::recover, Table::restore_tables_from_disk, InnerLocustDB::new

/-- Insertion sort by id (`wal_segments.sort_by_key(|s| s.id)`). -/
def insertById (f : WalFile ν κ) : List (WalFile ν κ) → List (WalFile ν κ)
  | [] => [f]
  | g :: gs => if f.id < g.id then f :: g :: gs else g :: insertById f gs

def sortById : List (WalFile ν κ) → List (WalFile ν κ)
  | [] => []
  | f :: fs => insertById f (sortById fs)

/-- Rows of catalogue partition `m` of table `t` as readable from the files on disk (all sub-partition files present). -/
def loadRows (files : List (PartFile ν κ)) (m : PartMeta) : Option (List (Batch ν κ)) :=
  if m.keys.all (fun k => files.any (fun f => f.id = m.id && f.key = k)) then
    (files.find? (fun f => f.id = m.id)).map (·.rows)
  else none

/-- `Table::insert_nonresident_partition`: ids and offsets continue after the maximum seen. -/
def insertNonresident (files : List (PartFile ν κ)) (tm : TableMem ν κ) (m : PartMeta) : TableMem ν κ :=
  { tm with
    parts := insertByOffset MemPart.offset ⟨m.id, m.offset, m.len, m.keys, loadRows files m⟩ tm.parts,
    nextId := max tm.nextId (m.id + 1),
    nextOff := max tm.nextOff (m.offset + m.len) }

/-- `Table::restore_tables_from_disk` for one table (column names `None` until first use, except catalogue tables). -/
def restoreTable (P : Params ν κ) (d : Disk ν κ) (t : TName ν) (ms : List PartMeta) : TableMem ν κ :=
  ms.foldl (insertNonresident (d.parts t)) (newTable P t none)

/-- Replay of one table share in `InnerLocustDB::new`. -/
def replayShare (P : Params ν κ) (T : Tables ν κ) (sh : Share ν κ) : Except Fault (Tables ν κ) :=
  let T1 := (createIfEmpty P T sh.1).1
  match T1 sh.1 with
  | none => .error .unwrap
  | some tm =>
    match tm.colNames with
    | some _ => applyShare T1 sh
    | none =>
      match sh.1 with
      | .user n =>
        match ensureNames T1 n with
        | .ok (T2, _) => applyShare T2 sh
        | .error e => .error e
      | _ => .error .unreachable

/-- `assert_eq!(wal_segment.id, id, "WAL segments are not contiguous")`. -/
def contigOk : Option Nat → Nat → Bool
  | none, _ => true
  | some n, id => id == n

/-- Replay of the segments in id order with the contiguity assert; `order id req` is the iteration order of the
    deserialised request's `HashMap` (an input; any permutation). -/
def replay (P : Params ν κ) (order : Nat → Request ν κ → Request ν κ) :
    List (WalFile ν κ) → Option Nat → Tables ν κ → Except Fault (Tables ν κ)
  | [], _, T => .ok T
  | f :: fs, next, T =>
    if !(contigOk next f.id) then .error .assert else
    match foldE (replayShare P) (order f.id f.req) T with
    | .ok T' => replay P order fs (some (f.id + 1)) T'
    | .error e => .error e

/-- Open the database on `d` (after a clean stop the memory is simply gone). -/
def recover (P : Params ν κ) (d : Disk ν κ) (log : List (Request ν κ)) (lossy : Bool)
    (order : Nat → Request ν κ → Request ν κ) : Except Fault (World ν κ) :=
  -- load the catalogue or start empty; deserialize sets next_wal_id = earliest = stored cursor
  let mf : MetaFile ν := d.metaFile.getD ⟨0, fun _ => []⟩
  -- every listed segment is loaded; ids below the cursor are deleted, the others registered
  let kept := d.wal.filter (fun f => !(decide (f.id < mf.cursor)))
  let cat : Cat ν := { nextWal := kept.foldl (fun n f => max n (f.id + 1)) mf.cursor, earliest := mf.cursor, parts := mf.parts }
  let walSize := (kept.map (·.bytes)).sum
  let segs := sortById kept
  let d' : Disk ν κ := { d with wal := kept }
  let T0 : Tables ν κ := fun t => if (mf.parts t).isEmpty then none else some (restoreTable P d t (mf.parts t))
  let T1 := (createIfEmpty P T0 .metaTables).1
  match replay P order segs none T1 with
  | .error e => .error e
  | .ok T => .ok { mem := { tables := T, cat := cat, walSize := walSize }, disk := d', log := log, lossy := lossy }

-- ------------------------------------------------------------------------------------------------
-- Histories

inductive Op (ν κ : Type) where
  | ingest (r : Request ν κ) (bytes : Nat)
  | flush (fi : FlushIn ν)
  | restart (order : Nat → Request ν κ → Request ν κ)

/-- A fresh database: `InnerLocustDB::new` on an empty directory creates `_meta_tables`. -/
def initWorld (P : Params ν κ) : World ν κ :=
  { mem := { tables := (createIfEmpty P (fun _ => none) .metaTables).1, cat := ⟨0, 0, fun _ => []⟩, walSize := 0 },
    disk := emptyDisk, log := [], lossy := false }

def step (P : Params ν κ) (w : World ν κ) : Op ν κ → Except Fault (World ν κ)
  | .ingest r bytes => ingest P w r bytes
  | .flush fi => flush P w fi
  | .restart order => recover P w.disk w.log w.lossy order

def run (P : Params ν κ) (ops : List (Op ν κ)) (w : World ν κ) : Except Fault (World ν κ) :=
  foldE (step P) ops w

/-- What a query of table `t` sees. -/
def content (w : World ν κ) (t : TName ν) : Except Fault (List (Batch ν κ)) :=
  match w.mem.tables t with
  | none => .ok []
  | some tm => tableBatches tm

end LM.Store
