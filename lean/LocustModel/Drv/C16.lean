import LocustModel.Proto
import LocustModel.Wire.ApiInts
import LocustModel.Wire.EventBuffer
import LocustModel.Wire.XorFloat
/-
  Driver for C16.  Input line:  `<kind> <inputs…> :: <implementation output>`
    ints <i64 list>
    rows <clock bits list> <row>…      row = `()` | name=cell,name=cell…   cell = _ | i<int> | f<16 hex> | x<hex>
    wire <len> <name>=<rep>…           rep = E | D:<bits,…> | S:<i>@<bits>,… | I:<ints> | SI:<i>@<int>,… | T:<x…,…> | M:<cells>
    xor <max_regret> <mantissa|_> <16-hex bit patterns>
    client <request sizes> <x<hex table>|<row>>…   request sizes = rows per observed request (timing, an input)
  Output:  <model> TAB <spec: OK | BAD … | SKIP> [TAB <known finding id>]
-/
namespace LM.DrvC16
open LM LM.Proto

def splitImpl (line : String) : String × String :=
  match line.trimAscii.toString.splitOn " :: " with
  | [a] => (a, "")
  | a :: rest => (a, " :: ".intercalate rest)
  | [] => ("", "")

/-! ### ints -/
section Ints
open LM.Wire.ApiInts

def showInts (xs : List Int) : String := showList showInt xs

def showLayout : Layout → String
  | .range s n st => s!"range:{s}:{n}:{st}"
  | .delta w f d => s!"d{w.tag}:{f}:{showInts d}"
  | .ddelta w f s d => s!"dd{w.tag}:{f}:{s}:{showInts d}"
  | .plain xs => s!"plain:{showInts xs}"

def intsModel (xs : List Int) : String :=
  match encode xs with
  | .error _ => "panic-enc"
  | .ok l =>
    showLayout l ++ " => " ++
      match decode l with
      | .error _ => "panic-dec"
      | .ok ys => "ok:" ++ showInts ys

/-- The specification judges the implementation output: it must end in the decoded values = the input. -/
def intsSpec (xs : List Int) (impl : String) : String :=
  match impl.splitOn " => " with
  | [_, dec] => if dec = "ok:" ++ showInts xs then "OK" else "BAD decoded differs from the values sent: " ++ dec.take 60
  | _ => "BAD no decoded column: " ++ impl.take 60

def stepInts (arg impl : String) : String :=
  match parseList parseInt? arg with
  | none => "bad-op\tbad-op"
  | some xs => intsModel xs ++ "\t" ++ intsSpec xs impl
end Ints


/-! ### event buffers -/
section EB
open LM.Wire.EventBuffer

def hexNat? (s : String) : Option Nat :=
  if s.isEmpty then none else
  s.toList.foldlM (fun acc c => (hexDigit? c).map (acc * 16 + ·)) 0

def hex16 (n : Nat) : String :=
  String.ofList ((List.range 16).map fun i => hexChar ((n >>> (4 * (15 - i))) % 16))

def parseVal? (s : String) : Option Val :=
  match s.toList with
  | ['_'] => some .null
  | 'i' :: r => (String.ofList r).toInt?.map .int
  | 'f' :: r => (hexNat? (String.ofList r)).map .float
  | 'x' :: _ => some (.str s)
  | _ => none

def showVal : Val → String
  | .null => "_"
  | .int i => s!"i{i}"
  | .float b => "f" ++ hex16 b
  | .str s => s

def splitFirst (s : String) (sep : String) : Option (String × String) :=
  match s.splitOn sep with
  | a :: b :: rest => some (a, sep.intercalate (b :: rest))
  | _ => none

def parsePair? (f : String → Option α) (s : String) : Option (Nat × α) := do
  let (a, b) ← splitFirst s "@"
  let i ← a.toNat?
  let v ← f b
  pure (i, v)

def parseRow? (s : String) : Option (List (String × Val)) :=
  if s = "()" then some [] else
  (s.splitOn ",").mapM fun e => do
    let (k, v) ← splitFirst e "="
    let v ← parseVal? v
    pure (k, v)

def showPairs (f : α → String) (d : List (Nat × α)) : String :=
  showList (fun p => s!"{p.1}@{f p.2}") d

def showIC : InputColumn → String
  | .int d => "I:" ++ showList showInt d
  | .float d => "F:" ++ showList hex16 d
  | .nullableFloat r d => s!"NF:{r}:" ++ showPairs hex16 d
  | .nullableInt r d => s!"NI:{r}:" ++ showPairs showInt d
  | .str d => "T:" ++ showList id d
  | .null r => s!"N:{r}"
  | .mixed d => "M:" ++ showList showVal d

def parseIC? (s : String) : Option InputColumn :=
  match s.splitOn ":" with
  | ["I", d] => (parseList parseInt? d).map .int
  | ["F", d] => (parseList hexNat? d).map .float
  | ["NF", r, d] => do let r ← r.toNat?; let d ← parseList (parsePair? hexNat?) d; pure (.nullableFloat r d)
  | ["NI", r, d] => do let r ← r.toNat?; let d ← parseList (parsePair? parseInt?) d; pure (.nullableInt r d)
  | ["T", d] => (parseList (fun x => some x) d).map .str
  | ["N", r] => r.toNat?.map .null
  | ["M", d] => (parseList parseVal? d).map .mixed
  | _ => none

def insertSorted (e : String × α) : List (String × α) → List (String × α)
  | [] => [e]
  | x :: xs => if e.1 < x.1 then e :: x :: xs else x :: insertSorted e xs

def sortByName (l : List (String × α)) : List (String × α) := l.foldr insertSorted []

/-- `len=<n> name=<dump> …`, columns sorted by name; a failing `from_column_data` shows as `panic`. -/
def showServer (len : Nat) (cols : List (String × ColumnData)) : String :=
  " ".intercalate (s!"len={len}" :: (sortByName cols).map fun (n, d) =>
    n ++ "=" ++ match fromColumnData d len with
      | .ok ic => showIC ic
      | .error _ => "panic")

/-- Parse the implementation's dump into `len` and per-column logical cells (`none` = panic). -/
def parseServer? (s : String) : Option (Nat × List (String × Option (List Val))) :=
  match s.splitOn " " with
  | [] => none
  | l :: cols => do
    let (k, n) ← splitFirst l "="
    if k ≠ "len" then none
    let n ← n.toNat?
    let cs ← cols.mapM fun c => do
      let (name, d) ← splitFirst c "="
      if d = "panic" then pure (name, none) else
      let ic ← parseIC? d
      pure (name, some ic.cells)
    pure (n, cs)

def showCells (o : Option (List Val)) : String :=
  match o with
  | none => "panic"
  | some cs => showList showVal cs

def judge (expLen : Nat) (exp : List (String × List Val)) (impl : String) : String :=
  match parseServer? impl with
  | none => "BAD server did not produce the table: " ++ impl.take 60
  | some (n, cols) =>
    if n ≠ expLen then s!"BAD row count {n}, expected {expLen}"
    else
      let exp := sortByName exp
      if cols.map (·.1) ≠ exp.map (·.1) then "BAD column set " ++ " ".intercalate (cols.map (·.1))
      else
        match (cols.zip exp).find? (fun (c, e) => c.2 ≠ some e.2) with
        | some (c, e) => s!"BAD column {c.1}: cells {showCells c.2} expected {showCells (some e.2)}"
        | none => "OK"

def rowsModel (rows : List (List (String × Val) × Nat)) : String :=
  let rec go (t : Table) (i : Nat) : List (List (String × Val) × Nat) → String
    | [] => showServer t.len t.cols
    | (row, clock) :: rest =>
      match pushRow t row clock with
      | .error _ => s!"panic-push@{i}"
      | .ok t' => go t' (i + 1) rest
  go Table.new 0 rows

def nodupKeys (row : List (String × Val)) : Bool := (row.map (·.1)).eraseDups.length == row.length

def rowsSpec (rows : List (List (String × Val) × Nat)) (impl : String) : String :=
  let erows := rows.map fun (r, c) => effRow r c
  let names := mentioned erows
  let colVals := names.map fun c => (c, erows.map (rowVal c))
  if !(rows.all fun (r, _) => nodupKeys r) then "SKIP duplicate column in a row"
  else if !(colVals.all fun (_, vs) => decide (Supported vs)) then "SKIP sparse or mixed-type string column (not supported by the row API)"
  else judge rows.length (colVals.map fun (c, vs) => (c, specCells vs)) impl

def stepRows (clock : String) (rowToks : List String) (impl : String) : String :=
  let rowToks := if rowToks = ["[]"] then [] else rowToks
  match parseList hexNat? clock, rowToks.mapM parseRow? with
  | some clock, some rows =>
    if clock.length ≠ rows.length then "bad-op\tbad-op" else
    let rc := rows.zip clock
    rowsModel rc ++ "\t" ++ rowsSpec rc impl
  | _, _ => "bad-op\tbad-op"

def parseRep? (s : String) : Option ColumnData :=
  match s.splitOn ":" with
  | ["E"] => some .empty
  | ["D", d] => (parseList hexNat? d).map .dense
  | ["S", d] => (parseList (parsePair? hexNat?) d).map .sparse
  | ["I", d] => (parseList parseInt? d).map .i64
  | ["SI", d] => (parseList (parsePair? parseInt?) d).map .sparseI64
  | ["T", d] => (parseList (fun x => some x) d).map .str
  | ["M", d] => (parseList parseVal? d).map .mixed
  | _ => none

def stepWire (len : String) (colToks : List String) (impl : String) : String :=
  let colToks := if colToks = ["[]"] then [] else colToks
  let cols := colToks.mapM fun c => do
    let (name, r) ← splitFirst c "="
    let d ← parseRep? r
    pure (name, d)
  match len.toNat?, cols with
  | some len, some cols =>
    let model := showServer len cols
    let spec :=
      match cols.mapM (fun (n, d) => (wireCells len d).map fun cs => (n, cs)) with
      | none => "SKIP malformed message (column longer than the table, unsorted sparse indices, short string column)"
      | some exp => judge len exp impl
    model ++ "\t" ++ spec
  | _, _ => "bad-op\tbad-op"
/-! ### client session -/

def parseEvent? (s : String) : Option Event := do
  let (t, r) ← splitFirst s "|"
  let row ← parseRow? r
  pure (t, row, 0)

/-- `k₁` logs, tick, `k₂` logs, tick, … (the split observed on the implementation side). -/
def stepsOf : List Nat → List Event → List Step
  | [], evs => evs.map .log
  | k :: ks, evs => (evs.take k).map Step.log ++ [.tick] ++ stepsOf ks (evs.drop k)

def showRequest (b : Buffer) : String :=
  " ;; ".intercalate ((sortByName b).map fun (n, t) => n ++ ":" ++ showServer t.len t.cols)

def showRequests (ms : List Buffer) : String :=
  if ms.isEmpty then "none" else " ## ".intercalate (ms.map showRequest)

def clientModel (sizes : List Nat) (evs : List Event) : String :=
  match session [] (stepsOf sizes evs) with
  | .error _ => "panic-log"
  | .ok (msgs, fin) => showRequests (if fin.isEmpty then msgs else msgs ++ [fin])

/-- Specification of one request against the batch of events it must carry (`C16_client_message`). -/
def judgeRequest (batch : List Event) (impl : String) : String :=
  let tnames := (batch.map (·.1)).eraseDups
  let tabs := if impl = "" then [] else impl.splitOn " ;; "
  match tabs.mapM (fun t => splitFirst t ":") with
  | none => "BAD unparsable request"
  | some tabs =>
    if tabs.map (·.1) ≠ (sortByName (tnames.map fun n => (n, ()))).map (·.1) then
      "BAD tables " ++ " ".intercalate (tabs.map (·.1))
    else
      let verdicts := tabs.map fun (tn, dump) =>
        let rows := (batch.filter fun e => e.1 == tn).map fun e => (e.2.1, e.2.2)
        rowsSpec rows dump
      match verdicts.find? (fun v => v.startsWith "BAD") with
      | some v => v
      | none => if verdicts.any (fun v => v.startsWith "SKIP") then "SKIP unsupported column in a batch" else "OK"

def clientSpec (sizes : List Nat) (evs : List Event) (impl : String) : String :=
  if sizes.foldl (· + ·) 0 ≠ evs.length then s!"BAD {sizes.foldl (· + ·) 0} rows arrived, {evs.length} were logged"
  else if sizes.any (· == 0) then "BAD an empty request was sent"
  else
    let reqs := if impl = "none" then [] else impl.splitOn " ## "
    if reqs.length ≠ sizes.length then "BAD request count"
    else
      let rec go : List Nat → List Event → List String → String
        | k :: ks, evs, r :: rs =>
          let v := judgeRequest (evs.take k) r
          if v = "OK" then go ks (evs.drop k) rs else v
        | _, _, _ => "OK"
      go sizes evs reqs

def stepClient (sizes : String) (evToks : List String) (impl : String) : String :=
  let evToks := if evToks = ["[]"] then [] else evToks
  match parseList parseNat? sizes, evToks.mapM parseEvent? with
  | some sizes, some evs => clientModel sizes evs ++ "\t" ++ clientSpec sizes evs impl
  | _, _ => "bad-op\tbad-op"
end EB

/-! ### xor float stream -/
section Xor
open LM.Wire.XorFloat

def showBytes (bs : List Nat) : String :=
  "x" ++ String.ofList (bs.flatMap fun b => [hexChar (b / 16), hexChar (b % 16)])

def xorModel (xs : List Nat) (regret : Nat) (m : Option Nat) : String :=
  match encode xs regret m with
  | .error _ => "panic-enc"
  | .ok bytes =>
    showBytes bytes ++ " => " ++
      match decode bytes with
      | .error .eof => "err-dec"
      | .error .panic => "panic-dec"
      | .ok ys => "ok:" ++ showList hex16 ys

/-- Specification: bit-exact without a mantissa setting; with `m ≤ 52` every value keeps sign, exponent and
    the `m` leading mantissa bits (`&&& maskOf m`). -/
def xorSpec (xs : List Nat) (m : Option Nat) (impl : String) : String :=
  if mantissaTooLarge m then "SKIP mantissa > 52 (documented assert)" else
  match impl.splitOn " => " with
  | [_, dec] =>
    match dec.splitOn "ok:" with
    | ["", l] =>
      match parseList hexNat? l with
      | none => "BAD unparsable decoded values"
      | some ys =>
        if ys.length ≠ xs.length then s!"BAD {ys.length} values decoded, {xs.length} encoded"
        else
          let mask := maskOf m
          match (ys.zip xs).find? (fun (y, x) => y &&& mask ≠ x &&& mask) with
          | some (y, x) => s!"BAD value {hex16 x} decoded as {hex16 y}"
          | none => "OK"
    | _ => "BAD decoder failed: " ++ dec.take 40
  | _ => "BAD no decoded values: " ++ impl.take 40

def stepXor (regret mant vals impl : String) : String :=
  match regret.toNat?, parseOpt parseNat? mant, parseList hexNat? vals with
  | some r, some m, some xs => xorModel xs r m ++ "\t" ++ xorSpec xs m impl
  | _, _, _ => "bad-op\tbad-op"
end Xor

def step (line : String) : String :=
  let (inp, impl) := splitImpl line
  match splitTokens inp with
  | ["ints", arg] => stepInts arg impl
  | "rows" :: clock :: rows => stepRows clock rows impl
  | "wire" :: len :: cols => stepWire len cols impl
  | "client" :: sizes :: evs => stepClient sizes evs impl
  | ["xor", r, m, vals] => stepXor r m vals impl
  | _ => "bad-op\tbad-op"

end LM.DrvC16

def main : IO Unit := LM.Proto.runDriver LM.DrvC16.step
