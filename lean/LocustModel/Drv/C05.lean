import LocustModel.Proto
import LocustModel.Query.SqlProto
import LocustModel.Query.Merge
import LocustModel.Query.Order
import LocustModel.Query.OrderFused
/-
  Driver for C05.  One output line `<model> TAB <spec>` per input line; the LAST token of every
  input line is the implementation's output (the specification is a relation and judges it).

  unit level (i64 keys, `a`/`d` = CmpLessThan / CmpGreaterThan):
    merge <a|d> <left> <right> <limit> <impl>                     impl: keys|ops
    mkeep <ops> <left> <right> <impl>                             impl: vals | panic
    part  <a|d> <left> <right> <limit> <impl>                     impl: gl:gr,…
    subpart <a|d> <groups> <left> <right> <impl>                  impl: gl:gr,… | panic
    mpart <a|d> <groups> <left> <right> <limit> <impl>            impl: keys|ops | panic
    heap  <a|d> <keys> <vals> <key> <val> <impl>                  impl: keys|vals
    mk    <dirs> <limit> <k> <L1> … <Lk> <R1> … <Rk> <impl>       impl: col1|…|colk|ops   (batch_merging sort branch, k ≥ 2)
  API level:
    q <where|-> <limit|_> <offset> <parts> <nsel> <sel rpn>… <nkeys> <rpn:a|d>… <ncols> <col cells>… <impl>
        the select list is `id, key1 … keyk, extras`; impl: rows:… | err:<kind> | panic | hang
-/
namespace LM.DrvC05
open LM LM.Proto LM.Sql LM.SqlProto LM.OrderSpec LM.Order LM.OrderFused

def parseInts (s : String) : Option (List Int) := parseList parseInt? s
def parseNats (s : String) : Option (List Nat) := parseList parseNat? s
def showInts (l : List Int) : String := showList showInt l
def showNats (l : List Nat) : String := showList toString l

def parseGroups (s : String) : Option (List (Nat × Nat)) :=
  parseList (fun t => match t.splitOn ":" with
    | [a, b] => do pure ((← a.toNat?), (← b.toNat?))
    | _ => none) s
def showGroups (g : List (Nat × Nat)) : String := showList (fun p => s!"{p.1}:{p.2}") g

def parseDir (s : String) : Option Bool := if s = "a" then some false else if s = "d" then some true else none

def icmp (desc : Bool) : Int → Int → Bool := Merge.cmpEq desc

/-- The stable reference sort as the driver's instance of `sort_unstable_by` (used only where the
    result does not depend on the choice). -/
def usortDet : USort := fun le l => isort le l

def adjacentTie {α : Type} (le : α → α → Bool) : List α → Bool
  | a :: b :: l => eqv le a b || adjacentTie le (b :: l)
  | _ => false

/-! ### unit level -/

def okBad (b : Bool) (why : String) : String := if b then "OK" else "BAD " ++ why

def stepMerge (d l r lim impl : String) : String :=
  match parseDir d, parseInts l, parseInts r, lim.toNat? with
  | some desc, some l, some r, some n =>
      let (m, o) := merge (icmp desc) l r n
      let model := showInts m ++ "|" ++ showNats o
      let spec :=
        if sortedB (icmp desc) l && sortedB (icmp desc) r then
          match impl.splitOn "|" with
          | [ks, os] =>
            (match parseInts ks, parseNats os with
             | some ks, some os =>
                okBad (ks == (isort (icmp desc) (l ++ r)).take n && mergeKeep os l r == some ks) "merge-not-sorted-prefix"
             | _, _ => "BAD unparsable")
          | _ => "BAD " ++ impl
        else "SKIP"
      model ++ "\t" ++ spec
  | _, _, _, _ => "bad-op\tbad-op"

def stepMkeep (ops l r : String) : String :=
  match parseNats ops, parseInts l, parseInts r with
  | some ops, some l, some r =>
      (match mergeKeep ops l r with
       | some v => showInts v
       | none => "panic") ++ "\tSKIP"
  | _, _, _ => "bad-op\tbad-op"

/-- Specification of one partitioning step on sorted inputs: the groups are consecutive runs of one key value each
    (the same value on both sides), strictly increasing from group to group; they stop exactly when the
    `max(left,right)` account reaches the (u32-clamped) limit or everything is covered. -/
def partitionOk (le : Int → Int → Bool) (l r : List Int) (limit : Nat) (g : List (Nat × Nat)) : Bool :=
  let lim := min limit U32_MAX
  let rec go (g : List (Nat × Nat)) (l r : List Int) (acc : Nat) (prev : Option Int) : Bool :=
    match g with
    | [] => decide (acc ≥ lim) || (l.isEmpty && r.isEmpty)
    | (gl, gr) :: gs =>
        let sl := l.take gl
        let sr := r.take gr
        match (sl ++ sr).head? with
        | none => false                                         -- empty group
        | some v =>
          decide (acc < lim) && decide (sl.length = gl) && decide (sr.length = gr)
            && (sl ++ sr).all (· == v)
            && (match prev with | some p => le p v && !le v p | none => true)
            && (match l.drop gl with | x :: _ => x != v | [] => true)      -- the run is maximal
            && (match r.drop gr with | x :: _ => x != v | [] => true)
            && go gs (l.drop gl) (r.drop gr) (acc + max gl gr) (some v)
  go g l r 0 none

def stepPart (d l r lim impl : String) : String :=
  match parseDir d, parseInts l, parseInts r, lim.toNat? with
  | some desc, some l, some r, some n =>
      let spec :=
        if sortedB (icmp desc) l && sortedB (icmp desc) r then
          match parseGroups impl with
          | some g => okBad (partitionOk (icmp desc) l r n g) "partition-groups"
          | none => "BAD " ++ impl
        else "SKIP"
      showGroups (partition (icmp desc) l r n) ++ "\t" ++ spec
  | _, _, _, _ => "bad-op\tbad-op"

def stepSubpart (d g l r : String) : String :=
  match parseDir d, parseGroups g, parseInts l, parseInts r with
  | some desc, some g, some l, some r =>
      (match subpartition (icmp desc) g l r with
       | some g' => showGroups g'
       | none => "panic") ++ "\tSKIP"
  | _, _, _, _ => "bad-op\tbad-op"

def stepMpart (d g l r lim : String) : String :=
  match parseDir d, parseGroups g, parseInts l, parseInts r, lim.toNat? with
  | some desc, some g, some l, some r, some n =>
      (match mergePartitioned (icmp desc) g l r n with
       | some (m, o) => showInts m ++ "|" ++ showNats o
       | none => "panic") ++ "\tSKIP"
  | _, _, _, _, _ => "bad-op\tbad-op"

/-- Heap with the worst key at the root: every child may come before its parent. -/
def isHeap (le : Int → Int → Bool) (keys : List Int) : Bool :=
  (List.range keys.length).all fun i =>
    i == 0 || (match keys[i]?, keys[(i - 1) / 2]? with
               | some c, some p => le c p
               | _, _ => false)

def stepHeap (d ks vs k v impl : String) : String :=
  match parseDir d, parseInts ks, parseNats vs, k.toInt?, v.toNat? with
  | some desc, some keys, some vals, some key, some val =>
      let le := icmp desc
      let h' := heapReplace le keys.length (keys.zip vals) (key, val) 0
      let model := showInts (h'.map (·.1)) ++ "|" ++ showNats (h'.map (·.2))
      let spec :=
        match keys.head? with
        | some k0 =>
          if isHeap le keys && Order.lt le key k0 && keys.length == vals.length then
            match impl.splitOn "|" with
            | [ks', vs'] =>
              (match parseInts ks', parseNats vs' with
               | some ks', some vs' =>
                  let old := (keys.zip vals).drop 1
                  let new := ks'.zip vs'
                  okBad (isHeap le ks' && ks'.length == keys.length && vs'.length == keys.length
                         && (msub new ((key, val) :: old)) == some []) "heap-replace"
               | _, _ => "BAD unparsable")
            | _ => "BAD " ++ impl
          else "SKIP"
        | none => "SKIP"
      model ++ "\t" ++ spec
  | _, _, _, _, _ => "bad-op\tbad-op"

/-- batch_merging sort branch on k ≥ 2 integer key columns, at column level. -/
def stepMk (dirs lim : String) (k : Nat) (cols : List String) (impl : String) : String :=
  match dirs.toList.mapM (fun c => parseDir (String.singleton c)), lim.toNat?, cols.mapM parseInts with
  | some ds, some n, some cs =>
      if ds.length ≠ k ∨ cs.length ≠ 2 * k ∨ k < 2 then "bad-op\tbad-op" else
      let L := cs.take k
      let R := cs.drop k
      let d1 := ds.headD false
      let dk := ds.getLastD false
      let g0 := partition (icmp d1) (L.headD []) (R.headD []) n
      let mids := ((ds.zip (L.zip R)).drop 1).dropLast
      let g := mids.foldlM (fun g (x : Bool × List Int × List Int) => subpartition (icmp x.1) g x.2.1 x.2.2) g0
      let model : String :=
        match g with
        | none => "panic"
        | some g =>
          match mergePartitioned (icmp dk) g (L.getLastD []) (R.getLastD []) n with
          | none => "panic"
          | some (m, ops) =>
            match ((L.zip R).dropLast).mapM (fun (x : List Int × List Int) => mergeKeep ops x.1 x.2) with
            | none => "panic"
            | some kept => "|".intercalate ((kept ++ [m]).map showInts ++ [showNats ops])
      -- specification: rows of the lexicographically sorted union, left first on full ties
      let nl := (L.headD []).length
      let nr := (R.headD []).length
      let rowsOf (C : List (List Int)) (len : Nat) : List (List Int) :=
        (List.range len).map fun i => C.map fun c => c.getD i 0
      let cmps : List (List Int → List Int → Bool) :=
        (List.range k).map fun i => fun a b => icmp (ds.getD i false) (a.getD i 0) (b.getD i 0)
      let lex := lexOf cmps
      let lrows := rowsOf L nl
      let rrows := rowsOf R nr
      let spec :=
        if sortedB lex lrows && sortedB lex rrows && L.all (·.length == nl) && R.all (·.length == nr) then
          let want := (isort lex (lrows ++ rrows)).take n
          let wantCols := (List.range k).map fun i => want.map fun row => row.getD i 0
          let got := (impl.splitOn "|").take k
          okBad (got == wantCols.map showInts) "not-lexicographic-merge-prefix"
        else "SKIP"
      model ++ "\t" ++ spec
  | _, _, _ => "bad-op\tbad-op"

/-! ### API level -/

structure KeySpec where
  expr : Expr
  desc : Bool
  isConst : Bool

def exprHasCol : Expr → Bool
  | .col _ => true
  | .lit _ => false
  | .cmp _ l r => exprHasCol l || exprHasCol r
  | .and l r => exprHasCol l || exprHasCol r
  | .or l r => exprHasCol l || exprHasCol r
  | .not e => exprHasCol e
  | .isNull e => exprHasCol e
  | .isNotNull e => exprHasCol e
  | .arith _ l r => exprHasCol l || exprHasCol r

def exprCols : Expr → List Nat
  | .col i => [i]
  | .lit _ => []
  | .cmp _ l r => exprCols l ++ exprCols r
  | .and l r => exprCols l ++ exprCols r
  | .or l r => exprCols l ++ exprCols r
  | .not e => exprCols e
  | .isNull e => exprCols e
  | .isNotNull e => exprCols e
  | .arith _ l r => exprCols l ++ exprCols r

/-- Columns that occur below an arithmetic operator. -/
def arithCols : Expr → List Nat
  | .col _ => []
  | .lit _ => []
  | .cmp _ l r => arithCols l ++ arithCols r
  | .and l r => arithCols l ++ arithCols r
  | .or l r => arithCols l ++ arithCols r
  | .not e => arithCols e
  | .isNull e => arithCols e
  | .isNotNull e => arithCols e
  | .arith _ l r => exprCols l ++ exprCols r

def parseKey (s : String) : Option KeySpec :=
  match s.splitOn ":" with
  | [rpn, d] => do
      let e ← parseExpr rpn
      let desc ← parseDir d
      pure ⟨e, desc, !exprHasCol e⟩
  | _ => none

def evalCells (es : List Expr) (r : Row) : Option (List Val) :=
  es.mapM fun e => match eval i2fNative e r with
    | .val v => some v
    | _ => none

def splitParts {α : Type} : List Nat → List α → List (Nat × List α)
  | [], _ => []
  | n :: ns, l => (n, l.take n) :: splitParts ns (l.drop n)

def leftTree {β : Type} : List (Nat × List β) → Option (PTree β)
  | [] => none
  | p :: ps => some (ps.foldl (fun t q => .node t (.leaf q.1 q.2)) (.leaf p.1 p.2))

def stepQuery (wh lim off parts : String) (sel : List String) (keys : List String) (cols : List String)
    (impl : String) : String :=
  let (partsTok, bsTok) := match parts.splitOn "@" with
    | [p, b] => (p, b)
    | _ => (parts, "1024")
  match parseOptExpr wh, (if lim = "_" then some U64_MAX else lim.toNat?), off.toNat?, parseNats partsTok,
        sel.mapM parseExpr, keys.mapM parseKey, cols.mapM parseCells with
  | some wh, some limit, some offset, some parts, some sel, some keysAll, some cs =>
      let batchSize := (bsTok.toNat?).getD 1024
      -- Query::normalize (after the fix): keys without column references cannot influence the order and are dropped
      let keys := dropConstKeys (·.isConst) keysAll
      let n := (cs.head?.map List.length).getD 0
      let rows := transpose cs n
      -- arithmetic on a column that is entirely NULL in some partition: the engine types that partition's
      -- column as Null and rejects the expression with a TypeError VALUE (outside the fragment; C06's domain)
      let acols := ((wh.toList ++ sel ++ keys.map (·.expr)).flatMap arithCols).eraseDups
      let typeDivergent := (splitParts parts rows).any fun p =>
        !p.2.isEmpty && acols.any fun c => p.2.all fun r => r.getD c .null == .null
      if typeDivergent then "?\tSKIP" else
      let dirs := keys.map (·.desc)
      let le : Item → Item → Bool := itemLe dirs
      -- items of every partition that pass the filter
      let mk (r : Row) : Option (Option Item) :=
        match keep i2fNative wh r with
        | .ok true => (do let k ← evalCells (keys.map (·.expr)) r; let s ← evalCells sel r; pure (some (k, s)))
        | .ok false => some none
        | _ => none
      match rows.mapM mk with
      | none => "?\tSKIP"
      | some marked =>
        let partsM := splitParts parts marked
        let leaves : List (Nat × List Item) := partsM.map fun p => (p.1, p.2.filterMap id)
        let items := leaves.flatMap (·.2)
        let climit := combinedLimit limit offset
        let constant := keys.any (·.isConst)
        -- comparators per key, on items
        let cmps : List (Item → Item → Bool) :=
          (List.range keys.length).map fun i => fun a b =>
            valLe (dirs.getD i false) (a.1.getD i .null) (b.1.getD i .null)
        -- is the engine's answer determined?  (top-n breaks ties arbitrarily)
        let determined := leaves.all fun p =>
          !(useTopN climit p.1 keys.length constant)
            || !(adjacentTie le ((isort le p.2).take (climit + 1)))
        -- classifiers of the open findings (known_findings.jsonl)
        let nanNull := ((List.range keys.length).map fun i => items.map fun it => it.1.getD i .null).any nanAndNull
        let known := if nanNull then "\tC05-nan-null-tie" else ""
        let model : String :=
          if !determined || nanNull then "?" else
          match leftTree leaves with
          | none => "rows:[]"
          | some t =>
            match runQuery usortDet cmps constant limit offset t with
            | some out => "rows:" ++ showRows (out.map (·.2))
            | none => "panic"
        let spec : String :=
          if keys.isEmpty then "rows:" ++ showRows ((plainSpec items limit offset).map (·.2))
          else if impl.startsWith "rows:" then
            match parseRows (impl.drop 5).toString with
            | some out =>
              let outItems : List Item := out.map fun r => ((r.drop 1).take keys.length, r)
              (judge le items outItems limit offset).toString
            | none => "BAD unparsable"
          else "BAD " ++ impl
        model ++ "\t" ++ spec ++ known
  | _, _, _, _, _, _, _ => "bad-op\tbad-op"

def takeCount (l : List String) : Option (List String × List String) :=
  match l with
  | n :: rest => n.toNat?.map fun k => (rest.take k, rest.drop k)
  | [] => none

def step (line : String) : String :=
  match splitTokens line with
  | ["merge", d, l, r, lim, impl] => stepMerge d l r lim impl
  | ["mkeep", ops, l, r, _impl] => stepMkeep ops l r
  | ["part", d, l, r, lim, impl] => stepPart d l r lim impl
  | ["subpart", d, g, l, r, _impl] => stepSubpart d g l r
  | ["mpart", d, g, l, r, lim, _impl] => stepMpart d g l r lim
  | ["heap", d, ks, vs, k, v, impl] => stepHeap d ks vs k v impl
  | "mk" :: dirs :: lim :: k :: rest =>
      (match k.toNat? with
       | some k => stepMk dirs lim k (rest.take (2 * k)) (rest.getD (2 * k) "")
       | none => "bad-op\tbad-op")
  | "q" :: wh :: lim :: off :: parts :: rest =>
      (match takeCount rest with
       | some (sel, rest) =>
         (match takeCount rest with
          | some (keys, rest) =>
            (match takeCount rest with
             | some (cols, rest) => stepQuery wh lim off parts sel keys cols (rest.headD "")
             | none => "bad-op\tbad-op")
          | none => "bad-op\tbad-op")
       | none => "bad-op\tbad-op")
  | _ => "bad-op\tbad-op"

end LM.DrvC05

def main : IO Unit := LM.Proto.runDriver LM.DrvC05.step
