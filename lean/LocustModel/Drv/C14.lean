import LocustModel.Proto
import LocustModel.Disk.Envelope
import LocustModel.Disk.Segment
import LocustModel.Disk.Sha256
import LocustModel.Disk.SegProto
/-
  Driver for C14.  One input line → `<model> TAB <spec>`.

    env <payload>                      payload as `x<hex>`; implementation = bytes of the file written by the real
                                       VersionedChecksummedBlobWriter(FileBlobWriter).  model = spec = `wrap sha256 payload`.
    load <orig> <file> <impl>          `file` = bytes handed to the real `load` (the stored file of payload `orig`, possibly
                                       corrupted); impl = `ok:x…` | `err:tooShort|version|length|checksum` | `panic`.
                                       model = `unwrap sha256 file`.
                                       spec: if file = wrap orig then impl must be `ok:orig`; otherwise impl must not be `ok:…`
                                       (`orig` = `-` for files not produced by the database: then any `ok:d` requires file = wrap d).
    seg <object> <back> <d0> <d1>      object = columns handed to PartitionSegment::serialize, back = result of deserialize,
                                       d0/d1 = derived codec fields before/after.  impl = `<tree> <back>` (tree dumped through the
                                       capnp reader from the real bytes) or `panic`.
                                       model = `<serSegment object> <deserSegment ∘ serSegment object>` | `fault`;
                                       spec: back = object ∧ d1 = d0 (SKIP when the model predicts the writer's panic).
    evb <tables> <back>                EventBuffer::serialize → deserialize (the bare TableSegmentList message); spec: back = object.
    wal <object> <back>                same for WalSegment (tables and columns sorted by name in all dumps); spec: back = object.
    meta <object> <back>               same for MetaStore (partitions sorted by (table, id)); spec: back = normaliseMeta object.
    segtree <cseg> <impl>              a hand-made partition message (not necessarily an image of the writer) handed to the real
    waltree <cwal> <impl>              deserialize; model = deser* of the tree (`panic` where Column::new faults); tables / columns /
    metatree <cmeta> <impl>            partitions sorted in the dumps.  spec OK (the model line IS the claim: totality / fault list).
    openclass <outcome>                LocustDB::new on a directory with one corrupted file, classified by the harness in a child
                                       process; spec BAD iff the outcome is `silently-different…`; model `?`.
-/
namespace LM.DrvC14
open LM LM.Proto LM.Envelope LM.Segment LM.SegProto

def H : List UInt8 → List UInt8 := LM.Sha256.sha256

def showLoaded : Loaded → String
  | .ok d => "ok:" ++ showHexBytes d
  | .err .tooShort => "err:tooShort"
  | .err .version => "err:version"
  | .err .length => "err:length"
  | .err .checksum => "err:checksum"

def judgeLoad (orig : Option (List UInt8)) (file : List UInt8) (impl : String) : String :=
  let okPrefix := impl.startsWith "ok:"
  if impl = "panic" then "BAD the loader panicked instead of reporting the file as invalid" else
  match orig with
  | some d =>
      if file = wrap H d then (if impl = "ok:" ++ showHexBytes d then "OK" else "BAD intact file not read back as written")
      else if okPrefix then "BAD corrupted file accepted" else "OK"
  | none =>
      if okPrefix then
        match parseHexBytes? ((impl.drop 3).toString) with
        | some d => if file = wrap H d then "OK" else "BAD foreign file decoded into data it does not spell"
        | none => "BAD unparsable"
      else "OK"

def step (line : String) : String :=
  match splitTokens line with
  | ["env", p] =>
      match parseHexBytes? p with
      | some d => let w := showHexBytes (wrap H d); w ++ "\t" ++ w
      | none => "bad-op\tbad-op"
  | ["load", orig, file, impl] =>
      match (if orig = "-" then some none else (parseHexBytes? orig).map some), parseHexBytes? file with
      | some o, some f => showLoaded (unwrap H f) ++ "\t" ++ judgeLoad o f impl
      | _, _ => "bad-op\tbad-op"
  | ["seg", obj, back, d0, d1] =>
      match (parseTerm obj).bind segOf with
      | some cols =>
          match serSegment cols with
          | .error _ => "panic\tSKIP"
          | .ok tree =>
              let backM := match deserSegment tree with
                | .ok cs => (showSeg cs).show
                | .error f => "fault:" ++ toString f
              (showCapSeg tree).show ++ " " ++ backM ++ "\t" ++
                (if back ≠ obj then "BAD decoded columns differ from the encoded ones"
                 else if d0 ≠ d1 then "BAD derived codec properties differ after the round trip" else "OK")
      | none => "bad-op\tbad-op"
  | ["wal", obj, back] =>
      match (parseTerm obj).bind walOf with
      | some w =>
          let tree := serWal w
          (showCapWal tree).show ++ " " ++ (showWal (deserWal tree)).show ++ "\t" ++
            (if back = obj then "OK" else "BAD decoded log segment differs from the encoded one")
      | none => "bad-op\tbad-op"
  | ["evb", obj, back] =>
      match (parseTerm obj).bind tablesOf with
      | some ts =>
          let tree := (serWal { id := 0, tables := ts }).data
          (showCapTsl tree).show ++ " " ++ (showTables (deserWal { id := 0, data := tree }).tables).show ++ "\t" ++
            (if back = obj then "OK" else "BAD decoded event buffer differs from the encoded one")
      | none => "bad-op\tbad-op"
  | ["meta", obj, back] =>
      match (parseTerm obj).bind metaOf with
      | some m =>
          let tree := serMeta m
          (showCapMeta tree).show ++ " " ++ (showMeta (deserMeta tree)).show ++ "\t" ++
            (if back = (showMeta (normaliseMeta m)).show then "OK" else "BAD decoded catalogue is not the normalised original")
      | none => "bad-op\tbad-op"
  | ["segtree", tree, _impl] =>
      match (parseTerm tree).bind capSegOf with
      | some t =>
          (match deserSegment t with
           | .ok cs => (showSeg cs).show
           | .error _ => "panic") ++ "\tOK"
      | none => "bad-op\tbad-op"
  | ["waltree", tree, _impl] =>
      match (parseTerm tree).bind capWalOf with
      | some t => let w := deserWal t; (showWal { w with tables := sortTables w.tables }).show ++ "\tOK"
      | none => "bad-op\tbad-op"
  | ["metatree", tree, _impl] =>
      match (parseTerm tree).bind capMetaOf with
      | some t => let m := deserMeta t; (showMeta { m with partitions := sortParts m.partitions }).show ++ "\tOK"
      | none => "bad-op\tbad-op"
  | ["openclass", o] => "?\t" ++ (if o.startsWith "silently-different" then "BAD database opened with different data" else "OK")
  | _ => "bad-op\tbad-op"

end LM.DrvC14

def main : IO Unit := LM.Proto.runDriver LM.DrvC14.step
