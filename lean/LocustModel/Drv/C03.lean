import LocustModel.Proto
import LocustModel.Query.SqlProto
import LocustModel.Query.Filter
import LocustModel.Query.FilterFindings
/-
  Driver for C03.
    where <rpn> <ncols> <col cells>… <nparts> <part>…
      part = <start>:<len>:<img>/<img>/…       img = `-` | <section types>;<ops>;<dictionary>
    like <pattern hex> <string col cells>
  Output:  <model> TAB <spec> [TAB <finding id>]
    model = what Query/Filter.lean (the mirror of the engine) predicts: rows:<ids> | err:<kind> | ?
    spec  = what Query/Sql.lean (Kleene evaluator) demands: rows:<ids> | err:overflow | SKIP
            SKIP = outside the supported fragment: the specification itself rejects the type combination, or the
            implementation model predicts an error *value* (TypeError / NotImplemented / FatalError) — the correspondence
            column then requires the real code to return exactly that error kind.
-/
namespace LM.DrvC03
open LM LM.Proto LM.Sql LM.SqlProto LM.Filter

def showIdList (ids : List Nat) : String := "rows:" ++ showList toString ids

def idsOf (rows : List Row) : List Nat :=
  rows.filterMap fun r => match r.head? with | some (.int i) => some i.toNat | _ => none

def parseET (s : String) : ET :=
  if s = "u8" then .u8 else if s = "u16" then .u16 else if s = "u32" then .u32 else if s = "u64" then .u64
  else if s = "i64" then .i64 else if s = "f64" then .f64 else if s = "bitvec" then .bitvec
  else if s = "str" then .str else if s = "null" then .nullT else .other

def parseBits (s : String) : ET :=
  if s = "8" then .u8 else if s = "16" then .u16 else if s = "32" then .u32 else if s = "64" then .i64
  else if s = "64u" then .u64 else .other

def parseOp (s : String) : Option COp :=
  match s.toList with
  | ['N'] => some .nullable
  | ['U'] => some .unpack
  | ['H'] => some .unhex
  | 'A' :: rest =>
      match (String.ofList rest).splitOn ":" with
      | [b, o] => o.toInt?.map fun o => .add (parseBits b) o
      | _ => none
  | 'D' :: rest => some (.delta (parseBits (String.ofList rest)))
  | 'T' :: rest => some (.toI64 (parseBits (String.ofList rest)))
  | 'L' :: rest => some (.dict (parseBits (String.ofList rest)))
  | 'Z' :: rest => some (.decomp (parseET (String.ofList rest)))
  | 'P' :: rest => (String.ofList rest).toNat?.map COp.push
  | _ => none

def parseImg (s : String) : Option PCol :=
  if s = "-" then some .absent else
  match s.splitOn ";" with
  | [secs, ops, dict] => do
      let ops ← if ops = "id" then some [] else (ops.splitOn "+").mapM parseOp
      let dict ← if dict = "-" || dict = "[]" then some [] else (dict.splitOn ",").mapM parseHexBytes?
      pure (.img { secs := (secs.splitOn ",").map parseET, ops := ops, dict := dict })
  | _ => none

def parsePart (cols : List (List Val)) (s : String) : Option (Nat × Part) :=
  match s.splitOn ":" with
  | start :: len :: rest => do
      let start ← start.toNat?
      let len ← len.toNat?
      let imgs ← ((":".intercalate rest).splitOn "/").mapM parseImg
      if imgs.length ≠ cols.length then none else
      pure (start, { len := len, cols := imgs.zip (cols.map fun c => (c.drop start).take len) })
  | _ => none

/-- Native float operations handed to the model as parameters. -/
def fpNative : FP :=
  { i2f := i2fNative
    encF := fun b y => (Float.ofBits b.toUInt64 - Float.ofInt y).toBits.toNat }

def showErr : Err → String
  | .type => "err:type" | .notimpl => "err:notimpl" | .fatal => "err:fatal" | .panic => "err:canceled" | .unmodelled => "?"

def showQOut : QOut → String
  | .rows ids => showIdList ids
  | .err e => showErr e

def stepWhere (rpn : String) (rest : List String) : String :=
  match rest with
  | ncols :: rest =>
    match ncols.toNat? with
    | none => "bad-op\tbad-op"
    | some nc =>
      match parseExpr rpn, (rest.take nc).mapM parseCells, (rest.drop nc) with
      | some e, some cs, _nparts :: partToks =>
          let n := (cs.head?.map List.length).getD 0
          let rows := transpose cs n
          match partToks.mapM (parsePart cs) with
          | none => "bad-op\tbad-op"
          | some parts =>
            let model := implQuery fpNative parts e
            let spec := filterRows i2fNative (some e) rows
            let specStr := match model, spec with
              | .err .type, _ | .err .notimpl, _ | .err .fatal, _ => "SKIP"
              | .err .unmodelled, .ok kept => if anyErrValue fpNative parts e then "SKIP" else showIdList (idsOf kept)
              | _, .ok kept => showIdList (idsOf kept)
              | _, .overflow => "err:overflow"
              | _, .unsupported => "SKIP"
            let specStr := match Findings.badImage parts with
              | some (st, j) => s!"BAD image-invariant partition@{st} column {j}"
              | none => specStr
            let finding := Findings.classify fpNative parts e rows model spec
            showQOut model ++ "\t" ++ specStr ++ (if finding = "" then "" else "\t" ++ finding)
      | _, _, _ => "bad-op\tbad-op"
  | _ => "bad-op\tbad-op"

/-! ### LIKE: reference `%` / `_` matcher (differential only) -/

def likeMatch : List Char → List Char → Bool
  | [], [] => true
  | [], _ :: _ => false
  | '%' :: ps, [] => likeMatch ps []
  | '%' :: ps, c :: cs => likeMatch ps (c :: cs) || likeMatch ('%' :: ps) cs
  | '_' :: ps, _ :: cs => likeMatch ps cs
  | _ :: _, [] => false
  | p :: ps, c :: cs => p == c && likeMatch ps cs
termination_by p s => p.length + s.length

def utf8Chars (bs : List UInt8) : List Char :=
  match String.fromUTF8? (ByteArray.mk bs.toArray) with
  | some s => s.toList
  | none => bs.map fun b => Char.ofNat b.toNat

def stepLike (pat : String) (cells : String) : String :=
  match parseHexBytes? pat, parseCells cells with
  | some p, some cs =>
      let pc := utf8Chars p
      let ids := (List.range cs.length).filter fun i =>
        match cs.getD i .null with
        | .str s => likeMatch pc (utf8Chars s)
        | _ => false
      "?\t" ++ showIdList ids
  | _, _ => "bad-op\tbad-op"

def step (line : String) : String :=
  match splitTokens line with
  | "where" :: rpn :: rest => stepWhere rpn rest
  | ["like", pat, cells] => stepLike pat cells
  | _ => "bad-op\tbad-op"

end LM.DrvC03

def main : IO Unit := LM.Proto.runDriver LM.DrvC03.step
