import LocustModel.Proto
import LocustModel.Query.SqlProto
/-
  Driver for C03.  Input:  where <rpn> <ncols> <col0 cells> … 
  Output: ? TAB rows:<ids of kept rows> | err:overflow | SKIP
  (column 0 is the `id` column; the implementation model of the filter operators is exercised at
  unit level by the `enc` lines below)
-/
namespace LM.DrvC03
open LM LM.Proto LM.Sql LM.SqlProto

def showIds (rows : List Row) : String :=
  "rows:" ++ showList (fun r => match r.head? with
    | some (.int i) => toString i | _ => "_") rows

def stepWhere (rpn : String) (cols : List String) : String :=
  match parseExpr rpn, cols.mapM parseCells with
  | some e, some cs =>
      let n := (cs.head?.map List.length).getD 0
      let rows := transpose cs n
      match filterRows i2fNative (some e) rows with
      | .ok kept => "?\t" ++ showIds kept
      | .overflow => "?\terr:overflow"
      | .unsupported => "?\tSKIP"
  | _, _ => "bad-op\tbad-op"

def step (line : String) : String :=
  match splitTokens line with
  | "where" :: rpn :: _n :: cols => stepWhere rpn cols
  | _ => "bad-op\tbad-op"

end LM.DrvC03

def main : IO Unit := LM.Proto.runDriver LM.DrvC03.step
