import LocustModel.Store.Proto
/-
  Driver for C18.  Input: a history line (see `LocustModel/Store/Proto.lean`) ending with the observed directory
  listing `L…`, or `LAT <n>` for the ingestion-latency stream.
  Output:  <model listing + catalogue> TAB <OK | BAD … | SKIP>
    model: files predicted by the machine model (catalogue file, log segments, partition files) and its catalogue;
    spec : after a completed flush the listing must be exactly {meta} ∪ files of the catalogue found on disk;
           in every step the observed effect phases must store partition files before the catalogue file and remove
           files only after it.
-/
namespace LM.DrvC18
open LM.Proto LM.Store.Drv

def step (line : String) : String :=
  match splitTokens line with
  | "LAT" :: _ => "returned\treturned"   -- C18_ingest_enabled_after_freeze: every call is enabled once the freeze ran
  | _ =>
  match runLine2 line with
  | none => "bad-op\tbad-op"
  | some (s, ltok, etok) =>
    let model := listingModel s ++ " " ++ catalogueModel s ++ (if etok.isSome then " " ++ effectsModel s else "")
    let specL := match ltok with
      | some l => if s.lastWasFlush then judgeListing s.lastObs l else "SKIP"
      | none => "SKIP"
    let specE := match etok with
      | some e => judgeEffects e
      | none => "SKIP"
    let spec := if specL.startsWith "BAD" then specL else if specE.startsWith "BAD" then specE
                else if specL = "SKIP" && (specE = "SKIP" || etok = some "E_") then "SKIP" else "OK"
    model ++ "\t" ++ spec

end LM.DrvC18

def main : IO Unit := LM.Proto.runDriver LM.DrvC18.step
