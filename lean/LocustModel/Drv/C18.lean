import LocustModel.Store.Proto
/-
  Driver for C18.  Input: a history line (see `LocustModel/Store/Proto.lean`) ending with the observed directory
  listing `L…`, or `LAT <n> … limit=<max_wal_size_bytes> pre=<recovered size> sizes=<accounted size of each call>`
  for the ingestion-latency stream.
  Output:  <model listing + catalogue> TAB <OK | BAD … | SKIP>
    model: files predicted by the machine model (catalogue file, log segments, partition files) and its catalogue;
           the file NAMES of a partition created and merged away within the flush in flight are read off the observed
           listing (`listingModelObs`: its sub-partition keys are in no catalogue) — existence and lifetime are predicted;
    spec : after a completed flush the listing must be exactly {meta} ∪ files of the catalogue found on disk ∪ the
           segments of the calls that returned since that flush froze the buffers; the segments of all calls that
           returned before an ANSWERED force_flush was registered must be gone;
           in every step the observed effect phases must store partition files before the catalogue file and remove
           files only after it.
-/
namespace LM.DrvC18
open LM.Proto LM.Store.Drv

def kv (toks : List String) (key : String) : Option String :=
  (toks.find? (fun t => t.startsWith (key ++ "="))).map (fun t => (t.drop (key.length + 1)).toString)

def step (line : String) : String :=
  match splitTokens line with
  | "LAT" :: rest =>
    -- model: the gate / trigger predicates of Store/Interleave.lean evaluated on the accounted sizes;
    -- spec (C18_no_stuck_ingest): every call returns
    let limit := ((kv rest "limit").bind (·.toNat?)).getD 1
    let pre := ((kv rest "pre").bind (·.toNat?)).getD 0
    let sizes := match kv rest "sizes" with
      | some l => if l = "[]" then [] else (l.splitOn ",").filterMap (·.toNat?)
      | none => []
    latencyModel limit pre sizes ++ "\treturned"
  | _ =>
  match runLine2 line with
  | none => "bad-op\tbad-op"
  | some (s, ltok, etok) =>
    let model := listingModelObs s ltok ++ " " ++ catalogueModel s ++ (if etok.isSome then " " ++ effectsModel s else "") ++
      (if s.inter then s!" A={s.done.length}" else "")
    let specL := match ltok with
      | some l => if s.lastWasFlush then judgeListingInter s.lastObs s.sinceFreezeN l else "SKIP"
      | none => "SKIP"
    let specA := match ltok with
      | some l => if s.answered.isEmpty then "SKIP" else judgeAnswered s l
      | none => "SKIP"
    let specE := match etok with
      | some e => judgeEffects e
      | none => "SKIP"
    let spec := if specL.startsWith "BAD" then specL else if specA.startsWith "BAD" then specA
                else if specE.startsWith "BAD" then specE
                else if specL = "SKIP" && specA = "SKIP" && (specE = "SKIP" || etok = some "E_") then "SKIP" else "OK"
    model ++ "\t" ++ spec

end LM.DrvC18

def main : IO Unit := LM.Proto.runDriver LM.DrvC18.step
