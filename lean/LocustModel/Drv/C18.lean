import LocustModel.Store.Proto
/-
  Driver for C18.  Input: a history line (see `LocustModel/Store/Proto.lean`) ending with the observed directory
  listing `L…`, or `LAT <n>` for the ingestion-latency stream.
  Output:  <model listing + catalogue> TAB <OK | BAD … | SKIP>
    model: files predicted by the machine model (catalogue file, log segments, partition files) and its catalogue;
    spec : after a completed flush the listing must be exactly {meta} ∪ files of the catalogue found on disk.
-/
namespace LM.DrvC18
open LM.Proto LM.Store.Drv

def step (line : String) : String :=
  match splitTokens line with
  | "LAT" :: _ => "returned\treturned"   -- C18_ingest_enabled_after_freeze: every call is enabled once the freeze ran
  | _ =>
  match runLine line with
  | none => "bad-op\tbad-op"
  | some (s, ltok) =>
    let model := listingModel s ++ " " ++ catalogueModel s
    let spec := match ltok with
      | some l => if s.lastWasFlush then judgeListing s.lastObs l else "SKIP"
      | none => "SKIP"
    model ++ "\t" ++ spec

end LM.DrvC18

def main : IO Unit := LM.Proto.runDriver LM.DrvC18.step
