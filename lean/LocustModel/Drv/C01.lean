import LocustModel.Proto
import LocustModel.Codec.Ingest
import LocustModel.Codec.Csv
import LocustModel.Codec.Split
/-
  Driver for C01.  Input line:
    c01 <kind> <i2f> <showf> <ncols> <item> <item> ...
  kind   `q` (SELECT all columns: rows)  |  `u` (unit level: codec shape of every column of the open buffer)
  i2f    `[]` | `<int>=<16 hex>,...`      Rust `i as f64` for the ints of the case
  showf  `[]` | `<16 hex>=x<hex>,...`     Rust `f64::to_string`
  item   `!` (flush: the open buffer becomes a partition)  |  batch  `B<rows>/<rep>/<rep>...` one rep per column:
         `-` absent | `E` | `D:<f>,..` | `P:<i>=<f>,..` | `I:<int>,..` | `Q:<i>=<int>,..` | `S:x<hex>,..` | `M:<cell>,..`
  Output:  <model> TAB <spec> [TAB <known finding id>]
-/
namespace LM.DrvC01
open LM LM.Proto LM.Codec

def hexNat? (s : String) : Option Nat :=
  s.toList.foldlM (fun acc c => (hexDigit? c).map fun d => acc * 16 + d) 0

def parsePair (f : String → Option α) (g : String → Option β) (s : String) : Option (α × β) :=
  match s.splitOn "=" with
  | [a, b] => do let x ← f a; let y ← g b; pure (x, y)
  | _ => none

def parseElems (f : String → Option α) (s : String) : Option (List α) :=
  if s = "" then some [] else (s.splitOn ",").mapM f

def parseCell (s : String) : Option RawVal :=
  if s = "_" then some .null
  else match s.toList with
    | 'i' :: r => (String.ofList r).toInt?.map .int
    | 'f' :: r => (hexNat? (String.ofList r)).map .float
    | 'x' :: _ => (parseHexBytes? s).map .str
    | _ => none

def parseRep (s : String) : Option (Option Rep) :=
  if s = "-" then some none
  else if s = "E" then some (some .empty)
  else
    let body := (s.drop 2).toString
    if s.startsWith "D:" then (parseElems hexNat? body).map fun l => some (.dense l)
    else if s.startsWith "P:" then (parseElems (parsePair String.toNat? hexNat?) body).map fun l => some (.sparse l)
    else if s.startsWith "I:" then (parseElems String.toInt? body).map fun l => some (.i64 l)
    else if s.startsWith "Q:" then (parseElems (parsePair String.toNat? String.toInt?) body).map fun l => some (.sparseI64 l)
    else if s.startsWith "S:" then (parseElems parseHexBytes? body).map fun l => some (.str l)
    else if s.startsWith "M:" then (parseElems parseCell body).map fun l => some (.mixed l)
    else none

inductive Item where
  | flush
  | batch (rows : Nat) (reps : List (Option Rep))

def parseItem (s : String) : Option Item :=
  if s = "!" then some .flush
  else match s.toList with
    | 'B' :: r =>
      match (String.ofList r).splitOn "/" with
      | n :: reps => do
          let rows ← n.toNat?
          let rs ← reps.mapM parseRep
          pure (.batch rows rs)
      | _ => none
    | _ => none

def showHex16 (n : Nat) : String :=
  String.ofList ((List.range 16).reverse.map fun k => hexChar ((n >>> (4 * k)) % 16))

def showCell : Cell → String
  | .null => "_"
  | .int i => "i" ++ toString i
  | .float b => "f" ++ showHex16 b
  | .str s => showHexBytes s

/-- rows view of per-column cell lists (columns shorter than the first are padded with NULL); linear. -/
def showRows (cols : List (List Cell)) : String :=
  match cols with
  | [] => "[]"
  | c :: _ =>
    if c.isEmpty then "[]"
    else
      let rec go (fuel : Nat) (cols : List (List Cell)) (acc : Array String) : Array String :=
        match fuel with
        | 0 => acc
        | fuel + 1 =>
          let row := ",".intercalate (cols.map fun col => showCell (col.headD .null))
          go fuel (cols.map List.tail) (acc.push row)
      ";".intercalate (go c.length cols #[]).toList

def colName (i : Nat) : String := "c" ++ toString i

def showEnc : Enc → String
  | .w w => w.name
  | .i64 => "i64"

def showOp : CodecOp → String
  | .nullable => "Nullable"
  | .add t x => "Add(" ++ t.name ++ "," ++ toString x ++ ")"
  | .delta t => "Delta(" ++ showEnc t ++ ")"
  | .toI64 t => "ToI64(" ++ t.name ++ ")"
  | .push i => "Data(" ++ toString i ++ ")"
  | .dict t => "Dict(" ++ t.name ++ ")"
  | .decomp => "Decomp"
  | .unpack => "StrUnpack"
  | .unhex u n => "StrHexUnpack(" ++ toString u ++ "," ++ toString n ++ ")"

/-- FNV-1a-style checksum over the section contents as u64 values (same function in the harness). -/
def fnv (vals : List Nat) : Nat :=
  vals.foldl (fun h v => ((h ^^^ v) * 0x100000001b3) % 18446744073709551616) 0xcbf29ce484222325

def secName : Section → String
  | .nat w _ => w.name
  | .i64 _ => "i64"
  | .f64 _ => "f64"
  | .null _ => "null"
  | .bitvec _ => "bitvec"
  | .comp _ _ => "comp"

def secVals : Section → Nat × List Nat
  | .nat _ d => (d.length, d)
  | .i64 d => (d.length, d.map fun x => (x % 18446744073709551616).toNat)
  | .f64 d => (d.length, d)
  | .null n => (n, [])
  | .bitvec d => (d.length, d)
  | .comp p _ => (p.length, p)

def showSec (s : Section) : String :=
  let (n, vals) := secVals s
  secName s ++ "#" ++ toString n ++ "." ++ showHex16 (fnv vals)

def showShape (c : Column) : String :=
  "n" ++ toString c.len ++ ":" ++ (if c.ops.isEmpty then "id" else "+".intercalate (c.ops.map showOp)) ++ ":" ++
    ",".intercalate (c.sections.map showSec)

/-- no compression in the executable model (the choice is free and `dec ∘ enc = id` is assumed). -/
def idComp : Compressor := { enc := id, dec := id }

/-- open known findings: none (F-C01-delta-overflow, F-C01-interval-overflow and F-C01-mixed-nulls are fixed in
    /repo and the model mirrors the fixed code; a fixed entry suppresses nothing). -/
def classify (_cv : Conv) (_cb : ColBuf) : Option String := none

/-- `Buffer.columnCells` with the decode the planner really builds: `ensure_fixed_width` prefix first, then the rest
    of the codec (`decodeQuery`, Codec/Split.lean; `C01_split_decode` proves it equal to `decode` for every builder column). -/
def columnCellsQ (cv : Conv) (b : Buffer) (name : String) : Except Fault (List Cell) :=
  match b.cols.find? (·.1 = name) with
  | none => .ok (List.replicate b.length .null)
  | some (_, cb) => do
      let col ← cb.finalize cv
      if col.len ≠ cb.length then .error .assert
      else match decodeQuery id col with
        | .ok v => .ok (cellsOf v)
        | .error e => .error e

structure Out where
  cols : List (List Cell)       -- per column, accumulated over partitions
  fault : Option Fault := none
  known : Option String := none
  shapes : List String := []

def finishSegment (cv : Conv) (ncols : Nat) (b : Buffer) (o : Out) : Out :=
  if b.length = 0 then o else
  (List.range ncols).foldl (fun o i =>
    let name := colName i
    let known := match b.cols.find? (·.1 = name) with
      | some (_, cb) => classify cv cb
      | none => none
    let shape := match b.cols.find? (·.1 = name) with
      | some (_, cb) => match cb.finalize cv with
          | .ok c => showShape c
          | .error e => "fault:" ++ toString e
      | none => "absent"
    match columnCellsQ cv b name with
    | .ok cells =>
      { o with cols := o.cols.mapIdx (fun j c => if j = i then c ++ cells else c), shapes := o.shapes ++ [shape],
               known := o.known.orElse fun _ => known }
    | .error e => { o with fault := o.fault.orElse (fun _ => some e), shapes := o.shapes ++ [shape],
                           known := o.known.orElse fun _ => known }) o

def runItems (cv : Conv) (ncols : Nat) : List Item → Buffer → Out → Out
  | [], b, o => finishSegment cv ncols b o
  | .flush :: rest, b, o => runItems cv ncols rest {} (finishSegment cv ncols b o)
  | .batch rows reps :: rest, b, o =>
    let cols : Except Fault (List (String × InputColumn)) :=
      (reps.zipIdx.filterMap fun (r, i) => r.map fun rep => (colName i, rep)).mapM fun (n, rep) =>
        (fromColumnData rep rows).map fun ic => (n, ic)
    match cols >>= b.pushTypedCols cv with
    | .ok b' => runItems cv ncols rest b' o
    | .error e => { o with fault := some e }

/-- specification: per column, the cells supplied, batch by batch (absent ⇒ NULL for every row of the batch):
    `LM.Codec.repOps` (Codec/Ingest.lean; `C01_input_column` relates it to what `push_typed_cols` issues). -/
def repCells (rows : Nat) (r : Option Rep) : List Op := repOps rows r

/-- per open-buffer segment (a flush turns the buffer into a partition; type degradation is a property of one
    column buffer, later partitions are typed on their own). -/
def specSegments (items : List Item) (col : Nat) : List (List Op) :=
  let rec go (cur : List Op) : List Item → List (List Op)
    | [] => [cur]
    | .flush :: rest => cur :: go [] rest
    | .batch rows reps :: rest => go (cur ++ repCells rows (reps.getD col none)) rest
  go [] items

def specCells (cv : Conv) (items : List Item) (col : Nat) : List Cell :=
  (specSegments items col).flatMap (specColumn cv)

/-! CSV: `RawCol::{push, finalize}` of csv_loader.rs — type inference per chunk of `partition_size` rows
    (model: Codec/Csv.lean).  `str::parse::<i64>` / `parse::<f64>` (Rust std) arrive as per-cell hints. -/
def parseCsvCell (s : String) : Option CsvCell :=
  match s.splitOn "~" with
  | [t, "n"] => (parseHexBytes? t).map fun b => ⟨b, .empty⟩
  | [t, "s"] => (parseHexBytes? t).map fun b => ⟨b, .str⟩
  | [t, h, extra] => do
      let b ← parseHexBytes? t
      match h.toList with
      | 'i' :: r => do
          let i ← (String.ofList r).toInt?
          let f ← hexNat? extra
          pure ⟨b, .int i f⟩
      | 'f' :: r => do
          let f ← hexNat? (String.ofList r)
          pure ⟨b, .float f⟩
      | _ => none
  | _ => none

def chunks {α : Type} (n : Nat) (l : List α) : List (List α) :=
  if n = 0 then [l] else
  let rec go (fuel : Nat) (l : List α) : List (List α) :=
    match fuel, l with
    | _, [] => []
    | 0, _ => []
    | fuel + 1, l => l.take n :: go fuel (l.drop n)
  go l.length l

/-- `auto_ingest`: one Mixed batch per chunk, `trigger_wal_flush` after it. -/
def csvItems (psize : Nat) (cols : List (Bool × List CsvCell)) : List Item :=
  let perCol : List (List (List RawVal)) := cols.map fun (allow, cells) => (chunks psize cells).map (csvFinalize allow)
  match perCol with
  | [] => []
  | c0 :: _ =>
    (List.range c0.length).flatMap fun k =>
      let reps := perCol.map fun chunksOfCol => (chunksOfCol[k]?).map Rep.mixed
      let rows := ((c0[k]?).map List.length).getD 0
      [Item.batch rows reps, Item.flush]

def parseCsvCol (s : String) : Option (Bool × List CsvCell) :=
  match s.toList with
  | 'C' :: a :: ':' :: rest => do
      let cells ← parseElems parseCsvCell (String.ofList rest)
      pure (a == '1', cells)
  | _ => none

def runQuery (cv : Conv) (ncols : Nat) (items : List Item) : String :=
  let o := runItems cv ncols items {} { cols := List.replicate ncols [] }
  let known := match o.known with | some k => "\t" ++ k | none => ""
  let model := match o.fault with
    | some _ => "panic"
    | none => "rows:" ++ showRows o.cols
  let spec := "rows:" ++ showRows ((List.range ncols).map fun c => specCells cv items c)
  model ++ "\t" ++ spec ++ known

def mkConv (i2f : List (Int × Nat)) (showf : List (Nat × Bytes)) : Conv := {
  i2f := fun i => ((i2f.find? (·.1 = i)).map (·.2)).getD 0
  showInt := fun i => (toString i).toUTF8.toList
  showFloat := fun f => ((showf.find? (·.1 = f)).map (·.2)).getD [] }

def step (line : String) : String :=
  match splitTokens line with
  | ["c01", "x"] => "?\tSKIP"      -- coverage-only case (implementation output recorded, nothing predicted)
  | "c01" :: "csv" :: i2fS :: showfS :: ncolsS :: psizeS :: colsS =>
    match parseElems (parsePair String.toInt? hexNat?) (if i2fS = "[]" then "" else i2fS),
          parseElems (parsePair hexNat? parseHexBytes?) (if showfS = "[]" then "" else showfS),
          ncolsS.toNat?, (psizeS.drop 1).toString.toNat?, colsS.mapM parseCsvCol with
    | some i2f, some showf, some ncols, some psize, some cols =>
      runQuery (mkConv i2f showf) ncols (csvItems psize cols)
    | _, _, _, _, _ => "bad-op\tbad-op"
  | "c01" :: kind :: i2fS :: showfS :: ncolsS :: itemsS =>
    match parseElems (parsePair String.toInt? hexNat?) (if i2fS = "[]" then "" else i2fS),
          parseElems (parsePair hexNat? parseHexBytes?) (if showfS = "[]" then "" else showfS),
          ncolsS.toNat?, itemsS.mapM parseItem with
    | some i2f, some showf, some ncols, some items =>
      let cv : Conv := {
        i2f := fun i => ((i2f.find? (·.1 = i)).map (·.2)).getD 0
        showInt := fun i => (toString i).toUTF8.toList
        showFloat := fun f => ((showf.find? (·.1 = f)).map (·.2)).getD [] }
      if kind = "s" then
        -- specification only (cases too large for the quadratic executable model of the dictionary builder)
        "?\t" ++ "rows:" ++ showRows ((List.range ncols).map fun c => specCells cv items c)
      else
      let o := runItems cv ncols items {} { cols := List.replicate ncols [] }
      let known := match o.known with | some k => "\t" ++ k | none => ""
      if kind = "u" then
        (if o.shapes.any (·.startsWith "fault:") then "panic"
         else "shapes:" ++ ";".intercalate o.shapes) ++ "\tSKIP" ++ known
      else
        let model := match o.fault with
          | some _ => "panic"
          | none => "rows:" ++ showRows o.cols
        let spec := "rows:" ++ showRows ((List.range ncols).map fun c => specCells cv items c)
        model ++ "\t" ++ spec ++ known
    | _, _, _, _ => "bad-op\tbad-op"
  | _ => "bad-op\tbad-op"

end LM.DrvC01

def main : IO Unit := LM.Proto.runDriver LM.DrvC01.step
