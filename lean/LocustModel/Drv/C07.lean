import LocustModel.Proto
import LocustModel.Codec.Decode2
import LocustModel.Codec.Rebuild
import LocustModel.Store.C07Machine
/-
  Driver for C07.  Input lines (harness/src/bin/c07.rs):

    dec  <ops> <nsec> <sec0> … <sec{n-1}> <orig0|-> <pushed cells>
    raw  <ops> <nsec> <sec0> … <sec{n-1}> <orig0|-> <pushed cells>
         ops : comma separated  N | A:<w>:<int> | D:<t> | I:<w> | P:<i> | L:<w> | Z:<t>:<n> | C:<t>:<n>:<0|1> | U | H:<0|1>:<total>
         sec : u8:x<hex> | bv:x<hex> | lz4:x<hex> | pco:x<hex> | u16:<nats> | u32:… | u64:… | i64:<ints> | f64:<hex16,…> | null:<n>
         orig0 : the section the lz4/pco library returns for section 0 (the driver's `dec`)
       output `dec`:  <decode2: type + cells> TAB <decodeQ: type + cells>
       output `raw`:  <decode2: type + raw data + null map> TAB SKIP
    reb  <k> <val_1> … <val_k>        decoded values pushed by the compaction loop into one ColumnBuffer
         val : I64|<ints>|- , NI64|<ints>|x<hex> , F64|…, NF64|…, Str|<x..>,…|-, NStr|…|x<hex>, Null|<n>|-
       output:  <cells of the rebuilt buffer (model of the push_* sequence)> TAB <concatenated cells (spec)>
    hist <history>                    see LocustModel/Store/C07Machine.lean (`parseHist`)
-/
namespace LM.DrvC07
open LM LM.Proto LM.Codec LM.D2

def parseWidth (s : String) : Option Width :=
  if s = "u8" then some .u8 else if s = "u16" then some .u16 else if s = "u32" then some .u32
  else if s = "u64" then some .u64 else none

def parseEnc (s : String) : Option Enc :=
  if s = "i64" then some .i64 else (parseWidth s).map .w

def parseET (s : String) : Option ET :=
  if s = "u8" then some .u8 else if s = "u16" then some .u16 else if s = "u32" then some .u32
  else if s = "u64" then some .u64 else if s = "i64" then some .i64 else if s = "f64" then some .f64 else none

def parseOp (s : String) : Option Op :=
  match s.splitOn ":" with
  | ["N"] => some .nullable
  | ["A", t, v] => do let w ← parseWidth t; let x ← v.toInt?; pure (.add w x)
  | ["D", t] => (parseEnc t).map .delta
  | ["I", t] => (parseWidth t).map .toI64
  | ["P", i] => i.toNat?.map .push
  | ["L", t] => (parseWidth t).map .dict
  | ["Z", t, n] => do let e ← parseET t; let k ← n.toNat?; pure (.lz4 e k)
  | ["C", t, n, fp] => do let e ← parseET t; let k ← n.toNat?; pure (.pco e k (fp = "1"))
  | ["U"] => some .unpack
  | ["H", u, total] => do let k ← total.toNat?; pure (.unhex (u = "1") k)
  | _ => none

def hexNatAux : List Char → Nat → Option Nat
  | [], acc => some acc
  | c :: cs, acc => (hexDigit? c).bind fun d => hexNatAux cs (acc * 16 + d)
def parseHexNat (s : String) : Option Nat := if s.isEmpty then none else hexNatAux s.toList 0

def parseBytesNat (s : String) : Option (List Nat) := (parseHexBytes? s).map (·.map UInt8.toNat)

def parseSec (s : String) : Option Section :=
  match s.splitOn ":" with
  | ["u8", d] => (parseBytesNat d).map (.nat .u8)
  | ["bv", d] => (parseBytesNat d).map .bitvec
  | ["lz4", d] => (parseBytesNat d).map (.comp · 0)
  | ["pco", d] => (parseBytesNat d).map (.comp · 1)
  | ["u16", d] => (parseList parseNat? d).map (.nat .u16)
  | ["u32", d] => (parseList parseNat? d).map (.nat .u32)
  | ["u64", d] => (parseList parseNat? d).map (.nat .u64)
  | ["i64", d] => (parseList parseInt? d).map .i64
  | ["f64", d] => (parseList parseHexNat d).map .f64
  | ["null", n] => n.toNat?.map .null
  | _ => none

def hex16 (n : Nat) : String :=
  String.ofList ((List.range 16).reverse.map fun i => hexChar ((n / 16 ^ i) % 16))

def showBytesNat (bs : List Nat) : String := showHexBytes (bs.map UInt8.ofNat)

def showCell : Cell → String
  | .null => "_"
  | .int i => "i" ++ toString i
  | .float b => "f" ++ hex16 b
  | .str s => showHexBytes s

def parseCell (s : String) : Option Cell :=
  if s = "_" then some .null else
  match s.toList with
  | 'i' :: r => (String.ofList r).toInt?.map .int
  | 'f' :: r => (parseHexNat (String.ofList r)).map .float
  | 'x' :: _ => (parseHexBytes? s).map .str
  | _ => none

/-- `Data::get_type()` as the harness prints it. -/
def tyName (v : SVal) : String :=
  let n := v.present.isSome
  match v.data with
  | .i64 _ => if n then "NI64" else "I64"
  | .f64 _ => if n then "NF64" else "F64"
  | .str _ => if n then "NStr" else "Str"
  | .null _ => "Null"
  | .nat w _ => (if n then "TNullable" else "T") ++ (match w with | .u8 => "U8" | .u16 => "U16" | .u32 => "U32" | .u64 => "U64")
  | .bits _ => if n then "TNullableU8" else "TU8"
  | .raw _ => if n then "TNullableU8" else "TU8"

def dataLen : Data → Nat
  | .nat _ d => d.length | .i64 d => d.length | .f64 d => d.length | .str d => d.length
  | .bits d => d.length | .null n => n | .raw (.comp p _) => p.length | .raw _ => 0

def showVal (r : Except Fault SVal) : String :=
  match r with
  | .error _ => "panic"
  | .ok v =>
    match v.data with
    | .i64 _ | .f64 _ | .str _ | .null _ => tyName v ++ " " ++ showList showCell (cellsOf v)
    | d => tyName v ++ " " ++ toString (dataLen d)

def showRaw (r : Except Fault SVal) : String :=
  match r with
  | .error _ => "panic"
  | .ok v =>
    let pm := match v.present with | some bm => showBytesNat bm | none => "-"
    match v.data with
    | .i64 d => tyName v ++ " " ++ showList toString d ++ " " ++ pm
    | .f64 d => tyName v ++ " " ++ showList hex16 d ++ " " ++ pm
    | .str d => tyName v ++ " " ++ showList showHexBytes d ++ " " ++ pm
    | .null n => s!"Null {n} -"
    | d => tyName v ++ " " ++ toString (dataLen d)

def parseCol (toks : List String) : Option (Col × (Section → Section) × List Cell) :=
  match toks with
  | opsT :: nT :: rest => do
      let ops ← parseList parseOp opsT
      let n ← nT.toNat?
      if rest.length < n + 2 then none
      let secs ← (rest.take n).mapM parseSec
      let origT := rest.getD n "-"
      let pushedT := rest.getD (n + 1) "[]"
      let pushed ← parseList parseCell pushedT
      let dec : Section → Section ←
        if origT = "-" then pure (fun s => s) else do
          let o ← parseSec origT
          let s0 ← secs.head?
          pure (fun s => if s = s0 then o else s)
      pure (⟨pushed.length, ops, secs⟩, dec, pushed)
  | _ => none

def stepDec (raw : Bool) (toks : List String) : String :=
  match parseCol toks with
  | none => "bad-op\tbad-op"
  | some (c, dec, pushed) =>
    let m := decode2 dec c
    let q := decodeQ dec c
    if raw then showRaw m ++ "\tSKIP"
    else
      -- C01 says the query path returns what was pushed; if the spec model disagrees with the cells the harness
      -- pushed, the specification model itself is not validated: make that visible as a correspondence break.
      let qcells : Option (List Cell) := match q with | .ok v => some (cellsOf v) | .error _ => none
      let mtxt := if !builderShape c.ops then "NOT-A-BUILDER-SHAPE " ++ showVal m
        else if qcells = some pushed then showVal m else "SPEC-MODEL-DIFFERS-FROM-PUSHED " ++ showVal q
      mtxt ++ "\t" ++ showVal q

/-! `reb` lines -/

def parseVal (s : String) : Option SVal :=
  match s.splitOn "|" with
  | [ty, d, pm] => do
      let present : Option (List Nat) ← if pm = "-" then pure none else (parseBytesNat pm).map some
      if ty = "I64" || ty = "NI64" then (parseList parseInt? d).map fun x => ⟨.i64 x, present⟩
      else if ty = "F64" || ty = "NF64" then (parseList parseHexNat d).map fun x => ⟨.f64 x, present⟩
      else if ty = "Str" || ty = "NStr" then (parseList parseHexBytes? d).map fun x => ⟨.str x, present⟩
      else if ty = "Null" then d.toNat?.map fun n => ⟨.null n, none⟩
      else none
  | _ => none

open LM.Rebuild in
def stepReb (raw : Bool) (toks : List String) : String :=
  match toks with
  | _ :: vals =>
    match vals.mapM parseVal with
    | none => "bad-op\tbad-op"
    | some vs =>
      match pushAll {} vs with
      | .error _ => "panic\tpanic"
      | .ok b =>
        if raw then
          let kind := match b.kind with | .empty => "Empty" | .int => "Int" | .float => "Float" | .str => "String" | .other => "Mixed"
          s!"{kind} {b.length} " ++ (match b.present with | some p => showBytesNat p | none => "-") ++ "\tSKIP"
        else
          let spec := vs.flatMap cellsOf
          s!"{b.length} " ++ showList showCell b.cells ++ "\t" ++ s!"{spec.length} " ++ showList showCell spec
  | _ => "bad-op\tbad-op"

def step (line : String) : String :=
  match splitTokens line with
  | "dec" :: rest => stepDec false rest
  | "raw" :: rest => stepDec true rest
  | "reb" :: rest => stepReb false rest
  | "rebraw" :: rest => stepReb true rest
  | "hist" :: rest => LM.C07M.stepHist rest
  | _ => "bad-op\tbad-op"

end LM.DrvC07

def main : IO Unit := LM.Proto.runDriver LM.DrvC07.step
