import LocustModel.Proto
import LocustModel.Store.Crash
/-
  Driver for C09.  Input line (space separated tokens):

    crash <io> <cf> <ops> <trace> <at> <trunc> <nack> <infl> <mode> <rtrace> <j> <impl1> <impl>

  ops    `;`-separated: `I:<t>=<row>.<row>:<t>=…` | `F` | `F:<t>=<id>.<id>><newid>:…` (observed compactions) | `R`
  trace  `,`-separated callback tokens of the whole uncrashed run: `<l>.<file>`, l ∈ b c w s r (store) x X (delete),
         file = `m` | `w<id>` | `p:<table>:<id>:all` | `w<id>~` (temp name in wal/)
  at     crash point = number of callbacks seen (state after the first `at` effects); trunc = `-` | h | p | l
         (`created` snapshots with a strict prefix of the bytes in the temp file: all `torn` in the model)
  nack   number of ingest calls that had returned at the crash point; infl = 1 iff an ingest call was running
  mode   live | open | reopen | flush | l2 (with rtrace = the child's recovery callbacks, j = prefix length)
  impl1  output of the first open of the crash state;  impl = output of this case

  Output:  <model prediction> TAB <OK | BAD reason>
  (finding C09-wal-temp is fixed in /repo and mirrored in `LM.Crash.scanFilter`; no classifier is left here: a state with a
   temp file in wal/ that fails to open is a VIOLATION again)
-/
namespace LM.DrvC09
open LM LM.Proto LM.Crash

/-! ### tokens -/

def baseTok : Base → String
  | .catalogue => "m"
  | .wal k => s!"w{k}"
  | .part t id => s!"p:{t}:{id}:all"

def pathTok (p : Path) : String := baseTok p.base ++ (if p.tmp then "~" else "")

def effTok : Eff → String
  | .mkdir b => "b." ++ baseTok b
  | .create b => "c." ++ baseTok b
  | .write b _ => "w." ++ baseTok b
  | .sync b => "s." ++ baseTok b
  | .rename b => "r." ++ baseTok b
  | .rmBegin p => "x." ++ pathTok p
  | .remove p => "X." ++ pathTok p

/-- paths an effect may create (for directory listings) -/
def effKeys : Eff → List Path
  | .create b => [tmpP b]
  | .rename b => [finP b]
  | _ => []

/-! ### dump -/

def rowLt (a b : String) : Bool :=
  match a.toInt?, b.toInt? with
  | some x, some y => x < y
  | _, _ => a < b

def insertSorted (lt : String → String → Bool) (x : String) : List String → List String
  | [] => [x]
  | y :: ys => if lt x y then x :: y :: ys else y :: insertSorted lt x ys

def sortStrings (lt : String → String → Bool) (xs : List String) : List String := xs.foldr (insertSorted lt) []

def dumpContent (tables : List Tbl) (content : Tbl → List Row) : String :=
  let ts := sortStrings (fun a b => a < b) tables.eraseDups
  let parts := ts.filterMap fun t =>
    let rows := content t
    if rows.isEmpty then none else some (t ++ "=" ++ ",".intercalate (sortStrings rowLt rows))
  if parts.isEmpty then "empty" else ";".intercalate parts

def memTables (m : Mem) : List Tbl := (m.parts.map (·.pm.table) ++ tablesOfReqs m.pending).eraseDups

def dumpMem (m : Mem) : String := dumpContent (memTables m) m.content

def outcomeTok : Outcome → String
  | .hang => "hang"
  | .panic => "panic"

/-! ### ingest_efficient's catalogue rows (`create_if_empty_no_ingest`, `new_column_names`) — harness schema: columns id, v -/

def userCols : List String := ["id", "v"]

def augment (m : Mem) (user : List Share) : Req :=
  let metaRows := user.flatMap fun s =>
    (if (m.content s.table).isEmpty then [s.table] else []) ++
    (if (m.content ("_meta_columns_" ++ s.table)).isEmpty then ["_meta_columns_" ++ s.table] else [])
  let colShares := user.filterMap fun s =>
    let known := m.content ("_meta_columns_" ++ s.table)
    let newc := userCols.filter (fun c => ¬ c ∈ known)
    if newc.isEmpty then none else some (⟨"_meta_columns_" ++ s.table, newc⟩ : Share)
  ⟨user ++ (if metaRows.isEmpty then [] else [⟨"_meta_tables", metaRows⟩]) ++ colShares⟩

/-! ### parsing -/

inductive POp where
  | ingest (shares : List Share)
  | flush (comp : List (Tbl × List Nat × Nat))
  | restart

def parseShare (s : String) : Option Share :=
  match s.splitOn "=" with
  | [t, rows] => some ⟨t, (rows.splitOn ".").filter (· ≠ "")⟩
  | _ => none

def parseComp (s : String) : Option (Tbl × List Nat × Nat) :=
  match s.splitOn "=" with
  | [t, rest] =>
      match rest.splitOn ">" with
      | [ids, new] => do
          let ids ← (ids.splitOn ".").mapM (·.toNat?)
          let n ← new.toNat?
          pure (t, ids, n)
      | _ => none
  | _ => none

def parseOp (s : String) : Option POp :=
  match s.splitOn ":" with
  | ["R"] => some .restart
  | "F" :: comps => (comps.mapM parseComp).map .flush
  | "I" :: shares => (shares.mapM parseShare).map .ingest
  | _ => none

def parseTrace (s : String) : List String := if s = "[]" then [] else s.splitOn ","

/-! ### simulation of the uncrashed run against the observed trace -/

structure Sim where
  fs : FS := FS.empty
  keys : List Path := []
  mem : Mem := Mem.fresh
  consumed : Nat := 0
  crash : Option (FS × List Path) := none     -- state after `at` effects
  at_ : Nat
  obs : Array String

def Sim.applyOne (s : Sim) (e : Eff) : Sim :=
  let fs := applyEff s.fs e
  let keys := effKeys e ++ s.keys
  let n := s.consumed + 1
  { s with fs := fs, keys := keys, consumed := n, crash := if n = s.at_ then some (fs, keys) else s.crash }

/-- Match the tasks of one phase against the observed tokens.  `conc = false`: tasks run one after the other in some order;
    `conc = true`: any interleaving.  Stops quietly when the observed trace ends. -/
partial def runPool (s : Sim) (tasks : List (List Eff)) (conc : Bool) (cur : Option Nat) : Except String Sim :=
  if tasks.all (·.isEmpty) then .ok s
  else if s.consumed ≥ s.obs.size then .ok s
  else
    let tok := s.obs[s.consumed]!
    let idxs := List.range tasks.length
    let cand := idxs.filter fun i =>
      match tasks[i]! with
      | e :: _ => effTok e == tok && (conc || cur.isNone || cur == some i)
      | [] => false
    match cand with
    | i :: _ =>
        match tasks[i]! with
        | e :: rest =>
            let tasks' := tasks.set i rest
            runPool (s.applyOne e) tasks' conc (if rest.isEmpty then none else some i)
        | [] => .error "internal"
    | [] => .error s!"trace-mismatch@{s.consumed + 1}:{tok}"

def runPhases (s : Sim) (phs : List Phase) (io : Nat) : Except String Sim :=
  phs.foldlM (fun s ph =>
    let conc := match ph.kind with
      | .persist | .gcParts | .gcWal => io > 1
      | _ => false
    runPool s (ph.tasks.map (·.effs)) conc none) s

def listing (fs : FS) (keys : List Path) : List Path :=
  keys.eraseDups.filter fun p => inWalDir p && (fs p).isSome

/-- Recovery as a program: scan, deletions (effects), new memory. -/
def simRecover (s : Sim) (io : Nat) : Except String Sim :=
  match recover s.fs (listing s.fs s.keys) with
  | .error o => .error ("open-" ++ outcomeTok o)
  | .ok (m, dels) => do
      let s ← runPhases s [recoverPhase dels] io
      pure { s with mem := m }

def simOp (io : Nat) (s : Sim) (op : POp) : Except String Sim :=
  if s.consumed ≥ s.obs.size ∧ s.obs.size > 0 ∧ false then .ok s else
  match op with
  | .ingest user =>
      let r := augment s.mem user
      let (phs, m') := ingestPlan s.mem r
      do let s ← runPhases s phs io
         pure { s with mem := m' }
  | .flush comp =>
      match flushPlan s.mem (comp.map fun (t, ids, _) => (t, ids)) with
      | none => .error "bad-compaction"
      | some (phs, m') =>
          do let s ← runPhases s phs io
             pure { s with mem := m' }
  | .restart => simRecover s io

def simulate (io : Nat) (ops : List POp) (obs : List String) (at_ : Nat) : Except String Sim := do
  let s0 : Sim := { at_ := at_, obs := obs.toArray }
  let s0 := { s0 with crash := if at_ = 0 then some (s0.fs, s0.keys) else none }
  let s ← simRecover s0 io
  let s ← ops.foldlM (simOp io) s
  if s.consumed < s.obs.size then .error s!"trace-mismatch@{s.consumed + 1}:{s.obs[s.consumed]!}" else pure s

/-! ### second level: recovery of a crash state, crashed again -/

/-- Apply the first `j` effects of the observed recovery trace, checking that it is an interleaving of the predicted
    deletions (stale temp files of wal/, obsolete segments). -/
def recoveryPrefix (fs : FS) (dels : List Path) (rtrace : List String) (j : Nat) : Except String FS := do
  let s0 : Sim := { fs := fs, at_ := j, obs := rtrace.toArray, crash := if j = 0 then some (fs, []) else none }
  let s ← runPool s0 ((recoverPhase dels).tasks.map (·.effs)) true none
  if s.consumed < s.obs.size then .error s!"rtrace-mismatch@{s.consumed + 1}" else
  match s.crash with
  | some (fs', _) => pure fs'
  | none => .error "rtrace-short"

/-- A flush of the recovered database (no compaction decision is observed: only completion and content matter).
    `remove_file` on a missing file fails and `delete(..).unwrap()` panics on the flush thread. -/
def flushCompletes (fs : FS) (m : Mem) : Bool :=
  (List.range' m.cursor (m.nextWal - m.cursor)).all fun k => (fs (finP (.wal k))).isSome

/-! ### specification side: what the acknowledged requests contain -/

/-- The requests as the client sees them, with the catalogue rows of tables seen for the first time. -/
def specReqs (ops : List POp) : List Req :=
  let step (acc : List Req × List Tbl) (op : POp) : List Req × List Tbl :=
    match op with
    | .ingest user =>
        let (reqs, seen) := acc
        let newT := (user.map (·.table)).eraseDups.filter (fun t => ¬ t ∈ seen)
        let metaRows := newT.flatMap fun t => [t, "_meta_columns_" ++ t]
        let colShares := newT.map fun t => (⟨"_meta_columns_" ++ t, userCols⟩ : Share)
        (reqs ++ [⟨user ++ (if metaRows.isEmpty then [] else [⟨"_meta_tables", metaRows⟩]) ++ colShares⟩], seen ++ newT)
    | _ => acc
  (ops.foldl step ([], [])).1

def dumpReqs (rs : List Req) : String := dumpContent (tablesOfReqs rs) (ackedRows rs)

def judge (ops : List POp) (nack infl : Nat) (mode impl1 impl : String) : String :=
  let reqs := specReqs ops
  let a := dumpReqs (reqs.take nack)
  let b := if infl = 1 then dumpReqs (reqs.take (nack + 1)) else a
  let okContent (d : String) : Bool := d == a || d == b
  if mode = "live" then (if impl == a then "OK" else "BAD live content differs from the acknowledged requests")
  else if impl == "hang" then "BAD recovery does not terminate"
  else if impl == "panic" then "BAD recovery panics"
  else if mode = "flush" then
    match impl.splitOn "|" with
    | [d1, fl, d2, d3] =>
        if ¬ okContent d1 then "BAD content after recovery is neither acked nor acked+inflight"
        else if fl ≠ "ok" then "BAD flush after recovery fails: " ++ fl
        else if d2 ≠ d1 ∨ d3 ≠ d1 then "BAD content changes after a post-recovery flush"
        else "OK"
    | _ => "BAD malformed"
  else if ¬ okContent impl then "BAD content after recovery is neither acked nor acked+inflight"
  else if (mode = "reopen" ∨ mode = "l2") ∧ impl ≠ impl1 then "BAD recovering again changed the content"
  else "OK"

/-! ### one case -/

/-- `delete_wal_segments`: with `io_threads > 1` the failing `delete(..).unwrap()` runs in a pool job (swallowed panic, the
    flush waits forever); otherwise it panics on the flush thread and `force_flush` fails in the caller. -/
def flushFailTok (io : Nat) : String := if io > 1 then "hang" else "panic"

def predict (io : Nat) (ops : List POp) (obs : List String) (at_ : Nat) (mode : String) (rtrace : List String) (j : Nat) :
    String :=
  match simulate io ops obs at_ with
  | .error e => e
  | .ok s =>
      if mode = "live" then dumpMem s.mem else
      match s.crash with
      | none => "no-crash-state"
      | some (fs, keys) =>
          let ls := listing fs keys
          match recover fs ls with
          | .error o => outcomeTok o
          | .ok (m, dels) =>
              let d1 := dumpMem m
              if mode = "open" then d1
              else if mode = "reopen" then
                let fs' := applyEffs fs ((recoverPhase dels).tasks.flatMap (·.effs))
                match recover fs' (listing fs' keys) with
                | .error o => outcomeTok o
                | .ok (m', _) => dumpMem m'
              else if mode = "l2" then
                match recoveryPrefix fs dels rtrace j with
                | .error e => e
                | .ok fs' =>
                    match recover fs' (listing fs' keys) with
                    | .error o => outcomeTok o
                    | .ok (m', _) => dumpMem m'
              else if mode = "flush" then
                let fs' := applyEffs fs ((recoverPhase dels).tasks.flatMap (·.effs))
                if flushCompletes fs' m then s!"{d1}|ok|{d1}|{d1}"
                else s!"{d1}|{flushFailTok io}|?|?"
              else "bad-mode"

def step (line : String) : String :=
  match splitTokens line with
  | ["crash", io, _cf, ops, trace, at_, _trunc, nack, infl, mode, rtrace, j, impl1, impl] =>
      match io.toNat?, (ops.splitOn ";").mapM parseOp, at_.toNat?, nack.toNat?, infl.toNat?, j.toNat? with
      | some io, some ops, some at_, some nack, some infl, some j =>
          let model := predict io ops (parseTrace trace) at_ mode (parseTrace rtrace) j
          let spec := judge ops nack infl mode impl1 impl
          model ++ "\t" ++ spec
      | _, _, _, _, _, _ => "bad-op\tbad-op"
  | _ => "bad-op\tbad-op"

end LM.DrvC09

def main : IO Unit := LM.Proto.runDriver LM.DrvC09.step
