import LocustModel.Proto
/- Driver stub for C09 (replaced when the property's model is built). -/
def main : IO Unit := LM.Proto.runDriver fun _ => "?\t?"
