import LocustModel.Proto
import LocustModel.Disk.Routing
import LocustModel.Disk.DiskProto
import LocustModel.Disk.ReadState
/-
  Driver for C15.  One input line → `<model> TAB <spec>`.

    sub <max> <U> <cols> <queries>        cols: `name:size,…` | `[]`; U: `u` + dotted hex scalars that Rust classifies as
                                          lowercase ∧ alphanumeric (non-ASCII only); queries: names
        model = `m=<key>|<size>|<last>;… g=<name>,…;… r=<key|_>,…`   (metadata, groups, routed key per query)
        spec  = `?` (structure is not prescribed by the property; the `lookup` line carries the oracle)
    lookup <max> <U> <cols> <queries>     same input
        model = spec = per query `f` (found: the routed file contains a column of that name) | `a` (absent)
        spec: `f` exactly for the names of the partition.  The model side runs `loadColumn` over `writeSubpartitions`.
    san <name> <impl-result>              model = `sanitize`; spec = OK | BAD <why> judged on the implementation's result
    sanpair <a> <b> <ra> <rb>             spec: BAD if a ≠ b but ra = rb (two tables share a directory)
    fname <id> <key>                      model = spec = `partitionFilename`
    safe <U> <name>                       model = `isFilesystemSafe` as `true|false`; spec `?`
    lower <from> <to>                     model = scalars in [from, to) whose lower-casing leaves a retained character,
                                          as `<scalar>><retained name>,…`; spec `?`
    paths <table> <id>:<key>,…            model = spec = sorted `dir/file` names expected under `tables/`
    dirclash <t1> <id>:<key>,… <t2>       model = `clash` if the directory of table t2 is also a file of table t1, else `ok`;
                                          implementation = `clash` if flushing t2 after t1 fails; spec = `ok`
                                          (witness of the fixed finding C15-empty-table-name, kept in the corpus)
    reads <id> <key>|<last>|<col,…>;… <written cols> <ops> :: <impl>
                                          files of ONE partition in catalogue order (key, last_column, the column names the
                                          file holds on disk), the names written, ops `g<name>` (SELECT that column) | `E`
                                          (`evict_cache`); impl/model = per op `f<k>` (the stored values came back) | `a<k>` (all
                                          NULL) with k = files opened by that query (`QueryStats.files_opened`) | `E`;
                                          model = `runOps` of `Disk/ReadState.lean` from a fresh state; spec judges f/a only.
    keys <U> <id> <last,…> :: <key,…>     catalogue of one partition after a real flush: model = `keyOf` of every `last_column`
                                          (`all` for a single file); spec: keys distinct, no `/`/NUL, file name and the
                                          temporary name of the atomic write ≤ 255 bytes
    echo <text>                           model = `?`, spec = text (API-level oracle computed by the harness)
-/
namespace LM.DrvC15
open LM LM.Proto LM.Routing LM.DiskProto

def parseU (s : String) : Option (Nat → Bool) :=
  match s.toList with
  | 'u' :: rest =>
      if rest.isEmpty then some fun _ => false
      else (((String.ofList rest).splitOn ".").mapM hexNat?).map fun l => fun c => l.contains c
  | _ => none

def parseCol (s : String) : Option (Col Unit) :=
  match s.splitOn ":" with
  | [n, sz] => do
      let name ← parseName? n
      let size ← sz.toNat?
      pure ⟨name, size, ()⟩
  | _ => none

def showMeta (m : SubMeta) : String := showName m.key ++ "|" ++ toString m.sizeBytes ++ "|" ++ showName m.lastColumn

def semi (xs : List String) : String := if xs.isEmpty then "[]" else ";".intercalate xs

def parseSub (toks : List String) : Option (Nat × (Nat → Bool) × List (Col Unit) × List Name) :=
  match toks with
  | [mx, u, cols, qs] => do
      let max ← mx.toNat?
      let U ← parseU u
      let cs ← parseList parseCol cols
      let q ← parseNameList? qs
      pure (max, U, cs, q)
  | _ => none

def allowedB (c : Nat) : Bool :=
  (97 ≤ c && c ≤ 122) || (48 ≤ c && c ≤ 57) || c == 95 || c == 45 || c == 46

/-- The oracle for a sanitised directory name (the conjuncts of `C15_sanitize_safe`). -/
def judgeSan (t r : Name) : String :=
  if !(r.all allowedB) then "BAD character outside [a-z0-9_.-]"
  else if r.length > 255 then "BAD longer than 255 bytes"
  else if r.head? == some 46 then "BAD starts with a dot"
  else if r.isEmpty then "BAD empty directory name"
  else if r.head? == some 45 && r.length < 66 then "BAD leading dash outside the hash form"
  else "OK"

/-- The oracle for the keys of one partition: pairwise distinct, one path component each, and both the file name
    `{:05}_{key}.part` and the temporary name of the atomic write (`path.with_extension(".INCOMPLETE")`, i.e.
    `{:05}_{key}..INCOMPLETE`, 7 bytes longer) fit the 255-byte file-name limit. -/
def judgeKeys (id : Nat) (keys : List Name) : String :=
  if keys.eraseDups.length ≠ keys.length then "BAD two files of one partition share a key"
  else match keys.find? (fun k => k.contains 47 || k.contains 0) with
    | some _ => "BAD key contains a path separator or NUL"
    | none =>
      match keys.find? (fun k => byteLen (partitionFilename id k) + 7 > 255) with
      | some k => s!"BAD file name of {byteLen (partitionFilename id k) + 7} bytes (key {byteLen k} bytes) exceeds the 255-byte limit"
      | none => "OK"

def parseParts (s : String) : Option (List (Nat × Name)) :=
  parseList (fun s => match s.splitOn ":" with
                      | [i, k] => do pure ((← i.toNat?), (← parseName? k))
                      | _ => none) s

def parseFile (s : String) : Option (SubMeta × List (Col Unit)) :=
  match s.splitOn "|" with
  | [k, l, cs] => do
      let key ← parseName? k
      let last ← parseName? l
      let names ← parseNameList? cs
      pure ({ key := key, sizeBytes := 0, lastColumn := last }, names.map fun n => ⟨n, 0, ()⟩)
  | _ => none

def parseROp (s : String) : Option ROp :=
  match s.toList with
  | ['E'] => some .evictAll
  | 'g' :: rest => (parseName? (String.ofList rest)).map .get
  | _ => none

/-- Run the read-side machine op by op, reporting for every `get` whether a column came back and how many files
    the step loaded (the `loaded` list grows by one entry per load). -/
def readsModel (fs : Files Unit) (id : Nat) (metas : List SubMeta) : RState Unit → List ROp → List String
  | _, [] => []
  | st, .get name :: rest =>
    match getCol fs id metas st name with
    | .error f => ["panic:" ++ toString f]
    | .ok (r, st') =>
      ((if r.isSome then "f" else "a") ++ toString (st'.loaded.length - st.loaded.length)) :: readsModel fs id metas st' rest
  | st, .evict name :: rest => "e" :: readsModel fs id metas (evict st name) rest
  | st, .evictAll :: rest => "E" :: readsModel fs id metas (evictAll st) rest

def readsSpec (written : List Name) (ops : List ROp) (impl : String) : String :=
  let outs := if impl = "[]" then [] else impl.splitOn ","
  if outs.length ≠ ops.length then "BAD number of answers"
  else
    match (ops.zip outs).find? (fun (op, o) =>
        match op with
        | .get name => (o.take 1).toString ≠ (if written.contains name then "f" else "a")
        | _ => false) with
    | some (.get name, o) =>
      if written.contains name then s!"BAD stored column {showName name} read back as {o}"
      else s!"BAD absent column {showName name} answered {o}"
    | _ => "OK"

def splitImpl (line : String) : String × String :=
  match line.trimAscii.toString.splitOn " :: " with
  | [a] => (a, "")
  | a :: rest => (a, " :: ".intercalate rest)
  | [] => ("", "")

/-- Classifier of the open finding `C15-colname-leading-quote` (SQL parser strips the first and last character of a
    column name that begins with a quote character): at least one answer to a `SELECT` of a name that begins with a
    backtick (0x60) or a double quote (0x22) differs from the model, and every OTHER differing answer agrees with the
    model on found / absent and differs only in the number of files opened (the mangled name made the database load
    a different file earlier, which shifts later file-open counts). -/
def quoteLeadOnly (ops : List ROp) (model : List String) (impl : String) : Bool :=
  let outs := if impl = "[]" then [] else impl.splitOn ","
  if outs.length ≠ ops.length ∨ model.length ≠ ops.length then false
  else
    let diffs := ((ops.zip model).zip outs).filter fun ((_, m), o) => m ≠ o
    let quoteLead : ROp → Bool
      | .get (c :: _) => c == 0x60 || c == 0x22
      | _ => false
    diffs.any (fun ((op, _), _) => quoteLead op) &&
      diffs.all fun ((op, m), o) => quoteLead op || (m.take 1).toString == (o.take 1).toString

def stepReads (toks : List String) (impl : String) : String :=
  match toks with
  | [id, files, written, ops] =>
    match id.toNat?, (if files = "[]" then some [] else (files.splitOn ";").mapM parseFile), parseNameList? written,
        parseList parseROp ops with
    | some id, some fl, some written, some ops =>
      let metas := fl.map (·.1)
      let fs := writeSubpartitions ([] : Files Unit) id metas (fl.map (·.2))
      let model := readsModel fs id metas RState.init ops
      showList id' model ++ "\t" ++ readsSpec written ops impl ++
        (if quoteLeadOnly ops model impl then "\tC15-colname-leading-quote" else "")
    | _, _, _, _ => "bad-op\tbad-op"
  | _ => "bad-op\tbad-op"
where id' (s : String) : String := s

def step (line0 : String) : String :=
  let (line, impl) := splitImpl line0
  match splitTokens line with
  | "reads" :: rest => stepReads rest impl
  | "sub" :: rest =>
      match parseSub rest with
      | some (max, U, cols, qs) =>
          let (metas, groups) := subpartition shaName U max cols
          let m := semi (metas.map showMeta)
          let g := semi (groups.map fun g => showList showName (g.map (·.name)))
          let r := showList (fun q => showOpt showName (route metas q)) qs
          s!"m={m} g={g} r={r}\t?"
      | none => "bad-op\tbad-op"
  | "lookup" :: rest =>
      match parseSub rest with
      | some (max, U, cols, qs) =>
          let (metas, groups) := subpartition shaName U max cols
          let fs := writeSubpartitions ([] : Files Unit) 7 metas groups
          let got := showList (fun q => match loadColumn fs 7 metas q with | some _ => "f" | none => "a") qs
          let want := showList (fun q => if (cols.map (·.name)).contains q then "f" else "a") qs
          s!"{got}\t{want}"
      | none => "bad-op\tbad-op"
  | ["san", t, r] =>
      match parseName? t, parseName? r with
      | some t, some r =>
          showName (sanitize shaName t) ++ "\t" ++ judgeSan t r
      | _, _ => "bad-op\tbad-op"
  | ["sanpair", a, b, ra, rb] =>
      match parseName? a, parseName? b, parseName? ra, parseName? rb with
      | some a, some b, some ra, some rb =>
          let m := showName (sanitize shaName a) ++ "," ++ showName (sanitize shaName b)
          m ++ "\t" ++ (if a ≠ b ∧ ra = rb then "BAD two table names share a directory" else "OK")
      | _, _, _, _ => "bad-op\tbad-op"
  | ["fname", id, k] =>
      match id.toNat?, parseName? k with
      | some id, some k => let f := showName (partitionFilename id k); f ++ "\t" ++ f
      | _, _ => "bad-op\tbad-op"
  | ["safe", u, n] =>
      match parseU u, parseName? n with
      | some U, some n => toString (isFilesystemSafe U n) ++ "\t?"
      | _, _ => "bad-op\tbad-op"
  | ["lower", a, b] =>
      match a.toNat?, b.toNat? with
      | some a, some b =>
          let hits := (List.range (b - a)).filterMap fun i =>
            let c := a + i
            let r := lowerRetain c
            if r.isEmpty then none else some (toHex c ++ ">" ++ showName r)
          showList id hits ++ "\t?"
      | _, _ => "bad-op\tbad-op"
  | ["paths", t, parts] =>
      match parseName? t, parseList (fun s => match s.splitOn ":" with
                                              | [i, k] => do pure ((← i.toNat?), (← parseName? k))
                                              | _ => none) parts with
      | some t, some ps =>
          let dir := sanitize shaName t
          let files := ps.map fun (i, k) => showName (dir ++ [47] ++ partitionFilename i k)
          let out := showList id (files.toArray.qsort (· < ·)).toList
          out ++ "\t" ++ out
      | _, _ => "bad-op\tbad-op"
  | ["dirclash", t1, parts, t2] =>
      -- does the directory of table t2 coincide with a file of table t1 (possible only if t1's directory name is empty)?
      match parseName? t1, parseParts parts, parseName? t2 with
      | some t1, some ps, some t2 =>
          let d1 := sanitize shaName t1
          let files := ps.map fun (i, k) => if d1.isEmpty then partitionFilename i k else d1 ++ [47] ++ partitionFilename i k
          let clash := files.contains (sanitize shaName t2)
          (if clash then "clash" else "ok") ++ "\t" ++
            (if clash then "BAD two tables contend for one path" else "ok")
      | _, _, _ => "bad-op\tbad-op"
  | ["keys", u, id, lasts] =>
      -- the catalogue of a partition written by a real flush: `last_column` of every file :: its `subpartition_key`
      match parseU u, id.toNat?, parseNameList? lasts, parseNameList? impl with
      | some U, some id, some ls, some ks =>
          let model := match ls with
            | [_] => [allKey]
            | _ => ls.map (keyOf shaName U)
          showList showName model ++ "\t" ++ judgeKeys id ks
      | _, _, _, _ => "bad-op\tbad-op"
  | "echo" :: rest => "?\t" ++ " ".intercalate rest
  | _ => "bad-op\tbad-op"

end LM.DrvC15

def main : IO Unit := LM.Proto.runDriver LM.DrvC15.step
