import LocustModel.Proto
import LocustModel.Conc.Place
/-
  Driver for C10.  Input lines (harness/src/bin/c10.rs), `key=value` tokens after the two head tokens:
    place <label> st= ev= cf= pre= buf= x= two= mid= q= ing2= comp= hit= q1= i2= q2= fl= fin=
    hold  <upto>  st= ev= rs= cf= pre= buf= x= mid= q= comp= hit= qh= fl= fin=
    stress th= in= qr= st= mode= nq= bad= badq= first= fl= fin=
  Output:  <model> TAB <spec> [TAB <known-finding-id>]
    model  place: `q1=… i2=… q2=… fl=… fin=…`, hold: `qh=… fl=… fin=…` — what the interleaving model (Conc/Flush: content,
           Conc/Cols: column lookups) predicts.  Up to and including the first predicted query fault the fields are
           predictions; after a fault a worker thread is gone and the rest depends on the scheduler (C11's model), so the
           remaining fields repeat the observation.  `?` for stress lines, unreached labels and undetermined scenarios.
    spec   `OK` / `BAD <why>`: every query answer must be `ok` with exactly the rows of the first k batches of the
           ingestion order, k ≥ the number of batches acknowledged before the query began (each batch whole, none twice);
           the second ingestion must complete; after release the flush completes and the final query shows everything.
    known  id of the open finding whose classifier covers the case.
-/
namespace LM.DrvC10
open LM LM.Proto LM.Conc.Flush LM.Conc.Cols LM.Conc.Place

def kv (toks : List String) (k : String) : Option String :=
  toks.findSome? fun t =>
    match t.splitOn "=" with
    | key :: rest => if key = k ∧ ¬ rest.isEmpty then some ("=".intercalate rest) else none
    | _ => none

def kvD (toks : List String) (k : String) (d : String := "_") : String := (kv toks k).getD d

def parseSizes (s : String) : List Nat := if s = "[]" ∨ s = "_" then [] else (s.splitOn ",").filterMap String.toNat?

def parseQ (s : String) : Option QKind :=
  if s = "present" then some .present else if s = "absent" then some .absent
  else if s = "star" then some .star else if s = "extra" then some .extra else none

/-- label → (stage, names table u) -/
def parseStage (label : String) : Option (Stage × Bool) :=
  let other := label.endsWith ":u"
  let base := if label.endsWith ":t" ∨ label.endsWith ":u" then (label.dropEnd 2).toString else label
  let st : Option Stage :=
    if base = "flush:freeze:before" then some .freezeBefore
    else if base = "flush:freeze:after" then some .freezeAfter
    else if base = "flush:batch:taken" then some .batchTaken
    else if base = "flush:compact:swap:mid" then some .swapMid
    else if base = "flush:batch:after" then some .batchAfter
    else if base = "flush:handles:after" then some .handlesAfter
    else if base = "flush:batching:done" then some .batchingDone
    else if base = "flush:persist:files" then some .persistFiles
    else if base = "flush:persist:after" then some .persistAfter
    else if base = "flush:compact:swap:before" then some .swapBefore
    else if base = "flush:compact:swap:after" then some .swapAfter
    else if base = "flush:compact:files" then some .compactFiles
    else if base = "flush:compact:prepare:after" then some .prepareAfter
    else if base = "flush:compaction:done" then some .compactionDone
    else if base = "flush:meta:after" then some .metaAfter
    else if base = "flush:gc:partitions:after" then some .gcParts
    else if base = "flush:gc:wal:after" then some .gcWal
    else if base = "ingest:locked" then some .ingestLocked
    else if base = "ingest:done" then some .ingestDone
    else if base = "done" then some .done
    else none
  st.map (·, other)

def parseScen (hold : Bool) (label : String) (toks : List String) : Option Scen := do
  let (stage, other) ← parseStage label
  let q ← parseQ (kvD toks "q")
  pure { hold := hold, stage := stage, otherTable := other, disk := kvD toks "st" = "disk", ev := kvD toks "ev" = "1",
         rs := kvD toks "rs" = "1", pre := parseSizes (kvD toks "pre"), buf := parseSizes (kvD toks "buf"),
         x := kvD toks "x" = "1", two := kvD toks "two" = "1", midEvict := kvD toks "mid" = "evict", q := q,
         ing2 := (kvD toks "ing2").toNat?, comp := ((kvD toks "comp").toNat?).getD 0 }

/-! ## Specification (a relation on the observed answers) -/

/-- `ok:<n>:<b.i,…>` → the cells. -/
def parseOk (res : String) : Option (List String) :=
  match res.splitOn ":" with
  | ["ok", n, cells] =>
      let cs := if cells = "" then [] else cells.splitOn ","
      if n.toNat? = some cs.length then some cs else none
  | _ => none

def cellsOf (sizes : List Nat) (k : Nat) : List String :=
  (List.range k).flatMap fun i => (List.range (sizes.getD i 0)).map fun r => toString (i + 1) ++ "." ++ toString r

/-- The answer is exactly the first k batches, for some `lo ≤ k ≤ sizes.length`. -/
def judge (sizes : List Nat) (lo : Nat) (res : String) : Option String :=
  match parseOk res with
  | none => some ("query-failed:" ++ ((res.splitOn ":").headD res))
  | some cells =>
      if (List.range (sizes.length + 1)).any (fun k => lo ≤ k ∧ cells = cellsOf sizes k) then none
      else
        -- say what is wrong
        if cells.eraseDups.length ≠ cells.length then some "row-twice"
        else if (cellsOf sizes lo).any (fun c => ¬ cells.contains c) then some "acknowledged-row-missing"
        else if cells.any (fun c => ¬ (cellsOf sizes sizes.length).contains c) then some "unknown-row"
        else some "not-a-batch-whole-prefix"

def specPlace (sc : Scen) (toks : List String) : String :=
  let isIngest := sc.stage = .ingestLocked ∨ sc.stage = .ingestDone
  let base := sc.pre ++ sc.buf
  let i2 := kvD toks "i2"
  let issued : List Nat :=
    if isIngest then base ++ [sc.ing2.getD 2]
    else match sc.ing2 with
      | some n => if i2 = "_" then base else base ++ [n]
      | none => base
  let hit := kvD toks "hit" = "1"
  let errs : List String :=
    (if hit then
      (if kvD toks "q1" = "blocked" then [] else ((judge issued base.length (kvD toks "q1")).map ("q1:" ++ ·)).toList)
      ++ (if kvD toks "q2" = "_" then [] else
            ((judge issued (if isIngest ∨ i2 ≠ "ok" then base.length else issued.length) (kvD toks "q2")).map ("q2:" ++ ·)).toList)
      ++ (if i2 = "hang" ∨ i2 = "panic" then ["second-ingestion:" ++ i2] else [])
     else [])
    ++ (if kvD toks "fl" = "ok" then [] else ["parked-operation:" ++ kvD toks "fl"])
    ++ ((judge issued issued.length (kvD toks "fin")).map ("final:" ++ ·)).toList
  if errs.isEmpty then "OK" else "BAD " ++ ";".intercalate errs

def specHold (sc : Scen) (toks : List String) : String :=
  let base := sc.pre ++ sc.buf
  let errs : List String :=
    (if kvD toks "hit" = "1" then ((judge base base.length (kvD toks "qh")).map ("held-query:" ++ ·)).toList else [])
    ++ (if kvD toks "fl" = "ok" then [] else ["flush:" ++ kvD toks "fl"])
    ++ ((judge base base.length (kvD toks "fin")).map ("final:" ++ ·)).toList
  if errs.isEmpty then "OK" else "BAD " ++ ";".intercalate errs

def specStress (toks : List String) : String :=
  let errs : List String :=
    (if kvD toks "bad" = "0" then [] else ["queries:" ++ kvD toks "bad" ++ ":first=" ++ kvD toks "first"])
    ++ (if kvD toks "fl" = "ok" then [] else ["flush:" ++ kvD toks "fl"])
    ++ (if kvD toks "fin" = "ok" then [] else ["final:" ++ kvD toks "fin"])
  if errs.isEmpty then "OK" else "BAD " ++ ";".intercalate errs

/-! ## Model column -/

def isFault (s : String) : Bool := ¬ (s.startsWith "ok:") ∧ s ≠ "_" ∧ s ≠ "ok" ∧ s ≠ "blocked" ∧ s ≠ "flushed"

/-- Predicted fields up to and including the first predicted fault; the observation after it. -/
def render (fields : List (String × String)) (toks : List String) : String :=
  let rec go : List (String × String) → Bool → List String
    | [], _ => []
    | (k, v) :: rest, faulted =>
        if faulted then (k ++ "=" ++ kvD toks k) :: go rest true
        else (k ++ "=" ++ v) :: go rest (isFault v)
  " ".intercalate (go fields false)

def knownId : String := "c10-uncatalogued-partition-lookup"

def step (line : String) : String :=
  match splitTokens line with
  | "place" :: label :: toks =>
      match parseScen false label toks with
      | none => "bad-line\tbad-line"
      | some sc =>
          let p := predictPlace sc
          let spec := specPlace sc toks
          let model :=
            if p.stuck then "model-stuck"
            else if kvD toks "hit" ≠ "1" then "?"
            else render [("q1", p.q1), ("i2", p.i2), ("q2", p.q2), ("fl", p.fl), ("fin", p.fin)] toks
          model ++ "\t" ++ spec ++ (if p.faultPredicted ∧ sc.disk then "\t" ++ knownId else "")
  | "hold" :: label :: toks =>
      match parseScen true label toks with
      | none => "bad-line\tbad-line"
      | some sc =>
          let p := predictHold sc
          let spec := specHold sc toks
          let model :=
            if p.stuck then "model-stuck"
            else if kvD toks "hit" ≠ "1" ∨ p.undetermined then "?"
            else render [("qh", p.qh), ("fl", p.fl), ("fin", p.fin)] toks
          model ++ "\t" ++ spec ++ (if p.faultPredicted ∧ sc.disk then "\t" ++ knownId else "")
  | "stress" :: toks =>
      -- judged by the specification only.  On a disk-backed database with evictions and queries for columns some
      -- partitions lack, the open finding can strike at a random moment: covered only if EVERY bad verdict is a failed
      -- query (never a wrong content) — a torn, duplicated or missing row is never excused.
      let covered := kvD toks "st" = "disk" ∧ kvD toks "mode" = "rough" ∧ kvD toks "bad" ≠ "0" ∧ kvD toks "bad" = kvD toks "badq"
        ∧ ¬ ((kvD toks "fin").startsWith "bad:") ∨ (kvD toks "st" = "disk" ∧ kvD toks "mode" = "rough" ∧ kvD toks "bad" ≠ "0"
            ∧ kvD toks "bad" = kvD toks "badq" ∧ ((kvD toks "fin") = "bad:hang" ∨ (kvD toks "fin") = "bad:err:canceled"))
      "?\t" ++ specStress toks ++ (if covered then "\t" ++ knownId else "")
  | "lost" :: _ => "?\tBAD harness-child-lost"
  | _ => "bad-line\tbad-line"

end LM.DrvC10

def main : IO Unit := LM.Proto.runDriver LM.DrvC10.step
