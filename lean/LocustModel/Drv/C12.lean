import LocustModel.Proto
import LocustModel.Query.NormProto
/-
  Driver for C12.  One line in, `<model> TAB <spec> [TAB <known-finding-id>]` out.

    front <parsed> ## <status>
        the real `parse_query` + `Query::normalize` on the statement whose mirrored syntax tree is <parsed>;
        <status> = ok | err | panic (what the implementation did).
        model  = `ok <Query dump> # <normal-form dump>` | `ok <Query dump> # err:<kind>` | `err:<kind>` | `panic`
        spec   = BAD iff the implementation panicked.
    run <exists01> <meta: m | n | l<hexnames>> <partitions> <rows> <hexcolumns> <rowformat01> <parsed> ## <obs>
        the real `run_query`.  <obs> = err:<kind> | panic | hang | ok <hexnames> <ncols> (<hexname>=<cells>)* R<rows|->
        model  = `err:<kind>` (front-end error value) | `ok n=<names> c=<#columns> r=<#rows>` | `?` (the
                 implementation returned an execution-stage error value, which this model does not predict)
        spec   = OK | BAD <reason>: never panic / hang / Canceled; unknown table ⇒ error value; a result is
                 `WellFormed` for the select list and LIMIT written in the statement; unknown column ⇒ NULLs.
    mut ## <obs>
        byte-level mutation of a statement (no tree): model `?`, spec = shape of the answer only.
-/
namespace LM.DrvC12
open LM LM.Proto LM.Norm LM.NormProto

/-! ### Observed answers -/

inductive Obs where
  | err (kind : String)
  | panic
  | hang
  | ok (out : Output String)

def parseNames (t : String) : Option (List String) := parseList hexToString t

def parseCellList (t : String) : Option (List String) :=
  if t = "[]" then some [] else some (t.splitOn ",")

def parseObsCol (t : String) : Option (String × List String) :=
  match t.splitOn "=" with
  | [n, cells] => do
      let name ← hexToString n
      let cs ← parseCellList cells
      pure (name, cs)
  | _ => none

def parseObsRows (t : String) : Option (Option (List (List String))) :=
  match t.toList with
  | 'R' :: rest =>
      let r := String.ofList rest
      if r = "-" then some none
      else if r = "[]" then some (some [])
      else some (some ((r.splitOn ";").map fun row => if row = "()" then [] else row.splitOn ","))
  | _ => none

/-- Observation plus the message of the last panic on any thread of the harness process (empty if none). -/
def parseObs (ts : List String) : Option (Obs × String) :=
  match ts with
  | "ok" :: names :: ncols :: rest => do
      let colnames ← parseNames names
      let n ← ncols.toNat?
      if rest.length ≠ n + 1 then none else
      let cols ← (rest.take n).mapM parseObsCol
      let rows ← parseObsRows (rest.getD n "")
      pure (.ok { colnames := colnames, rows := rows, columns := cols }, "")
  | t :: rest =>
      let sig := match rest with
        | [h] => (hexToString h).getD ""
        | _ => ""
      if rest.length > 1 then none
      else if t = "panic" then some (.panic, sig)
      else if t = "hang" then some (.hang, sig)
      else if t.startsWith "err:" then some (.err (t.drop 4).toString, sig)
      else none
  | _ => none

def showNames (ns : List String) : String := showList stringToHex ns

/-- Canonical comparison text of an observation (the harness prints the same). -/
def Obs.tok : Obs → String
  | .err k => "err:" ++ k
  | .panic => "panic"
  | .hang => "hang"
  | .ok o => "ok n=" ++ showNames o.colnames ++ " c=" ++ toString o.columns.length ++ " r=" ++ toString o.len

/-! ### Specification side -/

/-- The written LIMIT of the statement (none written, or not a u64 literal: no bound). -/
def writtenLimit : ALimit → Nat
  | .limitOffset (some (.value (.number text _))) _ => (parseU64 text).getD U64_MAX
  | .offsetCommaLimit _ (.value (.number text _)) => (parseU64 text).getD U64_MAX
  | _ => U64_MAX

/-- One select item of the statement: the name the answer must use (if the item fixes one) and whether
    the column must be all NULL (a plain reference to a column the table does not have). -/
structure ItemSpec where
  name : NameSpec
  unknownColumn : Bool

def identOf : AExpr → Option String
  | .ident v => some v
  | _ => none

def itemSpec (columns : List String) : SelItem → ItemSpec
  | .unnamed e display =>
      match identOf e with
      | some c => { name := .exact (stripQuotes display), unknownColumn := !columns.contains c }
      | none => { name := .any, unknownColumn := false }
  | .aliased e a =>
      { name := .exact (stripQuotes a),
        unknownColumn := match identOf e with | some c => !columns.contains c | none => false }
  | .wildcard => { name := .exact "*", unknownColumn := !columns.contains "*" }
  | .other => { name := .any, unknownColumn := false }

/-- Select list and LIMIT the statement writes, when it is a single SELECT. -/
def specOf (p : Parsed) (cat : Catalog) (columns : List String) : Option (List ItemSpec × Nat) :=
  match p with
  | .stmts [.query q] =>
      match q.body with
      | .select s =>
          let items :=
            match s.projection, cat.metaCols with
            | [.wildcard], .names l => (sortNames l).map fun n => { name := .exact n, unknownColumn := false }
            | its, _ => its.map (itemSpec columns)
          some (items, writtenLimit q.limit)
      | .other => none
  | _ => none

def nullsOk (items : List ItemSpec) (cols : List (String × List String)) : Bool :=
  match items, cols with
  | it :: its, c :: cs => (!it.unknownColumn || c.2.all (· == "_")) && nullsOk its cs
  | _, _ => true

/-- Shape of an answer whose select list is not known: names match the columns, equal lengths, both
    views agree. -/
def shapeOnly (o : Output String) : Bool :=
  decide (WellFormed (o.colnames.map fun _ => NameSpec.any) U64_MAX o)

def judgeAnswer (p : Parsed) (cat : Catalog) (columns : List String) (o : Output String) : String :=
  if !cat.tableExists then "BAD unknown-table-answered" else
  match specOf p cat columns with
  | none => if shapeOnly o then "OK" else "BAD ill-formed"
  | some (items, limit) =>
      if !decide (WellFormed (items.map (·.name)) limit o) then
        (if o.columns.length ≠ items.length then "BAD column-count"
         else if o.colnames ≠ o.columns.map (·.1) then "BAD colnames-vs-columns"
         else if !namesOk (items.map (·.name)) o.colnames then "BAD names"
         else if !decide (∀ c ∈ o.columns, c.2.length = o.len) then "BAD unequal-lengths"
         else if !decide (o.len ≤ limit) then "BAD more-rows-than-limit"
         else "BAD row-view-differs")
      else if !nullsOk items o.columns then "BAD unknown-column-not-null"
      else "OK"

def judge (p : Option Parsed) (cat : Catalog) (columns : List String) : Obs → String
  | .panic => "BAD panic-in-caller"
  | .hang => "BAD hang"
  | .err k => if k = "canceled" then "BAD lost-answer" else "OK"
  | .ok o =>
      match p with
      | some p => judgeAnswer p cat columns o
      | none => if shapeOnly o then "OK" else "BAD ill-formed"

/-! ### Model side -/

def columnsOf : Expr → List String
  | .col c => [c]
  | .const _ => []
  | .f1 _ e => columnsOf e
  | .f2 _ a b => columnsOf a ++ columnsOf b
  | .agg _ e => columnsOf e

/-- Input characterisation of the FIXED finding `orderby-type-divergent-column-panic` (/repo c33fac6): a sorted,
    non-aggregating main phase over at least two partitions that collects (select item or sort key) a column whose
    basic type is numeric in one partition and string in another (`divergent`, a catalogue fact read by the harness
    from the column handles).  Merging two ORDERED partial results brings every column pair to
    `EncodingType::least_upper_bound`, which was `unimplemented!` for {I64, F64} × {Str, OptStr} (worker panic,
    schedule dependent); it is `Val` now, so these statements answer like any other: the model predicts them and the
    specification judges the answer.  Kept as a model predicate that names the regression witnesses
    (`sweep:mixed:ordered:*`); it suppresses nothing. -/
def orderedDivergent (plan : TaskPlan) (divergent : List String) : Bool :=
  decide (plan.partitions ≥ 2) && !plan.norm.main.orderBy.isEmpty && plan.norm.main.aggregate.isEmpty
  && (plan.norm.main.projection.any (fun ci => (columnsOf ci.expr).any divergent.contains)
      || plan.norm.main.orderBy.any (fun ob => (columnsOf ob.1).any divergent.contains))

def mentionsOnlyColumns (obs : List (Expr × Bool)) : Bool :=
  obs.all fun ob => isColName ob.1

/-- Number of rows, when the front-end model alone determines it: no partitions; or no WHERE, no
    aggregate, ORDER BY (after constant keys are dropped) on plain columns only. -/
def predictRows (plan : TaskPlan) (q : Query) (rows : Nat) : Option Nat :=
  let lim := plan.norm.outputPass.limit
  if plan.partitions = 0 then some 0
  else if q.filter == .const (.int 1) && plan.norm.main.aggregate.isEmpty && plan.norm.final.isNone
      && mentionsOnlyColumns (q.orderBy.filter fun ob => keepsOrderKey ob.1) then
    some (min lim.limit (rows - min lim.offset rows))
  else none

def modelRun (p : Parsed) (cat : Catalog) (rows : Nat) (obs : Obs) (divergent : List String := []) : String :=
  match runFront p cat with
  | .err e => "err:" ++ toString e
  | .fault _ => "panic"
  | .ok plan =>
      -- (`divergent` is no longer consulted: since /repo c33fac6 a type-divergent column merges through `Val` in
      -- every merge order, so the outcome is predicted like any other statement)
      let _ := divergent
      match obs with
      | .err k => if k = "canceled" then "ok" else "?"
      | _ =>
        let r := match parseQuery p with
          | .ok q => predictRows plan q rows
          | _ => none
        let rtxt := match r, obs with
          | some n, _ => toString n
          | none, .ok o => toString o.len
          | none, _ => "?"
        "ok n=" ++ showNames plan.outputColnames ++ " c=" ++ toString plan.outputColnames.length ++ " r=" ++ rtxt

def modelFront (p : Parsed) : String :=
  match parseQuery p with
  | .err e => "err:" ++ toString e
  | .fault _ => "panic"
  | .ok q => "ok " ++ showQuery q ++ " # " ++ showRes showNormalized (normalize q)

/-! ### Open findings of other components that surface here as a lost answer

  Each classifier is a conjunction of the recorded panic signature and a structural condition on the
  statement; the ids are entries of known_findings.jsonl. -/

def containsSub (s sub : String) : Bool := (s.splitOn sub).length > 1

def isBoolExpr : Expr → Bool
  | .f2 t _ _ => t == .eq || t == .ne || t == .lt || t == .le || t == .gt || t == .ge || t == .and || t == .or
      || t == .regex || t == .like || t == .notLike
  | .f1 t _ => t == .not || t == .isNull || t == .isNotNull
  | _ => false

/-- Some sole select item is the identifier `*` written with quotes (a column named `*`), which the
    engine cannot tell from the wildcard. -/
def quotedStar (p : Parsed) : Bool :=
  match p with
  | .stmts [.query q] =>
      match q.body with
      | .select s => match s.projection with
          | [.unnamed (.ident "*") _] => true
          | [.aliased (.ident "*") _] => true
          | _ => false
      | .other => false
  | _ => false

/-- Exact messages of executor panics that belong to open findings of the grouping operators. -/
def groupKeySig (sig : String) : Bool :=
  containsSub sig "U8 does not have a corresponding BasicType"
  || containsSub sig "NullableU8 does not have a corresponding fused nullable type"
  || containsSub sig "select.rs: index out of bounds"
  || containsSub sig "constant to non-constant conversion not supported"
  || containsSub sig "val_rows_pack.rs: index out of bounds"

def hasAgg : Expr → Bool
  | .agg _ _ => true
  | .f1 _ e => hasAgg e
  | .f2 _ a b => hasAgg a || hasAgg b
  | _ => false

/-- The main phase groups by a computed key: it aggregates, and one of its grouping columns (a select item
    without aggregate, or a sort key without aggregate that `normalize` added to the projection) is a
    comparison / boolean expression or references no column at all. -/
def groupsByComputedKey (main : NormalFormQuery) : Bool :=
  !main.aggregate.isEmpty
  && main.projection.any (fun ci => isBoolExpr ci.expr || !ci.expr.hasColumn)

def classify (p : Parsed) (cat : Catalog) (verdict sig : String) (_divergent : List String := []) : String :=
  if verdict = "OK" then "" else
  let lost := verdict = "BAD lost-answer" || verdict = "BAD hang"
  match runFront p cat with
  | .ok plan =>
      if lost && groupKeySig sig && groupsByComputedKey plan.norm.main then "groupby-computed-key"
      else if verdict = "BAD column-count" && quotedStar p then "C12-quoted-star-is-wildcard"
      else ""
  | _ => ""

/-- The mutation stream has no syntax tree: there the exact panic message alone decides. -/
def classifyMut (verdict sig : String) : String :=
  if !(verdict = "BAD lost-answer" || verdict = "BAD hang") then ""
  else if groupKeySig sig then "groupby-computed-key"
  else ""

/-! ### Lines -/

def splitAt (ts : List String) : List String × List String :=
  (ts.takeWhile (· ≠ "##"), (ts.dropWhile (· ≠ "##")).drop 1)

def parseMeta (t : String) : Option MetaCols :=
  if t = "m" then some .missing else if t = "n" then some .notString
  else match t.toList with
    | 'l' :: rest => (parseNames (String.ofList rest)).map .names
    | _ => none

def step (line : String) : String :=
  match splitTokens line with
  | "front" :: rest =>
      let (ast, status) := splitAt rest
      match pParsed ast with
      | some (p, []) =>
          modelFront p ++ "\t" ++ (if status = ["panic"] then "BAD panic-in-caller" else "OK")
      | _ => "bad-op\tbad-op"
  | "run" :: ex :: metaTok :: parts :: rows :: cols :: rf :: rest0 =>
      -- optional catalogue fact `d<names>`: columns that are numeric in one partition and string in another
      let (divergent, rest) := match rest0 with
        | t :: more => (match t.toList with
            | 'd' :: names => ((parseNames (String.ofList names)).getD [], more)
            | _ => ([], rest0))
        | [] => ([], rest0)
      let (ast, obsToks) := splitAt rest
      match pParsed ast, parseObs obsToks, parseMeta metaTok, parts.toNat?, rows.toNat?, parseNames cols with
      | some (p, []), some (obs, sig), some m, some np, some nr, some columns =>
          let cat : Catalog := { tableExists := ex = "1", metaCols := m, partitions := np }
          let _ := rf
          let verdict := judge (some p) cat columns obs
          let known := classify p cat verdict sig divergent
          modelRun p cat nr obs divergent ++ "\t" ++ verdict ++ (if known = "" then "" else "\t" ++ known)
      | _, _, _, _, _, _ => "bad-op\tbad-op"
  | "mut" :: rest =>
      let (_, obsToks) := splitAt rest
      match parseObs obsToks with
      | some (obs, sig) =>
          let verdict := judge none { tableExists := true, metaCols := .missing, partitions := 0 } [] obs
          let known := classifyMut verdict sig
          "?\t" ++ verdict ++ (if known = "" then "" else "\t" ++ known)
      | none => "bad-op\tbad-op"
  | _ => "bad-op\tbad-op"

end LM.DrvC12

def main : IO Unit := LM.Proto.runDriver LM.DrvC12.step
