import LocustModel.Proto
import LocustModel.Query.SqlProto
import LocustModel.Query.GroupSpec
import LocustModel.Query.GroupMerge
import LocustModel.Query.GroupApi
/-
  Driver for C04.  One output line per input line:  <model> TAB <spec verdict> [TAB <known finding id>]

  unit stream (pure merge step functions through the hook wrappers):
    dedup <l> <r>                                   k:<keys> o:<LRM…>
    mdrop <kl> <kr> <cl> <cr>                       c:<column>
    part <limit|_> <l> <r>                          p:<l/r,…>
    subpart <partitioning> <l> <r>                  p:<l/r,…>
    mdp <partitioning> <l> <r>                      k:<keys> o:<ops>
    mtree <op> <nk> <tree> <np> (<keycols> <vals>)* k:<c1|c2…> v:<vals> | err:overflow | panic
  api stream:
    grp <sel> <where|-> <impl> <bounds> <meta> <phys> <ncols> <cols…>
-/
namespace LM.DrvC04
open LM LM.Proto LM.Sql LM.SqlProto LM.GroupSpec LM.GroupMerge LM.GroupApi LM.Merge

/-! ### parsing / printing -/

def parseInts (s : String) : Option (List Int) := parseList parseInt? s

def showInts (xs : List Int) : String := showList showInt xs

def showOps (ops : List MergeOp) : String :=
  if ops.isEmpty then "-" else String.ofList (ops.map fun | .takeLeft => 'L' | .takeRight => 'R' | .mergeRight => 'M')

def parseOps (s : String) : Option (List MergeOp) :=
  if s = "-" then some [] else s.toList.mapM fun c =>
    if c = 'L' then some MergeOp.takeLeft else if c = 'R' then some .takeRight else if c = 'M' then some .mergeRight else none

def showPre (p : List Premerge) : String := showList (fun x => toString x.left ++ "/" ++ toString x.right) p

def parsePre (s : String) : Option (List Premerge) :=
  parseList (fun t => match t.splitOn "/" with
    | [a, b] => (a.toNat?).bind fun x => (b.toNat?).map fun y => ⟨x, y⟩
    | _ => none) s

def parseAgg (s : String) : Option Agg :=
  if s = "sum" then some .sum else if s = "count" then some .count
  else if s = "max" then some .max else if s = "min" then some .min else none

def parseKeyCols (s : String) : Option (List (List Int)) := (s.splitOn "|").mapM parseInts

def showPart (p : Part) : String :=
  "k:" ++ "|".intercalate (p.keys.map showInts) ++ " v:" ++ showInts p.vals

/-- `((01)2)` -/
def parseTree (cs : List Char) : Option (Tree × List Char) :=
  let rec go : Nat → List Char → Option (Tree × List Char)
    | 0, _ => none
    | fuel + 1, '(' :: rest =>
        (go fuel rest).bind fun (l, r1) => (go fuel r1).bind fun (r, r2) =>
          match r2 with
          | ')' :: r3 => some (.node l r, r3)
          | _ => none
    | _ + 1, c :: rest => if c.isDigit then some (.leaf (c.toNat - '0'.toNat), rest) else none
    | _ + 1, [] => none
  go 64 cs

def strictAsc : List Int → Bool
  | a :: b :: t => decide (a < b) && strictAsc (b :: t)
  | _ => true

def sortedAsc : List Int → Bool
  | a :: b :: t => decide (a ≤ b) && sortedAsc (b :: t)
  | _ => true

def insertSorted (x : Int) : List Int → List Int
  | [] => [x]
  | y :: ys => if x < y then x :: y :: ys else if x = y then y :: ys else y :: insertSorted x ys

def sortedUnion (l r : List Int) : List Int := (l ++ r).foldl (fun acc x => insertSorted x acc) []

/-! ### unit stream -/

def stepDedup (ls rs impl : String) : String :=
  match parseInts ls, parseInts rs with
  | some l, some r =>
      let (m, o) := mergeDedup false none l r
      let model := "k:" ++ showInts m ++ " o:" ++ showOps o
      let spec :=
        if strictAsc l && strictAsc r then
          -- every distinct key once, ascending; the ops are a well-formed script reproducing the keys
          match impl.splitOn " " with
          | [k, os] =>
              (match parseInts (k.drop 2).toString, parseOps (os.drop 2).toString with
               | some ik, some iops =>
                   if ik = sortedUnion l r ∧ mergeDrop iops l r = some ik then "OK"
                   else "BAD expected keys " ++ showInts (sortedUnion l r)
               | _, _ => "BAD unparsable")
          | _ => "BAD expected keys " ++ showInts (sortedUnion l r)
        else "SKIP"
      model ++ "\t" ++ spec
  | _, _ => "bad-op\tbad-op"

def stepDrop (kls krs cls crs : String) : String :=
  match parseInts kls, parseInts krs, parseInts cls, parseInts crs with
  | some kl, some kr, some cl, some cr =>
      let (_, o) := mergeDedup false none kl kr
      let model := match mergeDrop o cl cr with | some c => "c:" ++ showInts c | none => "panic"
      let spec :=
        if strictAsc kl && strictAsc kr then
          -- the companion column of the union: the left cell where the key exists on the left, else the right cell
          let pick := (sortedUnion kl kr).map fun k =>
            match (kl.zip cl).find? (·.1 = k) with
            | some p => p.2
            | none => ((kr.zip cr).find? (·.1 = k)).elim 0 (·.2)
          "c:" ++ showInts pick
        else "SKIP"
      model ++ "\t" ++ spec
  | _, _, _, _ => "bad-op\tbad-op"

def distinctCount (xs : List Int) : Nat := (xs.foldl (fun acc x => insertSorted x acc) []).length

def stepPart (lim ls rs impl : String) : String :=
  match parseInts ls, parseInts rs with
  | some l, some r =>
      let limit := if lim = "_" then 18446744073709551615 else lim.toNat?.getD 0
      let model := "p:" ++ showPre (partition false l r limit)
      let spec :=
        if lim = "_" ∧ sortedAsc l ∧ sortedAsc r then
          match parsePre (impl.drop 2).toString with
          | some p =>
              if (p.map (·.left)).foldl (· + ·) 0 = l.length ∧ (p.map (·.right)).foldl (· + ·) 0 = r.length ∧
                 p.length = distinctCount (l ++ r) ∧ p.all (fun g => g.left + g.right > 0) then "OK"
              else "BAD runs do not tile the inputs one run per distinct value"
          | none => "BAD unparsable"
        else "SKIP"
      model ++ "\t" ++ spec
  | _, _ => "bad-op\tbad-op"

def stepSubpart (ps ls rs : String) : String :=
  match parsePre ps, parseInts ls, parseInts rs with
  | some p, some l, some r =>
      (match subpartition false p l r with | some q => "p:" ++ showPre q | none => "panic") ++ "\tSKIP"
  | _, _, _ => "bad-op\tbad-op"

def stepMdp (ps ls rs : String) : String :=
  match parsePre ps, parseInts ls, parseInts rs with
  | some p, some l, some r =>
      (match mergeDedupPartitioned p l r with
       | some (m, o) => "k:" ++ showInts m ++ " o:" ++ showOps o
       | none => "panic") ++ "\tSKIP"
  | _, _, _ => "bad-op\tbad-op"

def parseParts : List String → Option (List Part)
  | [] => some []
  | k :: v :: rest => do
      let ks ← parseKeyCols k
      let vs ← parseInts v
      let t ← parseParts rest
      pure (⟨ks, vs⟩ :: t)
  | _ => none

def showMergeRes : MergeRes → String
  | .ok p => showPart p
  | .overflow => "err:overflow"
  | .fault => "panic"

def lexStrict : List (List Int) → Bool
  | a :: b :: t => GroupMerge.tupleLt a b && lexStrict (b :: t)
  | _ => true

/-- judge the implementation's merged part against the exact union -/
def judgeTree (op : Agg) (parts : List Part) (t : Tree) (impl : String) : String × String :=
  let wellFormed := parts.all fun p =>
    p.keys.all (fun c => c.length = p.vals.length) && lexStrict (rowsOfKeys p.keys p.vals.length)
  if !wellFormed then ("SKIP", "") else
  let leaves := t.leaves.filterMap fun i => parts[i]?
  let exact := specUnion op leaves
  let may := unionMayOverflow op leaves
  let known := if nodeHitsSentinel op parts t then "sum-sentinel" else ""
  if !denotFits exact then
    (if impl = "err:overflow" then "OK" else "BAD the exact result does not fit i64: expected err:overflow", known)
  else if impl = "err:overflow" then
    (if may then "OK" else "BAD no order of summation overflows", known)
  else
    match impl.splitOn " " with
    | [k, v] =>
        (match parseKeyCols (k.drop 2).toString, parseInts (v.drop 2).toString with
         | some kc, some vs =>
             let got : Denot := (rowsOfKeys kc vs.length).zip (vs.map decodeVal)
             let nk := (parts.head?.map (·.keys.length)).getD 0
             let got := if nk = 0 then (vs.map decodeVal).map fun x => ([], x) else got
             if got = exact then ("OK", "")
             else ("BAD expected " ++ " ".intercalate (exact.map fun kv =>
                    showInts kv.1 ++ "=" ++ (match kv.2 with | some x => toString x | none => "_")), known)
         | _, _ => ("BAD unparsable", known))
    | _ => ("BAD expected a merged part", known)

def stepTree (ops nks ts : String) (rest : List String) (impl : String) : String :=
  match parseAgg ops, nks.toNat?, parseTree ts.toList, rest with
  | some op, some _, some (t, []), _ :: ptoks =>
      (match parseParts ptoks with
       | some parts =>
           let model := showMergeRes (evalTree op parts t)
           let (spec, known) := judgeTree op parts t impl
           model ++ "\t" ++ spec ++ (if known = "" ∨ spec = "OK" ∨ spec = "SKIP" then "" else "\t" ++ known)
       | none => "bad-op\tbad-op")
  | _, _, _, _ => "bad-op\tbad-op"

/-! ### api stream -/

def parseSelItem (s : String) : Option SelItem :=
  match s.toList with
  | ['n'] => some (.agg ⟨.count1, 0⟩)
  | c :: rest =>
      (String.ofList rest).toNat?.bind fun i =>
        if c = 'g' then some (.key i)
        else if c = 'c' then some (.agg ⟨.count, i⟩)
        else if c = 's' then some (.agg ⟨.sum, i⟩)
        else if c = 'm' then some (.agg ⟨.min, i⟩)
        else if c = 'M' then some (.agg ⟨.max, i⟩)
        else if c = 'a' then some (.agg ⟨.avg, i⟩)
        else none
  | [] => none

def sortStrings (xs : List String) : List String := xs.mergeSort (fun a b => decide (a ≤ b))

/-- `0-5,5-9` -/
def parseBounds (s : String) : Option (List (Nat × Nat)) :=
  parseList (fun t => match t.splitOn "-" with
    | [a, b] => (a.toNat?).bind fun x => (b.toNat?).map fun y => (x, y)
    | _ => none) s

/-- `A` (absent) or four `/`-separated fields: encoding type, range `min:max` or `-`, codec ops joined by `+` or `id`, nullable `0`/`1`. -/
def parseColMeta (s : String) : Option ColMeta :=
  if s = "A" then some ColMeta.absent else
  match s.splitOn "/" with
  | [enc, range, ops, nullable] =>
      let r : Option (Option (Int × Int)) :=
        if range = "-" then some none else
        -- "<min>:<max>", both possibly negative
        match range.splitOn ":" with
        | [a, b] => (a.toInt?).bind fun x => (b.toInt?).map fun y => some (x, y)
        | _ => none
      -- nullable as the planner sees it: the codec assembles a null map (`full_type()` misses it for float columns)
      let opl := if ops = "id" then [] else ops.splitOn "+"
      r.map fun rg => ⟨true, enc, rg, opl, nullable = "1" || opl.contains "Nullable"⟩
  | _ => none

def parseMeta (s : String) : Option (List (List ColMeta)) :=
  if s = "[]" then some [] else (s.splitOn ";").mapM fun p => (p.splitOn "|").mapM parseColMeta

structure ApiCase where
  sel : List SelItem
  pred : Option Expr
  impl : String
  bounds : List (Nat × Nat)
  metas : List (List ColMeta)
  rows : List Row
  cols : List (List Val)
  batchSize : Nat
  sig : String := "-"

def showOut : Out → String
  | .rows rs => "rows:" ++ showRows rs
  | .overflow => "err:overflow"
  | .fault => "panic"
  | .unknown => "?"

/-- Per-partition kept rows (WHERE evaluated by the reference semantics; filtering is C03's subject). -/
def keptRows (c : ApiCase) : Option (List (List Row)) :=
  c.bounds.mapM fun (s, e) =>
    match filterRows i2fNative c.pred ((c.rows.drop s).take (e - s)) with
    | .ok k => some k
    | _ => none

/-- Everything the implementation model says about a case: outcomes along every merge tree, per-partition results. -/
structure ModelRun where
  outs : List Out
  parts : List PRes
  early : Option Out      -- an outcome that does not depend on the tree (partition failed / not predictable)
  univ : List (List Val) := []

def runModel (c : ApiCase) : ModelRun :=
  let keys := c.sel.filterMap SelItem.keyCol?
  let iaggs := expandSel c.sel
  let isFloat : IAgg → Bool := fun a => match a with
    | .cnt1 | .cnt _ => false
    | .sum col | .min col | .max col => colKind (c.cols.getD col []) = .float
  -- a referenced column must be single-typed int / float
  let badType := iaggs.any fun a => match a with
    | .cnt1 | .cnt _ => false
    | .sum col | .min col | .max col => colKind (c.cols.getD col []) = .other
  if badType then { outs := [], parts := [], early := some .unknown } else
  match keptRows c with
  | none => { outs := [], parts := [], early := some .unknown }
  | some kepts =>
      -- string / float grouping columns are merged on the ranks of their values (the step functions only compare)
      let kinds : List ColKind := keys.map fun k => colKind (c.cols.getD k [])
      let univ : List (List Val) := (keys.zip kinds).map fun (k, kd) =>
        if kd = .int then [] else sortBy valLt (((c.cols.getD k []).filter (· ≠ .null)).eraseDups)
      let pouts := (kepts.zip c.metas).map fun (k, m) => partitionResult keys iaggs m k kinds
      if kepts.length ≠ c.metas.length then { outs := [], parts := [], early := some .unknown }
      else if pouts.any (fun p => match p with | .unknown => true | _ => false) then { outs := [], parts := [], early := some .unknown }
      else if pouts.any (fun p => match p with | .overflow => true | _ => false) then { outs := [], parts := [], early := some .overflow }
      else
        let parts := pouts.filterMap fun p => match p with | .ok r => some r | _ => none
        let trees := allTrees 8 0 parts.length
        ⟨trees.map (runTree univ c.sel keys iaggs isFloat parts), parts, none, univ⟩

/-- A SUM whose exact value (over the group's rows inside one partition, or over a merged prefix) is i64::MAX. -/
def sumHitsSentinel (c : ApiCase) : Bool :=
  -- any contiguous run of partitions, any group, any SUM/AVG column: exact sum of the non-NULL inputs = i64::MAX
  let keys := c.sel.filterMap SelItem.keyCol?
  let sumCols := c.sel.filterMap fun
    | .agg a => if a.fn = .sum ∨ a.fn = .avg then some a.col else none
    | .key _ => none
  match keptRows c with
  | none => false
  | some kepts =>
      let n := kepts.length
      (List.range n).any fun i => (List.range (n - i)).any fun len =>
        let rows := ((kepts.drop i).take (len + 1)).flatten
        (groupRows keys rows).any fun g => sumCols.any fun col =>
          match ints? ((colCells col g.2).filter (· ≠ .null)) with
          | some (x :: xs) => (x :: xs).foldl (· + ·) 0 = I64_MAX
          | _ => false

/-- COUNT(c) / AVG(c) over a nullable column with a group that has no non-NULL input. -/
def countNullGroup (c : ApiCase) : Bool :=
  let keys := c.sel.filterMap SelItem.keyCol?
  let cols := c.sel.filterMap fun
    | .agg a => if a.fn = .count ∨ a.fn = .avg then some a.col else none
    | .key _ => none
  match filterRows i2fNative c.pred c.rows with
  | .ok kept => (groupRows keys kept).any fun g => cols.any fun col =>
      ((colCells col g.2).filter (· ≠ .null)).isEmpty
  | _ => false

/-- columns the select list refers to -/
def selCols (sel : List SelItem) : List Nat :=
  sel.filterMap fun
    | .key c => some c
    | .agg a => if a.fn = .count1 then none else some a.col

/-- A selected column has no data in some partition (absent from it, or stored as the all-NULL column type).  NOT a
    classifier any more (it swallowed every case of the region, also the ones the engine answers correctly: a seeded
    planner defect there was invisible) — it only keeps the model from predicting `err:fatal` for a nullable float key
    next to such a column.  The classifier of `groupby-absent-column` is `absentWrong`. -/
def absentTrigger (c : ApiCase) : Bool :=
  (selCols c.sel).any fun col => c.metas.any fun pm =>
    let m := pm.getD col ColMeta.absent
    !m.present || m.enc = "Null"

/-- Has column `col` no data in the partition with metadata `pm`? -/
def noData (pm : List ColMeta) (col : Nat) : Bool :=
  let m := pm.getD col ColMeta.absent
  !m.present || m.enc = "Null"

/-- `groupby-absent-column`, narrowed to the sub-shapes the engine answers wrongly today (input-characterising:
    select list, column kinds, per-partition metadata and kept rows).  Everything else with a column that has no data
    in some partition — a single integer / string grouping column absent in a partition, several integer grouping
    columns that stay bit-packable, SUM / MIN / MAX / COUNT(1) over an absent input, with or without WHERE — is
    answered correctly and is judged strictly by `specGroupBy`.
      W1  COUNT(c) / AVG(c) where `c` has no data in a partition that keeps at least one row (the all-zero count is used
          as the group selector: that partition's groups are dropped; next to COUNT(1) BatchResult::validate fails);
      W2  a float grouping column without data in some partition (`unfuse_nulls not implemented for type F64` when the
          Null partition is merged on the left);
      W3  several grouping columns, one without data in a partition, and the key does not stay on the bit-packed
          integer path (a string / float grouping column in the list, or not packable in that partition): the
          value-rows fallback casts the Null plan to Val (`type_conversion not supported for type Null`). -/
def absentWrong (c : ApiCase) : Bool :=
  let keys := c.sel.filterMap SelItem.keyCol?
  let kinds : List ColKind := keys.map fun k => colKind (c.cols.getD k [])
  let cntCols := c.sel.filterMap fun
    | .agg a => if a.fn = .count ∨ a.fn = .avg then some a.col else none
    | .key _ => none
  let kepts : List (List Row) := (keptRows c).getD (c.metas.map fun _ => [[]])
  let w1 := (kepts.zip c.metas).any fun (kept, pm) => !kept.isEmpty && cntCols.any (noData pm)
  let w2 := (keys.zip kinds).any fun (k, kd) => kd = .float && c.metas.any fun pm => noData pm k
  let w3 := decide (keys.length ≥ 2) && c.metas.any fun pm =>
    keys.any (noData pm) &&
      (kinds.any (· ≠ .int) ||
       (LM.Group.planPack ((keys.filter fun k => !noData pm k).reverse.map fun k =>
          let m := pm.getD k ColMeta.absent
          ((effRange m).getD none, m.nullable)) 0).isNone)
  w1 || w2 || w3

/-- `groupby-nullable-float-key`: a float grouping column that is nullable in some partition. -/
def floatNullKeyTrigger (c : ApiCase) : Bool :=
  (c.sel.filterMap SelItem.keyCol?).any fun col =>
    colKind (c.cols.getD col []) = .float && c.metas.any fun pm => (pm.getD col ColMeta.absent).nullable

/- `groupby-valrows-streamed` (filed by C02) is FIXED in /repo (3cc8efd, b5a9fe3, 5275058, 3044fa3): its classifier
   (>= 2 grouping columns through value rows in a partition of at least batch_size rows) was removed; the witnesses run as
   `corpus:fixed:valrows-streamed` and a recurrence is a VIOLATION. -/

/-- The specification's rows with the engine's treatment of a group without non-NULL input substituted
    (COUNT → NULL, AVG → i64::MAX / i64::MAX = 1): the classifier of `count-null-group` requires that this
    substitution reproduces the implementation's rows exactly. -/
def countPatchedRows (c : ApiCase) : Option (List Row) :=
  let keys := c.sel.filterMap SelItem.keyCol?
  let cell (a : AggItem) (rows : List Row) : Res Val :=
    let cells := (colCells a.col rows).filter (· ≠ .null)
    if cells.isEmpty ∧ a.fn = .count then .ok .null
    else if cells.isEmpty ∧ a.fn = .avg then .ok (.int 1)
    else aggCell a rows
  let rowOfP (rows : List Row) : Option Row :=
    c.sel.mapM fun
      | .key col => some (match rows with | r :: _ => r.getD col .null | [] => .null)
      | .agg a => match cell a rows with | .ok v => some v | _ => none
  match filterRows i2fNative c.pred c.rows with
  | .ok kept => (groupRows keys kept).mapM fun g => rowOfP g.2
  | _ => none

def sameMultiset (impl : String) (rows : List Row) : Bool :=
  if impl.startsWith "rows:" then
    match parseRows (impl.drop 5).toString with
    | some irows => sortStrings (irows.map showRow) = sortStrings (rows.map showRow)
    | none => false
  else false

/-- Trigger of `groupby-null-key-order`: at least two partitions keep rows, and in some partition a grouping column
    keeps both a NULL and a non-NULL cell.  Integer columns and dictionary-encoded strings are grouped on integer
    codes with NULL fused to 0, value rows sort `Val::Null` first: that partition's result has the NULL group in
    front, while the merge comparators order NULL (the in-band maximum / `None`) last.  (A single string grouping
    column goes through hash grouping + a sort that puts NULL last and is not affected — it never fails the spec.) -/
def nullKeyOrderTrigger (c : ApiCase) : Bool :=
  let keys := c.sel.filterMap SelItem.keyCol?
  match keptRows c with
  | none => false
  | some kepts =>
      decide ((kepts.filter (fun k => !k.isEmpty)).length ≥ 2) &&
      (kepts.zip c.metas).any fun (kept, pm) => keys.any fun col =>
        let m := pm.getD col ColMeta.absent
        let cells := colCells col kept
        m.present && cells.any (· = .null) && cells.any (· ≠ .null)

/-- Re-aggregate the implementation's rows by key tuple (COUNT / SUM add up, MIN / MAX combine): if the engine only
    split groups into several rows, this reproduces the specification's rows.  `none` when the select list
    contains AVG (a quotient cannot be recombined). -/
def regroup (sel : List SelItem) (rows : List Row) : Option (List Row) :=
  if sel.any (fun | .agg a => a.fn = .avg | .key _ => false) then none else
  let keyOfRow (r : Row) : List Val := (sel.zip r).filterMap fun (s, v) => match s with | .key _ => some v | .agg _ => none
  let comb (fn : AggFn) (a b : Val) : Option Val :=
    match a, b with
    | .null, v => some v
    | v, .null => some v
    | .int x, .int y =>
        some (.int (match fn with
          | .min => if x ≤ y then x else y
          | .max => if x ≥ y then x else y
          | _ => x + y))
    | .float x, .float y =>
        (match fn with
         | .min => some (.float (if floatKey x ≤ floatKey y then x else y))
         | .max => some (.float (if floatKey x ≥ floatKey y then x else y))
         | _ => (floatSumExact [x, y]).map Val.float)
    | _, _ => none
  let merge (a b : Row) : Option Row :=
    ((sel.zip a).zip b).mapM fun ((s, x), y) => match s with
      | .key _ => some x
      | .agg ag => comb ag.fn x y
  let rec ins (fuel : Nat) (r : Row) : List Row → Option (List Row)
    | [] => some [r]
    | g :: gs =>
        match fuel with
        | 0 => none
        | fuel + 1 =>
            if keyOfRow g = keyOfRow r then (merge g r).map (· :: gs) else (ins fuel r gs).map (g :: ·)
  rows.foldlM (fun acc r => ins (acc.length + 1) r acc) []

/-- `groupby-compressed-key-type`: several grouping columns, one of them lz4 / pco compressed (decompressed type wider
    than u8) in some partition, and a kept key value there that the 8-bit truncation changes. -/
def compressedKeyTrigger (c : ApiCase) : Bool :=
  let keys := c.sel.filterMap SelItem.keyCol?
  keys.length ≥ 2 &&
  match keptRows c with
  | none => false
  | some kepts => (kepts.zip c.metas).any fun (kept, pm) => keys.any fun col =>
      let m := pm.getD col ColMeta.absent
      (colCells col kept).any fun v => emitKey m v ≠ v

/-- `sum-sentinel` where the model does not predict: the specification's rows with every integer SUM / AVG cell equal
    to i64::MAX shown as NULL (a final sum that is the sentinel). -/
def sumPatchedRows (c : ApiCase) : Option (List Row) :=
  match specGroupBy i2fNative c.sel c.pred c.rows with
  | .ok srows => some (srows.map fun r => (c.sel.zip r).map fun (s, v) => match s, v with
      | .agg a, .int i => if (a.fn = .sum ∨ a.fn = .avg) ∧ i = I64_MAX then .null else v
      | _, v => v)
  | _ => none

/-- One partition: the specification's rows with every key cell replaced by the truncated value the engine emits. -/
def truncPatchedRows (c : ApiCase) : Option (List Row) :=
  -- (on top of the `count-null-group` substitution when that finding's trigger holds as well)
  let base : Option (List Row) :=
    if countNullGroup c then countPatchedRows c
    else match specGroupBy i2fNative c.sel c.pred c.rows with | .ok srows => some srows | _ => none
  match c.metas, base with
  | [pm], some srows =>
      some (srows.map fun r => (c.sel.zip r).map fun (s, v) => match s with
        | .key col => emitKey (pm.getD col ColMeta.absent) v
        | .agg _ => v)
  | _, _ => none

/-- Does re-aggregating the implementation's rows give the specification's rows?  (With AVG in the select list
    this cannot be decided; the trigger alone then classifies.) -/
def regroupMatches (c : ApiCase) (impl : String) : Bool :=
  if !impl.startsWith "rows:" then false else
  match parseRows (impl.drop 5).toString with
  | none => false
  | some irows =>
      match regroup c.sel irows with
      | none => c.sel.any (fun | .agg a => a.fn = .avg | .key _ => false)
      | some rg =>
          match specGroupBy i2fNative c.sel c.pred c.rows with
          | .ok srows => sortStrings (rg.map showRow) = sortStrings (srows.map showRow)
          | _ => false

/-- `regroupMatches` against the `count-null-group`-substituted specification rows (no AVG: a quotient cannot be
    recombined, and the substitution of AVG is not stable under splitting). -/
def regroupMatchesCountPatched (c : ApiCase) (impl : String) : Bool :=
  if !impl.startsWith "rows:" then false else
  match parseRows (impl.drop 5).toString with
  | none => false
  | some irows =>
      match regroup c.sel irows, countPatchedRows c with
      | some rg, some prows => sortStrings (rg.map showRow) = sortStrings (prows.map showRow)
      | _, _ => false

def judgeApi (impl : String) (spec : Res (List Row)) (mayOvf : Bool) : String :=
  match spec with
  | .unsupported => "SKIP"
  | .overflow => if impl = "err:overflow" then "OK" else "BAD expected err:overflow"
  | .ok rows =>
      if impl = "err:overflow" ∧ mayOvf then "OK"
      else if impl.startsWith "rows:" then
        match parseRows (impl.drop 5).toString with
        | some irows =>
            let a := sortStrings (irows.map showRow)
            let b := sortStrings (rows.map showRow)
            if a = b then "OK" else "BAD expected rows:" ++ showRows rows
        | none => "BAD unparsable implementation output"
      else "BAD expected rows:" ++ showRows rows

def stepGrp (sel wh impl bounds metaTok phys : String) (colToks : List String) : String :=
  match (sel.splitOn ",").mapM parseSelItem, parseOptExpr wh, colToks.mapM parseCells, parseBounds bounds, parseMeta metaTok with
  | some s, some p, some cs, some bs, some ms =>
      let n := (cs.head?.map List.length).getD 0
      let rows := transpose cs n
      let batchSize := ((phys.splitOn "/").getD 5 "1024").toNat?.getD 1024
      let sig := (phys.splitOn "/").getD 7 "-"
      let c : ApiCase := ⟨s, p, impl, bs, ms, rows, cs, batchSize, sig⟩
      let spec := judgeApi impl (specGroupBy i2fNative s p rows) (mayOverflow i2fNative s p rows)
      let run := runModel c
      let outs := match run.early with
        | some o => [showOut o]
        | none => run.outs.map showOut
      -- nondeterministic merge tree: the model agrees if the implementation shows the outcome of SOME bracketing
      let model :=
        if floatNullKeyTrigger c ∧ !absentTrigger c then "err:fatal"
        else if outs.contains impl then impl else outs.headD "?"
      let modelAgrees := model = impl
      let known :=
        if spec = "OK" ∨ spec = "SKIP" then ""
        else if floatNullKeyTrigger c ∧ !absentWrong c ∧ impl = "err:fatal" then "groupby-nullable-float-key"
        else if absentWrong c then "groupby-absent-column"
        else if compressedKeyTrigger c ∧ (modelAgrees ∨ (model = "?" ∧
            (c.metas.length ≥ 2 ∨ (truncPatchedRows c).any (sameMultiset impl)))) then "groupby-compressed-key-type"
        else if modelAgrees ∧ run.parts.length ≥ 2 ∧ run.parts.any (fun p => !keysAscending run.univ p) then "groupby-null-key-order"
        else if nullKeyOrderTrigger c && regroupMatches c impl then "groupby-null-key-order"
        -- both open findings at once (groups split across partitions AND a group without non-NULL COUNT input):
        -- the re-aggregated implementation rows are the specification's rows with COUNT → NULL / AVG → 1 substituted
        else if nullKeyOrderTrigger c && countNullGroup c && regroupMatchesCountPatched c impl then "groupby-null-key-order"
        else if sumHitsSentinel c ∧ (modelAgrees ∨ (model = "?" ∧ (sumPatchedRows c).any (sameMultiset impl))) then "sum-sentinel"
        else if c.sig = "emptyvec" ∧ (impl = "err:canceled" ∨ impl = "hang" ∨ impl = "panic") then "executor-empty-vector"
        else if countNullGroup c ∧ (modelAgrees ∨ (countPatchedRows c).any (sameMultiset impl)) then "count-null-group"
        else ""
      model ++ "\t" ++ spec ++ (if known = "" then "" else "\t" ++ known)
  | _, _, _, _, _ => "bad-op\tbad-op"

def step (line : String) : String :=
  match splitTokens line with
  | ["dedup", l, r, k, o] => stepDedup l r (k ++ " " ++ o)
  | ["dedup", l, r, x] => stepDedup l r x
  | ["mdrop", kl, kr, cl, cr] => stepDrop kl kr cl cr
  | ["part", lim, l, r, impl] => stepPart lim l r impl
  | ["subpart", p, l, r] => stepSubpart p l r
  | ["mdp", p, l, r] => stepMdp p l r
  | "mtree" :: op :: nk :: t :: rest =>
      -- the implementation's output is appended after `|` by the harness
      let (args, impl) := (rest.takeWhile (· ≠ "|"), " ".intercalate ((rest.dropWhile (· ≠ "|")).drop 1))
      stepTree op nk t args impl
  | "grp" :: sel :: wh :: impl :: bounds :: metaTok :: phys :: _n :: cols => stepGrp sel wh impl bounds metaTok phys cols
  | "skip" :: _ => "?\tSKIP"
  | _ => "bad-op\tbad-op"

end LM.DrvC04

def main : IO Unit := LM.Proto.runDriver LM.DrvC04.step
