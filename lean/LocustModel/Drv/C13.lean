import LocustModel.Store.Proto
/-
  Driver for C13.  Input: a history line (see `LocustModel/Store/Proto.lean`) whose column names come from the
  C13 name pool.  Output:  <model dump> TAB <spec dump>
    spec dump: every table / column ever ingested listed exactly once (`MT=`, `MC<t>=`, `SC<t>=` =
    search_column_names(t, ".*"), column list of `T<t>=`),
    cells of columns a batch did not mention are NULL.
-/
namespace LM.DrvC13
open LM.Proto LM.Store.Drv

def step (line : String) : String :=
  match runLine line with
  | none => "bad-op\tbad-op"
  | some (s, _) =>
    let hasUsers := !(userTables s).isEmpty
    dumpModel s ++ (if hasUsers then dumpSearchModel s else "") ++ "\t" ++
      dumpSpec s ++ (if hasUsers then dumpSearchSpec s else "")

end LM.DrvC13

def main : IO Unit := LM.Proto.runDriver LM.DrvC13.step
