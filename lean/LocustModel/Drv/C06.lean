import LocustModel.Proto
import LocustModel.Query.ArithTree
/-
  Driver for C06.  Input line:
    expr <rpn> <ncols> <col0> … <col{n-1}>
  rpn: comma separated tokens `c<i>` | `k<int>` | `n` (NULL constant) | `+ - * / %`
  col: comma separated `_` | <int>
  Output:  <model> TAB <spec>   each `rows:<cells>` | `err:overflow` | `fault:<kind>`
-/
namespace LM.DrvC06
open LM LM.Proto LM.Arith LM.ArithTree

def parseRpn (toks : List String) : Option Expr :=
  let rec go : List String → List Expr → Option Expr
    | [], [e] => some e
    | [], _ => none
    | t :: ts, st =>
        let binop (op : Op) : Option Expr :=
          match st with
          | r :: l :: st' => go ts (Expr.bin op l r :: st')
          | _ => none
        if t = "+" then binop .add else if t = "-" then binop .sub
        else if t = "*" then binop .mul else if t = "/" then binop .div
        else if t = "%" then binop .mod
        else if t = "n" then go ts (.nullConst :: st)
        else match t.toList with
          | 'c' :: rest => (String.ofList rest).toNat?.bind fun i => go ts (.col i :: st)
          | 'k' :: rest => (String.ofList rest).toInt?.bind fun i => go ts (.const i :: st)
          | _ => none
  go toks []

def parseCol (s : String) : Option (List (Option Int)) := parseList (parseOpt parseInt?) s

def transpose (cols : List (List (Option Int))) : List Row :=
  match cols with
  | [] => []
  | c :: _ => (List.range c.length).map fun i => cols.map fun col => (col.getD i none)

def showRes : QResult → String
  | .rows cells => "rows:" ++ showList (showOpt showInt) cells
  | .overflow => "err:overflow"
  | .fault f => "fault:" ++ toString f

def step (line : String) : String :=
  match splitTokens line with
  | "expr" :: rpn :: _n :: cols =>
      match parseRpn (rpn.splitOn ","), cols.mapM parseCol with
      | some e, some cs =>
          let rows := transpose cs
          showRes (runModel e rows) ++ "\t" ++ showRes (runSpec e rows)
      | _, _ => "bad-op\tbad-op"
  | _ => "bad-op\tbad-op"

end LM.DrvC06

def main : IO Unit := LM.Proto.runDriver LM.DrvC06.step
