import LocustModel.Proto
import LocustModel.Query.ArithTree
import LocustModel.Query.ArithPlan
import LocustModel.Query.ArithSelect
import LocustModel.Query.Sum
/-
  Driver for C06.  Input lines (written by harness/src/bin/c06.rs):

    layout <bounds>
    expr <rpn> <bounds> <ncols> <col0> … <col{n-1}> <implementation output>
    sum  <rpn> <bounds> <g|-> <ncols> <col0> … <col{n-1}> <implementation output>

  rpn: comma separated tokens `c<i>` | `k<int>` | `n` (NULL literal) | `+ - * / %`
  bounds: partition boundaries `0,b1,…,n`;  col: comma separated `_` | <int>;  g: index of the grouping column.

  Output:  <implementation model> TAB <specification> [TAB <known finding id>]
    implementation model   `rows:…` | `err:<kind>` | `panic` | `parts:<k>` | `?` (several outcomes possible / unmodelled)
    specification          expr: the exact result (`rows:…` | `err:overflow`), `SKIP` for a predicted error VALUE of an
                           unsupported query shape (notimpl / type / fatal: outside the fragment, DESIGN §4);
                           sum: `OK` | `BAD <why>` (relation, judged on the implementation output) | `SKIP`
-/
namespace LM.DrvC06
open LM LM.Proto LM.Arith LM.ArithTree LM.ArithPlan LM.Sum LM.Merge

def parseRpn (toks : List String) : Option Expr :=
  let rec go : List String → List Expr → Option Expr
    | [], [e] => some e
    | [], _ => none
    | t :: ts, st =>
        let binop (op : Op) : Option Expr :=
          match st with
          | r :: l :: st' => go ts (Expr.bin op l r :: st')
          | _ => none
        if t = "+" then binop .add else if t = "-" then binop .sub
        else if t = "*" then binop .mul else if t = "/" then binop .div
        else if t = "%" then binop .mod
        else if t = "n" then go ts (.nullConst :: st)
        else match t.toList with
          | 'c' :: rest => (String.ofList rest).toNat?.bind fun i => go ts (.col i :: st)
          | 'k' :: rest => (String.ofList rest).toInt?.bind fun i => go ts (.const i :: st)
          | _ => none
  go toks []

def parseCol (s : String) : Option (List (Option Int)) := parseList (parseOpt parseInt?) s
def parseBounds (s : String) : Option (List Nat) := parseList parseNat? s

def transpose (cols : List (List (Option Int))) : List Row :=
  match cols with
  | [] => []
  | c :: _ => (List.range c.length).map fun i => cols.map fun col => (col.getD i none)

/-- Consecutive pairs of the boundary list. -/
def ranges : List Nat → List (Nat × Nat)
  | a :: b :: rest => (a, b) :: ranges (b :: rest)
  | _ => []

/-- The partitions: length and column slices. -/
def partsOf (bounds : List Nat) (cols : List (List (Option Int))) : List (Nat × (Nat → Option PCol)) :=
  (ranges bounds).map fun (s, e) =>
    (e - s, fun i => (cols[i]?).map fun c => ({ cells := (c.drop s).take (e - s) } : PCol))

def showCells (cells : List (Option Int)) : String := showList (showOpt showInt) cells

def showQOut : QOut → String
  | .rows cells => "rows:" ++ showCells cells
  | .err e => "err:" ++ e.toString
  | .fault _ => "panic"
  | .unknown => "?"

def showSpec : QResult → String
  | .rows cells => "rows:" ++ showCells cells
  | .overflow => "err:overflow"
  | .fault f => "fault:" ++ toString f

def isShapeErr : QOut → Bool
  | .err .notimpl | .err .type | .err .fatal => true
  | _ => false

/-- The implementation shows NULL exactly where the exact result is i64::MAX (and agrees everywhere else). -/
def onlyMaxAsNull (spec impl : List (Option Int)) : Bool :=
  spec.length == impl.length &&
  (List.zip spec impl).all (fun (s, i) => s == i || (s == some I64_MAX && i == none)) &&
  (List.zip spec impl).any (fun (s, i) => s == some I64_MAX && i == none)

/-- Classifier of the open finding `select-i64max-null`: the case lies in the region `ArithPlan.sentinelShown` (the result
    column is a plain I64 vector in EVERY partition and some computed cell is exactly i64::MAX — the negation of the
    hypothesis of `C06_select_partial`), the implementation's output is literally the one the model (`renderI64`) predicts,
    and it differs from the exact rows only by NULL at cells whose exact value is i64::MAX. -/
def isSelectSentinel (parts : List (Nat × (Nat → Option PCol))) (e : Expr) (model : QOut) (spec : QResult)
    (impl : String) : Bool :=
  match model, spec with
  | .rows m, .rows s => sentinelShown parts e && impl == "rows:" ++ showCells m && onlyMaxAsNull s m
  | _, _ => false

def stepExpr (rpn : String) (bounds : String) (rest : List String) : String :=
  match rest.reverse with
  | impl :: colsRev =>
    match parseRpn (rpn.splitOn ","), parseBounds bounds, colsRev.reverse.mapM parseCol with
    | some e, some bs, some cs =>
        let parts := partsOf bs cs
        let model := runQuery parts e
        let rows := transpose cs
        let spec := runSpec e rows
        let specStr :=
          if isShapeErr model then "SKIP"
          else if rows.any (spuriousDiv e) then
            -- the documented spurious Overflow of `(i64::MIN+1) / -1`: the error and the exact rows are both allowed
            if impl = "err:overflow" || impl = showSpec spec then "OK" else "BAD expected " ++ showSpec spec ++ " or err:overflow"
          else showSpec spec
        let known := if isSelectSentinel parts e model spec impl then "\tselect-i64max-null" else ""
        showQOut model ++ "\t" ++ specStr ++ known
    | _, _, _ => "bad-op\tbad-op"
  | [] => "bad-op\tbad-op"

-- ------------------------------------------------------------------------------------------------------------
-- SUM

/-- Group keys: `none` = ungrouped (one group), `some k` = the grouping column's cell. -/
abbrev Key := Option (Option Int)

structure PartRes where
  keys : List Key                       -- per row
  cells : List (Option Int)             -- per row: value of the summed expression

inductive PartOut where
  | ok (r : PartRes)
  | err (e : QErr)
  | fault
  | unknown

def evalSumPart (e : Expr) (g : Option Nat) (len : Nat) (cols : Nat → Option PCol) : PartOut :=
  match evalPart len cols e with
  | .error q => .err q
  | .ok v =>
      if v.fatal then .err .fatal
      else if v.unmodelled then .unknown
      else if v.fault.isSome then .fault
      else if v.overflow then .err .overflow
      else
        let cells := match v.ty with
          | .scalar => List.replicate len (v.data.head?)
          | .null => List.replicate len none
          | .int _ => (ArithShell.view v.data v.present).take len
        let keys : List Key := match g with
          | none => List.replicate len none
          | some gi => match cols gi with
            | some c => c.cells.map some
            | none => List.replicate len (some none)
        .ok { keys := keys, cells := cells }

def keyLt (a b : Key) : Bool :=
  match a, b with
  | some (some x), some (some y) => x < y
  | some (some _), some none => true
  | _, _ => false

def insertKey (k : Key) : List Key → List Key
  | [] => [k]
  | x :: xs => if k == x then x :: xs else if keyLt k x then k :: x :: xs else x :: insertKey k xs

def allKeys (parts : List PartRes) : List Key :=
  (parts.flatMap (·.keys)).foldl (fun acc k => insertKey k acc) []

/-- The cells of group `k` in partition `p` (`none` if the partition has no row of the group). -/
def groupCells (p : PartRes) (k : Key) : Option (List (Option Int)) :=
  let cs := (List.zip p.keys p.cells).filterMap fun (k', c) => if k' == k then some c else none
  if (p.keys.any (· == k)) then some cs else none

def showKey : Key → String
  | none => ""
  | some none => "_="
  | some (some k) => toString k ++ "="

inductive SumOut where
  | rows (r : List (Key × Option Int))
  | overflow
  deriving BEq

def showSumOut : SumOut → String
  | .overflow => "err:overflow"
  | .rows r => "rows:" ++ showList (fun (k, v) => showKey k ++ showOpt showInt v) r

/-- Result of one bracketing under the implementation model (sentinel and all). -/
def implOutcome (parts : List PartRes) (keys : List Key) (sh : Shape) : SumOut :=
  let per := keys.map fun k =>
    match restrict (fun i => (parts[i]?).bind (groupCells · k)) sh with
    | none => (k, Except.ok I64_MAX)
    | some t => (k, evalTree t)
  if per.any (fun (_, r) => match r with | .error _ => true | .ok _ => false) then .overflow
  else .rows (per.map fun (k, r) => (k, match r with | .ok v => decodeOut v | .error _ => none))

/-- Does some running or merged sum leave i64 under this bracketing (idealised engine, no sentinel)? -/
def idealOverflows (parts : List PartRes) (keys : List Key) (sh : Shape) : Bool :=
  keys.any fun k =>
    match restrict (fun i => (parts[i]?).bind (groupCells · k)) sh with
    | none => false
    | some t => match idealTree t with | .error _ => true | .ok _ => false

/-- Classifier of the open finding `sum-sentinel`: some partial sum (of one partition or of a contiguous range of
    partitions, for some group) is exactly i64::MAX. -/
def hasSentinelPartial (parts : List PartRes) (keys : List Key) : Bool :=
  let n := parts.length
  keys.any fun k =>
    (List.range n).any fun i =>
      (List.range (n - i)).any fun d =>
        let cells := ((parts.drop i).take (d + 1)).flatMap fun p => (groupCells p k).getD []
        exactSum cells == some I64_MAX

/-- Parse the implementation's grouped output `rows:<k>=<v>,…`. -/
def parseGrouped (impl : String) : Option (List (Key × Option Int)) :=
  if impl.startsWith "rows:" then
    let body := (impl.drop 5).toString
    if body = "[]" then some [] else
    (body.splitOn ",").mapM fun kv =>
      match kv.splitOn "=" with
      | [k, v] => do
          let k' ← parseOpt parseInt? k
          let v' ← parseOpt parseInt? v
          pure (some k', v')
      | _ => none
  else none

/-- Re-combine rows that carry the same key: exact sum of the non-NULL values, NULL if there is none. -/
def recombine (rows : List (Key × Option Int)) : List (Key × Option Int) :=
  let keys := rows.foldl (fun acc (k, _) => insertKey k acc) []
  keys.map fun k => (k, exactSum ((rows.filter fun (k', _) => k' == k).map (·.2)))

/-- Classifier of the open finding `group-nullkey-duplicate` (C04's subject, seen through grouped SUM): the grouping
    column has a NULL key in some partition, there are several partitions, the implementation returns some group key
    more than once, and adding up the rows of equal keys gives exactly the exact per-group sums (which the
    specification demands as rows, or — if one of them does not fit i64 — as Overflow: the split group was never added up,
    so the implementation did not notice). -/
def isNullKeyDuplicate (impl : String) (exact : List (Key × Option Int)) (parts : List PartRes) : Bool :=
  match parseGrouped impl with
  | some rows =>
      parts.length ≥ 2 &&
      parts.any (fun p => p.keys.any (· == some none)) &&
      rows.length > (recombine rows).length &&
      recombine rows == exact
  | none => false

def dedup (xs : List SumOut) : List SumOut :=
  xs.foldl (fun acc x => if acc.any (· == x) then acc else acc ++ [x]) []

def stepSum (rpn bounds gtok : String) (rest : List String) : String :=
  match rest.reverse with
  | impl :: colsRev =>
      let cols := colsRev.reverse
      match parseRpn (rpn.splitOn ","), parseBounds bounds, cols.mapM parseCol with
      | some e, some bs, some cs =>
          let g : Option Nat := if gtok = "-" then none else gtok.toNat?
          let pouts := (partsOf bs cs).map fun p => evalSumPart e g p.1 p.2
          -- errors that depend on the query shape only are raised by every partition while planning
          let shapeErr := pouts.findSome? fun o => match o with
            | .err .overflow => none
            | .err q => some q
            | _ => none
          match shapeErr with
          | some q => "err:" ++ q.toString ++ "\tSKIP"
          | none =>
            if pouts.any (fun o => match o with | .unknown => true | _ => false) then "?\tSKIP"
            else if pouts.any (fun o => match o with | .fault => true | _ => false) then "panic\tBAD model predicts a panic"
            else
              -- specification: exact arithmetic per row, exact sum per group
              let rows := transpose cs
              let specCells := rows.map fun r => evalRowSpec e r
              let exprFails := specCells.any (·.isNone)
              let gkeys : List Key := match g with
                | none => rows.map fun _ => none
                | some gi => rows.map fun r => some (r.getD gi none)
              let whole : PartRes := { keys := gkeys, cells := specCells.map fun c => c.getD none }
              let keysAll := allKeys [whole]
              let exact := keysAll.map fun k => (k, exactSum ((groupCells whole k).getD []))
              let fits := exact.all fun (_, v) => match v with | some x => decide (inI64 x) | none => true
              let expected : SumOut := if exprFails || !fits then .overflow else .rows exact
              -- implementation model
              let exprOverflow := pouts.any (fun o => match o with | .err _ => true | _ => false)
              let parts := pouts.filterMap fun o => match o with | .ok r => some r | _ => none
              let keys := allKeys parts
              let shapes := allShapes (parts.length + 1) 0 parts.length
              let outcomes := if exprOverflow then [SumOut.overflow] else dedup (shapes.map (implOutcome parts keys))
              let modelStr := match outcomes with
                | [o] => showSumOut o
                | _ => "?"
              let expStr := showSumOut expected
              let verdict :=
                if impl = expStr then "OK"
                else if impl = "err:overflow" then
                  -- an error instead of the exact rows: justified only by an intermediate sum outside i64
                  -- (or by the documented spurious `(i64::MIN+1) / -1` inside the summed expression)
                  if shapes.any (idealOverflows parts keys) || rows.any (spuriousDiv e) then "OK"
                  else "BAD spurious overflow; exact " ++ expStr
                else "BAD expected " ++ expStr
              let known :=
                if verdict.startsWith "BAD" && outcomes.any (fun o => showSumOut o = impl) && hasSentinelPartial parts keys
                then "\tsum-sentinel"
                else if verdict.startsWith "BAD" && g.isSome && !exprFails && isNullKeyDuplicate impl exact parts
                then "\tgroup-nullkey-duplicate" else ""
              modelStr ++ "\t" ++ verdict ++ known
      | _, _, _ => "bad-op\tbad-op"
  | [] => "bad-op\tbad-op"

def step (line : String) : String :=
  match splitTokens line with
  | ["layout", bounds] =>
      match parseBounds bounds with
      | some bs => "parts:" ++ toString (bs.length - 1) ++ "\tSKIP"
      | none => "bad-op\tbad-op"
  | "expr" :: rpn :: bounds :: _n :: cols => stepExpr rpn bounds cols
  | "sum" :: rpn :: bounds :: g :: _n :: rest => stepSum rpn bounds g rest
  | _ => "bad-op\tbad-op"

end LM.DrvC06

def main : IO Unit := LM.Proto.runDriver LM.DrvC06.step
