import LocustModel.Proto
import LocustModel.Wire.ResponseSpec
/-
  Driver for C17.  Input line:  `<kind> <inputs…> :: <implementation output>`

    enc <xor 0|1> <mantissa|_> <col>                          encode_column → wire → client, one column
    jcols <names> <name>=<col>…                               query_output_to_json_cols
    status <Variant|Ok>                                       map_err_response
    e2e query rows <names> <rows>                             /query            (embedded result in row format)
    e2e query_cols cols <names> <name>=<col>…                 /query_cols
    e2e mjson <k> cols … ;; cols …                            /multi_query_cols, JSON
    e2e mbin|mclient <k> <xor> <mantissa|_> <fp names> cols … ;; cols …     /multi_query_cols, capnp
    e2e intwire mbin|mclient <ints>                           one integer column of a capnp response:
                                                              `<layout:payload on the wire> => ok:<client ints>`
    e2e <endpoint> err <Variant>                              a failing query: `<status|dropped> next:<status>`
    e2e <endpoint> emb:<panic|hang>                           the embedded call itself did not return a value
    e2e twin                                                  same batches through /insert_bin and through
                                                              ingest_efficient on a second database: `same`
    e2e insert | next | clientflush | malformed <ep> | start  bookkeeping requests

  col   = I:<ints> | F:<16-hex,…> | S:<x…,…> | N:<n> | M:<cells>      cells: _ | i<int> | f<16 hex> | x<hex>
  names = comma separated x<hex> | []
  Output:  <model prediction of the implementation output> TAB <OK | BAD … | SKIP …> [TAB <known finding id>]
-/
namespace LM.DrvC17
open LM LM.Proto LM.Wire.Response LM.Gen.Status

def splitImpl (line : String) : String × String :=
  match line.trimAscii.toString.splitOn " :: " with
  | [a] => (a, "")
  | a :: rest => (a, " :: ".intercalate rest)
  | [] => ("", "")

def splitFirst (s : String) (sep : String) : Option (String × String) :=
  match s.splitOn sep with
  | a :: b :: rest => some (a, sep.intercalate (b :: rest))
  | _ => none

def hexNat? (s : String) : Option Nat :=
  if s.isEmpty then none else
  s.toList.foldlM (fun acc c => (hexDigit? c).map (acc * 16 + ·)) 0

def hex16 (n : Nat) : String :=
  String.ofList ((List.range 16).map fun i => hexChar ((n >>> (4 * (15 - i))) % 16))

def showBytes (bs : List Nat) : String :=
  "x" ++ String.ofList (bs.flatMap fun b => [hexChar (b / 16), hexChar (b % 16)])

def parseVal? (s : String) : Option Val :=
  match s.toList with
  | ['_'] => some .null
  | 'i' :: r => (String.ofList r).toInt?.map .int
  | 'f' :: r => (hexNat? (String.ofList r)).map .float
  | 'x' :: _ => some (.str s)
  | _ => none

def showVal : Val → String
  | .null => "_"
  | .int i => s!"i{i}"
  | .float b => "f" ++ hex16 b
  | .str s => s

def parseBCol? (s : String) : Option BCol := do
  let (k, d) ← splitFirst s ":"
  match k with
  | "I" => (parseList parseInt? d).map .int
  | "F" => (parseList hexNat? d).map .float
  | "S" => (parseList (fun x => some x) d).map .str
  | "N" => d.toNat?.map .null
  | "M" => (parseList parseVal? d).map .mixed
  | _ => none

def showW : WCol → String
  | .float xs => "float:" ++ showList hex16 xs
  | .int xs => "int:" ++ showList showInt xs
  | .str xs => "str:" ++ showList id xs
  | .mixed xs => "mixed:" ++ showList showVal xs
  | .null n => s!"null:{n}"
  | .xor b => "xor:" ++ showBytes b

def parseWCol? (s : String) : Option WCol := do
  let (k, d) ← splitFirst s ":"
  match k with
  | "float" => (parseList hexNat? d).map .float
  | "int" => (parseList parseInt? d).map .int
  | "str" => (parseList (fun x => some x) d).map .str
  | "mixed" => (parseList parseVal? d).map .mixed
  | "null" => d.toNat?.map .null
  | _ => none

def parseNamed? (s : String) : Option (String × BCol) := do
  let (n, c) ← splitFirst s "="
  let c ← parseBCol? c
  pure (n, c)

def parseNames? (s : String) : Option (List String) := parseList (fun x => some x) s

def parseNamedList? (toks : List String) : Option (List (String × BCol)) :=
  if toks = ["[]"] then some [] else toks.mapM parseNamed?

def insertSorted (e : String × α) : List (String × α) → List (String × α)
  | [] => [e]
  | x :: xs => if e.1 < x.1 then e :: x :: xs else x :: insertSorted e xs

def sortByName (l : List (String × α)) : List (String × α) := l.foldr insertSorted []

def parseOptsMant? (s : String) : Option (Option Nat) := parseOpt parseNat? s

/-! ### decidable forms of the specification -/

def zipAll (p : α → β → Bool) : List α → List β → Bool
  | [], [] => true
  | a :: as, b :: bs => p a b && zipAll p as bs
  | _, _ => false

/-- `Zip2 (CellKeeps mask) ys xs`, decided. -/
def cellsAgree (mask : Nat) (ys xs : List Val) : Bool := zipAll (fun y x => decide (CellKeeps mask y x)) ys xs

/-- `ConsistentNames`, decided. -/
def consistentB (cols : List (String × BCol)) : Bool :=
  cols.all fun a => cols.all fun b => a.1 != b.1 || a.2 == b.2

def dupId (cols : List (String × BCol)) : String := if consistentB cols then "" else "http-cols-duplicate-names"

def withKnown (model spec known : String) : String :=
  model ++ "\t" ++ spec ++ (if known = "" || !(spec.startsWith "BAD") then "" else "\t" ++ known)

/-! ### enc -/

def showOutcome : Outcome → String
  | .ok c => showW c
  | .serverPanic => "panic-ser"
  | .clientPanic => "panic-de"

def deliverShow (w : WCol) : String :=
  match transmit w with
  | .serverPanic => "panic-ser"
  | .clientPanic => "panic-de"
  | .ok c =>
    match clientDecode c with
    | .ok c' => showW c'
    | .error _ => "panic-client"

def encModel (col : BCol) (o : Opts) : String :=
  match encodeColumn col o with
  | .error _ => "panic"
  | .ok w => showW w ++ " => " ++ deliverShow w

/-- The client's column must show the specified view under the mask in effect. -/
def judgeBinCol (o : Opts) (col : BCol) (client : String) : String :=
  match parseWCol? client with
  | none => "BAD the client did not obtain a column: " ++ client.take 40
  | some c =>
    match c.cells with
    | none => "BAD column still compressed"
    | some ys =>
      if cellsAgree (effMask o) ys (specView col) then "OK"
      else s!"BAD client cells {(showList showVal ys).take 80} expected {(showList showVal (specView col)).take 80}"

def assertDomain (col : BCol) (o : Opts) : Bool :=
  o.xor && LM.Wire.XorFloat.mantissaTooLarge o.mantissa && floatish col.cells

def stepEnc (xor mant colTok impl : String) : String :=
  match parseNat? xor, parseOptsMant? mant, parseBCol? colTok with
  | some x, some m, some col =>
    let o : Opts := { xor := x == 1, mantissa := m }
    let model := encModel col o
    let spec :=
      if assertDomain col o then "SKIP xor compression with mantissa > 52 (documented assert)"
      else match impl.splitOn " => " with
        | [_, client] => judgeBinCol o col client
        | _ => "BAD encode_column did not return: " ++ impl.take 40
    withKnown model spec ""
  | _, _, _ => "bad-op\tbad-op"

/-! ### JSON -/

def showJ : JScalar → String
  | .null => "_"
  | .int i => s!"i{i}"
  | .float b => "f" ++ hex16 b
  | .str s => s

def showJCol : JCol → String
  | .arr xs => showList showJ xs
  | .num n => s!"#{n}"

def showJCols (j : JColsResp) : String :=
  "names:" ++ showList id j.colnames ++ " cols:" ++
    (if j.cols.isEmpty then "[]" else "|".intercalate ((sortByName j.cols).map fun (n, c) => n ++ "=" ++ showJCol c))

def showJRows (j : JRowsResp) : String :=
  "names:" ++ showList id j.colnames ++ " rows:" ++
    (if j.rows.isEmpty then "[]" else ";".intercalate (j.rows.map fun r => if r.isEmpty then "()" else ",".intercalate (r.map showJ)))

def parseJ? (s : String) : Option JScalar :=
  match s.toList with
  | ['_'] => some .null
  | 'i' :: r => (String.ofList r).toInt?.map .int
  | 'f' :: r => (hexNat? (String.ofList r)).map .float
  | 'x' :: _ => some (.str s)
  | _ => none

def parseJCol? (s : String) : Option JCol :=
  match s.toList with
  | '#' :: r => (String.ofList r).toNat?.map .num
  | _ => (parseList parseJ? s).map .arr

/-- `names:<…> cols:<name>=<col>|…`. -/
def parseJCols? (namesTok colsTok : String) : Option JColsResp := do
  let (k1, names) ← splitFirst namesTok ":"
  let (k2, cols) ← splitFirst colsTok ":"
  if k1 ≠ "names" || k2 ≠ "cols" then none
  let names ← parseNames? names
  let cols ← if cols = "[]" then some [] else (cols.splitOn "|").mapM fun e => do
    let (n, c) ← splitFirst e "="
    let c ← parseJCol? c
    pure (n, c)
  pure { colnames := names, cols := cols }

def parseJRow? (r : String) : Option (List JScalar) :=
  if r = "()" then some [] else (r.splitOn ",").mapM parseJ?

def parseJRowList? (rows : String) : Option (List (List JScalar)) :=
  if rows = "[]" then some [] else (rows.splitOn ";").mapM parseJRow?

def parseJRows? (namesTok rowsTok : String) : Option JRowsResp := do
  let (k1, names) ← splitFirst namesTok ":"
  let (k2, rows) ← splitFirst rowsTok ":"
  if k1 ≠ "names" || k2 ≠ "rows" then none
  let names ← parseNames? names
  let rows ← parseJRowList? rows
  pure { colnames := names, rows := rows }

/-- `JsonColsAgree`, decided. -/
def jsonColsAgreeB (names : List String) (columns : List (String × BCol)) (j : JColsResp) : String :=
  if j.colnames ≠ names then "BAD colnames differ"
  else
    match columns.find? (fun nc => match lookupKV nc.1 j.cols with
        | some jc => readCol jc != nc.2.cells.map finiteOrNull
        | none => true) with
    | some nc => s!"BAD column {nc.1}: " ++ (match lookupKV nc.1 j.cols with
        | some jc => s!"cells {(showList showVal (readCol jc)).take 80} expected {(showList showVal (nc.2.cells.map finiteOrNull)).take 80}"
        | none => "missing")
    | none =>
      if j.cols.all (fun njc => columns.any (fun nc => nc.1 == njc.1)) then "OK" else "BAD the response has a column the result does not have"

def jsonRowsAgreeB (names : List String) (rows : List (List Val)) (j : JRowsResp) : String :=
  if j.colnames ≠ names then "BAD colnames differ"
  else if j.rows.map (fun r => r.map readScalar) == rows.map (fun r => r.map finiteOrNull) then "OK"
  else "BAD rows differ"

def judgeJCols (names : List String) (columns : List (String × BCol)) (view : List String) : String :=
  match view with
  | [n, c] =>
    match parseJCols? n c with
    | some j => jsonColsAgreeB names columns j
    | none => "BAD unparsable response: " ++ (n ++ " " ++ c).take 60
  | _ => "BAD unexpected response: " ++ (" ".intercalate view).take 60

def stepJCols (namesTok : String) (colToks : List String) (impl : String) : String :=
  match parseNames? namesTok, parseNamedList? colToks with
  | some names, some cols =>
    let model := showJCols (queryOutputToJsonCols names cols)
    withKnown model (judgeJCols names cols (splitTokens impl)) (dupId cols)
  | _, _ => "bad-op\tbad-op"

/-! ### status -/

def parseQErr? (s : String) : Option QErr := QErr.all.find? fun e => e.name == s

def stepStatus (v impl : String) : String :=
  if v = "Ok" then
    (if okPassesThrough then "200" else "?") ++ "\t" ++ (if impl = "200" then "OK" else "BAD an Ok result was not passed through")
  else match parseQErr? v with
  | none => "?\tBAD unknown QueryError variant " ++ v ++ " (the enum changed: regenerate)"
  | some e =>
    let spec := match impl.toNat? with
      | some s => if decide (IsErrorStatus s) then "OK" else s!"BAD status {s} is not an error status"
      | none => "BAD no status: " ++ impl.take 20
    s!"{mapErrStatus e}" ++ "\t" ++ spec

/-! ### e2e -/

def parseEndpoint? : String → Option Endpoint
  | "query" => some .query
  | "query_cols" => some .query_cols
  | "mjson" | "mbin" | "mclient" => some .multi_query_cols
  | _ => none

def showErrResp : Resp → String
  | .error s => s!"{s}"
  | .dropped => "dropped"
  | _ => "?"

/-- A failing query: `<status> next:<status of the next request>`. -/
def stepErr (ep v impl : String) : String :=
  match parseEndpoint? ep, parseQErr? v with
  | some e, some q =>
    let model := showErrResp (errorOutcome e q) ++ " next:200"
    let spec := match impl.splitOn " next:" with
      | [st, nx] =>
        match st.toNat? with
        | some s =>
          if !decide (IsErrorStatus s) then s!"BAD a failing query was answered with status {s}"
          else if nx ≠ "200" then "BAD the request after a failing query was not answered: " ++ nx
          else "OK"
        | none => "BAD a failing query got no HTTP status (" ++ st ++ ")" ++ (if nx = "200" then "" else "; next request: " ++ nx)
      | _ => "BAD unexpected output"
    model ++ "\t" ++ spec
  | _, _ => "bad-op\tbad-op"

def splitBlocks (toks : List String) : List (List String) :=
  let rec go (cur : List String) (acc : List (List String)) : List String → List (List String)
    | [] => (cur.reverse :: acc).reverse
    | t :: ts => if t = ";;" then go [] (cur.reverse :: acc) ts else go (t :: cur) acc ts
  go [] [] toks

/-- `cols <names> <named>…` → colnames, columns. -/
def parseBlock? : List String → Option (List String × List (String × BCol))
  | "cols" :: names :: cols => do
    let names ← parseNames? names
    let cols ← parseNamedList? cols
    pure (names, cols)
  | _ => none

def stepQueryRows (namesTok rowsTok impl : String) : String :=
  let rows? : Option (List (List Val)) :=
    if rowsTok = "[]" then some [] else (rowsTok.splitOn ";").mapM fun r => if r = "()" then some [] else (r.splitOn ",").mapM parseVal?
  match parseNames? namesTok, rows? with
  | some names, some rows =>
    let model := "200 " ++ showJRows (queryRowsJson names rows)
    let spec := match splitTokens impl with
      | ["200", n, r] => (match parseJRows? n r with | some j => jsonRowsAgreeB names rows j | none => "BAD unparsable response")
      | _ => "BAD a successful query was not answered with 200: " ++ impl.take 40
    model ++ "\t" ++ spec
  | _, _ => "bad-op\tbad-op"

def stepQueryCols (namesTok : String) (colToks : List String) (impl : String) : String :=
  match parseNames? namesTok, parseNamedList? colToks with
  | some names, some cols =>
    let model := "200 " ++ showJCols (queryOutputToJsonCols names cols)
    let spec := match splitTokens impl with
      | "200" :: view => judgeJCols names cols view
      | _ => "BAD a successful query was not answered with 200: " ++ impl.take 40
    withKnown model spec (dupId cols)
  | _, _ => "bad-op\tbad-op"

def firstBad (xs : List String) : String := (xs.find? (· ≠ "OK")).getD "OK"

def stepMJson (blocks : List (List String)) (impl : String) : String :=
  match blocks.mapM parseBlock? with
  | none => "bad-op\tbad-op"
  | some outs =>
    let model := "200 " ++ " ;; ".intercalate (outs.map fun (n, c) => showJCols (queryOutputToJsonCols n c))
    let spec := match splitTokens impl with
      | "200" :: rest =>
        let views := splitBlocks rest
        if views.length ≠ outs.length then "BAD number of responses differs from the number of queries"
        else firstBad ((outs.zip views).map fun ((n, c), v) => judgeJCols n c v)
      | _ => "BAD a successful request was not answered with 200: " ++ impl.take 40
    withKnown model spec (firstBad' (outs.map fun (_, c) => dupId c))
where firstBad' (xs : List String) : String := (xs.find? (· ≠ "")).getD ""

def showBinResp (r : List (String × WCol)) : Option String :=
  -- every column as the caller of `multi_query` holds it; `none` = a client-side panic
  let cols := (sortByName r).mapM fun (n, w) =>
    match deliver w with
    | .ok c => some (n ++ "=" ++ showW c)
    | _ => none
  cols.map fun cs => if cs.isEmpty then "[]" else "|".intercalate cs

def parseBinView? (s : String) : Option (List (String × WCol)) :=
  if s = "[]" then some [] else (s.splitOn "|").mapM fun e => do
    let (n, c) ← splitFirst e "="
    let c ← parseWCol? c
    pure (n, c)

def judgeBin (eo : EncodingOpts) (cols : List (String × BCol)) (view : List String) : String :=
  match view with
  | [v] =>
    match parseBinView? v with
    | none => "BAD unparsable response"
    | some r =>
      match cols.find? (fun nc => match lookupKV nc.1 r with
          | some c => (match c.cells with
              | some ys => !cellsAgree (effMask (optsFor eo nc.1)) ys (specView nc.2)
              | none => true)
          | none => true) with
      | some nc => s!"BAD column {nc.1} differs from the embedded result"
      | none => if r.all (fun nw => cols.any (fun nc => nc.1 == nw.1)) then "OK" else "BAD the response has a column the result does not have"
  | _ => "BAD unexpected response"

def stepMBin (xor mant fp : String) (blocks : List (List String)) (impl : String) : String :=
  match parseNat? xor, parseOptsMant? mant, parseNames? fp, blocks.mapM parseBlock? with
  | some x, some m, some fp, some outs =>
    let eo : EncodingOpts := { xor := x == 1, mantissa := m, fullPrecisionCols := fp }
    let qouts : List QOut := outs.map fun (n, c) => { colnames := n, columns := c, rows := [] }
    let model := match handleMulti (some eo) (qouts.map .ok) with
      | .multiBin rs =>
        (match rs.mapM showBinResp with
          | some vs => "200 " ++ " ;; ".intercalate vs
          | none => "200 client-panic")
      | .dropped => "dropped"
      | _ => "?"
    let domainSkip := outs.any fun (_, c) => c.any fun nc => assertDomain nc.2 (optsFor eo nc.1)
    let spec :=
      if domainSkip then "SKIP xor compression with mantissa > 52 (documented assert)"
      else match splitTokens impl with
      | "200" :: rest =>
        let views := splitBlocks rest
        if views.length ≠ outs.length then "BAD the client did not obtain the responses: " ++ impl.take 40
        else firstBad ((outs.zip views).map fun ((_, c), v) => judgeBin eo c v)
      | _ => "BAD a successful request was not answered with 200: " ++ impl.take 40
    let dup := ((outs.map fun (_, c) => dupId c).find? (· ≠ "")).getD ""
    withKnown model spec dup
  | _, _, _, _ => "bad-op\tbad-op"

/-! ### integer wire layouts (one case per integer column of a binary response) -/
section IntWire
open LM.Wire.ApiInts

def showInts (xs : List Int) : String := showList showInt xs

/-- Same text as C16's `ints` stream. -/
def showLayout : Layout → String
  | .range s n st => s!"range:{s}:{n}:{st}"
  | .delta w f d => s!"d{w.tag}:{f}:{showInts d}"
  | .ddelta w f s d => s!"dd{w.tag}:{f}:{s}:{showInts d}"
  | .plain xs => s!"plain:{showInts xs}"

/-- `e2e intwire <ep> <ints> :: <layout on the wire> => ok:<ints the client holds>`: the model predicts the union
    member and its payload (`ApiInts.encode`, the ladder of `Column::serialize_builder`) and what the decoder returns;
    the specification demands that the client holds the embedded column. -/
def stepIntWire (arg impl : String) : String :=
  match parseList parseInt? arg with
  | none => "bad-op\tbad-op"
  | some xs =>
    let model := match encode xs with
      | .error _ => "panic-enc"
      | .ok l => showLayout l ++ " => " ++ (match decode l with
          | .error _ => "panic-dec"
          | .ok ys => "ok:" ++ showInts ys)
    let spec := match impl.splitOn " => " with
      | [_, dec] => if dec = "ok:" ++ showInts xs then "OK" else "BAD the client's integers differ from the embedded column: " ++ dec.take 60
      | _ => "BAD no decoded column: " ++ impl.take 60
    model ++ "\t" ++ spec
end IntWire

def stepE2E (toks : List String) (impl : String) : String :=
  match toks with
  | ["intwire", _ep, ints] => stepIntWire ints impl
  | [ep, "err", v] => stepErr ep v impl
  | ["query", "rows", names, rows] => stepQueryRows names rows impl
  | "query_cols" :: "cols" :: names :: cols => stepQueryCols names cols impl
  | "mjson" :: _k :: rest => stepMJson (splitBlocks rest) impl
  | "mbin" :: _k :: x :: m :: fp :: rest => stepMBin x m fp (splitBlocks rest) impl
  | "mclient" :: _k :: x :: m :: fp :: rest => stepMBin x m fp (splitBlocks rest) impl
  | ["twin"] => "same\t" ++ (if impl = "same" then "OK" else "BAD rows inserted through /insert_bin and through the embedded API give different query results: " ++ impl)
  | ["insert"] => "200\t" ++ (if impl = "200" then "OK" else "BAD insert_bin answered " ++ impl)
  | ["next"] => "next:200\t" ++ (if impl = "next:200" then "OK" else "BAD the request after a panic was not answered: " ++ impl)
  | ["clientflush"] => "flushed\t" ++ (if impl = "flushed" then "OK" else "BAD the logging client could not deliver its buffer")
  | ["malformed", _ep] =>
    "?\t" ++ (match impl.splitOn " next:" with
      | [st, nx] => (match st.toNat? with
          | some s => if 400 ≤ s && s < 500 && nx = "200" then "OK" else "BAD malformed request: " ++ impl
          | none => "BAD malformed request: " ++ impl)
      | _ => "BAD unexpected output")
  | [_, emb] =>
    if emb.startsWith "emb:" then "?\tSKIP the embedded call itself did not return a value (C11/C12)" else "bad-op\tbad-op"
  | ["start"] => "?\tBAD the server did not start"
  | _ => "bad-op\tbad-op"

def step (line : String) : String :=
  let (inp, impl) := splitImpl line
  match splitTokens inp with
  | ["enc", x, m, col] => stepEnc x m col impl
  | "jcols" :: names :: cols => stepJCols names cols impl
  | ["status", v] => stepStatus v impl
  | "e2e" :: rest => stepE2E rest impl
  | _ => "bad-op\tbad-op"

end LM.DrvC17

def main : IO Unit := LM.Proto.runDriver LM.DrvC17.step
