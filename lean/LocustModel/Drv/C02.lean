import LocustModel.Proto
import LocustModel.Query.SqlProto
import LocustModel.Query.Layout
/-
  Driver for C02.  Input line (one case = logical table + query + all realisations):

    lay <kind> <items> <where|-> <order|-> <limit|-> <offset> <ncols> <col0 cells> … <k> (<split> <batch_size> <obs> <out>)×k

    kind   sel | ord | grp | agg
    items  sel/ord: `;`-separated RPN expressions (ord: the first is the `id` column)
           grp/agg: `;`-separated `k<col>` (group key) | `a<fn>:<col>` fn ∈ count1 count sum min max
    order  `;`-separated `<col>:a|d`
    split  actual partition lengths in row-range order;  obs: compaction inputs observed (`-` none), format of
           `LM.classifyObs`;  out: `rows:<rows>` | `err:<kind>` | `panic` | `hang` | `build-…`

  Output:  <model> TAB <spec> [TAB <finding id>]
    model  the outputs predicted by `evalPhys` on the actual split of every realisation (space separated, same
           text as the implementation column), `?` where the model does not predict (unstable top-n ties,
           realisations covered by an open finding, queries outside the fragment)
    spec   OK when every realisation's output satisfies `evalLogical` on the logical table (exact rows for
           sel, the ORDER BY relation for ord, the multiset of groups for grp/agg) — hence all agree;
           BAD R<i> <why> otherwise; SKIP outside the fragment
-/
namespace LM.DrvC02
open LM LM.Proto LM.Sql LM.SqlProto LM.Combine LM.Layout LM.OrderSpec LM.GroupSpec

inductive Kind where | sel | ord | grp | agg
  deriving DecidableEq, Repr

structure Real where
  split : List Nat
  batchSize : Nat
  obs : String
  out : String

structure Case where
  kind : Kind
  exprs : List Expr
  sel : List SelItem
  pred : Option Expr
  order : List (Nat × Bool)
  limit : Option Nat
  offset : Nat
  rows : List Row
  reals : List Real

def parseFn (s : String) : Option AggFn :=
  if s = "count1" then some .count1 else if s = "count" then some .count else if s = "sum" then some .sum
  else if s = "min" then some .min else if s = "max" then some .max else none

def parseItem (s : String) : Option SelItem :=
  match s.toList with
  | 'k' :: rest => (String.ofList rest).toNat?.map SelItem.key
  | 'a' :: rest =>
      match (String.ofList rest).splitOn ":" with
      | [f, c] => do pure (.agg ⟨← parseFn f, ← c.toNat?⟩)
      | _ => none
  | _ => none

def parseOrder (s : String) : Option (List (Nat × Bool)) :=
  if s = "-" then some [] else
  (s.splitOn ";").mapM fun t => match t.splitOn ":" with
    | [c, d] => do pure ((← c.toNat?), d = "d")
    | _ => none

def takeReals : Nat → List String → Option (List Real)
  | 0, [] => some []
  | 0, _ => none
  | n + 1, sp :: bs :: obs :: out :: rest => do
      let s ← parseList parseNat? sp
      let b ← bs.toNat?
      let t ← takeReals n rest
      pure (⟨s, b, obs, out⟩ :: t)
  | _, _ => none

def parseCase (toks : List String) : Option Case :=
  match toks with
  | "lay" :: kind :: items :: wh :: ord :: lim :: off :: ncols :: rest => do
      let k ← (if kind = "sel" then some Kind.sel else if kind = "ord" then some .ord
               else if kind = "grp" then some .grp else if kind = "agg" then some .agg else none)
      let nc ← ncols.toNat?
      let cols ← (rest.take nc).mapM parseCells
      let n := (cols.head?.map List.length).getD 0
      let rows := transpose cols n
      let pred ← parseOptExpr wh
      let order ← parseOrder ord
      let limit ← (if lim = "-" then some none else lim.toNat?.map some)
      let offset ← off.toNat?
      let (exprs, sel) ← (match k with
        | .sel | .ord => do pure ((← (items.splitOn ";").mapM parseExpr), [])
        | .grp | .agg => do pure ([], (← (items.splitOn ";").mapM parseItem)))
      match rest.drop nc with
      | kk :: triples => do
          let reals ← takeReals (← kk.toNat?) triples
          pure ⟨k, exprs, sel, pred, order, limit, offset, rows, reals⟩
      | [] => none
  | _ => none

/-! C07's five compaction findings were repaired in /repo (9061c98, 517cc41, 502d6c5, ac95cd6, 5d2aab4); their classifier on
    the observed compaction inputs (`obs`) has been removed — a compacted layout that answers differently is a violation. -/

def classifyObs (_obs : String) : String := ""

/-! ### canonical text -/

/-- -0.0 is shown as 0.0 in aggregate results (equal under OrderedFloat; which pattern MIN/MAX returns is not specified). -/
def normCell : Val → Val
  | .float b => if b = 9223372036854775808 then .float 0 else .float b
  | v => v

def showOut (rs : List Row) : String := "rows:" ++ showRows rs

def parseOut (s : String) : Option (List Row) :=
  match s.toList with
  | 'r' :: 'o' :: 'w' :: 's' :: ':' :: rest => parseRows (String.ofList rest)
  | _ => none

/-- The harness prints grouped results sorted by Rust's derived order on its `Cell` (Null < Int < Float(bits) < Str(bytes)),
    rows lexicographically; the model prints in the same order. -/
def cellRank : Val → Nat
  | .null => 0 | .int _ => 1 | .float _ => 2 | .str _ => 3

def cellCmpLt (a b : Val) : Bool :=
  match a, b with
  | .int x, .int y => x < y
  | .float x, .float y => x < y
  | .str x, .str y => bytesLt x y
  | x, y => cellRank x < cellRank y

def rowLt : Row → Row → Bool
  | [], [] => false
  | [], _ :: _ => true
  | _ :: _, [] => false
  | a :: as, b :: bs => if cellCmpLt a b then true else if cellCmpLt b a then false else rowLt as bs

def sortRows (rs : List Row) : List Row := isort (fun a b => !rowLt b a) rs

def sameMultiset (a b : List Row) : Bool := (a.map (·.map normCell)).isPerm (b.map (·.map normCell))

/-! ### the queries -/

def selQ (c : Case) : SelQuery := ⟨c.exprs, c.pred, c.limit.getD (c.rows.length + c.offset + 1), c.offset⟩
def ordQ (c : Case) : OrdQuery := ⟨c.exprs, c.pred, c.order, c.limit.getD (c.rows.length + c.offset + 1), c.offset⟩

def foldTree {α : Type} : List α → Option (Tree α)
  | [] => none
  | a :: rest => some (rest.foldl (fun t x => .node t (.leaf x)) (.leaf a))

/-- Evaluate the partition results through the model of `QueryTask` (`Combine.schedule`) for a two-worker
    assignment in which worker 1 completes the odd partitions in reverse order and worker 2 the even ones — a
    schedule unlike the left fold; by `C02_schedule_tree` + `C02_combine_assoc` every schedule gives the same
    answer, the driver just does not rely on it.  `none` if the schedule does not end with the single full-range entry. -/
def schedEval {α : Type} (f : α → α → α) (leaves : List α) : Option α :=
  let n := leaves.length
  let idx := List.range n
  let w1 := (idx.filter (· % 2 = 1)).reverse
  let w2 := idx.filter (· % 2 = 0)
  match schedule f leaves [w1, w2] with
  | [s] => if s.lo = 0 ∧ s.hi = n then some s.val else none
  | _ => none

/-- `Res.all` on the partitions, as text for the error cases. -/
inductive Pred where
  | rows (r : List Row)
  | err (s : String)
  | unknown

def Pred.show : Pred → String
  | .rows r => showOut r
  | .err s => s
  | .unknown => "?"

def resToPred : Res (List Row) → Pred
  | .ok r => .rows r
  | .overflow => .err "err:overflow"
  | .unsupported => .unknown

/-- The one spurious Overflow the engine raises on an exactly representable result and that C06's wording allows ("exact or
    the query fails"): `(i64::MIN + 1) / -1` (numeric_operators.rs: the guard is `lhs <= -i64::MAX && rhs == -1`).  It is
    raised for every row the expression is evaluated on — all rows that pass the WHERE clause, in every partition, whatever
    LIMIT says — hence in every layout: layout independent, C06's documented quirk (docs/C06.md, `spuriousDiv`). -/
def spuriousDiv : Expr → Row → Bool
  | .arith op l r, row =>
      spuriousDiv l row || spuriousDiv r row ||
      (op == .div && eval i2fNative l row == .val (.int (I64_MIN + 1)) && eval i2fNative r row == .val (.int (-1)))
  | .cmp _ l r, row => spuriousDiv l row || spuriousDiv r row
  | .and l r, row => spuriousDiv l row || spuriousDiv r row
  | .or l r, row => spuriousDiv l row || spuriousDiv r row
  | .not e, row => spuriousDiv e row
  | .isNull e, row => spuriousDiv e row
  | .isNotNull e, row => spuriousDiv e row
  | _, _ => false

/-- some projected expression meets the spurious division on a row that passes the WHERE clause -/
def spuriousSel (c : Case) : Bool :=
  match filterRows i2fNative c.pred c.rows with
  | .ok kept => kept.any fun row => c.exprs.any (spuriousDiv · row)
  | _ => false

/-! ### sel -/

def physSel (c : Case) (split : List Nat) : Pred :=
  if spuriousSel c then .err "err:overflow" else
  let q := selQ c
  let parts := (splitRows split c.rows).filter (fun p => !p.isEmpty)
  match Res.all (parts.map (selectRows i2fNative q)) with
  | .ok leaves =>
      if leaves.isEmpty then .rows [] else
      (match schedEval (combineSel (q.limit + q.offset)) leaves, foldTree leaves with
       | some v, some t =>
           -- both the scheduled evaluation and the left fold, which must agree
           if outputSlice q.limit q.offset v == evalPhysSel i2fNative q t then .rows (outputSlice q.limit q.offset v) else .unknown
       | _, _ => .unknown)
  | .overflow => .err "err:overflow"
  | .unsupported => .unknown

/-! ### ord -/

def hasTie (dirs : List Bool) : List Item → Bool
  | [] => false
  | x :: xs => xs.any (fun y => eqv (itemLe dirs) x y) || hasTie dirs xs

/-- query.rs: `limit < partition_len / 2 && order_by.len() == 1 && !ranking.is_constant()` (an all-NULL key is constant). -/
def usesTopN (c : Case) (part : List Row) : Bool :=
  let lim := (c.limit.getD 18446744073709551615) + c.offset
  match c.order with
  | [(k, _)] => decide (lim < part.length / 2) && part.any (fun r => r.getD k .null != .null)
  | _ => false

def physOrd (c : Case) (split : List Nat) : Pred :=
  let q := ordQ c
  let dirs := keyDirs q.keys
  let parts := (splitRows split c.rows).filter (fun p => !p.isEmpty)
  let leaves := parts.map fun p => (p, orderItems i2fNative q p)
  if leaves.any (fun l => match l.2 with | .overflow => true | _ => false) then .err "err:overflow"
  else if leaves.any (fun l => match l.2 with | .unsupported => true | _ => false) then .unknown
  else
    let its : List (List Row × List Item) := leaves.map fun l => (l.1, match l.2 with | .ok i => i | _ => [])
    -- the top-n path is not stable: with ties inside such a partition the engine may return any of them
    if its.any (fun l => usesTopN c l.1 && hasTie dirs l.2) then .unknown
    else
      let sorted := its.map fun l => partSorted q l.2
      if sorted.isEmpty then .rows [] else
      match schedEval (combineSort (itemLe dirs) (q.limit + q.offset)) sorted, foldTree sorted with
      | some v, some t =>
          if outputSlice q.limit q.offset v == evalPhysOrd q t then .rows ((outputSlice q.limit q.offset v).map (·.2)) else .unknown
      | _, _ => .unknown

/-- The relation: look every returned row up by its `id` (first cell), check it shows what that row shows, judge. -/
def judgeOrd (c : Case) (out : List Row) : String :=
  let q := ordQ c
  match orderItems i2fNative q c.rows with
  | .ok items =>
      let byId (r : Row) : Option Item := items.find? (fun it => it.2.head? == r.head? && it.2 == r)
      (match out.mapM byId with
       | none => "BAD not-a-row"
       | some outItems => (judge (itemLe (keyDirs q.keys)) items outItems q.limit q.offset).toString)
  | .overflow => "BAD expected-overflow"
  | .unsupported => "SKIP"

/-! ### grp / agg -/

def specGrp (c : Case) : Res (List Row) := specGroupBy i2fNative c.sel c.pred c.rows

def keyCols (c : Case) : List Nat := c.sel.filterMap SelItem.keyCol?

def isIntCol (rows : List Row) (col : Nat) : Bool :=
  rows.any (fun r => match r.getD col .null with | .int _ => true | _ => false)

def keptRows (c : Case) : List Row :=
  match filterRows i2fNative c.pred c.rows with | .ok k => k | _ => []

/-! ### classifiers of the open findings (decidable predicates on the case) -/

def exprCols : Expr → List Nat
  | .col i => [i]
  | .lit _ => []
  | .cmp _ l r => exprCols l ++ exprCols r
  | .and l r => exprCols l ++ exprCols r
  | .or l r => exprCols l ++ exprCols r
  | .not e => exprCols e
  | .isNull e => exprCols e
  | .isNotNull e => exprCols e
  | .arith _ l r => exprCols l ++ exprCols r

def referencedCols (c : Case) : List Nat :=
  c.exprs.flatMap exprCols ++ (c.pred.map exprCols).getD [] ++ c.order.map (·.1)

/-- `where-null-partition-empty` (C02/C03): some column of the WHERE clause is NULL in every row of one partition of
    the realisation, so the predicate has type Null there (`Filter::Null`) and every selected column is replaced by the
    `Empty` placeholder, which exists only for non-nullable primitive types. -/
def isNullCols : Expr → List Nat
  | .isNull (.col i) => [i]
  | .isNotNull (.col i) => [i]
  | .cmp _ l r => isNullCols l ++ isNullCols r
  | .and l r => isNullCols l ++ isNullCols r
  | .or l r => isNullCols l ++ isNullCols r
  | .not e => isNullCols e
  | .isNull e => isNullCols e
  | .isNotNull e => isNullCols e
  | .arith _ l r => isNullCols l ++ isNullCols r
  | _ => []

/-- In some partition the WHERE clause (or a part of it) is planned as a constant: a column it reads is NULL in every row
    there (type Null), or it applies IS [NOT] NULL to a column without any NULL there (constant expansion). -/
def whereNullPartition (c : Case) (r : Real) : Bool :=
  let parts := (splitRows r.split c.rows).filter (fun p => !p.isEmpty)
  ((c.pred.map exprCols).getD []).any (fun k => parts.any (fun p => p.all (fun row => row.getD k .null == .null))) ||
  ((c.pred.map isNullCols).getD []).any (fun k => parts.any (fun p => p.all (fun row => row.getD k .null != .null)))

/-- `where-null-partition-empty`, narrow form used when the REFERENCE answer is Overflow (so the failing layout cannot be
    compared with rows): ONE non-empty partition `p` of the actual split in which
    (a) the WHERE clause is planned as a constant — a column it reads is NULL in every row of `p`, or it applies IS [NOT] NULL
        to a column without a NULL in `p` — so `filter.rs` plans `Empty` for every column read there, AND
    (b) a column of the select list (aggregate input or grouping column) is stored NULLABLE in `p`: it has a NULL cell and a
        non-NULL cell there (`empty` is reified for `Primitive` only: FatalError `empty not supported for type NullableU32/…`).
    thorough seed 2001: `SELECT COUNT(c3), SUM(c1), COUNT(c4) FROM t WHERE c2 > 556593042`, split [20,4,9], rows 20..23 have
    c2 = NULL throughout and c1 = -1, 65536, NULL, 128. -/
def whereConstNullableSel (c : Case) (r : Real) : Bool :=
  let parts := (splitRows r.split c.rows).filter (fun p => !p.isEmpty)
  let wcols := (c.pred.map exprCols).getD []
  let ncols := (c.pred.map isNullCols).getD []
  let scols := c.sel.filterMap fun | .key k => some k | .agg a => if a.fn = .count1 then none else some a.col
  parts.any fun p =>
    (wcols.any (fun k => p.all (fun row => row.getD k .null == .null)) ||
     ncols.any (fun k => p.all (fun row => row.getD k .null != .null))) &&
    scols.any (fun k => p.any (fun row => row.getD k .null == .null) && p.any (fun row => row.getD k .null != .null))

/-- `sum-sentinel` (C04/C06/C02): some SUM / MIN / MAX over an integer column has a partial result — over the rows of
    one group in one partition of this realisation, or over the whole group — equal to i64::MAX. -/
def sentinelPartial (c : Case) (split : List Nat) : Bool :=
  let keys := keyCols c
  let pieces := keptRows c :: (splitRows split c.rows).map (fun p => match filterRows i2fNative c.pred p with | .ok k => k | _ => [])
  c.sel.any fun
    | .agg a =>
        (a.fn = .sum || a.fn = .min || a.fn = .max) &&
        pieces.any (fun p => (groupRows keys p).any fun g =>
          match ints? ((colCells a.col g.2).filter (· ≠ .null)) with
          | some xs => !xs.isEmpty &&
              (match a.fn with
               | .sum => xs.foldl (· + ·) 0 == I64_MAX
               | _ => xs.any (· == I64_MAX - 0) )
          | none => false)
    | .key _ => false

/-- `groupby-absent-column` (C04/C02), value part: an integer SUM/MIN/MAX column whose input column is entirely NULL in some partition
    of this realisation and not in another comes back as floats.  Returns the spec rows with those cells cast. -/
def absentAggCols (c : Case) (split : List Nat) : List Nat :=
  let parts := (splitRows split c.rows).filter (fun p => !p.isEmpty)
  (List.range c.sel.length).filter fun i =>
    match c.sel[i]? with
    | some (.agg a) =>
        (a.fn = .sum || a.fn = .min || a.fn = .max) && isIntCol c.rows a.col &&
        parts.any (fun p => p.all (fun r => r.getD a.col .null == .null)) &&
        parts.any (fun p => p.any (fun r => r.getD a.col .null != .null))
    | _ => false

/-- Some aggregate (other than COUNT(1)) reads a column that is entirely NULL (absent) in one of the partitions of
    this realisation: that partition plans the aggregate on a `Null`-typed input. -/
def absentAggInput (c : Case) (split : List Nat) : Bool :=
  let parts := (splitRows split c.rows).filter (fun p => !p.isEmpty)
  c.sel.any fun
    | .agg a => a.fn ≠ .count1 && parts.any (fun p => p.all (fun r => r.getD a.col .null == .null))
    | .key _ => false

/-- `groupby-absent-column` (C04/C02): some column of the select list (grouping column or aggregate input) is entirely NULL
    in one of the partitions of this realisation (absent, or stored with encoding type Null). -/
def absentSelected (c : Case) (split : List Nat) : Bool :=
  let parts := (splitRows split c.rows).filter (fun p => !p.isEmpty)
  let cols := c.sel.filterMap fun | .key k => some k | .agg a => if a.fn = .count1 then none else some a.col
  cols.any fun k => parts.any (fun p => p.all (fun r => r.getD k .null == .null))

def floatify (cols : List Nat) (rs : List Row) : List Row :=
  rs.map fun r => (List.range r.length).map fun i =>
    match r.getD i .null with
    | .int v => if cols.contains i then .float (i2fNative v) else .int v
    | v => v

/-- `count-null-group` (C04): COUNT(c) of a group without a non-NULL input is NULL instead of 0; a partition that
    lacks `c` altogether drops its groups.  `nullCounts` shows the 0 cells of COUNT(c) columns as NULL. -/
def countCols (c : Case) : List Nat :=
  (List.range c.sel.length).filter fun i => match c.sel[i]? with | some (.agg a) => a.fn = .count | _ => false

def nullCounts (cols : List Nat) (rs : List Row) : List Row :=
  rs.map fun r => (List.range r.length).map fun i =>
    match r.getD i .null with
    | .int 0 => if cols.contains i then .null else .int 0
    | v => v

/-- Re-group result rows by their key cells, combining the aggregate cells (COUNT adds, SUM adds, MIN/MAX as
    usual, NULL neutral): what the result would be had no group been emitted twice. -/
def combineCell (fn : AggFn) (a b : Val) : Val :=
  match a, b with
  | .null, y => y
  | x, .null => x
  | .int x, .int y =>
      (match fn with
       | .min => .int (if x ≤ y then x else y)
       | .max => .int (if x ≥ y then x else y)
       | _ => .int (x + y))
  | .float x, .float y =>
      (match fn with
       | .min => .float (if floatKey x ≤ floatKey y then x else y)
       | .max => .float (if floatKey x ≥ floatKey y then x else y)
       | _ => .float x)
  | x, _ => x

def regroup (sel : List SelItem) (rs : List Row) : List Row :=
  let keyIdx := (List.range sel.length).filter fun i => match sel[i]? with | some (SelItem.key _) => true | _ => false
  let keyOf (r : Row) := keyIdx.map fun i => r.getD i .null
  let merge (a b : Row) : Row := (List.range sel.length).map fun i =>
    match sel[i]? with
    | some (SelItem.agg ag) => combineCell ag.fn (a.getD i .null) (b.getD i .null)
    | _ => a.getD i .null
  rs.foldl (fun acc r =>
    if acc.any (fun x => keyOf x == keyOf r) then acc.map (fun x => if keyOf x == keyOf r then merge x r else x)
    else acc ++ [r]) []

/-- some grouping column (integer, or dictionary-encoded string: both are grouped through `fuse_int_nulls`, NULL = smallest
    raw key) has a NULL among the rows that pass the filter -/
def nullIntKey (c : Case) : Bool :=
  (keyCols c).any fun k => (keptRows c).any (fun r => r.getD k .null == .null)

/-- Cell-by-cell comparison of a result row with the reference row of the same group, allowing exactly the
    deviations of two open findings; returns the findings used, `none` if some other cell differs.
    * `count-null-group`: a COUNT(c) cell whose reference value is 0 shows NULL or 1;
    * `groupby-absent-column`: an integer SUM/MIN/MAX cell of a column in `ac` shows the value cast to f64. -/
def cellsExplained (cc ac : List Nat) : Nat → List Val → List Val → Option (List String)
  | _, [], [] => some []
  | i, s :: ss, o :: os =>
      let rest := cellsExplained cc ac (i + 1) ss os
      if normCell s == normCell o then rest
      else if cc.contains i && s == .int 0 && (o == .null || o == .int 1) then rest.map ("count-null-group" :: ·)
      else match s with
        | .int v => if ac.contains i && o == .float (i2fNative v) then rest.map ("groupby-absent-column" :: ·) else none
        | _ => none
  | _, _, _ => none

/-- Match every returned row with the reference row of the same key; reference rows that are not returned must be
    groups whose COUNT(c) is 0 (dropped by a partition that lacks `c`).  `none`: not explained. -/
def rowsExplained (c : Case) (cc ac : List Nat) (spec out : List Row) : Option (List String) :=
  let keyIdx := (List.range c.sel.length).filter fun i => match c.sel[i]? with | some (SelItem.key _) => true | _ => false
  let keyOf (r : Row) := keyIdx.map fun i => normCell (r.getD i .null)
  let rec go : List Row → List Row → Option (List String)
    | [], [] => some []
    | [], _ :: _ => none
    | s :: ss, outs =>
        match outs.find? (fun o => keyOf o == keyOf s) with
        | some o =>
            (match cellsExplained cc ac 0 s o, go ss (outs.erase o) with
             | some a, some b => some (a ++ b)
             | _, _ => none)
        | none =>
            if cc.any (fun i => s.getD i .null == .int 0) then (go ss outs).map ("count-null-group" :: ·) else none
  go spec out

/-! (`groupby-valrows-streamed` (C02/C04) — grouped queries over a partition of at least `batch_size` rows (hash grouping on a packed
    string / wide-range integer key, value-row grouping on several keys): duplicate groups, NULL keys after the first chunk, index
    panics — was repaired in /repo 3cc8efd (no block buffer for a streaming consumer in a later stage), b5a9fe3
    (HashMapGroupingValRows run once per chunk), 5275058 (UnfuseNullsI64 block output), 3044fa3 (ValToNullableInt chunk-relative
    presence bits); its classifier `valRowsStreamed` has been removed, the witnesses stay in the corpus.) -/

/-- `groupby-compressed-key-type` (C04/C02): with two or more bit-packed grouping columns the decoded key of a column whose
    data section is pco/lz4-compressed is cast to the width of the COMPRESSED section (u8) instead of the decoded
    width: the returned key differs from the true key by a multiple of 256, everything else is right.
    Every reference row must be matched by a distinct returned row that agrees on all non-key cells and whose integer
    key cells are equal or congruent modulo 256, and at least one key cell must differ. -/
def keyCongruent (keyIdx : List Nat) (s o : Row) : Bool :=
  s.length == o.length && (List.range s.length).all fun i =>
    let a := normCell (s.getD i .null)
    let b := normCell (o.getD i .null)
    if keyIdx.contains i then
      match a, b with
      | .int x, .int y => (x - y) % 256 == 0
      | x, y => x == y
    else a == b

def keysTruncated (c : Case) (spec out : List Row) : Bool :=
  let keyIdx := (List.range c.sel.length).filter fun i => match c.sel[i]? with | some (SelItem.key _) => true | _ => false
  let rec go : List Row → List Row → Bool
    | [], rest => rest.isEmpty
    | s :: ss, outs =>
        match outs.find? (fun o => o == s) with
        | some o => go ss (outs.erase o)
        | none =>
          match outs.find? (keyCongruent keyIdx s) with
          | some o => go ss (outs.erase o)
          | none => false
  keyIdx.length ≥ 2 && !sameMultiset spec out && go spec out

/-- `groupby-compressed-key-type` across partitions: one partition shows the true keys, another the keys modulo 256, so a
    group that exists in both is not merged.  After reducing every integer key cell modulo 256 and re-aggregating by key, the
    answer and the reference coincide. -/
def truncKeys (keyIdx : List Nat) (rs : List Row) : List Row :=
  rs.map fun r => (List.range r.length).map fun i =>
    match r.getD i .null with
    | .int v => if keyIdx.contains i then .int (v % 256) else .int v
    | v => v

def keysTruncatedAcross (c : Case) (spec out : List Row) : Bool :=
  let keyIdx := (List.range c.sel.length).filter fun i => match c.sel[i]? with | some (SelItem.key _) => true | _ => false
  keyIdx.length ≥ 2 && !sameMultiset spec out &&
    sameMultiset (regroup c.sel (truncKeys keyIdx spec)) (regroup c.sel (truncKeys keyIdx out))

/-! (`executor-pinned-buffer` (C04/C11/C02) — a grouping column that is also a SUM/MIN/MAX input, stored offset-coded: the shared
    scalar offset glued the pre- and post-grouping decode into one streaming stage, worker panic `Trying to mutably borrow
    pinned buffer` — was repaired in /repo 186ef0c (stage membership is no longer propagated through scalar buffers); its
    classifier `pinnedKeyAggregate` has been removed, the witness stays in the corpus.) -/

/-- The finding that explains why realisation `r` deviates from `spec`, or "". -/
def classifyGrp (c : Case) (spec : Res (List Row)) (r : Real) : String :=
  let c07 := classifyObs r.obs
  if c07 ≠ "" then c07 else
  let may := mayOverflow i2fNative c.sel c.pred c.rows
  match spec, parseOut r.out with
  | .ok s, some out =>
      let cc := countCols c
      let ac := absentAggCols c r.split
      match rowsExplained c cc ac s out with
      | some (f :: _) => f
      | _ =>
        if sentinelPartial c r.split then "sum-sentinel"
        else if c.kind = .grp && nullIntKey c && r.split.length ≥ 2 &&
            (match rowsExplained c cc ac s (regroup c.sel out) with | some _ => true | none => false) then "groupby-null-key-order"
        else if c.kind = .grp && (keysTruncated c s out || keysTruncated c (nullCounts cc s) out || keysTruncatedAcross c (nullCounts cc s) (nullCounts cc out)) then "groupby-compressed-key-type"
        -- both at once: groups emitted twice AND truncated keys (a layout with NULL keys and compressed key columns)
        else if c.kind = .grp && nullIntKey c && r.split.length ≥ 2 &&
            (keysTruncated c s (regroup c.sel out) || keysTruncated c (nullCounts cc s) (regroup c.sel out)) then "groupby-null-key-order"
        -- C04's classifier of this entry is the trigger alone (dropped partitions, misaligned aggregates, …)
        else if absentSelected c r.split then "groupby-absent-column"
        else ""
  | .ok _, none =>
      if may && r.out = "err:overflow" then "sum-overflow-order"
      else if whereNullPartition c r && (r.out = "err:fatal" || r.out = "err:canceled" || r.out = "panic") then "where-null-partition-empty"
      else if absentSelected c r.split then "groupby-absent-column"
      else ""
  | .overflow, some _ => if sentinelPartial c r.split then "sum-sentinel" else if may then "sum-overflow-order" else ""
  -- the reference fails with Overflow but this layout fails earlier with another error
  | .overflow, none =>
      -- the WHERE is constant over a partition that stores a selected column nullable: planning that partition fails
      -- (`empty not supported for type Nullable…`; grouped: worker panic `EmptyVector.cast_ref_mixed`) before any sum is formed
      if whereConstNullableSel c r && (r.out = "err:fatal" || (c.kind = .grp && (r.out = "err:canceled" || r.out = "panic")))
      then "where-null-partition-empty"
      else if absentSelected c r.split then "groupby-absent-column"
      else ""
  | _, _ => ""

/-! ### classifiers for sel / ord -/

/-! (`null-typed-partition` (C02) — ORDER BY tie between sentinel NULL and Val::Null, `Empty` on a Null-typed column —
    was repaired in /repo d5d65c1 / 02c9cc0; its classifier has been removed.) -/

/-! (`topn-nullable-fused` (C05) — top-n on a nullable narrow / dictionary key panicked — was repaired in /repo 082c667; its
    classifier has been removed, the witness stays in the harness corpus.) -/

/-! (`topn-desc-nullable-string` (C05) was repaired in /repo bd933f4; classifier removed, witness kept in the corpus.) -/

/-- `select-i64max-null` (C06): a projected integer equal to i64::MAX (the in-band NULL) is shown as NULL — in every layout.
    The answer equals the reference once every i64::MAX cell of the reference is read as NULL. -/
def i64MaxShownNull (c : Case) (r : Real) : Bool :=
  match c.kind, evalLogicalSel i2fNative (selQ c) c.rows, parseOut r.out with
  | .sel, .ok s, some out =>
      s != out && s.map (·.map fun v => if v == .int I64_MAX then .null else v) == out
  | _, _, _ => false

/-! (`null-column-nullable-filter-count` (C02/C03) — `nullable_filter` on a Null-typed input counted the filter's data bytes —
    was repaired in /repo d5b38db; classifier removed, witness kept in the corpus.) -/

def classifyOrdSel (c : Case) (r : Real) (_why : String) : String :=
  let c07 := classifyObs r.obs
  if c07 ≠ "" then c07
  else if whereNullPartition c r && (r.out = "err:fatal" || r.out = "err:canceled" || r.out = "panic") then "where-null-partition-empty"
  else if i64MaxShownNull c r then "select-i64max-null"
  else ""

/-! ### one case -/

def okOrBad (i : Nat) (why : String) : String := s!"BAD R{i} {why}"

def firstBad (results : List (Nat × String)) : Option (Nat × String) := results.find? (fun p => p.2 ≠ "OK")

/-- The query fails in EVERY layout (error value, panic or hang in each realisation, the reference layout included):
    it is outside the fragment C02 speaks about — whether the failure itself is legitimate is the subject of
    C03–C06 / C11 / C12.  `skip` marks realisations the harness did not run after the reference layout and a
    second layout had both failed. -/
def allFail (c : Case) : Bool :=
  !c.reals.isEmpty && c.reals.all fun r => (parseOut r.out).isNone && r.out ≠ "err:overflow" && !r.out.startsWith "build-"

def stepCase (c : Case) : String :=
  if allFail c then "?\tSKIP all-layouts-fail" else
  let idx := List.range c.reals.length
  let reals := idx.zip c.reals
  match c.kind with
  | .sel =>
      let spec := evalLogicalSel i2fNative (selQ c) c.rows
      (match spec with
       | .unsupported => "?\tSKIP"
       | _ =>
        let expected := (resToPred spec).show
        let model := reals.map fun (_, r) => if classifyObs r.obs ≠ "" then Pred.unknown else physSel c r.split
        let modelS := if model.any (fun p => match p with | .unknown => true | _ => false) then "?" else " ".intercalate (model.map Pred.show)
        -- C06's documented spurious Overflow of `(i64::MIN+1) / -1` is accepted instead of the exact rows — but only
        -- from EVERY realisation: the answer must still be the same in all layouts
        let spuriousAll := spuriousSel c && c.reals.all (fun r => r.out = "err:overflow")
        let verdicts := reals.map fun (i, r) => (i, if r.out = expected || spuriousAll then "OK" else "differs-from-reference")
        match firstBad verdicts with
        | none => modelS ++ "\tOK"
        | some (i, why) =>
            let ids := (verdicts.filter (·.2 ≠ "OK")).map fun (j, w) => classifyOrdSel c (c.reals.getD j ⟨[], 0, "-", ""⟩) w
            let fid := if ids.all (· ≠ "") then ids.headD "" else ""
            modelS ++ "\t" ++ okOrBad i why ++ (if fid ≠ "" then "\t" ++ fid else ""))
  | .ord =>
      (match orderItems i2fNative (ordQ c) c.rows with
       | .unsupported => "?\tSKIP"
       | specItems =>
        let model := reals.map fun (_, r) => if classifyObs r.obs ≠ "" then Pred.unknown else physOrd c r.split
        let modelS := if model.any (fun p => match p with | .unknown => true | _ => false) then "?" else " ".intercalate (model.map Pred.show)
        let verdicts := reals.map fun (i, r) =>
          (i, match specItems, parseOut r.out with
              | .overflow, _ => if r.out = "err:overflow" then "OK" else "expected-err:overflow"
              | _, some out => (match judgeOrd c out with | "OK" => "OK" | s => s.drop 4 |>.toString)
              | _, none => "not-rows:" ++ r.out)
        match firstBad verdicts with
        | none => modelS ++ "\tOK"
        | some (i, why) =>
            let ids := (verdicts.filter (·.2 ≠ "OK")).map fun (j, w) => classifyOrdSel c (c.reals.getD j ⟨[], 0, "-", ""⟩) w
            let fid := if ids.all (· ≠ "") then ids.headD "" else ""
            modelS ++ "\t" ++ okOrBad i why ++ (if fid ≠ "" then "\t" ++ fid else ""))
  | .grp | .agg =>
      let spec := specGrp c
      (match spec with
       | .unsupported => "?\tSKIP"
       | _ =>
        let may := mayOverflow i2fNative c.sel c.pred c.rows
        let verdicts := reals.map fun (i, r) =>
          (i, match spec, parseOut r.out with
              | .ok s, some out => if sameMultiset s out then "OK" else "differs-from-reference"
              | .ok _, none => "not-rows:" ++ r.out
              | .overflow, _ => if r.out = "err:overflow" then "OK" else "expected-err:overflow"
              | _, _ => "?")
        let bad := verdicts.filter (·.2 ≠ "OK")
        let ids := bad.map fun (j, _) => classifyGrp c spec (c.reals.getD j ⟨[], 0, "-", ""⟩)
        -- the model (exact merge over the actual split = the specification, by C02_layout_group) predicts only
        -- outside the regions of the open findings
        let covered := !bad.isEmpty || may || c.reals.any (fun r => classifyObs r.obs ≠ "" || sentinelPartial c r.split)
        let expected := match spec with
          | .ok s => showOut (sortRows (s.map (·.map normCell)))
          | _ => "err:overflow"
        let modelS := if covered then "?" else " ".intercalate (c.reals.map fun _ => expected)
        match firstBad verdicts with
        | none => modelS ++ "\tOK"
        | some (i, why) =>
            let fid := if ids.all (· ≠ "") then ids.headD "" else ""
            modelS ++ "\t" ++ okOrBad i why ++ (if fid ≠ "" then "\t" ++ fid else ""))

def step (line : String) : String :=
  match parseCase (splitTokens line) with
  | some c => stepCase c
  | none => "bad-op\tbad-op"

end LM.DrvC02

def main : IO Unit := LM.Proto.runDriver LM.DrvC02.step
