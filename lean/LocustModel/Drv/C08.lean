import LocustModel.Store.Proto
/-
  Driver for C08.  Input: a history line (see `LocustModel/Store/Proto.lean`).
  Output:  <model dump> TAB <spec dump>
    (no known-finding field: the compaction defects of C07 that once made NULL cells differ after a compaction were
     repaired in /repo 9061c98 / 517cc41; a fixed entry suppresses nothing)
    model dump = what the machine model (mirror of ingest_efficient / wal_flush / recover) shows after the last step;
    spec dump  = the acknowledged rows, columns and tables computed from the history alone.
-/
namespace LM.DrvC08
open LM.Proto LM.Store.Drv

def step (line : String) : String :=
  match runLine line with
  | none => "bad-op\tbad-op"
  | some (s, _) => dumpModel s ++ "\t" ++ dumpSpec s

end LM.DrvC08

def main : IO Unit := LM.Proto.runDriver LM.DrvC08.step
