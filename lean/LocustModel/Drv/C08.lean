import LocustModel.Store.Proto
/-
  Driver for C08.  Input: a history line (see `LocustModel/Store/Proto.lean`).
  Output:  <model dump> TAB <spec dump> [TAB compaction-null-loss]
    (third field: classifier of the open C07 finding — a compaction merged rows containing a NULL cell)
    model dump = what the machine model (mirror of ingest_efficient / wal_flush / recover) shows after the last step;
    spec dump  = the acknowledged rows, columns and tables computed from the history alone.
-/
namespace LM.DrvC08
open LM.Proto LM.Store.Drv

def step (line : String) : String :=
  match runLine line with
  | none => "bad-op\tbad-op"
  | some (s, _) => dumpModel s ++ "\t" ++ dumpSpec s ++ (if s.nullCompacted then "\tcompaction-null-loss" else "")

end LM.DrvC08

def main : IO Unit := LM.Proto.runDriver LM.DrvC08.step
