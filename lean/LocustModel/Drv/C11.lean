import LocustModel.Proto
import LocustModel.Conc.SchedDb
import LocustModel.Conc.LockOrder
import LocustModel.Conc.WalGate
/-
  Driver for C11.  Input lines (harness/src/bin/c11.rs):
    seq n=<N> hist=<req,…|[]> req=<req> obs=<out>|<workers>|<flush>|<canary>
    par n=<N> hist=<req,…|[]> reqs=<req,…> obs=<out;out;…>|<workers>|<flush>|<canary>
    locks <file>:<fn> <field,field,…> <held>acquired[@callee],…|[]>
    gate max=<limit> size=<accounted bytes before> add=<accounted bytes of the call> obs=<ok|hang|panic>|<accounted after>
    stress n=<N> readers=<k> rounds=<r> queries=<q> obs=<worst out>|<workers>|<flush>|<canary>
    open k=<wal files> bad=<damaged wal files> out=<ok|panic|hang>
  <req> = q.<d|e|f…> | qp.<d|e|f…>.<d|e|f>.<kind> | qv.<kind> | qn.<parts>.<m>.<c> | t.<d|f> | st | mt | in | fl.<k1>.<f1>.<k2>.<f2>.<tf> | cl.<wal|tab>
  Output:  <model> TAB <spec>
    model = what the scheduler model (Cfg.current) predicts, in the text of the implementation output
            `<out> w=<workers> flush=<out> canary=<out>`
    spec  = OK | BAD <reason> (property C11 judged on the observed values) | SKIP (fault injected into the caller)
-/
namespace LM.DrvC11
open LM LM.Proto LM.Sched

def parseOut (c : Char) : Option Out :=
  if c = 'd' then some .done else if c = 'e' then some .err else if c = 'f' then some .fault else none

def parseReq (s : String) : Option Req :=
  match s.splitOn "." with
  | ["q", outs] => (outs.toList.mapM parseOut).map Req.query
  | ["qv", kind] => some (.queryErr kind)
  | ["qp", outs, fin, kind] => do
      let bodies ← outs.toList.mapM parseOut
      let fin ← match fin.toList with | [c] => parseOut c | _ => none
      pure (.queryPhase bodies fin kind)
  | ["qn", p, m, c] => do
      let p ← p.toNat?
      let m ← m.toNat?
      let c ← c.toNat?
      pure (.natural p m c)
  | ["t", "d"] => some (.fnTask .done)
  | ["t", "f"] => some (.fnTask .fault)
  | ["st"] => some .stats
  | ["mt"] => some .memTree
  | ["in"] => some .ingest
  | ["fl", a, b, c, d, e] => do
      let a ← a.toNat?
      let b ← b.toNat?
      let c ← c.toNat?
      let d ← d.toNat?
      let e ← e.toNat?
      pure (.flush a b c d e)
  | ["cl", "wal"] => some (.callerFault .walSize)
  | ["cl", "tab"] => some (.callerFault .tableLocks)
  | _ => none

def parseRet (s : String) : Option Ret :=
  if s = "ok" then some .ok else if s = "failed" then some .failed else if s = "panic" then some .panic
  else if s = "hang" then some .hang
  else match s.splitOn ":" with
    | ["err", k] => some (.err k)
    | _ => none

def field (key : String) (toks : List String) : Option String :=
  toks.findSome? fun t => if t.startsWith (key ++ "=") then some (t.drop (key.length + 1)).toString else none

def showObs (out : String) (o : Obs) : String :=
  out ++ " w=" ++ toString o.workers ++ " flush=" ++ o.flush.toString ++ " canary=" ++ o.canary.toString

def replay (n : Nat) (hist : List Req) : Db := Db.rounds .current (Db.init n) hist

def judge (n : Nat) (hist reqs : List Req) (outs : List Ret) (o : Obs) : String :=
  if (hist ++ reqs).any (fun r => !r.inDomain) then "SKIP" else
  -- every request of the round is judged with the state observed after the round
  match (reqs.zip outs).findSome? (fun (r, out) => specRound n r out o) with
  | some why => "BAD " ++ why
  | none => if reqs.length = outs.length then "OK" else "BAD malformed observation"

def stepSeq (toks : List String) : Option String := do
  let n ← (← field "n" toks).toNat?
  let hist ← parseList parseReq (← field "hist" toks)
  let req ← parseReq (← field "req" toks)
  let obs := (← field "obs" toks).splitOn "|"
  match obs with
  | [out, w, fl, c] =>
      let (_, mout, mobs) := (replay n hist).round .current req
      let o : Obs := { workers := (← w.toNat?), flush := (← parseRet fl), canary := (← parseRet c) }
      let out ← parseRet out
      pure (showObs mout.toString mobs ++ "\t" ++ judge n hist [req] [out] o)
  | _ => none

def stepPar (toks : List String) : Option String := do
  let n ← (← field "n" toks).toNat?
  let hist ← parseList parseReq (← field "hist" toks)
  let reqs ← parseList parseReq (← field "reqs" toks)
  let obs := (← field "obs" toks).splitOn "|"
  match obs with
  | [outs, w, fl, c] =>
      -- under Cfg.current the outcome of a request does not depend on the schedule: replay one after the other
      let (d, mouts) := reqs.foldl (fun (acc : Db × List Ret) r => let (d, out) := acc.1.request .current r; (d, acc.2 ++ [out]))
        (replay n hist, [])
      let (_, mobs) := d.observe .current
      let o : Obs := { workers := (← w.toNat?), flush := (← parseRet fl), canary := (← parseRet c) }
      let outs ← (outs.splitOn ";").mapM parseRet
      pure (showObs (";".intercalate (mouts.map Ret.toString)) mobs ++ "\t" ++ judge n hist reqs outs o)
  | _ => none

/-- one ingestion call against the log-size gate (comparisons as found in the source) -/
def stepGate (toks : List String) : Option String := do
  let max ← (← field "max" toks).toNat?
  let size ← (← field "size" toks).toNat?
  let add ← (← field "add" toks).toNat?
  match (← field "obs" toks).splitOn "|" with
  | [out, _after] =>
      let (ret, after) := LM.WalGate.ingestCall max size add
      let model := if ret then "ok after=" ++ toString after else "hang after=" ++ toString after
      let spec := if out = "ok" then "OK" else if out = "hang" then "BAD ingestion did not return" else "BAD panic in the caller"
      pure (model ++ "\t" ++ spec)
  | _ => none

/-- `rounds` × (ingest, force_flush) by one client while `readers` clients issued `queries` valid queries on the same table:
    every request is fault-free, the model answers all of them `ok` (under `Cfg.current` the outcome does not depend on
    the schedule) -/
def stepStress (toks : List String) : Option String := do
  let n ← (← field "n" toks).toNat?
  let _readers ← (← field "readers" toks).toNat?
  let rounds ← (← field "rounds" toks).toNat?
  let queries ← (← field "queries" toks).toNat?
  match (← field "obs" toks).splitOn "|" with
  | [out, w, fl, c] =>
      -- the model's state after fault-free requests does not depend on how many there were beyond a few; cap the replay
      let reqs := (List.replicate (min rounds 8) [Req.ingest, Req.flush 1 0 0 0 0]).flatten ++ List.replicate (min queries 16) (Req.query [.done, .done])
      let (d, worst) := reqs.foldl (fun (acc : Db × Ret) r => let (d, o) := acc.1.request .current r; (d, if acc.2 = .ok then o else acc.2))
        (Db.init n, Ret.ok)
      let (_, mobs) := d.observe .current
      let o : Obs := { workers := (← w.toNat?), flush := (← parseRet fl), canary := (← parseRet c) }
      let out ← parseRet out
      pure (showObs worst.toString mobs ++ "\t" ++ judge n [] [Req.query [.done]] [out] o)
  | _ => none

def step (line : String) : String :=
  match splitTokens line with
  | "seq" :: toks => (stepSeq toks).getD "bad-op\tbad-op"
  | "par" :: toks => (stepPar toks).getD "bad-op\tbad-op"
  | ["locks", key, fields, pairs] =>
      -- model: the acquisition sites the lock order was read from; spec: every held → acquired pair goes up in `rank`
      match parseList some fields, parseList some pairs with
      | some fs, some ps => LM.LockOrder.judgeSite key fs ++ "\t" ++ LM.LockOrder.judgePairs key ps
      | _, _ => "bad-op\tbad-op"
  | "gate" :: toks => (stepGate toks).getD "bad-op\tbad-op"
  | "stress" :: toks => (stepStress toks).getD "bad-op\tbad-op"
  | "open" :: toks =>
      match (field "k" toks).bind String.toNat?, (field "bad" toks).bind String.toNat?, field "out" toks with
      | some k, some bad, some out =>
          let model := match recover .current (jobs k bad) with
            | none => "hang" | some true => "ok" | some false => "panic"
          -- LocustDB::new has no error channel: refusing a damaged directory by a panic in the caller is a completed call
          model ++ "\t" ++ (if out = "hang" then "BAD LocustDB::new did not return" else "OK")
      | _, _, _ => "bad-op\tbad-op"
  | _ => "bad-op\tbad-op"

end LM.DrvC11

def main : IO Unit := LM.Proto.runDriver LM.DrvC11.step
