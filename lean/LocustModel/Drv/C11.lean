import LocustModel.Proto
import LocustModel.Conc.SchedDb
import LocustModel.Conc.LockOrder
/-
  Driver for C11.  Input lines (harness/src/bin/c11.rs):
    seq n=<N> hist=<req,…|[]> req=<req> obs=<out>|<workers>|<flush>|<canary>
    par n=<N> hist=<req,…|[]> reqs=<req,…> obs=<out;out;…>|<workers>|<flush>|<canary>
    locks <file>:<fn> <field,field,…>
    open k=<wal files> bad=<damaged wal files> out=<ok|panic|hang>
  <req> = q.<d|e|f…> | qv.<kind> | qn.<parts>.<m>.<c> | t.<d|f> | st | mt | in | fl.<k1>.<f1>.<k2>.<f2>.<tf> | cl.<wal|tab>
  Output:  <model> TAB <spec>
    model = what the scheduler model (Cfg.current) predicts, in the text of the implementation output
            `<out> w=<workers> flush=<out> canary=<out>`
    spec  = OK | BAD <reason> (property C11 judged on the observed values) | SKIP (fault injected into the caller)
-/
namespace LM.DrvC11
open LM LM.Proto LM.Sched

def parseOut (c : Char) : Option Out :=
  if c = 'd' then some .done else if c = 'e' then some .err else if c = 'f' then some .fault else none

def parseReq (s : String) : Option Req :=
  match s.splitOn "." with
  | ["q", outs] => (outs.toList.mapM parseOut).map Req.query
  | ["qv", kind] => some (.queryErr kind)
  | ["qn", p, m, c] => do
      let p ← p.toNat?
      let m ← m.toNat?
      let c ← c.toNat?
      pure (.natural p m c)
  | ["t", "d"] => some (.fnTask .done)
  | ["t", "f"] => some (.fnTask .fault)
  | ["st"] => some .stats
  | ["mt"] => some .memTree
  | ["in"] => some .ingest
  | ["fl", a, b, c, d, e] => do
      let a ← a.toNat?
      let b ← b.toNat?
      let c ← c.toNat?
      let d ← d.toNat?
      let e ← e.toNat?
      pure (.flush a b c d e)
  | ["cl", "wal"] => some (.callerFault .walSize)
  | ["cl", "tab"] => some (.callerFault .tableLocks)
  | _ => none

def parseRet (s : String) : Option Ret :=
  if s = "ok" then some .ok else if s = "failed" then some .failed else if s = "panic" then some .panic
  else if s = "hang" then some .hang
  else match s.splitOn ":" with
    | ["err", k] => some (.err k)
    | _ => none

def field (key : String) (toks : List String) : Option String :=
  toks.findSome? fun t => if t.startsWith (key ++ "=") then some (t.drop (key.length + 1)).toString else none

def showObs (out : String) (o : Obs) : String :=
  out ++ " w=" ++ toString o.workers ++ " flush=" ++ o.flush.toString ++ " canary=" ++ o.canary.toString

def replay (n : Nat) (hist : List Req) : Db := Db.rounds .current (Db.init n) hist

def judge (n : Nat) (hist reqs : List Req) (outs : List Ret) (o : Obs) : String :=
  if (hist ++ reqs).any (fun r => !r.inDomain) then "SKIP" else
  -- every request of the round is judged with the state observed after the round
  match (reqs.zip outs).findSome? (fun (r, out) => specRound n r out o) with
  | some why => "BAD " ++ why
  | none => if reqs.length = outs.length then "OK" else "BAD malformed observation"

def stepSeq (toks : List String) : Option String := do
  let n ← (← field "n" toks).toNat?
  let hist ← parseList parseReq (← field "hist" toks)
  let req ← parseReq (← field "req" toks)
  let obs := (← field "obs" toks).splitOn "|"
  match obs with
  | [out, w, fl, c] =>
      let (_, mout, mobs) := (replay n hist).round .current req
      let o : Obs := { workers := (← w.toNat?), flush := (← parseRet fl), canary := (← parseRet c) }
      let out ← parseRet out
      pure (showObs mout.toString mobs ++ "\t" ++ judge n hist [req] [out] o)
  | _ => none

def stepPar (toks : List String) : Option String := do
  let n ← (← field "n" toks).toNat?
  let hist ← parseList parseReq (← field "hist" toks)
  let reqs ← parseList parseReq (← field "reqs" toks)
  let obs := (← field "obs" toks).splitOn "|"
  match obs with
  | [outs, w, fl, c] =>
      -- under Cfg.current the outcome of a request does not depend on the schedule: replay one after the other
      let (d, mouts) := reqs.foldl (fun (acc : Db × List Ret) r => let (d, out) := acc.1.request .current r; (d, acc.2 ++ [out]))
        (replay n hist, [])
      let (_, mobs) := d.observe .current
      let o : Obs := { workers := (← w.toNat?), flush := (← parseRet fl), canary := (← parseRet c) }
      let outs ← (outs.splitOn ";").mapM parseRet
      pure (showObs (";".intercalate (mouts.map Ret.toString)) mobs ++ "\t" ++ judge n hist reqs outs o)
  | _ => none

def step (line : String) : String :=
  match splitTokens line with
  | "seq" :: toks => (stepSeq toks).getD "bad-op\tbad-op"
  | "par" :: toks => (stepPar toks).getD "bad-op\tbad-op"
  | ["locks", key, fields] =>
      match parseList some fields with
      | some fs => LM.LockOrder.judgeSite key fs ++ "\tOK"
      | none => "bad-op\tbad-op"
  | "open" :: toks =>
      match (field "k" toks).bind String.toNat?, (field "bad" toks).bind String.toNat?, field "out" toks with
      | some k, some bad, some out =>
          let model := match recover .current (jobs k bad) with
            | none => "hang" | some true => "ok" | some false => "panic"
          -- LocustDB::new has no error channel: refusing a damaged directory by a panic in the caller is a completed call
          model ++ "\t" ++ (if out = "hang" then "BAD LocustDB::new did not return" else "OK")
      | _, _, _ => "bad-op\tbad-op"
  | _ => "bad-op\tbad-op"

end LM.DrvC11

def main : IO Unit := LM.Proto.runDriver LM.DrvC11.step
