#!/usr/bin/env python3
"""Validate MANIFEST.json and evidence/*.json against the schemas in /root/.vp (development aid)."""
import json, glob, sys, os
try:
    import jsonschema
except ImportError:
    sys.path.insert(0, "/opt/veriftools/pyvenv/lib/python3.11/site-packages")
    import jsonschema
ROOT = os.path.dirname(os.path.dirname(os.path.abspath(__file__)))
bad = 0
m = json.load(open(os.path.join(ROOT, "MANIFEST.json")))
try:
    jsonschema.validate(m, json.load(open("/root/.vp/MANIFEST.schema.json")))
    print("MANIFEST ok:", len(m["checks"]), "checks,", len(m.get("not_applicable", [])), "not claimed")
except Exception as e:
    bad += 1; print("MANIFEST INVALID:", str(e)[:300])
props = [json.loads(l)["id"] for l in open(os.path.join(ROOT, "properties.jsonl")) if l.strip()]
claimed = {c["property_id"] for c in m["checks"]}
na = {c["property_id"] for c in m.get("not_applicable", [])}
for p in props:
    if (p in claimed) == (p in na):
        bad += 1; print("property", p, "must be exactly one of claimed / not_applicable")
es = json.load(open("/root/.vp/EVIDENCE.schema.json"))
for p in sorted(claimed):
    f = os.path.join(ROOT, "evidence", p + ".json")
    if not os.path.exists(f):
        bad += 1; print("evidence missing:", p); continue
    try:
        e = json.load(open(f)); jsonschema.validate(e, es)
        c = e["coverage"]
        print(f"evidence {p} ok: tier={e['tier']} obligations={c.get('obligations')}/{c.get('discharged')} cases={c.get('evaluations')} distinct={c.get('distinct_nontrivial')} violations={e.get('violations')} wall={e['wall_s']}")
    except Exception as ex:
        bad += 1; print("evidence INVALID:", p, str(ex)[:300])
sys.exit(1 if bad else 0)
