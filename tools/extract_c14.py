#!/usr/bin/env python3
"""
C14 extractors of the source-to-Lean translator (loaded by tools/extract.py, which passes its helper functions).

  segment_fields   src/disk_store/partition_segment.rs  -> Gen/SegmentFields.lean   fields set / got per match arm
  wal_tables       locustdb-serialization/src/event_buffer.rs, src/disk_store/wal_segment.rs -> Gen/WalTables.lean
  meta_tables      src/disk_store/meta_store.rs         -> Gen/MetaTables.lean
  schema_tables    locustdb-serialization/schemas/{partition_segment,wal_segment,dbmeta}.capnp -> Gen/SchemaTables.lean

Each raises ValueError when the source no longer has the expected shape (status `unparsed …`, last committed file kept).
"""
import os
import re

strip_comments = fn_body = match_block = arms = camel = None
CAPOPTAG = CAPSECTAG = None


def extractors(h):
    g = globals()
    for k in ["strip_comments", "fn_body", "match_block", "arms", "camel", "CAPOPTAG", "CAPSECTAG"]:
        g[k] = getattr(h, k)
    return [("SegmentFields.lean", segment_fields), ("WalTables.lean", wal_tables), ("MetaTables.lean", meta_tables),
            ("SchemaTables.lean", schema_tables)]


def snake_to_camel(n):
    parts = n.split("_")
    return parts[0] + "".join(p[:1].upper() + p[1:] for p in parts[1:])


def calls(body, receiver, verbs):
    """Names `x` of `receiver . <verb>_x (` calls in source order (receiver is a regex), de-duplicated, camelCase."""
    out = []
    for m in re.finditer(r"\b(?:%s)\s*(?:\.\s*reborrow\(\)\s*)?\.\s*(?:%s)_(\w+)\s*\(" % (receiver, "|".join(verbs)), body):
        n = snake_to_camel(m.group(1))
        if n not in out:
            out.append(n)
    return out


def setter_args(body, receiver):
    """(field, argument text) of `receiver.set_field(arg)` calls in source order; whitespace squeezed, `*`/`&` kept."""
    out = []
    for m in re.finditer(r"\b(?:%s)\s*(?:\.\s*reborrow\(\)\s*)?\.\s*set_(\w+)\s*\(" % receiver, body):
        i = m.end() - 1
        depth, j = 0, i
        while j < len(body):
            if body[j] == "(":
                depth += 1
            elif body[j] == ")":
                depth -= 1
                if depth == 0:
                    break
            j += 1
        out.append((snake_to_camel(m.group(1)), re.sub(r"\s+", " ", body[i + 1:j].strip())))
    return out


def lean_pairs(xs):
    return "[" + ", ".join('("%s", "%s")' % (a, b.replace('"', "'")) for a, b in xs) + "]"


def lean_pair_fn(name, doc, dom, pairs, all_dom):
    lines = ["/-- %s -/" % doc, "def %s : %s → List (String × String)" % (name, dom)]
    seen = set()
    for a, xs in pairs:
        seen.add(a)
        lines.append("  | .%s => %s" % (a, lean_pairs(xs)))
    missing = [d for d in all_dom if d not in seen]
    if missing:
        raise ValueError("%s: no arm for %s" % (name, missing))
    return "\n".join(lines)


def split_args(txt):
    out, depth, cur = [], 0, ""
    for ch in txt:
        if ch in "([{":
            depth += 1
        elif ch in ")]}":
            depth -= 1
        if ch == "," and depth == 0:
            out.append(cur.strip()); cur = ""
        else:
            cur += ch
    if cur.strip():
        out.append(cur.strip())
    return out


def pattern_vars(pat):
    """`Enum::V(a, b)` -> (positional, [a, b]); `Enum::V { a, b }` -> (named, [a, b]); `Enum::V` -> (positional, [])."""
    m = re.match(r"[\w:]+\s*\((.*)\)\s*$", pat, flags=re.S)
    if m:
        return "positional", split_args(m.group(1))
    m = re.match(r"[\w:]+\s*\{(.*)\}\s*$", pat, flags=re.S)
    if m:
        return "named", [a for a in split_args(m.group(1)) if a != ".."]
    return "positional", []


def norm_source(arg, kind, vars_):
    """Normalise a setter argument to (`raw`|`enc`, `#i` | camelCase field name)."""
    a = arg.strip()
    how = "raw"
    m = re.fullmatch(r"encoding_type_to_capnp\(\s*(\w+)\s*\)", a)
    if m:
        how, a = "enc", m.group(1)
    a = re.sub(r"\s+as\s+\w+$", "", a)
    a = re.sub(r"\[\s*\.\.\s*\]$", "", a).lstrip("&*").strip()
    if a not in vars_:
        raise ValueError("setter argument %r is not a pattern variable of %r" % (arg, vars_))
    return how, ("#%d" % vars_.index(a)) if kind == "positional" else snake_to_camel(a)


def lean_triples(xs):
    return "[" + ", ".join('("%s", "%s", %d)' % x for x in xs) + "]"


def lean_triple_fn(name, doc, dom, pairs, all_dom):
    lines = ["/-- %s -/" % doc, "def %s : %s → List (String × String × Nat)" % (name, dom)]
    seen = set()
    for a, xs in pairs:
        seen.add(a)
        lines.append("  | .%s => %s" % (a, lean_triples(xs)))
    missing = [d for d in all_dom if d not in seen]
    if missing:
        raise ValueError("%s: no arm for %s" % (name, missing))
    return "\n".join(lines)


def lean_strs(xs):
    return "[" + ", ".join('"%s"' % x for x in xs) + "]"


def lean_fn(name, doc, dom, pairs, all_dom):
    lines = ["/-- %s -/" % doc, "def %s : %s → List String" % (name, dom)]
    seen = set()
    for a, fields in pairs:
        if a in seen:
            raise ValueError("%s: duplicate arm %s" % (name, a))
        seen.add(a)
        lines.append("  | .%s => %s" % (a, lean_strs(fields)))
    missing = [d for d in all_dom if d not in seen]
    if missing:
        raise ValueError("%s: no arm for %s" % (name, missing))
    return "\n".join(lines)


VALUE = "«value»"     # the union member itself carries the value (no struct / group behind it)


def segment_fields(repo):
    """Which capnp fields every arm of PartitionSegment::serialize sets and every arm of deserialize gets."""
    src = strip_comments(open(os.path.join(repo, "src/disk_store/partition_segment.rs")).read())
    ser = fn_body(src, "serialize")
    de = fn_body(src, "deserialize")
    op_w, op_r, sec_w, sec_r = [], [], [], []
    op_args, sec_args, op_pat, sec_pat, op_built, sec_built = [], [], [], [], [], []
    for pat, body in arms(match_block(ser, r"op")):
        s = re.search(r"capnp_op\s*\.\s*(set|init)_(\w+)\s*\(\s*([^;]*)", body)
        if not s:
            if "panic!" in body:
                continue
            raise ValueError("serialize CodecOp arm %r" % pat)
        member = camel(s.group(2))
        kind, vars_ = pattern_vars(pat)
        if s.group(1) == "set":
            op_w.append((member, [] if s.group(3).strip().startswith("()") else [VALUE]))
            raw = [(VALUE, a) for _, a in setter_args(body, r"capnp_op") if a != "()"]
        else:
            op_w.append((member, calls(body, r"(?!capnp_op\b)\w+", ["set"])))
            raw = setter_args(body, r"(?!capnp_op\b)\w+")
        trip = []
        for f, a in raw:
            how, src = norm_source(a, kind, vars_)
            trip.append((f, how, int(src[1:])))
        op_args.append((member, trip))
    for pat, body in arms(match_block(de, r"op\.which\(\)\.unwrap\(\)")):
        m = re.match(r"(\w+)\s*\(\s*(\w+|\(\))\s*\)", pat)
        if not m:
            raise ValueError("deserialize CodecOp arm %r" % pat)
        var = m.group(2)
        got = calls(body, r"\w+", ["get"])
        built = re.search(r"CodecOp::\w+\s*(?:\((.*)\))?", body, flags=re.S)
        if not built:
            raise ValueError("deserialize CodecOp arm %r builds nothing" % pat)
        reads = []
        for a in (split_args(built.group(1)) if built.group(1) else []):
            g = re.search(r"\.\s*get_(\w+)\s*\(\)", a)
            if g:
                field = snake_to_camel(g.group(1))
            elif var not in ("_", "()") and re.search(r"\b%s\b" % re.escape(var), a):
                field = VALUE
            else:
                raise ValueError("deserialize CodecOp arm %r: argument %r has no source" % (pat, a))
            reads.append(("dec" if "deserialize_type(" in a else "raw", field))
        op_built.append((m.group(1), reads))
        if got:
            op_r.append((m.group(1), got))
        elif var not in ("_", "()") and re.search(r"\b%s\b" % re.escape(var), body):
            op_r.append((m.group(1), [VALUE]))
        else:
            op_r.append((m.group(1), []))
    for pat, body in arms(match_block(ser, r"section")):
        s = re.search(r"\bds\s*\.\s*(set|init)_(\w+)\s*\(", body)
        if not s:
            raise ValueError("serialize DataSection arm %r" % pat)
        fields = calls(body, r"(?!ds\b)\w+", ["set"])
        kind, vars_ = pattern_vars(pat)
        if s.group(1) == "init" and fields:
            raw = setter_args(body, r"(?!ds\b)\w+")
        elif s.group(1) == "init":
            it = re.search(r"in\s+(\w+)\s*\.\s*iter\(\)", body)
            if not it:
                raise ValueError("serialize DataSection arm %r: element-wise init without a loop over the vector" % pat)
            raw = [(VALUE, it.group(1))]
        else:
            raw = [(VALUE, a) for _, a in setter_args(body, r"ds")]
        sec_args.append((camel(s.group(2)), [(f, norm_source(a, kind, vars_)[1]) for f, a in raw]))
        # a list member filled element by element (`init_f64(len)` + `builder.set(i, v)`) carries its value directly
        sec_w.append((camel(s.group(2)), fields if (s.group(1) == "init" and fields) else [VALUE]))
    for pat, body in arms(match_block(de, r"d\.which\(\)\.unwrap\(\)")):
        m = re.match(r"(\w+)\s*\(\s*(\w+)\s*\)", pat)
        if not m:
            raise ValueError("deserialize DataSection arm %r" % pat)
        got = calls(body, re.escape(m.group(2)), ["get"])
        named = [(snake_to_camel(k), snake_to_camel(g)) for k, g in re.findall(r"(\w+)\s*:\s*%s\s*\.\s*get_(\w+)\(\)" % re.escape(m.group(2)), body)]
        via = re.search(r"let\s+(\w+)\s*=\s*%s\s*\.\s*get_(\w+)\(\)" % re.escape(m.group(2)), body)
        tgt = re.search(r"(\w+)\s*:\s*buffer\b", body)
        if via and tgt and re.search(r"buffer\s*\.\s*extend\(\s*%s\b" % re.escape(via.group(1)), body):
            named.append((snake_to_camel(tgt.group(1)), snake_to_camel(via.group(2))))
        if not named:
            if not re.search(r"\b%s\b" % re.escape(m.group(2)), body):
                raise ValueError("deserialize DataSection arm %r ignores its value" % pat)
            named = [("#0", VALUE)]
        sec_built.append((m.group(1), named))
        if got:
            sec_r.append((m.group(1), got))
        elif re.search(r"\b%s\b" % re.escape(m.group(2)), body):
            sec_r.append((m.group(1), [VALUE]))
        else:
            raise ValueError("deserialize DataSection arm %r ignores its value" % pat)
    parts = [
        "import LocustModel.Disk.SegmentTypes",
        "/-\n  GENERATED by tools/extract_c14.py from /repo/src/disk_store/partition_segment.rs — do not edit.\n"
        "  For every union member: the capnp fields the `serialize` arm sets and the `deserialize` arm gets (camelCase as in the\n"
        "  schema; `«value»` = the member itself carries the value).  A field copied in one direction only shows up as a difference.\n-/",
        "namespace LM.Gen.SegmentFields\nopen LM.Segment",
        lean_fn("opFieldsWritten", "`serialize`, `match op`.", "CapOpTag", op_w, CAPOPTAG),
        lean_fn("opFieldsRead", "`deserialize`, `match op.which()`.", "CapOpTag", op_r, CAPOPTAG),
        lean_fn("secFieldsWritten", "`serialize`, `match section`.", "CapSecTag", sec_w, CAPSECTAG),
        lean_fn("secFieldsRead", "`deserialize`, `match d.which()`.", "CapSecTag", sec_r, CAPSECTAG),
        lean_triple_fn("opWrites", "`serialize`: (capnp field, `raw` | `enc` = through `encoding_type_to_capnp`, index of the `CodecOp` constructor argument it is set from).", "CapOpTag", op_args, CAPOPTAG),
        lean_pair_fn("opReads", "`deserialize`: per `CodecOp` constructor argument in order, (`raw` | `dec` = through `deserialize_type`, capnp field it is read from).", "CapOpTag", op_built, CAPOPTAG),
        lean_pair_fn("secWrites", "`serialize`: (capnp field, `#i` = i-th positional / camelCase name of the `DataSection` field it is set from).", "CapSecTag", sec_args, CAPSECTAG),
        lean_pair_fn("secReads", "`deserialize`: (`#i` / camelCase name of the `DataSection` field, capnp field it is read from).", "CapSecTag", sec_built, CAPSECTAG),
        "/-- `column.set_*/init_*` in `serialize`. -/\ndef columnFieldsWritten : List String := %s" % lean_strs(calls(ser, r"column", ["set", "init"])),
        "/-- `column.get_*` in `deserialize`. -/\ndef columnFieldsRead : List String := %s" % lean_strs(calls(de, r"column", ["get"])),
        "/-- `range.set_*/init_*` in `serialize` (union members and the fields of `Range`). -/\ndef rangeFieldsWritten : List String := %s" % lean_strs(calls(ser, r"range", ["set", "init"])),
        "/-- `range.get_*` in `deserialize`. -/\ndef rangeFieldsRead : List String := %s" % lean_strs(calls(de, r"range", ["get"])),
        "end LM.Gen.SegmentFields",
    ]
    return "\n\n".join(parts) + "\n"


COLTAG = ["Empty", "Dense", "Sparse", "I64", "SparseI64", "String", "Mixed"]
CAPCOLTAG = ["F64", "SparseF64", "I64", "String", "Empty", "SparseI64", "Mixed"]
ANYTAG = ["Int", "Float", "Str", "Null"]
CAPANYTAG = ["F64", "I64", "String", "Null"]


def wal_tables(repo):
    """event_buffer.rs serialize_builder / deserialize_reader arms + wal_segment.rs field copies."""
    eb = strip_comments(open(os.path.join(repo, "locustdb-serialization/src/event_buffer.rs")).read())
    ws = strip_comments(open(os.path.join(repo, "src/disk_store/wal_segment.rs")).read())
    ser = fn_body(eb, "serialize_builder")
    de = fn_body(eb, "deserialize_reader")
    col_to, col_from, any_to, any_from, sparse_w, sparse_r = [], [], [], [], [], []
    for pat, body in arms(match_block(ser, r"&column\.data")):
        m = re.match(r"ColumnData::(\w+)", pat)
        s = re.search(r"column_builder\s*\.\s*get_data\(\)\s*\.\s*(?:set|init)_(\w+)\s*\(", body)
        if not m or not s:
            raise ValueError("serialize_builder ColumnData arm %r" % pat)
        col_to.append((m.group(1), camel(s.group(1))))
        f = calls(body, r"sparse_builder", ["set"])
        if f:
            sparse_w.append((camel(s.group(1)), f))
            if "unzip()" not in body:
                raise ValueError("serialize_builder %s arm does not unzip" % m.group(1))
        if m.group(1) == "Mixed":
            for p2, b2 in arms(match_block(body, r"value")):
                m2 = re.match(r"AnyVal::(\w+)", p2)
                s2 = re.search(r"value_builder\s*\.\s*set_(\w+)\s*\(", b2)
                if not m2 or not s2:
                    raise ValueError("serialize_builder AnyVal arm %r" % p2)
                any_to.append((m2.group(1), camel(s2.group(1))))
    for pat, body in arms(match_block(de, r"data\.which\(\)\?")):
        m = re.match(r"Which::(\w+)\s*\(", pat)
        v = re.search(r"ColumnData::(\w+)", body)
        if not m or not v:
            raise ValueError("deserialize_reader column arm %r" % pat)
        col_from.append((m.group(1), v.group(1)))
        f = calls(body, r"sparse", ["get"])
        if f:
            sparse_r.append((m.group(1), f))
            if not re.search(r"indices\s*\.\s*iter\(\)\s*\.\s*zip\(\s*values\s*\.\s*iter\(\)\s*\)", body):
                raise ValueError("deserialize_reader %s arm does not zip indices with values" % m.group(1))
        if m.group(1) == "Mixed":
            for p2, b2 in arms(match_block(body, r"value\.which\(\)\?")):
                m2 = re.search(r"Which::(\w+)\s*\(", p2)
                v2 = re.search(r"AnyVal::(\w+)", b2)
                if not m2 or not v2:
                    raise ValueError("deserialize_reader AnyVal arm %r" % p2)
                any_from.append((m2.group(1), v2.group(1)))

    def check(names, allowed, what):
        for n in names:
            if n not in allowed:
                raise ValueError("%s: unknown name %s" % (what, n))
    check([a for a, _ in col_to], COLTAG, "ColTag"); check([b for _, b in col_to], CAPCOLTAG, "CapColTag")
    check([a for a, _ in col_from], CAPCOLTAG, "CapColTag"); check([b for _, b in col_from], COLTAG, "ColTag")
    check([a for a, _ in any_to], ANYTAG, "AnyTag"); check([b for _, b in any_to], CAPANYTAG, "CapAnyTag")
    check([a for a, _ in any_from], CAPANYTAG, "CapAnyTag"); check([b for _, b in any_from], ANYTAG, "AnyTag")

    def total(name, doc, dom, cod, pairs, all_dom):
        lines = ["/-- %s -/" % doc, "def %s : %s → %s" % (name, dom, cod)]
        seen = set()
        for a, b in pairs:
            if a in seen:
                raise ValueError("%s: duplicate arm %s" % (name, a))
            seen.add(a)
            lines.append("  | .%s => .%s" % (a, b))
        missing = [d for d in all_dom if d not in seen]
        if missing:
            raise ValueError("%s: no arm for %s" % (name, missing))
        return "\n".join(lines)

    sparse_w_all = [(t, dict(sparse_w).get(t, [])) for t in CAPCOLTAG]
    sparse_r_all = [(t, dict(sparse_r).get(t, [])) for t in CAPCOLTAG]
    wser = fn_body(ws, "serialize")
    wde = fn_body(ws, "deserialize")
    parts = [
        "import LocustModel.Disk.SegmentTypes",
        "/-\n  GENERATED by tools/extract_c14.py from /repo/locustdb-serialization/src/event_buffer.rs and\n"
        "  /repo/src/disk_store/wal_segment.rs — do not edit.  One Lean arm per Rust match arm of `serialize_builder` /\n"
        "  `deserialize_reader` (ColumnData and AnyVal variants ↔ capnp union members) and the fields copied in each direction.\n-/",
        "namespace LM.Gen.WalTables\nopen LM.Segment",
        total("colDataToCapnp", "`serialize_builder`: union member each `ColumnData` variant is written to.", "ColTag", "CapColTag", col_to, COLTAG),
        total("capnpToColData", "`deserialize_reader`: `ColumnData` variant each union member is read into.", "CapColTag", "ColTag", col_from, CAPCOLTAG),
        total("anyValToCapnp", "`serialize_builder`, Mixed arm.", "AnyTag", "CapAnyTag", any_to, ANYTAG),
        total("capnpToAnyVal", "`deserialize_reader`, Mixed arm.", "CapAnyTag", "AnyTag", any_from, CAPANYTAG),
        lean_fn("groupFieldsWritten", "group fields set by `serialize_builder` (after `unzip`).", "CapColTag", sparse_w_all, CAPCOLTAG),
        lean_fn("groupFieldsRead", "group fields read (and zipped) by `deserialize_reader`.", "CapColTag", sparse_r_all, CAPCOLTAG),
        "def tableFieldsWritten : List String := %s" % lean_strs(calls(ser, r"table_builder", ["set", "init"])),
        "def tableFieldsRead : List String := %s" % lean_strs(calls(de, r"table", ["get"])),
        "def columnFieldsWritten : List String := %s" % lean_strs(calls(ser, r"column_builder", ["set", "get", "init"])),
        "def columnFieldsRead : List String := %s" % lean_strs(calls(de, r"column", ["get"])),
        "def listFieldsWritten : List String := %s" % lean_strs(calls(ser, r"table_segment_list", ["set", "init"])),
        "def listFieldsRead : List String := %s" % lean_strs(calls(de, r"data", ["get"])),
        "/-- wal_segment.rs `serialize` / `deserialize` on the root struct. -/\ndef walFieldsWritten : List String := %s" % lean_strs(calls(wser, r"wal_segment", ["set", "get", "init"])),
        "def walFieldsRead : List String := %s" % lean_strs(calls(wde, r"wal_segment", ["get"])),
        "end LM.Gen.WalTables",
    ]
    return "\n\n".join(parts) + "\n"


def struct_literal_fields(txt):
    out, depth, cur = [], 0, ""
    for ch in txt:
        if ch in "([{":
            depth += 1
        elif ch in ")]}":
            depth -= 1
        if ch == "," and depth == 0:
            out.append(cur.strip()); cur = ""
        else:
            cur += ch
    if cur.strip():
        out.append(cur.strip())
    return out


def struct_writes(ser, builder, obj):
    out = []
    for f, a in setter_args(ser, builder):
        m = re.fullmatch(r"[&*]?\s*%s\s*\.\s*(\w+)(?:\s+as\s+\w+)?" % obj, a)
        if not m:
            raise ValueError("serialize: %s.set_%s(%s) is not a plain field copy" % (builder, f, a))
        out.append((f, snake_to_camel(m.group(1))))
    return out


def struct_reads(de, obj, init_pairs):
    binds = dict(re.findall(r"let\s+(?:mut\s+)?(\w+)\s*=\s*%s\s*\.\s*get_(\w+)\(\)" % obj, de))
    out = []
    for field, expr in init_pairs:
        local = re.sub(r"\.clone\(\)$", "", expr)
        if local in binds:
            out.append((snake_to_camel(field), snake_to_camel(binds[local])))
    return out


def meta_tables(repo):
    """meta_store.rs serialize / deserialize: fields copied, which cursor is stored, how the struct is rebuilt."""
    src = strip_comments(open(os.path.join(repo, "src/disk_store/meta_store.rs")).read())
    ser = fn_body(src, "serialize")
    de = fn_body(src, "deserialize")
    m = re.search(r"dbmeta\s*\.\s*set_next_wal_id\s*\(\s*self\s*\.\s*(\w+)\s*\)", ser)
    if not m:
        raise ValueError("serialize: set_next_wal_id(self.<field>) not found")
    stored_cursor = m.group(1)
    m = re.search(r"Ok\s*\(\s*MetaStore\s*\{(.*?)\}\s*\)", de, flags=re.S)
    if not m:
        raise ValueError("deserialize: Ok(MetaStore { .. }) not found")
    init = []
    for item in struct_literal_fields(m.group(1)):
        k, v = [y.strip() for y in item.split(":", 1)] if ":" in item else (item, item)
        if not re.fullmatch(r"\w+", k) or not re.fullmatch(r"\w+", v):
            raise ValueError("deserialize: MetaStore field initialiser %r" % item)
        init.append((k, v))
    m = re.search(r"let\s+next_wal_id\s*=\s*dbmeta\s*\.\s*get_(\w+)\s*\(\)", de)
    if not m:
        raise ValueError("deserialize: next_wal_id source not found")
    cursor_read_from = snake_to_camel(m.group(1))
    if not re.search(r"if\s*!\s*explicit_last_column\s*\.\s*is_empty\(\)\s*\{\s*last_column\s*=\s*explicit_last_column\s*;?\s*\}", de):
        raise ValueError("deserialize: explicit last_column override not found")
    loaded_false = bool(re.search(r"loaded\s*:\s*Arc::new\(\s*AtomicBool::new\(\s*false\s*\)\s*\)", de))
    index_insert = bool(re.search(r"subpartitions_by_last_column\s*\.\s*insert\(\s*last_column\s*\.\s*clone\(\)\s*,\s*subpartitions\s*\.\s*len\(\)\s*\)", de))
    sub_init = re.search(r"SubpartitionMetadata\s*\{(.*?)\}", de, flags=re.S)
    part_init = re.search(r"let\s+partition\s*=\s*PartitionMetadata\s*\{(.*?)\}\s*;", de, flags=re.S)
    if not sub_init or not part_init:
        raise ValueError("deserialize: struct literals not found")

    def inits(txt):
        out = []
        for item in struct_literal_fields(txt):
            k, v = [y.strip() for y in item.split(":", 1)] if ":" in item else (item, item)
            out.append((k, re.sub(r"\s+", " ", v)))
        return out
    parts = [
        "/-\n  GENERATED by tools/extract_c14.py from /repo/src/disk_store/meta_store.rs — do not edit.\n"
        "  Fields set by `MetaStore::serialize`, fields read by `deserialize`, which cursor is stored, how the structs are rebuilt.\n-/",
        "namespace LM.Gen.MetaTables",
        "def dbmetaFieldsWritten : List String := %s" % lean_strs(calls(ser, r"dbmeta", ["set", "init"])),
        "def dbmetaFieldsRead : List String := %s" % lean_strs(calls(de, r"dbmeta", ["get"])),
        "def partitionFieldsWritten : List String := %s" % lean_strs(calls(ser, r"partition_builder", ["set", "init"])),
        "def partitionFieldsRead : List String := %s" % lean_strs(calls(de, r"partition", ["get"])),
        "def subpartitionFieldsWritten : List String := %s" % lean_strs(calls(ser, r"subpartition_builder", ["set", "init"])),
        "def subpartitionFieldsRead : List String := %s" % lean_strs(calls(de, r"subpartition", ["get"])),
        "/-- `serialize`: (capnp field, camelCase name of the Rust struct field it is set from). -/\ndef partitionWrites : List (String × String) := %s" % lean_pairs(struct_writes(ser, "partition_builder", "partition")),
        "def subpartitionWrites : List (String × String) := %s" % lean_pairs(struct_writes(ser, "subpartition_builder", "subpartition")),
        "/-- `deserialize`: (camelCase name of the Rust struct field, capnp field its value was read from), for the fields that are\n    initialised directly from a getter. -/\ndef partitionReads : List (String × String) := %s" % lean_pairs(struct_reads(de, "partition", inits(part_init.group(1)))),
        "def subpartitionReads : List (String × String) := %s" % lean_pairs(struct_reads(de, "subpartition", inits(sub_init.group(1)))),
        "/-- `dbmeta.set_next_wal_id(self.<this field>)`. -/\ndef storedCursor : String := \"%s\"" % stored_cursor,
        "/-- `let next_wal_id = dbmeta.get_<this>()`. -/\ndef cursorReadFrom : String := \"%s\"" % cursor_read_from,
        "/-- `Ok(MetaStore { field: local, .. })`. -/\ndef metaStoreInit : List (String × String) := [%s]" % ", ".join('("%s", "%s")' % kv for kv in init),
        "def partitionInit : List (String × String) := [%s]" % ", ".join('("%s", "%s")' % kv for kv in inits(part_init.group(1))),
        "def subpartitionInit : List (String × String) := [%s]" % ", ".join('("%s", "%s")' % kv for kv in inits(sub_init.group(1))),
        "/-- a non-empty explicit `lastColumn` replaces the one derived from the legacy column lists. -/\ndef explicitLastColumnWins : Bool := true",
        "/-- `subpartitions_by_last_column.insert(last_column.clone(), subpartitions.len())` before the push. -/\ndef indexInsertsPosition : Bool := %s" % ("true" if index_insert else "false"),
        "def loadedResetToFalse : Bool := %s" % ("true" if loaded_false else "false"),
        "end LM.Gen.MetaTables",
    ]
    return "\n\n".join(parts) + "\n"


def parse_capnp(text):
    """Tiny parser for the subset used by the schemas: structs with fields / unions / groups, enums.
    Returns {key: [(name, what)]}: key = `Struct`, `Struct.member` (named union / group), `Struct.union` (anonymous
    union), `Enum.enum`; what = `Type@ordinal`, `union`, `group`, or the ordinal for enumerants."""
    text = re.sub(r"#[^\n]*", "", text)
    toks = re.findall(r"@0x[0-9a-fA-F]+|@\d+|[A-Za-z_][\w.]*(?:\([^)]*\))?|[{};:]", text)
    pos = [0]
    out = {}

    def peek():
        return toks[pos[0]] if pos[0] < len(toks) else None

    def take(expect=None):
        t = peek()
        if t is None or (expect is not None and t != expect):
            raise ValueError("capnp: expected %r, got %r" % (expect, t))
        pos[0] += 1
        return t

    def fields(key):
        lst = out.setdefault(key, [])
        while peek() != "}":
            name = take()
            if name == "union":                      # anonymous union
                take("{"); lst.append(("union", "union")); fields(key + ".union"); take("}")
                continue
            if peek() == ":":                         # named union / group
                take(":"); kind = take()
                if kind not in ("union", "group"):
                    raise ValueError("capnp: %s :%s" % (name, kind))
                take("{"); lst.append((name, kind)); fields(key + "." + name); take("}")
                continue
            ordinal = take()
            if not ordinal.startswith("@"):
                raise ValueError("capnp: ordinal expected after %s" % name)
            take(":"); ty = take(); take(";")
            lst.append((name, "%s%s" % (ty, ordinal)))
    while peek() is not None:
        t = take()
        if t.startswith("@0x"):
            take(";")
        elif t == "struct":
            name = take(); take("{"); fields(name); take("}")
        elif t == "enum":
            name = take(); take("{")
            lst = out.setdefault(name + ".enum", [])
            while peek() != "}":
                n = take(); o = take(); take(";")
                lst.append((n, o.lstrip("@")))
            take("}")
        else:
            raise ValueError("capnp: unexpected %r" % t)
    return out


def schema_tables(repo):
    parts = [
        "/-\n  GENERATED by tools/extract_c14.py from /repo/locustdb-serialization/schemas/{partition_segment,wal_segment,dbmeta}.capnp — do not edit.\n"
        "  For every struct: its fields in declaration order as (name, `Type@ordinal` | `union` | `group`, fields behind it); named unions /\n"
        "  groups under `Struct.member`, anonymous unions under `Struct.union`, enums under `Enum.enum` with (enumerant, ordinal, []).\n"
        "  `fields behind it`: the field names of the struct / group a member refers to, `[]` for Void, `[«value»]` for anything that\n"
        "  carries its value directly (primitives, lists, enums, text).\n-/",
        "namespace LM.Gen.Schema",
    ]
    for fname, lean in [("partition_segment.capnp", "partitionSegment"), ("wal_segment.capnp", "walSegment"), ("dbmeta.capnp", "dbmeta")]:
        tbl = parse_capnp(open(os.path.join(repo, "locustdb-serialization/schemas", fname)).read())
        if not tbl:
            raise ValueError("%s: nothing parsed" % fname)

        def behind(key, name, what):
            if what in ("group", "union"):
                sub = key + "." + name if name != "union" else key + ".union"
                return [n for n, _ in tbl.get(sub, [])]
            if key.endswith(".enum"):
                return []
            ty = what.split("@")[0]
            if ty == "Void":
                return []
            if ty in tbl:
                return [n for n, _ in tbl[ty]]
            return [VALUE]
        rows = []
        for key in tbl:
            rows.append('  ("%s", [%s])' % (key, ", ".join('("%s", "%s", %s)' % (n, w, lean_strs(behind(key, n, w))) for n, w in tbl[key])))
        parts.append("def %s : List (String × List (String × String × List String)) := [\n%s]" % (lean, ",\n".join(rows)))
    parts.append("/-- Entry of a schema table (`[]` when the key is absent). -/\ndef get (tbl : List (String × List (String × String × List String))) (key : String) : List (String × String × List String) :=\n  (tbl.lookup key).getD []")
    parts.append("end LM.Gen.Schema")
    return "\n\n".join(parts) + "\n"
