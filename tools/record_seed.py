#!/usr/bin/env python3
"""Development aid: record the outcome of running a check against a seeded change.
usage: record_seed.py <seed-id> <check-id> <caught|missed|n/a> "<detail>" [patch-used]"""
import json, sys, subprocess, time
sid, chk, res, detail = sys.argv[1:5]
p = f"/verif/seeded/{sid}/meta.json"
m = json.load(open(p))
m.setdefault("checks_run", {})[chk] = {"result": res, "detail": detail,
    "repo_head": subprocess.run(["git", "-C", "/repo", "rev-parse", "--short", "HEAD"], capture_output=True, text=True).stdout.strip(),
    "verif_head": subprocess.run(["git", "-C", "/verif", "rev-parse", "--short", "HEAD"], capture_output=True, text=True).stdout.strip(),
    "how": "tools/mutrig.sh run <patch> " + chk + "  (copy of /verif against a scratch worktree of /repo with the change applied; quick tier)"}
if len(sys.argv) > 5: m["checks_run"][chk]["patch_used"] = sys.argv[5]
json.dump(m, open(p, "w"), indent=1)
