#!/bin/sh
# Mutation rig (development aid, not a registered check): run checks of a COPY of /verif against a scratch worktree of /repo
# so that seeded changes never touch /repo and never disturb other builds.
#   tools/mutrig.sh setup                 create /tmp/vmut (copy of /verif incl. build output) + worktree /tmp/vmut-repo
#   tools/mutrig.sh sync                  re-copy sources of /verif (not build output) into /tmp/vmut, move worktree to /repo HEAD
#   tools/mutrig.sh run <patch> C0x...    apply patch to the worktree, run quick checks of the listed properties, revert
#   tools/mutrig.sh clean                 remove everything
set -e
RIG=${RIG:-/tmp/vmut}; WT=${RIG}-repo
case "$1" in
  setup)
    flock /tmp/repo-git.lock git -C /repo worktree add -q --detach $WT HEAD
    mkdir -p $RIG
    rsync -a --delete --exclude work --exclude replays /verif/ $RIG/ 2>/dev/null || true
    sed -i "s#\"/repo#\"$WT#g" $RIG/harness/Cargo.toml
    ;;
  sync)
    rsync -a --exclude .git --exclude work --exclude replays --exclude harness/target --exclude lean/.lake --exclude harness/Cargo.toml /verif/ $RIG/
    git -C $WT checkout -q -f HEAD ; git -C $WT checkout -q --detach $(git -C /repo rev-parse HEAD)
    ;;
  run)
    patch="$2"; shift 2
    git -C $WT checkout -q -f HEAD
    git -C $WT apply "$patch" 2>/dev/null || git -C $WT apply -3 "$patch" || { echo "PATCH DOES NOT APPLY to $(git -C $WT rev-parse --short HEAD)"; git -C $WT checkout -q -f HEAD; exit 3; }
    rc=0
    for p in "$@"; do
      (cd $RIG && VERIF_REPO=$WT ./check $p --tier quick 2>&1 | grep -E "VIOLATION|KNOWN-FINDING|^C[0-9]+:" | cut -c1-300) || true
    done
    git -C $WT checkout -q -f HEAD
    ;;
  clean)
    git -C /repo worktree remove --force $WT || true
    rm -rf $RIG
    ;;
esac
