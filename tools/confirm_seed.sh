#!/bin/bash
# Development aid: confirm a seeded change delivered in <worktree>/OUT/<k>/ (patch.diff, demo.rs).
#   tools/confirm_seed.sh <worktree> <k>      -> prints CONFIRMED / REJECTED with reasons; logs under <worktree>/OUT/<k>/confirm.*.log
# Confirms: patch applies to the clean worktree; demo passes without the change; with the change the project's own suite still
# passes (in a private network namespace: the tests bind fixed ports) and the demo fails.
W="$1"; K="$2"; O="$W/OUT/$K"
cd "$W" || exit 2
git checkout -q -- . || exit 2
git clean -fdq tests/ src/ 2>/dev/null
name=$(head -3 "$O/demo.rs" | grep -o 'tests/[A-Za-z0-9_]*\.rs' | head -1 | sed 's#tests/##; s#\.rs##')
[ -z "$name" ] && name="seed_demo_$K"
run() { unshare -n sh -c "ip link set lo up; CARGO_NET_OFFLINE=true timeout 3000 cargo test --offline $* 2>&1"; }
cp "$O/demo.rs" "$W/tests/$name.rs"
run --test $name -- --nocapture > "$O/confirm.demo_orig.log"; r_orig=$?
rm -f "$W/tests/$name.rs"
git apply "$O/patch.diff" || { echo "REJECTED $O: patch does not apply"; exit 1; }
run --workspace --no-fail-fast > "$O/confirm.suite_mut.log"; r_suite=$?
passed=$(grep -E "^test result:" "$O/confirm.suite_mut.log" | sed 's/.* \([0-9]*\) passed.*/\1/' | paste -sd+ | bc)
failed=$(grep -E "^test result:" "$O/confirm.suite_mut.log" | sed 's/.*; \([0-9]*\) failed.*/\1/' | paste -sd+ | bc)
cp "$O/demo.rs" "$W/tests/$name.rs"
run --test $name -- --nocapture > "$O/confirm.demo_mut.log"; r_mut=$?
rm -f "$W/tests/$name.rs"
git checkout -q -- .
echo "demo_orig_rc=$r_orig suite_rc=$r_suite suite_passed=$passed suite_failed=$failed demo_mut_rc=$r_mut"
if [ $r_orig -eq 0 ] && [ $r_suite -eq 0 ] && [ "$failed" = "0" ] && [ $r_mut -ne 0 ]; then echo "CONFIRMED $O"; else echo "REJECTED $O"; fi
