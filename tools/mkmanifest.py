#!/usr/bin/env python3
"""Regenerate /verif/MANIFEST.json from props/C*.json (single source of truth per property)."""
import json, os, glob, subprocess
ROOT = os.path.dirname(os.path.dirname(os.path.abspath(__file__)))
props = [json.loads(l) for l in open(os.path.join(ROOT, "properties.jsonl")) if l.strip()]
checks, na = [], []
for p in props:
    pid = p["id"]
    path = os.path.join(ROOT, "props", pid + ".json")
    conf = json.load(open(path)) if os.path.exists(path) else {}
    if conf.get("claimed"):
        checks.append({
            "property_id": pid,
            "quick_cmd": f"./check {pid} --tier quick",
            "thorough_cmd": f"./check {pid} --tier thorough",
            "evidence_file": f"/verif/evidence/{pid}.json",
            "replay_cmd_template": f"./check {pid} --replay {{path}}",
            "engine": "lean-model+vharness",
            "level_claimed": {"category": "proof", "text": conf.get("level_text", ""), "design_ref": conf.get("design_ref", "DESIGN.md §6")},
            "level_note": conf.get("level_note", ""),
            "technique": conf.get("technique", "Lean 4 theorems about a hand-written model + differential correspondence with the Rust implementation"),
        })
    else:
        na.append({"property_id": pid, "reason": conf.get("not_applicable_reason", "check not built yet (work in progress); no claim is made")})
hooks = subprocess.run(["git", "-C", "/repo", "log", "--format=%H %s"], capture_output=True, text=True).stdout.splitlines()
hook_commits = [l.split()[0] for l in hooks if " verif hook" in l]
m = {
    "version": 1,
    "setup_cmd": "./check --setup",
    "hooks": {
        "guard": "verif (cargo feature of the locustdb crate)",
        "enable": "the harness crate depends on locustdb by path with features = [\"verif\"] (cargo build --offline in /verif/harness)",
        "baseline_off_cmd": "cd /repo && cargo nextest run --workspace --no-fail-fast --test-threads 8 --offline || cargo test --workspace --no-fail-fast --offline",
        "source_commits": hook_commits,
        "add_only": True,
    },
    "engines": [
        {"name": "lean-model", "path": "/verif/lean", "serves_properties": [c["property_id"] for c in checks], "kind_free_text": "Lean 4 models, specifications, property theorems, compiled line-protocol drivers (modeld_c0x)"},
        {"name": "vharness", "path": "/verif/harness", "serves_properties": [c["property_id"] for c in checks], "kind_free_text": "Rust harness linked against /repo (feature verif): runs the real code on generated inputs / histories / crash points, child processes with deadlines"},
        {"name": "extract", "path": "/verif/tools/extract.py", "serves_properties": [p for p in ["C03", "C06", "C08", "C11", "C13", "C14", "C15", "C17", "C18"] if p in [c["property_id"] for c in checks]], "kind_free_text": "source-to-Lean translator for table-like code, regenerated on every run into lean/LocustModel/Gen/*.lean (operator registry, capnp schemas + (de)serialisation arms + field copies, routing constants, HTTP status tables and handler shapes, WAL protocol facts: gate/trigger comparisons, cursor field, step order); theorems import the generated files, so a changed table breaks a proof obligation"},
    ],
    "checks": checks,
    "not_applicable": na,
    "notes": "Technique: machine-checked proof in Lean 4 about hand-written models mirrored from the Rust source, tied to /repo on every run by a differential correspondence check (and a small translator for table-like code). See DESIGN.md.",
}
json.dump(m, open(os.path.join(ROOT, "MANIFEST.json"), "w"), indent=1)
print(f"MANIFEST: {len(checks)} claimed, {len(na)} not claimed")
