#!/usr/bin/env python3
"""
Source-to-Lean translator for table-like Rust code (DESIGN.md §3.3).

    regenerate(repo, gen_dir) -> dict      called by ./check before every proof build

Each extractor parses the `match` arms of named Rust functions and writes one Lean file under
lean/LocustModel/Gen/.  If a function cannot be parsed (harmless refactor) the last committed Gen file is kept and
the status says `unparsed <what>`; the correspondence run is then the only tie for that table.
Files are rewritten only when their content changes (so an unchanged tree does not trigger Lean rebuilds).

Extractors:
  segment_tables   src/disk_store/partition_segment.rs  -> Gen/SegmentTables.lean   (C14)
"""
import os
import re
import sys


# ------------------------------------------------------------------------------------------------ helpers
def strip_comments(src):
    src = re.sub(r"/\*.*?\*/", "", src, flags=re.S)
    return re.sub(r"//[^\n]*", "", src)


def matching(src, i, open_ch="{", close_ch="}"):
    """src[i] == open_ch; index of the matching close_ch."""
    depth = 0
    for j in range(i, len(src)):
        c = src[j]
        if c == open_ch:
            depth += 1
        elif c == close_ch:
            depth -= 1
            if depth == 0:
                return j
    raise ValueError("unbalanced")


def fn_body(src, name):
    m = re.search(r"\bfn\s+" + re.escape(name) + r"\s*(<[^>]*>)?\s*\(", src)
    if not m:
        raise ValueError("fn %s not found" % name)
    i = src.index("{", matching(src, m.end() - 1, "(", ")"))
    return src[i + 1: matching(src, i)]


def match_block(src, head_regex):
    """Body of the first `match <head> {` whose scrutinee matches head_regex."""
    m = re.search(r"\bmatch\s+" + head_regex + r"\s*\{", src)
    if not m:
        raise ValueError("match %s not found" % head_regex)
    i = m.end() - 1
    return src[i + 1: matching(src, i)]


def arms(block):
    """Split a match body into (pattern, body) pairs at the top-level `=>`."""
    out = []
    i, n = 0, len(block)
    start = 0
    depth_b = depth_p = 0
    while i < n:
        c = block[i]
        if c == "{":
            depth_b += 1
        elif c == "}":
            depth_b -= 1
        elif c in "([":
            depth_p += 1
        elif c in ")]":
            depth_p -= 1
        elif c == "=" and block[i:i + 2] == "=>" and depth_b == 0 and depth_p == 0:
            pat = block[start:i].strip().lstrip(",").strip()
            j = i + 2
            while j < n and block[j].isspace():
                j += 1
            if j < n and block[j] == "{":
                k = matching(block, j)
                body = block[j:k + 1]
                i = k + 1
            else:
                k, db, dp = j, 0, 0
                while k < n:
                    ch = block[k]
                    if ch in "{":
                        db += 1
                    elif ch in "}":
                        db -= 1
                    elif ch in "([":
                        dp += 1
                    elif ch in ")]":
                        dp -= 1
                    elif ch == "," and db == 0 and dp == 0:
                        break
                    k += 1
                body = block[j:k]
                i = k
            out.append((pat, body))
            start = i
            continue
        i += 1
    return out


def camel(snake):
    return "".join(p[:1].upper() + p[1:] for p in snake.split("_"))


def write_if_changed(path, text):
    os.makedirs(os.path.dirname(path), exist_ok=True)
    if os.path.exists(path) and open(path).read() == text:
        return False
    with open(path, "w") as f:
        f.write(text)
    return True


# ------------------------------------------------------------------------------------------------ C14 tables
ENC = ["Str", "I64", "U8", "U16", "U32", "U64", "F64", "Val", "USize", "Bitvec", "NullableStr", "NullableI64", "NullableU8",
       "NullableU16", "NullableU32", "NullableU64", "NullableF64", "OptStr", "Null", "ScalarI64", "ScalarF64", "ScalarStr",
       "ScalarString", "ConstVal", "ByteSlices", "ValRows", "Premerge", "MergeOp"]
CAPENC = ["U8", "U16", "U32", "U64", "I64", "Null", "F64", "Bitvec"]
OPTAG = ["Nullable", "Add", "Delta", "ToI64", "PushDataSection", "DictLookup", "LZ4", "Pco", "UnpackStrings", "UnhexpackStrings", "Unknown"]
CAPOPTAG = ["Add", "Delta", "ToI64", "PushDataSection", "DictLookup", "Lz4", "UnpackStrings", "UnhexpackStrings", "Nullable", "Pco"]
SECTAG = ["U8", "U16", "U32", "U64", "I64", "F64", "Null", "Bitvec", "LZ4", "Pco"]
CAPSECTAG = ["U8", "U16", "U32", "U64", "I64", "Null", "F64", "Bitvec", "Lz4", "Pco"]


def segment_tables(repo):
    src = strip_comments(open(os.path.join(repo, "src/disk_store/partition_segment.rs")).read())

    # encoding_type_to_capnp
    enc_to = []
    wildcard_panics = False
    for pat, body in arms(match_block(fn_body(src, "encoding_type_to_capnp"), r"t")):
        m = re.fullmatch(r"EncodingType::(\w+)", pat)
        if m:
            enc_to.append((m.group(1), body.strip()))
        elif pat == "_" and "panic!" in body:
            wildcard_panics = True
        else:
            raise ValueError("encoding_type_to_capnp arm %r" % pat)
    # deserialize_type
    enc_from = []
    for pat, body in arms(match_block(fn_body(src, "deserialize_type"), r"t")):
        m = re.fullmatch(r"EncodingType::(\w+)", body.strip())
        if not re.fullmatch(r"\w+", pat) or not m:
            raise ValueError("deserialize_type arm %r" % pat)
        enc_from.append((pat, m.group(1)))

    ser = fn_body(src, "serialize")
    de = fn_body(src, "deserialize")
    # CodecOp, serialize side
    op_to = []
    for pat, body in arms(match_block(ser, r"op")):
        m = re.match(r"CodecOp::(\w+)", pat)
        if not m:
            raise ValueError("serialize CodecOp arm %r" % pat)
        s = re.search(r"capnp_op\s*\.\s*(?:set|init)_(\w+)\s*\(", body)
        if s:
            op_to.append((m.group(1), camel(s.group(1))))
        elif "panic!" in body:
            op_to.append((m.group(1), None))
        else:
            raise ValueError("serialize CodecOp arm %r has no setter" % pat)
    # CodecOp, deserialize side
    op_from = []
    for pat, body in arms(match_block(de, r"op\.which\(\)\.unwrap\(\)")):
        m = re.match(r"(\w+)\s*\(", pat)
        v = re.search(r"CodecOp::(\w+)", body)
        if not m or not v:
            raise ValueError("deserialize CodecOp arm %r" % pat)
        op_from.append((m.group(1), v.group(1)))
    # DataSection, serialize side
    sec_to = []
    for pat, body in arms(match_block(ser, r"section")):
        m = re.match(r"DataSection::(\w+)", pat)
        s = re.search(r"\bds\s*\.\s*(?:set|init)_(\w+)\s*\(", body)
        if not m or not s:
            raise ValueError("serialize DataSection arm %r" % pat)
        sec_to.append((m.group(1), camel(s.group(1))))
    # DataSection, deserialize side
    sec_from = []
    for pat, body in arms(match_block(de, r"d\.which\(\)\.unwrap\(\)")):
        m = re.match(r"(\w+)\s*\(", pat)
        v = re.search(r"DataSection::(\w+)", body)
        if not m or not v:
            raise ValueError("deserialize DataSection arm %r" % pat)
        sec_from.append((m.group(1), v.group(1)))

    def check(names, allowed, what):
        for n in names:
            if n is not None and n not in allowed:
                raise ValueError("%s: unknown name %s" % (what, n))

    check([a for a, _ in enc_to], ENC, "Enc"); check([b for _, b in enc_to], CAPENC, "CapEnc")
    check([a for a, _ in enc_from], CAPENC, "CapEnc"); check([b for _, b in enc_from], ENC, "Enc")
    check([a for a, _ in op_to], OPTAG, "OpTag"); check([b for _, b in op_to], CAPOPTAG, "CapOpTag")
    check([a for a, _ in op_from], CAPOPTAG, "CapOpTag"); check([b for _, b in op_from], OPTAG, "OpTag")
    check([a for a, _ in sec_to], SECTAG, "SecTag"); check([b for _, b in sec_to], CAPSECTAG, "CapSecTag")
    check([a for a, _ in sec_from], CAPSECTAG, "CapSecTag"); check([b for _, b in sec_from], SECTAG, "SecTag")

    def total_fn(name, doc, dom, cod, pairs, all_dom, default_panic=None):
        """Lean def by pattern matching; a missing constructor is an error (Rust matches are exhaustive)."""
        lines = ["/-- %s -/" % doc, "def %s : %s → %s" % (name, dom, cod)]
        seen = set()
        for a, b in pairs:
            if a in seen:
                raise ValueError("%s: duplicate arm %s" % (name, a))
            seen.add(a)
            lines.append("  | .%s => %s" % (a, b))
        missing = [d for d in all_dom if d not in seen]
        if missing:
            if default_panic is None:
                raise ValueError("%s: no arm for %s" % (name, missing))
            lines.append("  | _ => %s" % default_panic)
        return "\n".join(lines)

    parts = [
        "import LocustModel.Disk.SegmentTypes",
        "/-\n  GENERATED by tools/extract.py from /repo/src/disk_store/partition_segment.rs — do not edit.\n"
        "  One Lean match arm per Rust match arm of `encoding_type_to_capnp`, `deserialize_type`, and of the `CodecOp` /\n"
        "  `DataSection` matches in `PartitionSegment::serialize` / `deserialize` (variant ↔ capnp union member).\n-/",
        "namespace LM.Gen.SegmentTables\nopen LM.Segment",
        total_fn("encodingTypeToCapnp", "`encoding_type_to_capnp` (`none` = the `_ => panic!` arm).", "Enc", "Option CapEnc",
                 [(a, "some .%s" % b) for a, b in enc_to], ENC, "none" if wildcard_panics else None),
        total_fn("deserializeType", "`deserialize_type`.", "CapEnc", "Enc", [(a, ".%s" % b) for a, b in enc_from], CAPENC),
        total_fn("opTagToCapnp", "`serialize`: which union member each `CodecOp` variant is written to (`none` = panic arm).",
                 "OpTag", "Option CapOpTag", [(a, "none" if b is None else "some .%s" % b) for a, b in op_to], OPTAG),
        total_fn("capnpToOpTag", "`deserialize`: which `CodecOp` variant each union member is read into.", "CapOpTag", "OpTag",
                 [(a, ".%s" % b) for a, b in op_from], CAPOPTAG),
        total_fn("secTagToCapnp", "`serialize`: which union member each `DataSection` variant is written to.", "SecTag", "CapSecTag",
                 [(a, ".%s" % b) for a, b in sec_to], SECTAG),
        total_fn("capnpToSecTag", "`deserialize`: which `DataSection` variant each union member is read into.", "CapSecTag", "SecTag",
                 [(a, ".%s" % b) for a, b in sec_from], CAPSECTAG),
        "end LM.Gen.SegmentTables",
    ]
    return "\n\n".join(parts) + "\n"


EXTRACTORS = [("SegmentTables.lean", segment_tables)]


def regenerate(repo, gen_dir):
    status = {"status": "ok", "files": {}}
    for fname, fn in EXTRACTORS:
        path = os.path.join(gen_dir, fname)
        try:
            text = fn(repo)
            changed = write_if_changed(path, text)
            status["files"][fname] = "regenerated (changed)" if changed else "regenerated (identical to committed copy)"
        except Exception as e:  # keep the committed copy
            status["files"][fname] = "unparsed: %s" % e
            status["status"] = "partial"
    return status


if __name__ == "__main__":
    repo = sys.argv[1] if len(sys.argv) > 1 else "/repo"
    gen = sys.argv[2] if len(sys.argv) > 2 else os.path.join(os.path.dirname(os.path.dirname(os.path.abspath(__file__))), "lean", "LocustModel", "Gen")
    print(regenerate(repo, gen))
