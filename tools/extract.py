#!/usr/bin/env python3
"""
Source-to-Lean translator for table-like Rust code (DESIGN.md §3.3).

    regenerate(repo, gen_dir) -> dict      called by ./check before every proof build

Each extractor parses the `match` arms of named Rust functions and writes one Lean file under
lean/LocustModel/Gen/.  If a function cannot be parsed (harmless refactor) the last committed Gen file is kept and
the status says `unparsed <what>`; the correspondence run is then the only tie for that table.
Files are rewritten only when their content changes (so an unchanged tree does not trigger Lean rebuilds).

Extractors:
  segment_tables   src/disk_store/partition_segment.rs  -> Gen/SegmentTables.lean   (C14)
  registry_tables  src/engine/planning/query_plan.rs    -> Gen/Registry.lean        (C06, C03)
  routing_consts   src/scheduler/inner_locustdb.rs (is_filesystem_safe), src/disk_store/storage.rs
                   (sanitize_table_name, partition_filename)               -> Gen/RoutingConsts.lean   (C15)
"""
import os
import re
import sys


# ------------------------------------------------------------------------------------------------ helpers
def strip_comments(src):
    src = re.sub(r"/\*.*?\*/", "", src, flags=re.S)
    return re.sub(r"//[^\n]*", "", src)


def matching(src, i, open_ch="{", close_ch="}"):
    """src[i] == open_ch; index of the matching close_ch."""
    depth = 0
    for j in range(i, len(src)):
        c = src[j]
        if c == open_ch:
            depth += 1
        elif c == close_ch:
            depth -= 1
            if depth == 0:
                return j
    raise ValueError("unbalanced")


def fn_body(src, name):
    m = re.search(r"\bfn\s+" + re.escape(name) + r"\s*(<[^>]*>)?\s*\(", src)
    if not m:
        raise ValueError("fn %s not found" % name)
    i = src.index("{", matching(src, m.end() - 1, "(", ")"))
    return src[i + 1: matching(src, i)]


def match_block(src, head_regex):
    """Body of the first `match <head> {` whose scrutinee matches head_regex."""
    m = re.search(r"\bmatch\s+" + head_regex + r"\s*\{", src)
    if not m:
        raise ValueError("match %s not found" % head_regex)
    i = m.end() - 1
    return src[i + 1: matching(src, i)]


def arms(block):
    """Split a match body into (pattern, body) pairs at the top-level `=>`."""
    out = []
    i, n = 0, len(block)
    start = 0
    depth_b = depth_p = 0
    while i < n:
        c = block[i]
        if c == "{":
            depth_b += 1
        elif c == "}":
            depth_b -= 1
        elif c in "([":
            depth_p += 1
        elif c in ")]":
            depth_p -= 1
        elif c == "=" and block[i:i + 2] == "=>" and depth_b == 0 and depth_p == 0:
            pat = block[start:i].strip().lstrip(",").strip()
            j = i + 2
            while j < n and block[j].isspace():
                j += 1
            if j < n and block[j] == "{":
                k = matching(block, j)
                body = block[j:k + 1]
                i = k + 1
            else:
                k, db, dp = j, 0, 0
                while k < n:
                    ch = block[k]
                    if ch in "{":
                        db += 1
                    elif ch in "}":
                        db -= 1
                    elif ch in "([":
                        dp += 1
                    elif ch in ")]":
                        dp -= 1
                    elif ch == "," and db == 0 and dp == 0:
                        break
                    k += 1
                body = block[j:k]
                i = k
            out.append((pat, body))
            start = i
            continue
        i += 1
    return out


def camel(snake):
    return "".join(p[:1].upper() + p[1:] for p in snake.split("_"))


def write_if_changed(path, text):
    os.makedirs(os.path.dirname(path), exist_ok=True)
    if os.path.exists(path) and open(path).read() == text:
        return False
    with open(path, "w") as f:
        f.write(text)
    return True


# ------------------------------------------------------------------------------------------------ C14 tables
ENC = ["Str", "I64", "U8", "U16", "U32", "U64", "F64", "Val", "USize", "Bitvec", "NullableStr", "NullableI64", "NullableU8",
       "NullableU16", "NullableU32", "NullableU64", "NullableF64", "OptStr", "Null", "ScalarI64", "ScalarF64", "ScalarStr",
       "ScalarString", "ConstVal", "ByteSlices", "ValRows", "Premerge", "MergeOp"]
CAPENC = ["U8", "U16", "U32", "U64", "I64", "Null", "F64", "Bitvec"]
OPTAG = ["Nullable", "Add", "Delta", "ToI64", "PushDataSection", "DictLookup", "LZ4", "Pco", "UnpackStrings", "UnhexpackStrings", "Unknown"]
CAPOPTAG = ["Add", "Delta", "ToI64", "PushDataSection", "DictLookup", "Lz4", "UnpackStrings", "UnhexpackStrings", "Nullable", "Pco"]
SECTAG = ["U8", "U16", "U32", "U64", "I64", "F64", "Null", "Bitvec", "LZ4", "Pco"]
CAPSECTAG = ["U8", "U16", "U32", "U64", "I64", "Null", "F64", "Bitvec", "Lz4", "Pco"]


def segment_tables(repo):
    src = strip_comments(open(os.path.join(repo, "src/disk_store/partition_segment.rs")).read())

    # encoding_type_to_capnp
    enc_to = []
    wildcard_panics = False
    for pat, body in arms(match_block(fn_body(src, "encoding_type_to_capnp"), r"t")):
        m = re.fullmatch(r"EncodingType::(\w+)", pat)
        if m:
            enc_to.append((m.group(1), body.strip()))
        elif pat == "_" and "panic!" in body:
            wildcard_panics = True
        else:
            raise ValueError("encoding_type_to_capnp arm %r" % pat)
    # deserialize_type
    enc_from = []
    for pat, body in arms(match_block(fn_body(src, "deserialize_type"), r"t")):
        m = re.fullmatch(r"EncodingType::(\w+)", body.strip())
        if not re.fullmatch(r"\w+", pat) or not m:
            raise ValueError("deserialize_type arm %r" % pat)
        enc_from.append((pat, m.group(1)))

    ser = fn_body(src, "serialize")
    de = fn_body(src, "deserialize")
    # CodecOp, serialize side
    op_to = []
    for pat, body in arms(match_block(ser, r"op")):
        m = re.match(r"CodecOp::(\w+)", pat)
        if not m:
            raise ValueError("serialize CodecOp arm %r" % pat)
        s = re.search(r"capnp_op\s*\.\s*(?:set|init)_(\w+)\s*\(", body)
        if s:
            op_to.append((m.group(1), camel(s.group(1))))
        elif "panic!" in body:
            op_to.append((m.group(1), None))
        else:
            raise ValueError("serialize CodecOp arm %r has no setter" % pat)
    # CodecOp, deserialize side
    op_from = []
    for pat, body in arms(match_block(de, r"op\.which\(\)\.unwrap\(\)")):
        m = re.match(r"(\w+)\s*\(", pat)
        v = re.search(r"CodecOp::(\w+)", body)
        if not m or not v:
            raise ValueError("deserialize CodecOp arm %r" % pat)
        op_from.append((m.group(1), v.group(1)))
    # DataSection, serialize side
    sec_to = []
    for pat, body in arms(match_block(ser, r"section")):
        m = re.match(r"DataSection::(\w+)", pat)
        s = re.search(r"\bds\s*\.\s*(?:set|init)_(\w+)\s*\(", body)
        if not m or not s:
            raise ValueError("serialize DataSection arm %r" % pat)
        sec_to.append((m.group(1), camel(s.group(1))))
    # DataSection, deserialize side
    sec_from = []
    for pat, body in arms(match_block(de, r"d\.which\(\)\.unwrap\(\)")):
        m = re.match(r"(\w+)\s*\(", pat)
        v = re.search(r"DataSection::(\w+)", body)
        if not m or not v:
            raise ValueError("deserialize DataSection arm %r" % pat)
        sec_from.append((m.group(1), v.group(1)))

    def check(names, allowed, what):
        for n in names:
            if n is not None and n not in allowed:
                raise ValueError("%s: unknown name %s" % (what, n))

    check([a for a, _ in enc_to], ENC, "Enc"); check([b for _, b in enc_to], CAPENC, "CapEnc")
    check([a for a, _ in enc_from], CAPENC, "CapEnc"); check([b for _, b in enc_from], ENC, "Enc")
    check([a for a, _ in op_to], OPTAG, "OpTag"); check([b for _, b in op_to], CAPOPTAG, "CapOpTag")
    check([a for a, _ in op_from], CAPOPTAG, "CapOpTag"); check([b for _, b in op_from], OPTAG, "OpTag")
    check([a for a, _ in sec_to], SECTAG, "SecTag"); check([b for _, b in sec_to], CAPSECTAG, "CapSecTag")
    check([a for a, _ in sec_from], CAPSECTAG, "CapSecTag"); check([b for _, b in sec_from], SECTAG, "SecTag")

    def total_fn(name, doc, dom, cod, pairs, all_dom, default_panic=None):
        """Lean def by pattern matching; a missing constructor is an error (Rust matches are exhaustive)."""
        lines = ["/-- %s -/" % doc, "def %s : %s → %s" % (name, dom, cod)]
        seen = set()
        for a, b in pairs:
            if a in seen:
                raise ValueError("%s: duplicate arm %s" % (name, a))
            seen.add(a)
            lines.append("  | .%s => %s" % (a, b))
        missing = [d for d in all_dom if d not in seen]
        if missing:
            if default_panic is None:
                raise ValueError("%s: no arm for %s" % (name, missing))
            lines.append("  | _ => %s" % default_panic)
        return "\n".join(lines)

    parts = [
        "import LocustModel.Disk.SegmentTypes",
        "/-\n  GENERATED by tools/extract.py from /repo/src/disk_store/partition_segment.rs — do not edit.\n"
        "  One Lean match arm per Rust match arm of `encoding_type_to_capnp`, `deserialize_type`, and of the `CodecOp` /\n"
        "  `DataSection` matches in `PartitionSegment::serialize` / `deserialize` (variant ↔ capnp union member).\n-/",
        "namespace LM.Gen.SegmentTables\nopen LM.Segment",
        total_fn("encodingTypeToCapnp", "`encoding_type_to_capnp` (`none` = the `_ => panic!` arm).", "Enc", "Option CapEnc",
                 [(a, "some .%s" % b) for a, b in enc_to], ENC, "none" if wildcard_panics else None),
        total_fn("deserializeType", "`deserialize_type`.", "CapEnc", "Enc", [(a, ".%s" % b) for a, b in enc_from], CAPENC),
        total_fn("opTagToCapnp", "`serialize`: which union member each `CodecOp` variant is written to (`none` = panic arm).",
                 "OpTag", "Option CapOpTag", [(a, "none" if b is None else "some .%s" % b) for a, b in op_to], OPTAG),
        total_fn("capnpToOpTag", "`deserialize`: which `CodecOp` variant each union member is read into.", "CapOpTag", "OpTag",
                 [(a, ".%s" % b) for a, b in op_from], CAPOPTAG),
        total_fn("secTagToCapnp", "`serialize`: which union member each `DataSection` variant is written to.", "SecTag", "CapSecTag",
                 [(a, ".%s" % b) for a, b in sec_to], SECTAG),
        total_fn("capnpToSecTag", "`deserialize`: which `DataSection` variant each union member is read into.", "CapSecTag", "SecTag",
                 [(a, ".%s" % b) for a, b in sec_from], CAPSECTAG),
        "end LM.Gen.SegmentTables",
    ]
    return "\n\n".join(parts) + "\n"


# ------------------------------------------------------------------------------------------------ C06 / C03 registry
def split_top(s, sep=","):
    """Split at top-level separators (outside (), [], {} and closures' bodies)."""
    out, depth, start = [], 0, 0
    for i, c in enumerate(s):
        if c in "([{":
            depth += 1
        elif c in ")]}":
            depth -= 1
        elif c == sep and depth == 0:
            out.append(s[start:i])
            start = i + 1
    out.append(s[start:])
    return [x.strip() for x in out if x.strip()]


BT_NAMES = {"Integer": "integer", "Float": "float", "String": "string", "Boolean": "boolean", "Null": "null"}


def registry_tables(repo):
    """FUNCTION2_REGISTRY of src/engine/planning/query_plan.rs: for every Func2Type the ordered list of declarations
    (factory = which planner node(s) the closure builds, input type signatures, encoding_invariance)."""
    src = strip_comments(open(os.path.join(repo, "src/engine/planning/query_plan.rs")).read())

    def lean_str(x):
        return '"' + x.replace("\\", "\\\\").replace('"', '\\"') + '"'

    def bt(x, tparam=None):
        x = x.strip()
        if tparam is not None and x == "t":
            return tparam
        m = re.fullmatch(r"BasicType::(\w+)", x)
        if not m:
            raise ValueError("registry: basic type %r" % x)
        return BT_NAMES.get(m.group(1), "other")

    def sigs_of(text, tparam=None):
        m = re.search(r"input_type_signatures\s*:\s*vec!\s*\[", text)
        if not m:
            raise ValueError("registry: no input_type_signatures in %r" % text[:60])
        i = m.end() - 1
        inner = text[i + 1: matching(text, i, "[", "]")]
        out = []
        for tup in split_top(inner):
            if not (tup.startswith("(") and tup.endswith(")")):
                raise ValueError("registry: signature %r" % tup)
            a, b = split_top(tup[1:-1])
            out.append((bt(a, tparam), bt(b, tparam)))
        return out

    def invariance_of(text):
        m = re.search(r"encoding_invariance\s*:\s*(true|false)", text)
        if not m:
            raise ValueError("registry: no encoding_invariance")
        return m.group(1)

    def factory_of(closure):
        """`Box::new(|a, b, c| body)` -> Lean Factory term."""
        m = re.search(r"Box::new\s*\(\s*\|([^|]*)\|", closure)
        if not m:
            raise ValueError("registry: factory closure %r" % closure[:60])
        params = [x.strip() for x in m.group(1).split(",")]
        body = closure[m.end():]
        body = body[: body.rfind(")")].strip()
        if body.startswith("{") and body.endswith("}"):
            body = body[1:-1].strip()
        body = re.sub(r"\s+", " ", body).rstrip(";").strip()
        if len(params) == 3 and body == params[1] and params[1] != "_":
            return ".forwardLeft"
        if len(params) == 3 and body == params[2] and params[2] != "_":
            return ".forwardRight"
        qp, lhs, rhs = params
        m1 = re.fullmatch(re.escape(qp) + r"\.(\w+)\(\s*" + re.escape(lhs) + r"\s*,\s*" + re.escape(rhs) + r"\s*\)", body)
        if m1:
            return ".call %s" % lean_str(m1.group(1))
        m2 = re.fullmatch(re.escape(qp) + r"\.(\w+)\(\s*" + re.escape(lhs) + r"\s*,\s*" + re.escape(rhs) + r"\s*,\s*EncodingType::(\w+)\s*\)", body)
        if m2:
            return ".callEnc %s %s" % (lean_str(m2.group(1)), lean_str(m2.group(2)))
        m3 = re.fullmatch(r"let (\w+) = " + re.escape(qp) + r"\.cast\(\s*(\w+)\s*,\s*EncodingType::(\w+)\s*\)\s*;\s*" + re.escape(qp)
                          + r"\.(\w+)\(\s*" + re.escape(lhs) + r"\s*,\s*" + re.escape(rhs) + r"\s*,\s*EncodingType::(\w+)\s*\)", body)
        if m3 and m3.group(1) == m3.group(2) and m3.group(1) in (lhs, rhs):
            side = "true" if m3.group(1) == lhs else "false"
            return ".castThen %s %s %s %s" % (side, lean_str(m3.group(3)), lean_str(m3.group(4)), lean_str(m3.group(5)))
        return ".other %s" % lean_str(body[:120])

    # helper constructors of `impl Function2`
    helpers = {}
    for m in re.finditer(r"pub fn (\w+)\s*\(([^)]*)\)\s*->\s*Function2\s*\{", src):
        name, params = m.group(1), m.group(2)
        i = m.end() - 1
        body = src[i + 1: matching(src, i)]
        pnames = [x.split(":")[0].strip() for x in params.split(",") if x.strip()]
        fm = re.search(r"\bfactory\s*(?::\s*(Box::new\s*\(.*?\)\s*),\s*input_type_signatures|,)", body, flags=re.S)
        if not fm:
            raise ValueError("registry: helper %s has no factory" % name)
        helpers[name] = {"params": pnames, "body": body, "fixed_factory": fm.group(1)}

    body = fn_body(src, "function2_registry")
    funcs = []
    for m in re.finditer(r"Func2Type::(\w+)\s*,\s*vec!\s*\[", body):
        i = m.end() - 1
        inner = body[i + 1: matching(body, i, "[", "]")]
        entries = []
        for el in split_top(inner):
            hm = re.match(r"Function2::(\w+)\s*\(", el)
            if hm:
                h = helpers.get(hm.group(1))
                if h is None:
                    raise ValueError("registry: unknown helper %s" % hm.group(1))
                j = hm.end() - 1
                args = split_top(el[j + 1: matching(el, j, "(", ")")])
                if len(args) != len(h["params"]):
                    raise ValueError("registry: helper %s arity" % hm.group(1))
                amap = dict(zip(h["params"], args))
                tparam = bt(amap["t"]) if "t" in amap else None
                fac = factory_of(h["fixed_factory"]) if h["fixed_factory"] else factory_of(amap["factory"])
                entries.append((fac, sigs_of(h["body"], tparam), invariance_of(h["body"])))
            elif re.match(r"Function2\s*\{", el):
                fm = re.search(r"\bfactory\s*:\s*", el)
                j = el.index("Box::new", fm.end())
                k = el.index("(", j)
                clos = el[j: matching(el, k, "(", ")") + 1]
                entries.append((factory_of(clos), sigs_of(el), invariance_of(el)))
            else:
                raise ValueError("registry: entry %r" % el[:60])
        funcs.append((m.group(1), entries))
    if not funcs:
        raise ValueError("registry: no Func2Type entries found")
    names = [f for f, _ in funcs]
    if len(set(names)) != len(names):
        raise ValueError("registry: duplicate Func2Type")

    def ctor(n):
        return n[:1].lower() + n[1:]

    lines = [
        "/-\n  GENERATED by tools/extract.py from /repo/src/engine/planning/query_plan.rs — do not edit.\n"
        "  `function2_registry()`: for every Func2Type the declarations in source order (the planner takes the FIRST whose\n"
        "  signature list contains the operands' basic types), with the planner node(s) each factory closure builds.\n-/",
        "namespace LM.Gen.Registry",
        "inductive BT where | integer | float | string | boolean | null | other\n  deriving DecidableEq, Repr",
        "/-- What the factory closure does: `qp.<name>(lhs, rhs)`, `qp.<name>(lhs, rhs, EncodingType::<enc>)`,\n"
        "    `let x = qp.cast(x, <to>); qp.<name>(lhs, rhs, <enc>)` (x = lhs iff `left`), return lhs / rhs unchanged. -/",
        "inductive Factory where\n  | call (name : String)\n  | callEnc (name enc : String)\n  | castThen (left : Bool) (castTo name enc : String)\n"
        "  | forwardLeft\n  | forwardRight\n  | other (src : String)\n  deriving DecidableEq, Repr",
        "structure Entry where\n  factory : Factory\n  sigs : List (BT × BT)\n  encodingInvariance : Bool\n  deriving DecidableEq, Repr",
        "inductive Func where\n" + "\n".join("  | %s" % ctor(n) for n in names) + "\n  deriving DecidableEq, Repr",
        "def entries : Func → List Entry",
    ]
    for n, es in funcs:
        lines.append("  | .%s => [" % ctor(n))
        rows = []
        for fac, sg, inv in es:
            rows.append("      ⟨%s, [%s], %s⟩" % (fac, ", ".join("(.%s, .%s)" % ab for ab in sg), inv))
        lines.append(",\n".join(rows) + "]")
    lines.append("end LM.Gen.Registry")
    return "\n\n".join(lines[:8]) + "\n\n" + "\n".join(lines[8:]) + "\n"


# ------------------------------------------------------------------------------------------------ C17 status table
# actix-web `HttpResponse::<Name>()` builder → status code
ACTIX_STATUS = {
    "Continue": 100, "SwitchingProtocols": 101, "Processing": 102,
    "Ok": 200, "Created": 201, "Accepted": 202, "NonAuthoritativeInformation": 203, "NoContent": 204, "ResetContent": 205,
    "PartialContent": 206, "MultiStatus": 207, "AlreadyReported": 208,
    "MultipleChoices": 300, "MovedPermanently": 301, "Found": 302, "SeeOther": 303, "NotModified": 304, "UseProxy": 305,
    "TemporaryRedirect": 307, "PermanentRedirect": 308,
    "BadRequest": 400, "Unauthorized": 401, "PaymentRequired": 402, "Forbidden": 403, "NotFound": 404, "MethodNotAllowed": 405,
    "NotAcceptable": 406, "ProxyAuthenticationRequired": 407, "RequestTimeout": 408, "Conflict": 409, "Gone": 410,
    "LengthRequired": 411, "PreconditionFailed": 412, "PayloadTooLarge": 413, "UriTooLong": 414, "UnsupportedMediaType": 415,
    "RangeNotSatisfiable": 416, "ExpectationFailed": 417, "ImATeapot": 418, "MisdirectedRequest": 421, "UnprocessableEntity": 422,
    "Locked": 423, "FailedDependency": 424, "UpgradeRequired": 426, "PreconditionRequired": 428, "TooManyRequests": 429,
    "RequestHeaderFieldsTooLarge": 431, "UnavailableForLegalReasons": 451,
    "InternalServerError": 500, "NotImplemented": 501, "BadGateway": 502, "ServiceUnavailable": 503, "GatewayTimeout": 504,
    "VersionNotSupported": 505, "VariantAlsoNegotiates": 506, "InsufficientStorage": 507, "LoopDetected": 508,
}
QUERY_ENDPOINTS = ["query", "query_cols", "multi_query_cols"]


def status_tables(repo):
    """`enum QueryError` (src/errors.rs), the arms of `map_err_response` and, per query endpoint handler, whether the
    result of `run_query` goes through `map_err_response` or is `.unwrap()`ped (src/server/mod.rs)."""
    esrc = strip_comments(open(os.path.join(repo, "src/errors.rs")).read())
    m = re.search(r"\bpub\s+enum\s+QueryError\s*\{", esrc)
    if not m:
        raise ValueError("status: enum QueryError not found")
    i = m.end() - 1
    body = re.sub(r"#\[[^\]]*\]", "", esrc[i + 1: matching(esrc, i)])
    variants = []
    for part in split_top(body):
        vm = re.match(r"(\w+)", part)
        if not vm:
            raise ValueError("status: variant %r" % part[:40])
        variants.append(vm.group(1))
    if not variants or len(set(variants)) != len(variants):
        raise ValueError("status: variants %r" % variants)

    ssrc = strip_comments(open(os.path.join(repo, "src/server/mod.rs")).read())

    def status_of(body):
        b = re.sub(r"\s+", "", body)
        hm = re.search(r"HttpResponse::(\w+)\(\)", b)
        if hm:
            if hm.group(1) not in ACTIX_STATUS:
                raise ValueError("status: unknown response builder %s" % hm.group(1))
            if not re.search(r"Err\(HttpResponse::", b):
                raise ValueError("status: response not returned as Err: %r" % b[:60])
            return ACTIX_STATUS[hm.group(1)]
        if re.match(r"\{?Ok\(", b):
            return 200                       # the error is turned into a success value
        raise ValueError("status: arm body %r" % b[:60])

    specific, default, ok_passes = {}, None, False
    for pat, abody in arms(match_block(fn_body(ssrc, "map_err_response"), r"\w+")):
        p = re.sub(r"\s+", "", pat)
        pm = re.match(r"Err\(QueryError::(\w+)", p)
        if pm:
            if pm.group(1) not in variants:
                raise ValueError("status: arm for unknown variant %s" % pm.group(1))
            if default is None and pm.group(1) not in specific:   # first matching arm wins
                specific[pm.group(1)] = status_of(abody)
        elif re.fullmatch(r"Err\((_|\w+)\)", p) or p == "_":
            if default is None:
                default = status_of(abody)
        elif re.fullmatch(r"Ok\((\w+)\)", p):
            ok_passes = re.sub(r"\s+", "", abody).rstrip(",") == p
        else:
            raise ValueError("status: arm pattern %r" % pat)
    missing = [v for v in variants if v not in specific]
    if missing and default is None:
        raise ValueError("status: no arm for %s" % missing)

    handlers = []
    for ep in QUERY_ENDPOINTS:
        hb = re.sub(r"\s+", "", fn_body(ssrc, ep))
        maps = "map_err_response(" in hb
        unwraps = re.search(r"run_query\([^;]*?\)\.await\.unwrap\(\)", hb) is not None
        handlers.append((ep, maps, unwraps))

    def b(x):
        return "true" if x else "false"

    lines = [
        "/-\n  GENERATED by tools/extract.py from /repo/src/errors.rs and /repo/src/server/mod.rs — do not edit.\n"
        "  `QErr` = the variants of `enum QueryError` in declaration order; `mapErrStatus` = one arm per arm of\n"
        "  `map_err_response` (actix builder name → status code); `handlerMapsErrors` / `handlerUnwrapsResult` = per query\n"
        "  endpoint handler, whether the awaited `run_query` result is passed to `map_err_response` / `.unwrap()`ped.\n-/",
        "namespace LM.Gen.Status",
        "/-- `enum QueryError`. -/\ninductive QErr where\n" + "\n".join("  | %s" % v for v in variants) + "\n  deriving DecidableEq, Repr",
        "def QErr.all : List QErr := [" + ", ".join(".%s" % v for v in variants) + "]",
        "def QErr.name : QErr → String\n" + "\n".join('  | .%s => "%s"' % (v, v) for v in variants),
        "/-- `map_err_response`: status of the response an error value is turned into (200 = turned into a success). -/\n"
        "def mapErrStatus : QErr → Nat\n" + "\n".join("  | .%s => %d" % (v, specific[v]) for v in variants if v in specific)
        + ("\n  | _ => %d" % default if missing else ""),
        "/-- The `Ok(result) => Ok(result)` arm is present. -/\ndef okPassesThrough : Bool := " + b(ok_passes),
        "/-- The query endpoints of the server. -/\ninductive Endpoint where\n" + "\n".join("  | %s" % e for e in QUERY_ENDPOINTS)
        + "\n  deriving DecidableEq, Repr",
        "def Endpoint.all : List Endpoint := [" + ", ".join(".%s" % e for e in QUERY_ENDPOINTS) + "]",
        "/-- The handler passes the awaited `run_query` result(s) to `map_err_response`. -/\ndef handlerMapsErrors : Endpoint → Bool\n"
        + "\n".join("  | .%s => %s" % (e, b(mp)) for e, mp, _ in handlers),
        "/-- The handler calls `.unwrap()` on the awaited `run_query` result (a failing query panics the handler). -/\n"
        "def handlerUnwrapsResult : Endpoint → Bool\n" + "\n".join("  | .%s => %s" % (e, b(uw)) for e, _, uw in handlers),
        "end LM.Gen.Status",
    ]
    return "\n\n".join(lines) + "\n"


# ------------------------------------------------------------------------------------------------ C15 constants
def routing_consts(repo):
    """The literals the C15 model depends on: the byte bound and character predicate of `is_filesystem_safe`, the
    truncation of `sanitize_table_name` (threshold and slice end), its retained / trimmed character sets, the condition
    and format of the hash form, and the format string of `partition_filename`."""
    isrc = strip_comments(open(os.path.join(repo, "src/scheduler/inner_locustdb.rs")).read())
    ssrc = strip_comments(open(os.path.join(repo, "src/disk_store/storage.rs")).read())

    def squash(x):
        return re.sub(r"\s+", "", x)

    def lean_str(x):
        return '"' + x.replace("\\", "\\\\").replace('"', '\\"') + '"'

    # is_filesystem_safe: `column_name.len() <= 64 && column_name.chars().all(|c| <pred>)`
    fb = squash(fn_body(isrc, "is_filesystem_safe"))
    m = re.fullmatch(r"column_name\.len\(\)(<=|<)(\d+)&&column_name\.chars\(\)\.all\(\|c\|(.*)\)", fb)
    if not m:
        raise ValueError("routing: is_filesystem_safe has an unexpected shape: %r" % fb[:80])
    fs_cmp, fs_bound, fs_pred = m.group(1), int(m.group(2)), m.group(3)

    # sanitize_table_name
    sb = squash(fn_body(ssrc, "sanitize_table_name"))
    m = re.search(r"name\.retain\(\|c\|(.*?)\);", sb)
    if not m:
        raise ValueError("routing: sanitize_table_name: retain(..) not found")
    retain = m.group(1)
    m = re.search(r"name\.trim_start_matches\(\[(.*?)\]\)", sb)
    if not m:
        raise ValueError("routing: sanitize_table_name: trim_start_matches([..]) not found")
    trim = []
    for ch in m.group(1).split(","):
        cm = re.fullmatch(r"'(.)'", ch)
        if not cm:
            raise ValueError("routing: trim character %r" % ch)
        trim.append(ord(cm.group(1)))
    m = re.search(r"ifname\.len\(\)(>=|>)(\d+)\{name=name\[\.\.(\d+)\]\.to_string\(\);\}", sb)
    if not m:
        raise ValueError("routing: sanitize_table_name: truncation not found")
    trunc_cmp, trunc_above, trunc_to = m.group(1), int(m.group(2)), int(m.group(3))
    m = re.search(r"if(name!=table_name.*?)\{", sb)
    if not m:
        raise ValueError("routing: sanitize_table_name: hash-form condition not found")
    hash_cond = m.group(1)
    m = re.search(r'name=format!\("([^"]*)",name,hasher\.finalize\(\)\)', sb)
    if not m:
        raise ValueError("routing: sanitize_table_name: hash-form format not found")
    hash_fmt = m.group(1)
    if not re.search(r"hasher\.update\(table_name\.as_bytes\(\)\)", sb) or "Sha256::new()" not in sb:
        raise ValueError("routing: sanitize_table_name: digest is not SHA-256 of the table name bytes")
    lowered = sb.startswith("letmutname=table_name.to_lowercase();")

    # partition_filename
    pb = squash(fn_body(ssrc, "partition_filename"))
    m = re.fullmatch(r'format!\("([^"]*)",id,subpartition_key\)', pb)
    if not m:
        raise ValueError("routing: partition_filename has an unexpected shape: %r" % pb[:80])
    part_fmt = m.group(1)

    lines = [
        "/-\n  GENERATED by tools/extract.py from /repo/src/scheduler/inner_locustdb.rs (is_filesystem_safe) and\n"
        "  /repo/src/disk_store/storage.rs (sanitize_table_name, partition_filename) — do not edit.\n"
        "  Numeric literals are used by the model (`Disk/Routing.lean`); the textual ones (character predicates, conditions,\n"
        "  format strings, whitespace removed) are compared with what the model mirrors by `C15_source_constants`.\n-/",
        "namespace LM.Gen.RoutingConsts",
        "/-- `is_filesystem_safe`: `column_name.len() <cmp> <bound>`. -/\ndef fsSafeCmp : String := %s\ndef fsSafeMaxBytes : Nat := %d" % (lean_str(fs_cmp), fs_bound),
        "/-- `is_filesystem_safe`: the per-character predicate of `.chars().all(|c| …)`. -/\ndef fsSafeCharPred : String := %s" % lean_str(fs_pred),
        "/-- `sanitize_table_name` starts with `table_name.to_lowercase()`. -/\ndef tableNameLowercased : Bool := %s" % ("true" if lowered else "false"),
        "/-- `sanitize_table_name`: `name.retain(|c| …)`. -/\ndef tableNameRetain : String := %s" % lean_str(retain),
        "/-- `sanitize_table_name`: `trim_start_matches([…])` (scalar values). -/\ndef tableNameTrim : List Nat := [%s]" % ", ".join(str(t) for t in trim),
        "/-- `sanitize_table_name`: `if name.len() <cmp> <above> { name = name[..<to>] }`. -/\ndef tableNameTruncCmp : String := %s\n"
        "def tableNameTruncAbove : Nat := %d\ndef tableNameTruncTo : Nat := %d" % (lean_str(trunc_cmp), trunc_above, trunc_to),
        "/-- `sanitize_table_name`: when the hash form is used, and its format (`{:x}` of the SHA-256 digest of the name's bytes). -/\n"
        "def tableNameHashCond : String := %s\ndef tableNameHashFormat : String := %s" % (lean_str(hash_cond), lean_str(hash_fmt)),
        "/-- `partition_filename`: `format!(<fmt>, id, subpartition_key)`. -/\ndef partitionFilenameFormat : String := %s" % lean_str(part_fmt),
        "end LM.Gen.RoutingConsts",
    ]
    return "\n\n".join(lines) + "\n"


EXTRACTORS = [("SegmentTables.lean", segment_tables), ("Registry.lean", registry_tables), ("Status.lean", status_tables),
              ("RoutingConsts.lean", routing_consts)]

# C14: field-copy / log-segment / catalogue / capnp-schema tables live in tools/extract_c14.py (same conventions)
try:
    import extract_c14 as _extract_c14
    EXTRACTORS += _extract_c14.extractors(sys.modules[__name__])
except Exception as _c14_err:  # reported as `unparsed`, committed Gen files are kept
    def _c14_unavailable(repo, _e=_c14_err):
        raise ValueError("tools/extract_c14.py not loadable: %s" % _e)
    EXTRACTORS += [(f, _c14_unavailable) for f in ("SegmentFields.lean", "WalTables.lean", "MetaTables.lean", "SchemaTables.lean")]

# C08 / C18: choices of the write-ahead protocol (tools/extract_store.py, same conventions)
try:
    import extract_store as _extract_store
    EXTRACTORS += _extract_store.extractors(sys.modules[__name__])
except Exception as _store_err:  # reported as `unparsed`, the committed Gen file is kept
    def _store_unavailable(repo, _e=_store_err):
        raise ValueError("tools/extract_store.py not loadable: %s" % _e)
    EXTRACTORS += [("WalProtocol.lean", _store_unavailable)]


def regenerate(repo, gen_dir):
    status = {"status": "ok", "files": {}}
    for fname, fn in EXTRACTORS:
        path = os.path.join(gen_dir, fname)
        try:
            text = fn(repo)
            changed = write_if_changed(path, text)
            status["files"][fname] = "regenerated (changed)" if changed else "regenerated (identical to committed copy)"
        except Exception as e:  # keep the committed copy
            status["files"][fname] = "unparsed: %s" % e
            status["status"] = "partial"
    return status


if __name__ == "__main__":
    repo = sys.argv[1] if len(sys.argv) > 1 else "/repo"
    gen = sys.argv[2] if len(sys.argv) > 2 else os.path.join(os.path.dirname(os.path.dirname(os.path.abspath(__file__))), "lean", "LocustModel", "Gen")
    print(regenerate(repo, gen))
