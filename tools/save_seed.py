#!/usr/bin/env python3
"""Development aid: copy a CONFIRMED seeded change from <worktree>/OUT/<k>/ to /verif/seeded/<seed-id>/ with meta.json.
usage: save_seed.py <worktree> <k> <seed-id> <property> "<needs-to-manifest>" """
import json, os, shutil, subprocess, sys
wt, k, sid, prop, needs = sys.argv[1:6]
src = os.path.join(wt, "OUT", k)
dst = os.path.join("/verif/seeded", sid)
os.makedirs(dst, exist_ok=True)
for f in ("patch.diff", "demo.rs", "README.md"):
    shutil.copy(os.path.join(src, f), os.path.join(dst, f))
base = subprocess.run(["git", "-C", wt, "rev-parse", "HEAD"], capture_output=True, text=True).stdout.strip()
def tail(name, n=6):
    p = os.path.join(src, name)
    return open(p, errors="replace").read().strip().splitlines()[-n:] if os.path.exists(p) else []
suite = [l for l in open(os.path.join(src, "confirm.suite_mut.log"), errors="replace").read().splitlines() if l.startswith("test result")]
meta = {
    "id": sid, "property": prop, "base_commit": base,
    "files_touched": sorted({l.split(" b/")[-1] for l in open(os.path.join(src, "patch.diff")).read().splitlines() if l.startswith("diff --git")}),
    "needs_to_manifest": needs,
    "origin": "written by a fresh sub-agent that was given only the property text and a scratch worktree of /repo (nothing from /verif)",
    "confirmed_by_lead": {
        "how": "tools/confirm_seed.sh in the scratch worktree: demo on the unmodified tree, then patch applied: the project's own suite (private network namespace) and the demo again",
        "demo_without_change": "pass", "existing_suite_with_change": suite, "demo_with_change": "FAIL",
        "demo_with_change_tail": tail("confirm.demo_mut.log"),
    },
    "checks_run": {},
}
old = os.path.join(dst, "meta.json")
if os.path.exists(old):
    meta["checks_run"] = json.load(open(old)).get("checks_run", {})
json.dump(meta, open(old, "w"), indent=1)
print("saved", dst)
