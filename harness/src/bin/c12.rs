//! C12: every query string gets a well-formed answer or an error value.
//!
//! Three streams, all on the real code:
//!  * `front`  — `parser::parse_query` + `Query::normalize` on grammar-generated statements.  The generator
//!               writes the SQL text AND the mirrored coarse syntax tree (prefix tokens, see
//!               lean/LocustModel/Query/NormProto.lean); the Lean model converts the tree and must print the
//!               same `Query` / normal-form dump the harness prints from the real structures.
//!  * `run`    — `LocustDB::run_query` on the same statements against a multi-partition table `t`, an
//!               existing table without partitions, a missing table, and `_meta_tables` of a fresh
//!               database; the observed `QueryOutput` (names, columns, rows) goes into the model line and is
//!               judged by the Lean specification (`WellFormed`), the model predicts names / error kind / rows.
//!  * `mut`    — byte-level mutations of valid statements: oracle only (no panic, no hang, no lost answer,
//!               well-formed or error value).
//! Every call runs under catch_unwind with a deadline; a database that lost a worker is replaced.
use std::panic::{catch_unwind, AssertUnwindSafe};
use std::sync::Arc;
use vharness::locustdb::verif::engine::{ColumnInfo, NormalFormQuery, Query, ResultColumn};
use vharness::locustdb::verif::ingest::raw_val::RawVal;
use vharness::locustdb::verif::syntax::expression::Expr;
use vharness::locustdb::verif::syntax::parser::parse_query;
use vharness::locustdb::{LocustDB, Options};
use vharness::*;

// ------------------------------------------------------------------------------------------------
// Mirrored syntax tree
#[derive(Clone, Debug)]
enum AE {
    Bin(&'static str, &'static str, Box<AE>, Box<AE>), // token, sql operator
    Un(&'static str, &'static str, Box<AE>),            // token (not|neg|other), sql prefix
    Num(String, bool),                                  // token text, `L` suffix
    Str(String),
    Null,
    LitOther(String),                                   // sql text of a literal parser.rs does not handle
    Ident(String, Option<char>),                        // value, quote style
    Nested(Box<AE>),
    Func(String, Vec<FArg>),                            // name as written, plain argument list
    IsNull(Box<AE>),
    IsNotNull(Box<AE>),
    Like(bool, Box<AE>, Box<AE>, Option<char>),
    Floor(Box<AE>),
    Other(String, bool),                                // sql text of any other node, is it atomic
}
#[derive(Clone, Debug)]
enum FArg { E(AE), Other(String) }

fn quote_ident(v: &str, q: Option<char>) -> String {
    match q { None => v.to_string(), Some(c) => format!("{}{}{}", c, v, c) }
}
fn sql_str(s: &str) -> String { format!("'{}'", s.replace('\'', "''")) }

impl AE {
    /// sqlparser's rendering (`Display`) — also the text that is sent.
    fn sql(&self) -> String {
        match self {
            AE::Bin(_, op, l, r) => format!("{} {} {}", l.sql(), op, r.sql()),
            AE::Un(t, p, e) => if *t == "not" { format!("NOT {}", e.sql()) } else { format!("{}{}", p, e.sql()) },
            AE::Num(t, l) => if *l { format!("{}L", t) } else { t.clone() },
            AE::Str(s) => sql_str(s),
            AE::Null => "NULL".into(),
            AE::LitOther(s) => s.clone(),
            AE::Ident(v, q) => quote_ident(v, *q),
            AE::Nested(e) => format!("({})", e.sql()),
            AE::Func(n, args) => format!("{}({})", n, args.iter().map(|a| match a { FArg::E(e) => e.sql(), FArg::Other(s) => s.clone() }).collect::<Vec<_>>().join(", ")),
            AE::IsNull(e) => format!("{} IS NULL", e.sql()),
            AE::IsNotNull(e) => format!("{} IS NOT NULL", e.sql()),
            AE::Like(neg, e, p, esc) => format!("{} {}LIKE {}{}", e.sql(), if *neg { "NOT " } else { "" }, p.sql(), match esc { Some(c) => format!(" ESCAPE '{}'", c), None => String::new() }),
            AE::Floor(e) => format!("FLOOR({})", e.sql()),
            AE::Other(s, _) => s.clone(),
        }
    }
    fn toks(&self, out: &mut Vec<String>) {
        match self {
            AE::Bin(t, _, l, r) => { out.push("B".into()); out.push(t.to_string()); l.toks(out); r.toks(out); }
            AE::Un(t, _, e) => { out.push("U".into()); out.push(t.to_string()); e.toks(out); }
            AE::Num(t, _) => { out.push("N".into()); out.push(hexs(t)); out.push(match t.parse::<f64>() { Ok(f) => format!("{:016x}", f.to_bits()), Err(_) => "_".into() }); }
            AE::Str(s) => { out.push("S".into()); out.push(hexs(s)); }
            AE::Null => out.push("NULL".into()),
            AE::LitOther(_) => out.push("LO".into()),
            AE::Ident(v, _) => { out.push("I".into()); out.push(hexs(v)); }
            AE::Nested(e) => { out.push("P".into()); e.toks(out); }
            AE::Func(n, args) => {
                let up = hexs(&n.to_uppercase());
                let arg = |a: &FArg, out: &mut Vec<String>| match a { FArg::E(e) => e.toks(out), FArg::Other(_) => out.push("O".into()) };
                match args.len() {
                    0 => { out.push("F0".into()); out.push(up); }
                    1 => { out.push("F1".into()); out.push(up); arg(&args[0], out); }
                    2 => { out.push("F2".into()); out.push(up); arg(&args[0], out); arg(&args[1], out); }
                    _ => { out.push("FN".into()); out.push(up); }
                }
            }
            AE::IsNull(e) => { out.push("ISN".into()); e.toks(out); }
            AE::IsNotNull(e) => { out.push("INN".into()); e.toks(out); }
            AE::Like(neg, e, p, esc) => { out.push("LK".into()); out.push((*neg as u8).to_string()); out.push((esc.is_some() as u8).to_string()); e.toks(out); p.toks(out); }
            AE::Floor(e) => { out.push("FL".into()); e.toks(out); }
            AE::Other(..) => out.push("O".into()),
        }
    }
    fn atomic(&self) -> bool {
        match self {
            AE::Num(..) | AE::Str(_) | AE::Null | AE::LitOther(_) | AE::Ident(..) | AE::Nested(_) | AE::Func(..) | AE::Floor(_) => true,
            AE::Other(_, a) => *a,
            _ => false,
        }
    }
    /// usable as an operand without changing how the text parses
    fn operand(self) -> AE { if self.atomic() { self } else { AE::Nested(Box::new(self)) } }
    fn has_agg(&self) -> bool {
        match self {
            AE::Func(n, args) => matches!(n.to_uppercase().as_str(), "COUNT" | "SUM" | "AVG" | "MIN" | "MAX") || args.iter().any(|a| matches!(a, FArg::E(e) if e.has_agg())),
            AE::Bin(_, _, l, r) => l.has_agg() || r.has_agg(),
            AE::Un(_, _, e) | AE::Nested(e) | AE::IsNull(e) | AE::IsNotNull(e) | AE::Floor(e) => e.has_agg(),
            AE::Like(_, e, p, _) => e.has_agg() || p.has_agg(),
            _ => false,
        }
    }
}

fn bin(tok: &'static str, l: AE, r: AE) -> AE {
    let sql = match tok { "and" => "AND", "or" => "OR", o => o };
    AE::Bin(tok, sql, Box::new(l.operand()), Box::new(r.operand()))
}
fn bin_other(sql: &'static str, l: AE, r: AE) -> AE { AE::Bin("other", sql, Box::new(l.operand()), Box::new(r.operand())) }
fn not(e: AE) -> AE { AE::Un("not", "NOT ", Box::new(e.operand())) }
fn neg(e: AE) -> AE { let e = e.operand(); let e = if matches!(e, AE::Un(..)) { AE::Nested(Box::new(e)) } else { e }; AE::Un("neg", "-", Box::new(e)) }
fn num(t: &str) -> AE { AE::Num(t.to_string(), false) }
fn id(v: &str) -> AE { AE::Ident(v.to_string(), None) }
fn func(n: &str, args: Vec<AE>) -> AE { AE::Func(n.to_string(), args.into_iter().map(FArg::E).collect()) }

#[derive(Clone, Debug)]
enum Item { Unnamed(AE), Aliased(AE, String, Option<char>, bool), Wildcard, Qualified(String) }

#[derive(Clone, Debug)]
struct TableRef { sql: String, display: Option<String>, name: String } // display None = not a plain table

#[derive(Clone, Debug)]
enum Lim { None, LimitOffset(Option<AE>, Option<(AE, &'static str)>, bool), Comma(AE, AE), All }

#[derive(Clone, Debug)]
struct Sel {
    prefix: String,
    distinct: bool,
    items: Vec<Item>,
    from: Vec<(TableRef, Vec<String>)>,
    where_: Option<AE>,
    group_all: bool,
    group_by: Vec<AE>,
    having: Option<AE>,
    order_by: Vec<(AE, Option<bool>, &'static str)>,
    order_all: bool,
    limit: Lim,
    suffix: String,
}

#[derive(Clone, Debug)]
enum Stmt { Select(Sel), QueryOther(String), Other(String) }

#[derive(Clone, Debug)]
enum Parsed { ParserError(String), OtherError(String), Stmts(Vec<Stmt>, String) } // statements, separator/trailer

fn pk(rng: &mut Rng, xs: &[&'static str]) -> &'static str { *rng.pick(xs) }
fn kw(rng: &mut Rng, k: &str) -> String { if rng.chance(1, 6) { k.to_lowercase() } else { k.to_string() } }

impl Sel {
    fn sql(&self, rng: &mut Rng) -> String {
        let mut s = self.prefix.clone();
        s.push_str(&kw(rng, "SELECT"));
        if self.distinct { s.push_str(" DISTINCT"); }
        let items: Vec<String> = self.items.iter().map(|it| match it {
            Item::Unnamed(e) => e.sql(),
            Item::Aliased(e, a, q, with_as) => format!("{}{}{}", e.sql(), if *with_as { " AS " } else { " " }, quote_ident(a, *q)),
            Item::Wildcard => "*".into(),
            Item::Qualified(t) => format!("{}.*", t),
        }).collect();
        s.push(' ');
        s.push_str(&items.join(", "));
        if !self.from.is_empty() {
            s.push(' '); s.push_str(&kw(rng, "FROM")); s.push(' ');
            s.push_str(&self.from.iter().map(|(t, joins)| format!("{}{}", t.sql, joins.join(""))).collect::<Vec<_>>().join(", "));
        }
        if let Some(w) = &self.where_ { s.push(' '); s.push_str(&kw(rng, "WHERE")); s.push(' '); s.push_str(&w.sql()); }
        if self.group_all { s.push_str(" GROUP BY ALL"); }
        if !self.group_by.is_empty() { s.push_str(" GROUP BY "); s.push_str(&self.group_by.iter().map(|e| e.sql()).collect::<Vec<_>>().join(", ")); }
        if let Some(h) = &self.having { s.push_str(" HAVING "); s.push_str(&h.sql()); }
        if self.order_all { s.push_str(" ORDER BY ALL"); }
        if !self.order_by.is_empty() {
            s.push_str(" ORDER BY ");
            s.push_str(&self.order_by.iter().map(|(e, asc, extra)| format!("{}{}{}", e.sql(), match asc { None => "", Some(true) => " ASC", Some(false) => " DESC" }, extra)).collect::<Vec<_>>().join(", "));
        }
        match &self.limit {
            Lim::None => {}
            Lim::All => s.push_str(" LIMIT ALL"),
            Lim::Comma(o, l) => s.push_str(&format!(" LIMIT {}, {}", o.sql(), l.sql())),
            Lim::LimitOffset(l, o, offset_first) => {
                let ls = l.as_ref().map(|l| format!(" LIMIT {}", l.sql())).unwrap_or_default();
                let os = o.as_ref().map(|(o, rows)| format!(" OFFSET {}{}", o.sql(), rows)).unwrap_or_default();
                if *offset_first { s.push_str(&os); s.push_str(&ls); } else { s.push_str(&ls); s.push_str(&os); }
            }
        }
        s.push_str(&self.suffix);
        s
    }
    fn toks(&self, out: &mut Vec<String>) {
        out.push("BS".into());
        out.push((self.distinct as u8).to_string());
        out.push(self.items.len().to_string());
        for it in &self.items {
            match it {
                Item::Unnamed(e) => { out.push("IU".into()); e.toks(out); out.push(hexs(&e.sql())); }
                Item::Aliased(e, a, q, _) => { out.push("IA".into()); e.toks(out); out.push(hexs(&quote_ident(a, *q))); }
                Item::Wildcard => out.push("IW".into()),
                Item::Qualified(_) => out.push("IO".into()),
            }
        }
        out.push(self.from.len().to_string());
        for (t, joins) in &self.from {
            match &t.display { Some(d) => { out.push("T".into()); out.push(hexs(d)); } None => out.push("TO".into()) }
            out.push(joins.len().to_string());
        }
        match &self.where_ { None => out.push("-".into()), Some(w) => { out.push("W".into()); w.toks(out); } }
        if self.group_all { out.push("GA".into()); } else { out.push("GE".into()); out.push(self.group_by.len().to_string()); out.push("0".into()); }
        out.push((self.having.is_some() as u8).to_string());
        // order by
        if self.order_all { out.push("OBA".into()); }
        else if self.order_by.is_empty() { out.push("OBN".into()); }
        else {
            out.push("OBE".into()); out.push(self.order_by.len().to_string());
            for (e, asc, _) in &self.order_by { e.toks(out); out.push(match asc { None => "_".into(), Some(b) => (*b as u8).to_string() }); }
        }
        match &self.limit {
            Lim::None | Lim::All => out.push("LN".into()),
            Lim::Comma(o, l) => { out.push("LC".into()); o.toks(out); l.toks(out); }
            Lim::LimitOffset(l, o, _) => {
                out.push("LL".into());
                match l { None => out.push("-".into()), Some(l) => { out.push("L".into()); l.toks(out); } }
                match o { None => out.push("-".into()), Some((o, _)) => { out.push("O".into()); o.toks(out); } }
            }
        }
    }
    fn table_name(&self) -> Option<String> { self.from.last().map(|(t, _)| t.name.clone()) }
}

impl Parsed {
    fn sql(&self, rng: &mut Rng) -> String {
        match self {
            Parsed::ParserError(s) | Parsed::OtherError(s) => s.clone(),
            Parsed::Stmts(ss, trailer) => {
                let parts: Vec<String> = ss.iter().map(|s| match s { Stmt::Select(q) => q.sql(rng), Stmt::QueryOther(s) | Stmt::Other(s) => s.clone() }).collect();
                format!("{}{}", parts.join("; "), trailer)
            }
        }
    }
    fn toks(&self) -> String {
        let mut out = vec![];
        match self {
            Parsed::ParserError(_) => out.push("PERR".to_string()),
            Parsed::OtherError(_) => out.push("OERR".to_string()),
            Parsed::Stmts(ss, _) => {
                out.push("ST".into()); out.push(ss.len().to_string());
                for s in ss {
                    match s {
                        Stmt::Other(_) => out.push("SO".into()),
                        Stmt::QueryOther(_) => { out.push("SQ".into()); out.push("BO".into()); out.push("OBN".into()); out.push("LN".into()); }
                        Stmt::Select(q) => { out.push("SQ".into()); q.toks(&mut out); }
                    }
                }
            }
        }
        out.join(" ")
    }
    fn single_select(&self) -> Option<&Sel> {
        match self { Parsed::Stmts(ss, _) if ss.len() == 1 => match &ss[0] { Stmt::Select(q) => Some(q), _ => None }, _ => None }
    }
}

// ------------------------------------------------------------------------------------------------
// Generators
const INT_COLS: &[&str] = &["a", "b"];
const NUM_FORMS: &[&str] = &["0", "1", "2", "3", "5", "007", "10", "100", "1.5", ".5", "1.", "0.0", "1e3", "1E2", "2e-1", "1.5e+3", "1e400",
    "4294967296", "9223372036854775807", "9223372036854775808", "18446744073709551615", "18446744073709551616", "99999999999999999999999"];

fn gen_ident(rng: &mut Rng) -> AE {
    match rng.below(24) {
        0 => AE::Ident("a".into(), Some('"')),
        1 => AE::Ident("b".into(), Some('`')),
        2 => AE::Ident("x y".into(), Some('"')),
        3 => AE::Ident("A".into(), Some('"')),      // unknown column (names are case sensitive)
        4 => id("zz"),                              // unknown column
        5 => id("é"),                               // unknown column, non-ASCII
        6 => AE::Ident("é".into(), Some('"')),
        7 => AE::Ident("`".into(), Some('"')),      // one-character quoted identifiers (strip_quotes)
        8 => AE::Ident("\"".into(), Some('`')),
        9 => AE::Ident("`a`".into(), Some('"')),
        10 | 11 => id("s"),
        12 => id("f"),
        13..=17 => id("a"),
        _ => id("b"),
    }
}

fn gen_num(rng: &mut Rng) -> AE {
    if rng.chance(1, 3) { num(pk(rng, NUM_FORMS)) } else if rng.chance(1, 12) { AE::Num(rng.range(0, 9).to_string(), true) } else { num(&rng.range(0, 12).to_string()) }
}

const OTHER_EXPRS: &[(&str, bool)] = &[
    ("a IN (1, 2)", false), ("a NOT IN (1)", false), ("a BETWEEN 1 AND 3", false), ("CASE WHEN a > 1 THEN 1 ELSE 0 END", true),
    ("(SELECT 1)", true), ("EXISTS (SELECT 1)", true), ("CAST(a AS INT)", true), ("t.a", true), ("a ILIKE 'x'", false),
    ("a IS TRUE", false), ("a IS DISTINCT FROM b", false), ("a::INT", true), ("EXTRACT(YEAR FROM a)", true),
    ("TRIM(s)", true), ("SUBSTRING(s FROM 1)", true), ("POSITION('a' IN s)", true), ("CEIL(a)", true), ("a IN (SELECT a FROM t)", false),
    ("INTERVAL '1' DAY", true), ("a COLLATE x", false), ("s SIMILAR TO 'a'", false), ("a IS NOT DISTINCT FROM 1", false),
    ("a NOT BETWEEN 1 AND 2", false),
];
const LIT_OTHERS: &[&str] = &["TRUE", "FALSE", "X'AB'", "N'abc'", "$1", "?"];
const OTHER_BINOPS: &[&str] = &["||", "XOR", "&", "|", "^", "<<", ">>"];
const FN_NAMES: &[&str] = &["COUNT", "SUM", "AVG", "MIN", "MAX", "TO_YEAR", "to_year", "REGEX", "LENGTH", "length", "foo", "Coalesce", "ſum"];

fn gen_other_expr(rng: &mut Rng) -> AE {
    let c = *rng.pick(OTHER_EXPRS);
    AE::Other(c.0.to_string(), c.1)
}

fn gen_lit_other(rng: &mut Rng) -> AE {
    AE::LitOther(rng.pick(LIT_OTHERS).to_string())
}

/// integer-valued expression over the int columns that normally executes
fn gen_int_expr(rng: &mut Rng, depth: u32) -> AE {
    if depth == 0 || rng.chance(2, 5) {
        return match rng.below(6) { 0 | 1 | 2 => id(pk(rng, INT_COLS)), 3 => num(&rng.range(0, 9).to_string()), 4 => neg(num(&rng.range(1, 9).to_string())), _ => func(pk(rng, &["LENGTH", "length"]), vec![id("s")]) };
    }
    let op = *rng.pick(&["+", "-", "*", "/", "%"]);
    let l = gen_int_expr(rng, depth - 1);
    let r = gen_int_expr(rng, depth - 1);
    bin(op, l, r)
}

fn gen_pred(rng: &mut Rng, depth: u32) -> AE {
    if depth == 0 || rng.chance(1, 2) {
        return match rng.below(9) {
            0 | 1 | 2 => bin(pk(rng, &["=", "<>", "<", "<=", ">", ">="]), id(pk(rng, INT_COLS)), num(&rng.range(0, 9).to_string())),
            3 => bin(pk(rng, &["=", "<>", "<", ">"]), id("s"), AE::Str(rng.pick(&["a", "b", "ab", "it's", ""]).to_string())),
            4 => AE::IsNull(Box::new(id("b"))),
            5 => AE::IsNotNull(Box::new(id("b"))),
            6 => AE::Like(rng.chance(1, 3), Box::new(id("s")), Box::new(AE::Str(rng.pick(&["a%", "%b", "_", "%"]).to_string())), None),
            7 => func(pk(rng, &["regex", "REGEX"]), vec![id("s"), AE::Str(rng.pick(&["a.*", "^b", "."]).to_string())]),
            _ => bin(pk(rng, &["<", ">", "="]), id("f"), num(pk(rng, &["1.5", "2", "0.5"]))),
        };
    }
    match rng.below(5) {
        0 | 1 => { let l = gen_pred(rng, depth - 1); let r = gen_pred(rng, depth - 1); bin("and", l, r) }
        2 | 3 => { let l = gen_pred(rng, depth - 1); let r = gen_pred(rng, depth - 1); bin("or", l, r) }
        _ => not(gen_pred(rng, depth - 1)),
    }
}

fn gen_agg(rng: &mut Rng) -> AE {
    let f = *rng.pick(&["COUNT", "SUM", "MIN", "MAX", "AVG", "count", "Sum", "avg"]);
    let arg = if f.to_uppercase() == "COUNT" && rng.chance(1, 2) { num("1") } else if rng.chance(1, 8) { id("f") } else if rng.chance(1, 6) { gen_int_expr(rng, 1) } else { id(pk(rng, INT_COLS)) };
    func(f, vec![arg])
}

/// anything goes: the full node inventory, type-unaware
fn gen_any_expr(rng: &mut Rng, depth: u32) -> AE {
    if depth == 0 || rng.chance(1, 3) {
        return match rng.below(14) {
            0..=3 => gen_ident(rng),
            4 | 5 => gen_num(rng),
            6 => AE::Str(rng.pick(&["", "a", "it's", "%", "日本", "x\"y"]).to_string()),
            7 => AE::Null,
            8 => gen_lit_other(rng),
            9 | 10 => gen_other_expr(rng),
            11 => gen_agg(rng),
            _ => id(pk(rng, INT_COLS)),
        };
    }
    match rng.below(22) {
        0..=4 => { let op = *rng.pick(&["+", "-", "*", "/", "%", "=", "<>", "<", "<=", ">", ">=", "and", "or"]); let l = gen_any_expr(rng, depth - 1); let r = gen_any_expr(rng, depth - 1); bin(op, l, r) }
        5 => { let op = *rng.pick(OTHER_BINOPS); let l = gen_any_expr(rng, depth - 1); let r = gen_any_expr(rng, depth - 1); bin_other(op, l, r) }
        6 => not(gen_any_expr(rng, depth - 1)),
        7 => neg(gen_any_expr(rng, depth - 1)),
        8 => { let e = gen_any_expr(rng, depth - 1).operand(); let e = if matches!(e, AE::Un(..)) { AE::Nested(Box::new(e)) } else { e }; AE::Un("other", "+", Box::new(e)) }
        9 => AE::Nested(Box::new(gen_any_expr(rng, depth - 1))),
        10 => AE::IsNull(Box::new(gen_any_expr(rng, depth - 1).operand())),
        11 => AE::IsNotNull(Box::new(gen_any_expr(rng, depth - 1).operand())),
        12 => AE::Like(rng.chance(1, 2), Box::new(gen_any_expr(rng, depth - 1).operand()), Box::new(gen_any_expr(rng, depth - 1).operand()), if rng.chance(1, 3) { Some('!') } else { None }),
        13 => AE::Floor(Box::new(gen_any_expr(rng, depth - 1))),
        14 | 15 => {
            // function call forms: known names with 0..3 arguments, unknown names, odd arguments
            let n = *rng.pick(FN_NAMES);
            let k = rng.below(4);
            let mut args: Vec<FArg> = (0..k).map(|_| FArg::E(gen_any_expr(rng, depth - 1))).collect();
            if rng.chance(1, 6) && !args.is_empty() { let i = rng.below(args.len() as u64) as usize; args[i] = FArg::Other(rng.pick(&["*", "x => 1", "t.*"]).to_string()); }
            AE::Func(n.to_string(), args)
        }
        16 => func(pk(rng, &["SUM", "COUNT", "MAX"]), vec![gen_agg(rng)]), // nested aggregates
        17 => gen_agg(rng),
        18 => bin(pk(rng, &["+", "/", "-"]), gen_agg(rng), if rng.chance(1, 2) { gen_agg(rng) } else { num("2") }),
        19 => gen_pred(rng, depth - 1),
        _ => gen_int_expr(rng, depth - 1),
    }
}

fn gen_alias(rng: &mut Rng) -> (String, Option<char>, bool) {
    let (a, q) = *rng.pick(&[("x", None), ("total", None), ("a", None), ("x y", Some('"')), ("z", Some('`')), ("Ünï", Some('"')), ("é", None), ("`", Some('"')), ("q\"", Some('`')), ("*", Some('"'))]);
    (a.to_string(), q, rng.chance(3, 4))
}

fn table_refs() -> Vec<TableRef> {
    let t = |sql: &str, display: &str, name: &str| TableRef { sql: sql.into(), display: Some(display.into()), name: name.into() };
    vec![
        t("t", "t", "t"), t("t", "t", "t"), t("t", "t", "t"), t("t", "t", "t"), t("\"t\"", "\"t\"", "t"), t("`t`", "`t`", "t"), t("t AS x", "t", "t"), t("t x", "t", "t"),
        t("_meta_tables", "_meta_tables", "_meta_tables"), t("`_meta_tables`", "`_meta_tables`", "_meta_tables"), t("e", "e", "e"),
        t("m", "m", "m"), t("T", "T", "T"), t("db.t", "db.t", "db.t"), t("\"db\".\"t\"", "\"db\".\"t\"", "db\".\"t"), t("\"é\"", "\"é\"", "é"),
        t("_meta_tables", "_meta_tables", "_meta_tables"), t("\"_meta_columns_t\"", "\"_meta_columns_t\"", "_meta_columns_t"),
        TableRef { sql: "(SELECT a FROM t) AS d".into(), display: None, name: "".into() },
        TableRef { sql: "(SELECT 1) s".into(), display: None, name: "".into() },
    ]
}

fn gen_limit_number(rng: &mut Rng) -> AE {
    match rng.below(10) {
        0..=4 => num(&rng.pick(&[0i64, 1, 2, 3, 5, 9, 10, 11, 100]).to_string()),
        5..=7 => num(pk(rng, NUM_FORMS)),
        8 => AE::Num(rng.range(0, 5).to_string(), true),
        _ => num(&rng.range(0, 20).to_string()),
    }
}
fn gen_limit_expr(rng: &mut Rng) -> AE {
    match rng.below(12) {
        0 => neg(num("1")), 1 => AE::Nested(Box::new(num("1"))), 2 => AE::Str("1".into()), 3 => AE::Null, 4 => bin("+", num("1"), num("1")),
        5 => id("a"), 6 => AE::Un("other", "+", Box::new(num("1"))), 7 => AE::LitOther("TRUE".into()), 8 => AE::LitOther("X'10'".into()),
        _ => gen_limit_number(rng),
    }
}
fn gen_limit(rng: &mut Rng) -> Lim {
    match rng.below(20) {
        0..=6 => Lim::None,
        7..=9 => Lim::LimitOffset(Some(gen_limit_number(rng)), None, false),
        10 | 11 => Lim::LimitOffset(Some(gen_limit_number(rng)), Some((gen_limit_number(rng), *rng.pick(&["", "", " ROWS", " ROW"]))), rng.chance(1, 4)),
        12 => Lim::LimitOffset(None, Some((gen_limit_number(rng), *rng.pick(&["", " ROWS"]))), false),
        13 => Lim::Comma(gen_limit_number(rng), gen_limit_number(rng)),
        14 => Lim::All,
        15 => Lim::LimitOffset(Some(gen_limit_expr(rng)), None, false),
        16 => Lim::LimitOffset(Some(gen_limit_number(rng)), Some((gen_limit_expr(rng), "")), false),
        17 => Lim::Comma(gen_limit_expr(rng), gen_limit_expr(rng)),
        _ => Lim::LimitOffset(Some(gen_limit_number(rng)), Some((gen_limit_number(rng), "")), false),
    }
}

fn wrap_item(rng: &mut Rng, e: AE) -> Item {
    if rng.chance(1, 3) { let (a, q, w) = gen_alias(rng); Item::Aliased(e, a, q, w) } else { Item::Unnamed(e) }
}

/// A SELECT statement; `wild` = how far from the supported subset (0: executes normally, 1: odd but
/// convertible, 2: anything).
fn gen_select(rng: &mut Rng, wild: u32, tables: &[TableRef]) -> (Sel, String) {
    let mut class = String::new();
    let mut items = vec![];
    let shape = rng.below(10);
    match shape {
        0 => { items.push(Item::Wildcard); class.push_str("star"); }
        1 | 2 | 3 => { // plain projections
            for _ in 0..1 + rng.below(3) { let e = if rng.chance(1, 2) { gen_ident(rng) } else { gen_int_expr(rng, 2) }; items.push(wrap_item(rng, e)); }
            class.push_str("proj");
        }
        4 | 5 => { // aggregates, optionally with grouping columns
            if rng.chance(1, 2) { let c = id(pk(rng, &["a", "s", "b"])); items.push(wrap_item(rng, c)); }
            for _ in 0..1 + rng.below(2) {
                let e = if rng.chance(1, 4) { bin(pk(rng, &["+", "/", "*"]), gen_agg(rng), if rng.chance(1, 2) { gen_agg(rng) } else { num("2") }) } else { gen_agg(rng) };
                items.push(wrap_item(rng, e));
            }
            if rng.chance(1, 3) { let c = id(pk(rng, &["a", "s"])); items.push(wrap_item(rng, c)); }
            class.push_str("agg");
        }
        6 => { // constants and mixed
            let k = gen_num(rng); items.push(wrap_item(rng, k));
            if rng.chance(1, 2) { items.push(wrap_item(rng, id("a"))); }
            if rng.chance(1, 3) { items.push(wrap_item(rng, AE::Str("k".into()))); }
            class.push_str("const");
        }
        7 => { items.push(Item::Wildcard); items.push(wrap_item(rng, id("a"))); class.push_str("star+col"); }
        _ => {
            for _ in 0..1 + rng.below(3) { let e = gen_any_expr(rng, 2 + wild.min(1)); items.push(wrap_item(rng, e)); }
            class.push_str("any");
        }
    }
    if wild >= 2 && rng.chance(1, 10) { items.push(Item::Qualified("t".into())); class.push_str("+qualified"); }
    let t = rng.pick(tables).clone();
    let mut sel = Sel { prefix: String::new(), distinct: false, items, from: vec![(t, vec![])], where_: None, group_all: false, group_by: vec![],
        having: None, order_by: vec![], order_all: false, limit: Lim::None, suffix: String::new() };
    if rng.chance(2, 5) { sel.where_ = Some(if wild >= 1 && rng.chance(1, 4) { gen_any_expr(rng, 2) } else { gen_pred(rng, 2) }); class.push_str("+where"); }
    if rng.chance(1, 3) {
        let aggs = sel.items.iter().any(|it| matches!(it, Item::Unnamed(e) | Item::Aliased(e, ..) if e.has_agg()));
        for _ in 0..1 + rng.below(2) {
            let e = if aggs && rng.chance(1, 2) { gen_agg(rng) } else if wild >= 1 && rng.chance(1, 5) { gen_any_expr(rng, 1) } else if rng.chance(1, 8) { num("1") } else { id(pk(rng, &["a", "b", "s", "f"])) };
            sel.order_by.push((e, *rng.pick(&[None, None, Some(true), Some(false)]), if rng.chance(1, 10) { " NULLS FIRST" } else { "" }));
        }
        class.push_str("+order");
    }
    sel.limit = gen_limit(rng);
    match &sel.limit { Lim::None => {}, Lim::Comma(..) => class.push_str("+limit-comma"), Lim::All => class.push_str("+limit-all"), _ => class.push_str("+limit") }
    // unsupported / ignored clauses
    if wild >= 1 && rng.chance(1, 4) {
        match rng.below(16) {
            0 => { sel.distinct = true; class.push_str("+distinct"); }
            1 => { sel.group_by = vec![id("a")]; class.push_str("+groupby"); }
            2 => { sel.group_by = vec![id("a"), gen_int_expr(rng, 1)]; class.push_str("+groupby"); }
            3 => { sel.group_all = true; class.push_str("+groupby-all"); }
            4 => { sel.having = Some(gen_pred(rng, 1)); class.push_str("+having"); }
            5 => { let u = rng.pick(tables).clone(); sel.from.push((u, vec![])); class.push_str("+from2"); }
            6 => { sel.from[0].1.push(format!(" {} u ON t.a = u.a", rng.pick(&["JOIN", "LEFT JOIN", "INNER JOIN"]))); class.push_str("+join"); }
            7 => { sel.from[0].1.push(" CROSS JOIN e".into()); class.push_str("+join"); }
            8 => { sel.from.clear(); class.push_str("+nofrom"); }
            9 => { sel.prefix = "WITH w AS (SELECT 1) ".into(); class.push_str("+with"); }
            10 => { if matches!(sel.limit, Lim::None) { sel.suffix = " FETCH FIRST 2 ROWS ONLY".into(); class.push_str("+fetch"); } }
            11 => { sel.suffix.push_str(" FOR UPDATE"); class.push_str("+for-update"); }
            12 => { sel.distinct = true; sel.group_by = vec![id("a")]; sel.having = Some(gen_pred(rng, 0)); class.push_str("+distinct+groupby+having"); }
            13 => { sel.from[0].1.push(" NATURAL JOIN u".into()); sel.group_by = vec![id("s")]; class.push_str("+join+groupby"); }
            14 => { sel.from.insert(0, (TableRef { sql: "u".into(), display: Some("u".into()), name: "u".into() }, vec![])); sel.distinct = true; class.push_str("+from2+distinct"); }
            _ => { sel.having = Some(gen_pred(rng, 0)); sel.distinct = true; class.push_str("+having+distinct"); }
        }
    }
    (sel, class)
}

fn gen_parsed(rng: &mut Rng, tables: &[TableRef]) -> (Parsed, String) {
    match rng.below(40) {
        0 => { // not a query statement
            let s = *rng.pick(&["INSERT INTO t VALUES (1)", "CREATE TABLE q (a INT)", "DROP TABLE t", "DELETE FROM t", "UPDATE t SET a = 1", "EXPLAIN SELECT a FROM t", "SHOW TABLES", "SET x = 1", "COMMIT"]);
            (Parsed::Stmts(vec![Stmt::Other(s.into())], String::new()), "stmt:non-query".into())
        }
        1 => { // query whose body is not a plain SELECT
            let s = *rng.pick(&["SELECT a FROM t UNION SELECT a FROM t", "VALUES (1)", "(SELECT a FROM t)", "SELECT a FROM t EXCEPT SELECT b FROM t", "SELECT a FROM t UNION ALL SELECT 1"]);
            (Parsed::Stmts(vec![Stmt::QueryOther(s.into())], String::new()), "stmt:set-expr".into())
        }
        2 => { // several statements
            let (a, _) = gen_select(rng, 0, tables);
            let second = if rng.chance(1, 2) { Stmt::Select(gen_select(rng, 0, tables).0) } else { Stmt::Other("DROP TABLE t".into()) };
            let mut v = vec![Stmt::Select(a), second];
            if rng.chance(1, 4) { v.push(Stmt::Select(gen_select(rng, 0, tables).0)); }
            (Parsed::Stmts(v, String::new()), "stmt:multiple".into())
        }
        3 => { // no statement at all
            let s = *rng.pick(&["", ";", " ", ";;", "-- just a comment", "/* c */", "\n"]);
            (Parsed::Stmts(vec![], s.into()), "stmt:none".into())
        }
        4 => { // syntax errors of the SQL parser
            let s = *rng.pick(&["SELECT", "SELECT FROM", "SELECT a FROM", "SELECT a FROM t WHERE", "SELECT a, FROM t WHERE", "SELEC a FROM t", "SELECT a FROM t LIMIT", "SELECT (a FROM t", "SELECT a FROM t ORDER", "SELECT a b c FROM t", "FROM t SELECT a", "SELECT a FROM t GROUP", "SELECT a FROM t t2 t3", ")", "SELECT * FROM t WHERE a = ", "SELECT a FROM t LIMIT 1 2"]);
            (Parsed::ParserError(s.into()), "parser-error".into())
        }
        5 => { // tokenizer errors
            let s = *rng.pick(&["SELECT 'abc FROM t", "SELECT \"abc FROM t", "SELECT a FROM t WHERE s = 'x", "SELECT /* open comment FROM t", "SELECT `a FROM t"]);
            (Parsed::OtherError(s.into()), "tokenizer-error".into())
        }
        6 => { // trailing semicolon on a single statement
            let (a, c) = gen_select(rng, 0, tables);
            (Parsed::Stmts(vec![Stmt::Select(a)], rng.pick(&[";", " ;", ";;"]).to_string()), format!("trailing-semicolon:{}", c))
        }
        7..=18 => { let (a, c) = gen_select(rng, 0, tables); (Parsed::Stmts(vec![Stmt::Select(a)], String::new()), format!("supported:{}", c)) }
        19..=30 => { let (a, c) = gen_select(rng, 1, tables); (Parsed::Stmts(vec![Stmt::Select(a)], String::new()), format!("odd:{}", c)) }
        _ => { let (a, c) = gen_select(rng, 2, tables); (Parsed::Stmts(vec![Stmt::Select(a)], String::new()), format!("wild:{}", c)) }
    }
}

// ------------------------------------------------------------------------------------------------
// Dumps of the real structures (same text as NormProto.lean prints)
fn dump_expr(e: &Expr, out: &mut Vec<String>) {
    match e {
        Expr::ColName(n) => { out.push("c".into()); out.push(hexs(n)); }
        Expr::Const(RawVal::Int(i)) => { out.push("ki".into()); out.push(i.to_string()); }
        Expr::Const(RawVal::Float(f)) => { out.push("kf".into()); out.push(format!("{:016x}", f.0.to_bits())); }
        Expr::Const(RawVal::Str(s)) => { out.push("ks".into()); out.push(hexs(s)); }
        Expr::Const(RawVal::Null) => out.push("kn".into()),
        Expr::Func1(t, a) => { out.push("f1".into()); out.push(format!("{:?}", t)); dump_expr(a, out); }
        Expr::Func2(t, a, b) => { out.push("f2".into()); out.push(format!("{:?}", t)); dump_expr(a, out); dump_expr(b, out); }
        Expr::Aggregate(a, x) => { out.push("ag".into()); out.push(format!("{:?}", a)); dump_expr(x, out); }
    }
}
fn dump_ci(ci: &ColumnInfo, out: &mut Vec<String>) { out.push(hexs(&ci.name)); dump_expr(&ci.expr, out); }
fn dump_order(ob: &[(Expr, bool)], out: &mut Vec<String>) {
    out.push(ob.len().to_string());
    for (e, d) in ob { dump_expr(e, out); out.push((*d as u8).to_string()); }
}
fn dump_query(q: &Query) -> String {
    let mut out = vec!["Q".to_string(), q.select.len().to_string()];
    for ci in &q.select { dump_ci(ci, &mut out); }
    out.push(hexs(&q.table));
    dump_expr(&q.filter, &mut out);
    dump_order(&q.order_by, &mut out);
    out.push(q.limit.limit.to_string()); out.push(q.limit.offset.to_string());
    out.join(" ")
}
fn dump_nf(nf: &NormalFormQuery, out: &mut Vec<String>) {
    out.push(nf.projection.len().to_string());
    for ci in &nf.projection { dump_ci(ci, out); }
    out.push(nf.aggregate.len().to_string());
    for (a, ci) in &nf.aggregate { out.push(format!("{:?}", a)); dump_ci(ci, out); }
    dump_expr(&nf.filter, out);
    dump_order(&nf.order_by, out);
    out.push(nf.limit.limit.to_string()); out.push(nf.limit.offset.to_string());
}
fn dump_normalized(main: &NormalFormQuery, fin: &Option<NormalFormQuery>, rcs: &[ResultColumn]) -> String {
    let mut out = vec!["N".to_string(), "main".to_string()];
    dump_nf(main, &mut out);
    out.push("final".into());
    match fin { Some(f) => dump_nf(f, &mut out), None => out.push("-".into()) }
    out.push("src".into());
    out.push(toks(rcs, |rc| match rc { ResultColumn::Proj(i) => format!("P{}", i), ResultColumn::Agg(i) => format!("A{}", i) }));
    out.join(" ")
}

/// `parse_query` + `normalize` on the real code. Returns (canonical output, status token).
fn front(sql: &str) -> (String, &'static str) {
    let s = sql.to_string();
    match catch_unwind(AssertUnwindSafe(move || {
        match parse_query(&s) {
            Err(e) => (format!("err:{}", err_kind(&e)), "err"),
            Ok(q) => {
                let n = match q.normalize() {
                    Ok((main, fin, rcs)) => dump_normalized(&main, &fin, &rcs),
                    Err(e) => format!("err:{}", err_kind(&e)),
                };
                (format!("ok {} # {}", dump_query(&q), n), "ok")
            }
        }
    })) {
        Ok(r) => r,
        Err(_) => ("panic".to_string(), "panic"),
    }
}

// ------------------------------------------------------------------------------------------------
// Panic signatures: the message of the first panic (since the last clear) on ANY thread (worker panics surface as Canceled in the
// caller); recorded so that a lost answer can be attributed to a known defect of another component.
static LAST_PANIC: std::sync::Mutex<String> = std::sync::Mutex::new(String::new());

fn record_panics() {
    std::panic::set_hook(Box::new(|info| {
        let msg = if let Some(s) = info.payload().downcast_ref::<&str>() { s.to_string() } else if let Some(s) = info.payload().downcast_ref::<String>() { s.clone() } else { "?".to_string() };
        let loc = info.location().map(|l| l.file().rsplit('/').next().unwrap_or("").to_string()).unwrap_or_default();
        if std::env::var("VERIF_DEBUG").is_ok() { eprintln!("panic {}: {}", loc, msg); }
        // keep the FIRST panic since the last clear: later ones (PoisonError on the task's state lock, …) are consequences
        if let Ok(mut g) = LAST_PANIC.lock() { if g.is_empty() { *g = format!("{}: {}", loc, msg.chars().take(90).collect::<String>()); } }
    }));
}
fn take_panic() -> String { LAST_PANIC.lock().map(|mut g| std::mem::take(&mut *g)).unwrap_or_default() }

// ------------------------------------------------------------------------------------------------
// Databases
const NO_COMPACTION: u64 = 1_000_000;
/// per-call deadline; after MAX_HANGS timeouts the remaining end-to-end calls are skipped (each hang is already a failure)
const DEADLINE_S: u64 = 20;
const MAX_HANGS: usize = 6;

struct Dbs { main: Arc<LocustDB>, fresh: Arc<LocustDB> }

fn options() -> Options { Options { threads: 2, partition_combine_factor: NO_COMPACTION, ..base_options() } }

/// Table `t`: 11 rows in three partitions (two flushed, one open buffer); columns a (ints), b (nullable ints),
/// s (strings), f (floats), "x y" (ints).  (`_meta_tables` of the fresh database is the existing table without partitions.)
fn build_main() -> Arc<LocustDB> {
    let db = Arc::new(LocustDB::new(&options()));
    let a: Vec<i64> = vec![1, 2, 3, 4, 5, 6, 7, 8, 9, 10, 11];
    let b: Vec<Cell> = vec![Cell::Int(5), Cell::Null, Cell::Int(7), Cell::Int(1), Cell::Null, Cell::Int(3), Cell::Int(3), Cell::Null, Cell::Int(9), Cell::Int(2), Cell::Int(4)];
    let s: Vec<&str> = vec!["a", "b", "ab", "a", "b", "it's", "a", "", "ab", "b", "a"];
    let f: Vec<f64> = vec![1.5, 2.5, 0.25, 4.0, -1.0, 6.5, 7.0, 8.25, 9.0, 10.5, 0.0];
    let xy: Vec<i64> = vec![10, 20, 30, 40, 50, 60, 70, 80, 90, 100, 110];
    let bounds = [0usize, 4, 8, 11];
    for k in 0..3 {
        let (lo, hi) = (bounds[k], bounds[k + 1]);
        let cols = vec![
            ("a".to_string(), ColRep::I64(a[lo..hi].to_vec())),
            ("b".to_string(), ColRep::from_cells(&b[lo..hi], 0)),
            ("s".to_string(), ColRep::Str(s[lo..hi].iter().map(|x| x.to_string()).collect())),
            ("f".to_string(), ColRep::Dense(f[lo..hi].to_vec())),
            ("x y".to_string(), ColRep::I64(xy[lo..hi].to_vec())),
        ];
        ingest(&db, &[Batch { table: "t".into(), len: (hi - lo) as u64, cols }]);
        if k < 2 { let d = db.clone(); let _ = with_deadline(60, move || d.force_flush()); }
    }
    build_v(&db);
    db
}

/// Number of rows of table `v`.
const V_ROWS: usize = 10;

/// Table `v` of the slice sweep: 10 rows in three partitions (4 + 3 + 3; two flushed, one open buffer), one column per
/// result-column KIND: x, a (ints), b (nullable ints), s (strings, three distinct values), f (floats), h (nullable floats;
/// NULL in every row of group `z`), g (nullable ints; NULL in every row of group `z`), p (ints, ABSENT in the second
/// partition), q (strings, present in the second partition only), n (no value in any partition), m (mixed cells).
fn build_v(db: &Arc<LocustDB>) {
    let x: Vec<i64> = (1..=10).collect();
    let a: Vec<i64> = vec![3, 1, 4, 1, 5, 9, 2, 6, 5, 3];
    let s: Vec<&str> = vec!["x", "y", "z", "x", "y", "z", "x", "x", "y", "z"];
    let n_ = Cell::Null;
    let b: Vec<Cell> = vec![Cell::Int(5), n_.clone(), Cell::Int(7), Cell::Int(1), n_.clone(), Cell::Int(3), Cell::Int(3), n_.clone(), Cell::Int(9), Cell::Int(2)];
    let g: Vec<Cell> = vec![Cell::Int(2), Cell::Int(4), n_.clone(), n_.clone(), Cell::Int(6), n_.clone(), Cell::Int(8), Cell::Int(1), n_.clone(), n_.clone()];
    let h: Vec<Cell> = vec![Cell::f(0.5), Cell::f(1.5), n_.clone(), Cell::f(2.5), n_.clone(), n_.clone(), Cell::f(-1.0), n_.clone(), Cell::f(4.0), n_.clone()];
    let f: Vec<f64> = vec![1.5, 2.5, 0.25, 4.0, -1.0, 6.5, 7.0, 8.25, 9.0, 10.5];
    let m: Vec<Cell> = vec![Cell::Int(1), Cell::Str("one".into()), n_.clone(), Cell::f(1.5), Cell::Int(2), Cell::Int(3), Cell::Int(4), Cell::Str("a".into()), Cell::Str("b".into()), Cell::Str("c".into())];
    let bounds = [0usize, 4, 7, 10];
    for k in 0..3 {
        let (lo, hi) = (bounds[k], bounds[k + 1]);
        let mut cols = vec![
            ("x".to_string(), ColRep::I64(x[lo..hi].to_vec())),
            ("a".to_string(), ColRep::I64(a[lo..hi].to_vec())),
            ("b".to_string(), ColRep::from_cells(&b[lo..hi], 0)),
            ("g".to_string(), ColRep::Mixed(g[lo..hi].to_vec())),
            ("h".to_string(), ColRep::Mixed(h[lo..hi].to_vec())),
            ("s".to_string(), ColRep::Str(s[lo..hi].iter().map(|x| x.to_string()).collect())),
            ("f".to_string(), ColRep::Dense(f[lo..hi].to_vec())),
            ("n".to_string(), if k == 1 { ColRep::Sparse(vec![]) } else { ColRep::Empty }),
            ("m".to_string(), if k == 0 { ColRep::Mixed(m[lo..hi].to_vec()) } else { ColRep::from_cells(&m[lo..hi], 0) }),
        ];
        if k != 1 { cols.push(("p".to_string(), ColRep::I64(x[lo..hi].iter().map(|v| v * 100).collect()))); }
        if k == 1 { cols.push(("q".to_string(), ColRep::Str(s[lo..hi].iter().map(|v| format!("q{}", v)).collect()))); }
        ingest(db, &[Batch { table: "v".into(), len: (hi - lo) as u64, cols }]);
        if k < 2 { let d = db.clone(); let _ = with_deadline(60, move || d.force_flush()); }
    }
}

fn build_dbs() -> Dbs { Dbs { main: build_main(), fresh: Arc::new(LocustDB::new(&options())) } }

#[derive(Clone)]
struct Cat { exists: bool, meta: String, parts: usize, rows: usize, columns: Vec<String>, divergent: Vec<String> }

fn column_names(db: &Arc<LocustDB>, table: &str) -> Option<Vec<String>> {
    match query_full(db, &format!("SELECT column_name FROM \"_meta_columns_{}\"", table), false, 30) {
        QOut::Ok { cols, .. } if cols.len() == 1 => Some(cols[0].1.iter().filter_map(|c| if let Cell::Str(s) = c { Some(s.clone()) } else { None }).collect()),
        _ => None,
    }
}

/// Catalogue facts the model takes as inputs, read from the real database.
fn catalog(db: &Arc<LocustDB>, table: &str) -> Cat {
    let inner = db.verif_inner();
    let snap = inner.snapshot(table, None);
    let meta_table = format!("_meta_columns_{}", table);
    let meta_snap = inner.snapshot(&meta_table, None);
    let meta = match &meta_snap {
        None => "m".to_string(),
        Some(p) if p.is_empty() => "n".to_string(),
        Some(_) => match column_names(db, table) { Some(names) => format!("l{}", toks(&names, |n| hexs(n))), None => "n".to_string() },
    };
    // the columns the table really has: union over its partitions (placeholders for absent columns excluded)
    let mut columns: Vec<String> = vec![];
    if let Some(parts) = &snap {
        for p in parts { for h in p.clone_column_handles() { if !h.is_empty() && !columns.iter().any(|c| c == h.name()) { columns.push(h.name().to_string()); } } }
    }
    columns.sort();
    // columns whose basic type is numeric (integer / float) in one partition and string in another: merging ORDERED partial
    // results of such a column needs least_upper_bound({I64,F64}, {Str,OptStr}), which was unimplemented (finding
    // orderby-type-divergent-column-panic, fixed by /repo c33fac6: it is Val now); the fact stays in the model line (regression witnesses)
    let mut divergent: Vec<String> = vec![];
    if let Some(parts) = &snap {
        for name in &columns {
            let (mut num, mut text) = (false, false);
            for p in parts { for h in p.clone_column_handles() { if h.name() == name { if let Some(c) = h.try_get().clone() {
                match format!("{:?}", c.basic_type()).as_str() { "Integer" | "NullableInteger" | "Float" | "NullableFloat" => num = true, "String" | "NullableString" => text = true, _ => {} }
            } } } }
            if num && text { divergent.push(name.clone()); }
        }
    }
    Cat { exists: snap.is_some(), divergent, meta, parts: snap.as_ref().map(|p| p.len()).unwrap_or(0), rows: snap.as_ref().map(|p| p.iter().map(|x| x.len()).sum()).unwrap_or(0), columns }
}

fn out_len(cols: &[(String, Vec<Cell>)], rows: &Option<Vec<Vec<Cell>>>) -> usize {
    match cols.first() { Some(c) => c.1.len(), None => rows.as_ref().map(|r| r.len()).unwrap_or(0) }
}

/// (observation tokens for the model line, canonical comparison text)
fn observe(out: &QOut) -> (String, String) {
    match out {
        QOut::Ok { colnames, cols, rows } => {
            let mut t = vec!["ok".to_string(), toks(colnames, |n| hexs(n)), cols.len().to_string()];
            for (n, c) in cols { t.push(format!("{}={}", hexs(n), cells_tok(c))); }
            t.push(match rows { Some(r) => format!("R{}", rows_tok(r)), None => "R-".to_string() });
            (t.join(" "), format!("ok n={} c={} r={}", toks(colnames, |n| hexs(n)), cols.len(), out_len(cols, rows)))
        }
        other => {
            let sig = take_panic();
            (if sig.is_empty() { other.tok() } else { format!("{} {}", other.tok(), hexs(&sig)) }, other.tok())
        }
    }
}

fn healthy(out: &QOut) -> bool { !matches!(out, QOut::Panic(_) | QOut::Hang) && out.tok() != "err:canceled" }

// ------------------------------------------------------------------------------------------------
fn plain_sel(items: Vec<Item>, table: &TableRef) -> Sel {
    Sel { prefix: String::new(), distinct: false, items, from: vec![(table.clone(), vec![])], where_: None, group_all: false, group_by: vec![],
        having: None, order_by: vec![], order_all: false, limit: Lim::None, suffix: String::new() }
}
/// `SELECT NOT (a IS NULL) AS x, b FROM _meta_tables WHERE (f = 2) OR (b <> 1) ORDER BY b`: every column is unknown
fn where_unknown(meta: &TableRef) -> Parsed {
    let mut s = plain_sel(vec![Item::Aliased(not(AE::IsNull(Box::new(id("a")))), "x".into(), None, true), Item::Unnamed(id("b"))], meta);
    s.where_ = Some(bin("or", bin("=", id("f"), num("2")), bin("<>", id("b"), num("1"))));
    s.order_by = vec![(id("b"), None, "")];
    Parsed::Stmts(vec![Stmt::Select(s)], String::new())
}
/// `SELECT a FROM t ORDER BY a > b`
fn order_by_bool(t: &TableRef) -> Parsed {
    let mut s = plain_sel(vec![Item::Unnamed(id("a"))], t);
    s.order_by = vec![(bin(">", id("a"), id("b")), None, "")];
    Parsed::Stmts(vec![Stmt::Select(s)], String::new())
}

/// `SELECT *, a FROM t WHERE s LIKE '_' ORDER BY "x y" IS NULL`
fn order_by_isnull(t: &TableRef) -> Parsed {
    let mut s = plain_sel(vec![Item::Wildcard, Item::Unnamed(id("a"))], t);
    s.where_ = Some(AE::Like(false, Box::new(id("s")), Box::new(AE::Str("_".into())), None));
    s.order_by = vec![(AE::IsNull(Box::new(AE::Ident("x y".into(), Some('"')))), None, "")];
    Parsed::Stmts(vec![Stmt::Select(s)], String::new())
}

fn corpus(tables: &[TableRef]) -> Vec<(Parsed, &'static str)> {
    let t = tables[0].clone();
    let base = |items: Vec<Item>, limit: Lim, table: TableRef| Parsed::Stmts(vec![Stmt::Select(Sel { prefix: String::new(), distinct: false, items,
        from: vec![(table, vec![])], where_: None, group_all: false, group_by: vec![], having: None, order_by: vec![], order_all: false, limit, suffix: String::new() })], String::new());
    let meta = tables.iter().find(|x| x.name == "_meta_tables").unwrap().clone();
    let a = || vec![Item::Unnamed(id("a"))];
    vec![
        (base(a(), Lim::LimitOffset(Some(num("1.5")), None, false), t.clone()), "corpus:limit-fraction"),
        (base(a(), Lim::LimitOffset(Some(num("1e3")), None, false), t.clone()), "corpus:limit-exponent"),
        (base(a(), Lim::LimitOffset(Some(num("99999999999999999999")), None, false), t.clone()), "corpus:limit-beyond-u64"),
        (base(a(), Lim::LimitOffset(None, Some((num("1.5"), "")), false), t.clone()), "corpus:offset-fraction"),
        (base(a(), Lim::LimitOffset(Some(num("2")), Some((num("18446744073709551616"), "")), false), t.clone()), "corpus:offset-beyond-u64"),
        (base(a(), Lim::Comma(num("1"), num("2")), t.clone()), "corpus:limit-comma"),
        (Parsed::Stmts(vec![], String::new()), "corpus:empty-string"),
        (Parsed::Stmts(vec![], ";".into()), "corpus:only-semicolon"),
        (base(vec![Item::Unnamed(AE::Ident("`".into(), Some('"')))], Lim::None, t.clone()), "corpus:strip-quotes-one-char"),
        (base(vec![Item::Unnamed(bin("=", AE::Ident("a".into(), Some('"')), id("é")))], Lim::None, t.clone()), "corpus:strip-quotes-char-boundary"),
        (base(vec![Item::Unnamed(id("name"))], Lim::None, meta.clone()), "corpus:empty-table-early-answer"),
        (base(vec![Item::Unnamed(func("AVG", vec![id("f")]))], Lim::None, t.clone()), "corpus:final-pass-error"),
        (base(vec![Item::Unnamed(num("1"))], Lim::None, t.clone()), "corpus:constant-select"),
        (base(vec![Item::Unnamed(id("a")), Item::Unnamed(num("2"))], Lim::None, t.clone()), "corpus:constant-select-mixed"),
        (base(vec![Item::Unnamed(AE::Str("k".into()))], Lim::None, t.clone()), "corpus:constant-select-string"),
        (base(a(), Lim::LimitOffset(Some(num("2")), Some((num("20"), "")), false), t.clone()), "corpus:offset-beyond-rows"),
        (base(a(), Lim::LimitOffset(Some(num("18446744073709551615")), Some((num("1"), "")), false), t.clone()), "corpus:limit-plus-offset-overflow"),
        (base(a(), Lim::LimitOffset(Some(num("0")), None, false), t.clone()), "corpus:limit-zero"),
        // witness of the seeded change C12-null-column-slice-count (Null-typed column sliced with OFFSET > 0)
        (base(vec![Item::Unnamed(id("a")), Item::Unnamed(id("zz"))], Lim::LimitOffset(Some(num("4")), Some((num("3"), "")), false), t.clone()), "corpus:seeded:null-column-offset"),
        // witnesses of the findings that are still open (first so that every run reports them) or were fixed by others
        (base(vec![Item::Unnamed(AE::Ident("*".into(), Some('"')))], Lim::None, t.clone()), "corpus:open:quoted-star"),
        (base(vec![Item::Unnamed(bin("=", id("a"), id("b")))], Lim::None, t.clone()), "corpus:bool-projection-merge"),
        (where_unknown(&meta), "corpus:where-null-partition"),
        (order_by_bool(&t), "corpus:order-by-nullable-comparison"),
        (base(vec![Item::Unnamed(bin("<=", id("a"), id("f"))), Item::Unnamed(func("AVG", vec![id("f")]))], Lim::None, t.clone()), "corpus:open:groupby-computed-key"),
        (order_by_isnull(&t), "corpus:orderby-isnull-key"),
    ]
}

/// Deterministic sweep: every numeric literal form in every position, every unsupported node / literal /
/// operator / clause / function form once in every position it can take.
fn systematic(tables: &[TableRef]) -> Vec<(Parsed, String)> {
    let t = tables[0].clone();
    let mut out: Vec<(Parsed, String)> = vec![];
    let sel = |items: Vec<Item>| Sel { prefix: String::new(), distinct: false, items, from: vec![(t.clone(), vec![])], where_: None, group_all: false,
        group_by: vec![], having: None, order_by: vec![], order_all: false, limit: Lim::None, suffix: String::new() };
    let one = |s: Sel| Parsed::Stmts(vec![Stmt::Select(s)], String::new());
    let a = || vec![Item::Unnamed(id("a"))];
    for n in NUM_FORMS {
        let mut s = sel(a()); s.limit = Lim::LimitOffset(Some(num(n)), None, false); out.push((one(s), format!("sys:num:limit:{}", n)));
        let mut s = sel(a()); s.limit = Lim::LimitOffset(Some(num("2")), Some((num(n), "")), false); out.push((one(s), format!("sys:num:limit-offset:{}", n)));
        let mut s = sel(a()); s.limit = Lim::LimitOffset(None, Some((num(n), " ROWS")), false); out.push((one(s), format!("sys:num:offset:{}", n)));
        let mut s = sel(a()); s.limit = Lim::Comma(num(n), num("2")); out.push((one(s), format!("sys:num:comma-offset:{}", n)));
        let mut s = sel(a()); s.limit = Lim::Comma(num("1"), num(n)); out.push((one(s), format!("sys:num:comma-limit:{}", n)));
        out.push((one(sel(vec![Item::Unnamed(bin("+", id("a"), num(n)))])), format!("sys:num:select:{}", n)));
        out.push((one(sel(vec![Item::Unnamed(num(n))])), format!("sys:num:select-const:{}", n)));
        let mut s = sel(a()); s.where_ = Some(bin("<", id("a"), num(n))); out.push((one(s), format!("sys:num:where:{}", n)));
        let mut s = sel(a()); s.where_ = Some(bin(">", id("f"), neg(num(n)))); out.push((one(s), format!("sys:num:where-neg:{}", n)));
        let mut s = sel(a()); s.limit = Lim::LimitOffset(Some(neg(num(n))), None, false); out.push((one(s), format!("sys:num:limit-neg:{}", n)));
        let mut s = sel(a()); s.limit = Lim::LimitOffset(Some(AE::Num(n.to_string(), true)), None, false);
        if !n.contains(['.', 'e', 'E']) { out.push((one(s), format!("sys:num:limit-long:{}", n))); }
    }
    let mut others: Vec<(AE, String)> = OTHER_EXPRS.iter().map(|(x, at)| (AE::Other(x.to_string(), *at), format!("node:{}", x.split(' ').take(3).collect::<Vec<_>>().join("_")))).collect();
    for l in LIT_OTHERS { others.push((AE::LitOther(l.to_string()), format!("lit:{}", l))); }
    for op in OTHER_BINOPS { others.push((bin_other(op, id("a"), num("1")), format!("binop:{}", op))); }
    others.push((AE::Un("other", "+", Box::new(id("a"))), "unop:+".into()));
    others.push((AE::Like(false, Box::new(id("s")), Box::new(AE::Str("a!%".into())), Some('!')), "like-escape".into()));
    for (e, name) in &others {
        out.push((one(sel(vec![Item::Unnamed(e.clone())])), format!("sys:unsupported:select:{}", name)));
        out.push((one(sel(vec![Item::Aliased(bin("+", e.clone(), num("1")), "x".into(), None, true), Item::Unnamed(id("a"))])), format!("sys:unsupported:select-nested:{}", name)));
        let mut s = sel(a()); s.where_ = Some(e.clone()); out.push((one(s), format!("sys:unsupported:where:{}", name)));
        let mut s = sel(a()); s.order_by = vec![(e.clone(), None, "")]; out.push((one(s), format!("sys:unsupported:order-by:{}", name)));
        out.push((one(sel(vec![Item::Unnamed(func("SUM", vec![e.clone()]))])), format!("sys:unsupported:fn-arg:{}", name)));
        let mut s = sel(a()); s.limit = Lim::LimitOffset(Some(e.clone().operand()), None, false); out.push((one(s), format!("sys:unsupported:limit:{}", name)));
        let mut s = sel(a()); s.limit = Lim::LimitOffset(Some(num("1")), Some((e.clone().operand(), "")), false); out.push((one(s), format!("sys:unsupported:offset:{}", name)));
    }
    // function forms: every known / unknown name with 0..3 arguments and non-expression arguments
    for f in FN_NAMES {
        for k in 0..4usize {
            let args: Vec<FArg> = (0..k).map(|i| FArg::E(if i == 0 { id("a") } else { AE::Str("x".into()) })).collect();
            out.push((one(sel(vec![Item::Unnamed(AE::Func(f.to_string(), args))])), format!("sys:fn:{}:{}", f, k)));
        }
        for o in ["*", "x => 1", "t.*"] {
            out.push((one(sel(vec![Item::Unnamed(AE::Func(f.to_string(), vec![FArg::Other(o.to_string())]))])), format!("sys:fn:{}:arg{}", f, o.replace(' ', ""))));
        }
        out.push((one(sel(vec![Item::Unnamed(func(f, vec![func("SUM", vec![id("a")])]))])), format!("sys:fn:{}:nested-agg", f)));
    }
    // clauses
    let clause = |f: &dyn Fn(&mut Sel)| { let mut s = sel(a()); f(&mut s); one(s) };
    out.push((clause(&|s| s.distinct = true), "sys:clause:distinct".into()));
    out.push((clause(&|s| s.group_by = vec![id("a")]), "sys:clause:group-by".into()));
    out.push((clause(&|s| s.group_all = true), "sys:clause:group-by-all".into()));
    out.push((clause(&|s| s.having = Some(bin(">", id("a"), num("1")))), "sys:clause:having".into()));
    out.push((clause(&|s| s.from.push((tables[0].clone(), vec![]))), "sys:clause:from2".into()));
    for j in [" JOIN u ON t.a = u.a", " LEFT JOIN u ON t.a = u.a", " CROSS JOIN u", " NATURAL JOIN u", " JOIN u USING (a)", " FULL OUTER JOIN u ON TRUE"] {
        out.push((clause(&|s| s.from[0].1.push(j.to_string())), format!("sys:clause:join:{}", j.trim().split(' ').next().unwrap())));
    }
    out.push((clause(&|s| s.from.clear()), "sys:clause:no-from".into()));
    out.push((clause(&|s| s.prefix = "WITH w AS (SELECT 1) ".into()), "sys:clause:with".into()));
    out.push((clause(&|s| s.suffix = " FETCH FIRST 2 ROWS ONLY".into()), "sys:clause:fetch".into()));
    out.push((clause(&|s| s.suffix = " FOR UPDATE".into()), "sys:clause:for-update".into()));
    out.push((clause(&|s| s.items.push(Item::Qualified("t".into()))), "sys:clause:qualified-wildcard".into()));
    out.push((clause(&|s| s.items = vec![Item::Wildcard]), "sys:clause:star".into()));
    out.push((clause(&|s| s.items = vec![Item::Wildcard, Item::Wildcard]), "sys:clause:star-star".into()));
    out.push((clause(&|s| s.limit = Lim::All), "sys:clause:limit-all".into()));
    out.push((clause(&|s| { s.order_by = vec![(id("a"), Some(false), " NULLS LAST")]; }), "sys:clause:nulls-last".into()));
    for tr in tables { out.push((clause(&|s| s.from = vec![(tr.clone(), vec![])]), format!("sys:table:{}", tr.sql.replace(' ', "_")))); let mut s = sel(vec![Item::Wildcard]); s.from = vec![(tr.clone(), vec![])]; out.push((one(s), format!("sys:table-star:{}", tr.sql.replace(' ', "_")))); }
    // identifier and alias quoting
    for (v, q) in [("a", None), ("a", Some('"')), ("a", Some('`')), ("x y", Some('"')), ("A", Some('"')), ("zz", None), ("é", None), ("é", Some('"')), ("`", Some('"')), ("\"", Some('`')), ("`a`", Some('"')), ("`ab", Some('"')), ("*", Some('"'))] {
        out.push((one(sel(vec![Item::Unnamed(AE::Ident(v.to_string(), q))])), format!("sys:ident:{}{}", q.map(|c| c.to_string()).unwrap_or_default(), v.replace(' ', "_"))));
        out.push((one(sel(vec![Item::Aliased(id("a"), v.to_string(), q, true), Item::Aliased(id("b"), v.to_string(), q, false)])), format!("sys:alias:{}{}", q.map(|c| c.to_string()).unwrap_or_default(), v.replace(' ', "_"))));
        let mut s = sel(a()); s.where_ = Some(bin("=", AE::Ident(v.to_string(), q), num("1"))); s.order_by = vec![(AE::Ident(v.to_string(), q), None, "")];
        out.push((one(s), format!("sys:ident-where-order:{}{}", q.map(|c| c.to_string()).unwrap_or_default(), v.replace(' ', "_"))));
    }
    // expressions whose rendering starts and/or ends with a quote (strip_quotes on the rendered name)
    out.push((one(sel(vec![Item::Unnamed(bin("=", AE::Ident("a".into(), Some('"')), AE::Ident("b".into(), Some('"'))))])), "sys:name:quote-both-ends".into()));
    out.push((one(sel(vec![Item::Unnamed(bin("=", AE::Ident("a".into(), Some('"')), id("é")))])), "sys:name:quote-start-multibyte-end".into()));
    out.push((one(sel(vec![Item::Unnamed(bin("+", AE::Ident("a".into(), Some('`')), num("1")))])), "sys:name:quote-start".into()));
    out.push((one(sel(vec![Item::Unnamed(bin("=", AE::Ident("a".into(), Some('`')), AE::Ident("b".into(), Some('"'))))])), "sys:name:mismatched-quotes".into()));
    out
}

/// LIMIT / OFFSET values for a result of `len` rows: 0, 1, inside, one before the end, at the end, beyond.
fn lo_values(len: usize) -> Vec<(usize, &'static str)> {
    let mut v: Vec<(usize, &'static str)> = vec![(0, "0"), (1, if len == 1 { "at" } else { "1" })];
    if len / 2 > 1 { v.push((len / 2, "in")); }
    if len > 2 { v.push((len - 1, "at-1")); }
    if len > 1 { v.push((len, "at")); }
    v.push((len + 3, "beyond"));
    v
}

/// Slice sweep (seeded change C12-null-column-slice-count: `slice_box` of ONE vector type read `to` as a count): every KIND of
/// result column — plain int / nullable int / string / float / nullable float / absent in one partition / present in one
/// partition only / without any value / mixed cells / unknown column (Null-typed) / expression over each / constant /
/// aggregate (also over nullable, unknown, partly absent inputs and with the in-band NULL marker in the result) / grouped
/// aggregate / final-pass expression — alone, next to a companion column (both orders) and under ORDER BY, with LIMIT and
/// OFFSET each in {absent, 0, 1, inside, end-1, end, beyond} relative to the length of the result.  Bounded-exhaustive
/// over kind × (limit, offset) for the layout `companion, kind`; a reduced grid for the other layouts (all in the thorough tier).
/// Always row format, so that the two views can be compared cell by cell.  Items: (statement, class, expected result length).
fn slice_sweep(thorough: bool) -> Vec<(Parsed, String)> {
    let v = TableRef { sql: "v".into(), display: Some("v".into()), name: "v".into() };
    let un = |e: AE| Item::Unnamed(e);
    let isnull = |e: AE| AE::IsNull(Box::new(e));
    // (kind, select items of the kind, companion item, expected length, ORDER BY key for the ordered layout)
    let mut kinds: Vec<(&str, Vec<AE>, AE, usize, AE)> = vec![];
    let n = V_ROWS;
    for (name, e) in [
        ("int", id("a")), ("int-quoted", AE::Ident("a".into(), Some('"'))), ("nullable-int", id("b")), ("string", id("s")), ("float", id("f")),
        ("nullable-float", id("h")), ("absent-in-one-partition", id("p")), ("in-one-partition-only", id("q")), ("no-value", id("n")), ("mixed", id("m")),
        ("unknown", id("zz")), ("unknown-quoted", AE::Ident("A".into(), Some('"'))),
        ("expr-int", bin("+", id("a"), num("1"))), ("expr-nullable-int", bin("+", id("b"), num("1"))), ("expr-float", bin("*", id("f"), num("2"))),
        ("expr-bool", bin(">", id("a"), num("2"))), ("expr-isnull", isnull(id("b"))), ("expr-length", func("LENGTH", vec![id("s")])),
        ("expr-unknown", bin("+", id("zz"), num("1"))), ("expr-unknown-isnull", isnull(id("zz"))), ("expr-absent", bin("+", id("p"), num("1"))),
        ("expr-no-value-isnull", isnull(id("n"))), ("expr-div", bin("/", id("a"), num("2"))),
        ("const-int", num("1")), ("const-string", AE::Str("k".into())), ("const-null", AE::Null),
    ] { kinds.push((name, vec![e], id("x"), n, id("x"))); }
    for (name, e) in [
        ("agg-count", func("COUNT", vec![num("1")])), ("agg-sum", func("SUM", vec![id("a")])), ("agg-sum-nullable", func("SUM", vec![id("b")])),
        ("agg-max-nullable", func("MAX", vec![id("b")])), ("agg-min-float", func("MIN", vec![id("f")])), ("agg-max-nullable-float", func("MAX", vec![id("h")])),
        ("agg-count-unknown", func("COUNT", vec![id("zz")])), ("agg-sum-unknown", func("SUM", vec![id("zz")])), ("agg-max-absent", func("MAX", vec![id("p")])),
        ("agg-sum-no-value", func("SUM", vec![id("n")])), ("agg-final-expr", bin("/", func("SUM", vec![id("a")]), func("COUNT", vec![num("1")]))),
        ("agg-avg-nullable", func("AVG", vec![id("b")])),
    ] { kinds.push((name, vec![e], func("COUNT", vec![id("x")]), 1, num("1"))); }
    for (name, key, e, groups) in [
        ("group-count", "s", func("COUNT", vec![num("1")]), 3), ("group-sum-all-null-group", "s", func("SUM", vec![id("g")]), 3),
        ("group-max-float-all-null-group", "s", func("MAX", vec![id("h")]), 3), ("group-min-nullable", "s", func("MIN", vec![id("b")]), 3),
        ("group-by-unknown", "zz", func("COUNT", vec![num("1")]), 1), ("group-by-no-value", "n", func("SUM", vec![id("a")]), 1),
        ("group-sum-unknown", "s", func("SUM", vec![id("zz")]), 3), ("group-final-expr", "s", bin("+", func("SUM", vec![id("a")]), num("1")), 3),
    ] { kinds.push((name, vec![id(key), e], func("MAX", vec![id("x")]), groups, id(key))); }
    let mut out = vec![];
    for (name, es, companion, len, key) in kinds {
        let vals = lo_values(len);
        let mut opts: Vec<Option<(usize, &'static str)>> = vec![None];
        opts.extend(vals.iter().cloned().map(Some));
        let kind_items: Vec<Item> = es.iter().cloned().map(un).collect();
        let layouts: Vec<(&str, Vec<Item>, bool)> = vec![
            ("after", { let mut v = vec![un(companion.clone())]; v.extend(kind_items.clone()); v }, false),
            ("alone", kind_items.clone(), false),
            ("before", { let mut v = kind_items.clone(); v.push(un(companion.clone())); v }, false),
            ("ordered", { let mut v = vec![un(companion.clone())]; v.extend(kind_items.clone()); v }, true),
        ];
        for (li, (layout, items, ordered)) in layouts.into_iter().enumerate() {
            for l in &opts {
                for o in &opts {
                    let full = li == 0 || thorough;
                    // reduced grid: OFFSET 1 / inside, LIMIT absent / 1 / inside (the region where a count and an end index differ)
                    let reduced = matches!(o, Some((_, "1")) | Some((_, "in")) | Some((_, "at"))) && matches!(l, None | Some((_, "1")) | Some((_, "in")) | Some((_, "at")));
                    if !(full || reduced) { continue; }
                    let mut sel = plain_sel(items.clone(), &v);
                    if ordered { sel.order_by = vec![(key.clone(), Some(false), "")]; }
                    let ln = l.map(|(x, _)| num(&x.to_string()));
                    let on = o.map(|(x, _)| num(&x.to_string()));
                    // the reduced layouts alternate between `LIMIT l OFFSET o`, `OFFSET o LIMIT l` and `LIMIT o, l`
                    sel.limit = match (ln, on) {
                        (None, None) => Lim::None,
                        (Some(l), Some(o)) if li == 2 => Lim::Comma(o, l),
                        (l, o) => Lim::LimitOffset(l, o.map(|o| (o, if li == 1 { " ROWS" } else { "" })), li == 3),
                    };
                    let lc = l.map(|(_, c)| c).unwrap_or("none");
                    let oc = o.map(|(_, c)| c).unwrap_or("none");
                    out.push((Parsed::Stmts(vec![Stmt::Select(sel)], String::new()), format!("sweep:{}:{}:l-{}:o-{}", name, layout, lc, oc)));
                }
            }
        }
    }
    out
}

/// Run the sweep statements on `threads` private copies of the main database (they are read-only); an unhealthy answer
/// (panic / hang / Canceled) replaces that copy.  Results in input order.
fn run_parallel(sqls: Vec<String>, threads: usize) -> Vec<QOut> {
    let n = sqls.len();
    let sqls = Arc::new(sqls);
    let mut handles = vec![];
    for t in 0..threads {
        let sqls = sqls.clone();
        handles.push(std::thread::spawn(move || {
            let mut db = build_main();
            let mut res = vec![];
            let mut hangs = 0;
            let mut i = t;
            while i < sqls.len() {
                let out = if hangs < 2 { query_full(&db, &sqls[i], true, DEADLINE_S) } else { QOut::Hang };
                if matches!(out, QOut::Hang) { hangs += 1; }
                if !healthy(&out) { db = build_main(); }
                res.push((i, out));
                i += threads;
            }
            res
        }));
    }
    let mut out: Vec<Option<QOut>> = (0..n).map(|_| None).collect();
    for h in handles { if let Ok(r) = h.join() { for (i, o) in r { out[i] = Some(o); } } }
    out.into_iter().map(|o| o.unwrap_or(QOut::Panic("sweep worker died".into()))).collect()
}

fn mutate(rng: &mut Rng, sql: &str) -> String {
    let mut b: Vec<u8> = sql.as_bytes().to_vec();
    const POOL: &[u8] = b" \t\n'\"`();,.*+-/%<>=!|&^~@#$?:[]{}\\_0123456789eEaAsStTxXlL\x00\x7f\xc3\xa9\xe6\x97\xa5\xff";
    let edits = 1 + rng.below(3);
    for _ in 0..edits {
        let n = b.len();
        match rng.below(9) {
            0 if n > 0 => { b.remove(rng.below(n as u64) as usize); }
            1 => { let i = rng.below(n as u64 + 1) as usize; b.insert(i, *rng.pick(POOL)); }
            2 if n > 0 => { let i = rng.below(n as u64) as usize; b[i] = *rng.pick(POOL); }
            3 if n > 0 => { b.truncate(rng.below(n as u64) as usize); }
            4 if n > 1 => { let i = rng.below(n as u64 - 1) as usize; let j = i + 1 + rng.below((n - i - 1) as u64) as usize; let slice: Vec<u8> = b[i..j].to_vec(); let at = rng.below(n as u64) as usize; for (k, x) in slice.into_iter().enumerate() { b.insert((at + k).min(b.len()), x); } }
            5 if n > 0 => { let i = rng.below(n as u64) as usize; b[i] ^= 1 << rng.below(8); }
            6 => { // replace a number by a numeric literal form
                let form = rng.pick(NUM_FORMS).as_bytes().to_vec();
                if let Some(p) = b.iter().position(|c| c.is_ascii_digit()) { let mut q = p; while q < b.len() && b[q].is_ascii_digit() { q += 1; } b.splice(p..q, form); }
            }
            7 => { // swap two whitespace-separated words
                let s = String::from_utf8_lossy(&b).to_string(); let mut w: Vec<&str> = s.split(' ').collect();
                if w.len() > 1 { let i = rng.below(w.len() as u64) as usize; let j = rng.below(w.len() as u64) as usize; w.swap(i, j); b = w.join(" ").into_bytes(); }
            }
            _ => { let kwd = *rng.pick(&[" LIMIT ", " OFFSET ", " ORDER BY ", " WHERE ", " GROUP BY ", " AS ", " NOT ", " -", " (", ") ", " * ", ", ", " DESC", " NULL ", " IS ", " LIKE ", " IN ", " AND ", " OR ", ";"]); let i = rng.below(n as u64 + 1) as usize; for (k, x) in kwd.bytes().enumerate() { b.insert(i + k, x); } }
        }
    }
    String::from_utf8_lossy(&b).to_string()
}

fn main() {
    let args = parse_args();
    record_panics();
    let mut rng = Rng::new(args.seed);
    let mut cases = Cases::create(&args.out);
    let tables = table_refs();
    let mut dbs = build_dbs();
    let n_stmts = if args.thorough() { 8000 } else { 500 };
    let n_mut = if args.thorough() { 8000 } else { 600 };

    let mut work: Vec<(Parsed, String)> = corpus(&tables).into_iter().map(|(p, c)| (p, c.to_string())).collect();
    work.extend(systematic(&tables));
    for _ in 0..n_stmts { work.push(gen_parsed(&mut rng, &tables)); }

    let mut valid_sql: Vec<String> = vec![];
    let mut hangs = 0usize;
    // catalogue facts per (database, table); the databases are read-only between rebuilds
    let mut cat_cache: std::collections::HashMap<(String, String), Cat> = std::collections::HashMap::new();
    let mut render_rng = rng.fork();
    for (p, class) in &work {
        let sql = p.sql(&mut render_rng);
        let ast = p.toks();
        // ---- front: parse_query + normalize
        let (impl_out, status) = front(&sql);
        let stage = if impl_out.starts_with("ok") { if impl_out.contains("# err:") { "normalize-err" } else { "ok" } } else { impl_out.as_str() };
        cases.push(&format!("front:{}:{}", class, stage), &format!("front {} ## {}", ast, status), &impl_out, &sql);
        if status == "ok" && valid_sql.len() < 4000 { valid_sql.push(sql.clone()); }
        // ---- run: the whole call
        let targets: Vec<(&Arc<LocustDB>, &str)> = match p.single_select().and_then(|s| s.table_name()) {
            Some(name) if name == "_meta_tables" => vec![(&dbs.fresh, "fresh"), (&dbs.main, "main")],
            _ => vec![(&dbs.main, "main")],
        };
        let mut broken = false;
        for (db, which) in targets {
            let table = p.single_select().and_then(|s| s.table_name()).unwrap_or_default();
            let cat = cat_cache.entry((which.to_string(), table.clone())).or_insert_with(|| catalog(db, &table)).clone();
            let rowformat = !rng.chance(1, 5);
            let _ = take_panic();
            let out = if hangs < MAX_HANGS { query_full(db, &sql, rowformat, DEADLINE_S) } else { continue };
            if matches!(out, QOut::Hang) { hangs += 1; }
            let (obs, canon) = observe(&out);
            let kind = match &out { QOut::Ok { .. } => "ok".to_string(), o => o.tok() };
            let tclass = if !cat.exists { "missing-table" } else if cat.parts == 0 { "no-partitions" } else { "table" };
            let line = format!("run {} {} {} {} {} {} d{} {} ## {}", cat.exists as u8, cat.meta, cat.parts, cat.rows, toks(&cat.columns, |n| hexs(n)), rowformat as u8, toks(&cat.divergent, |n| hexs(n)), ast, obs);
            cases.push(&format!("run:{}:{}:{}:{}", which, tclass, class, kind), &line, &canon, &format!("{} | {}", sql, out.detail()));
            if !healthy(&out) { broken = true; }
        }
        if broken { dbs = build_dbs(); cat_cache.clear(); }
    }

    // ---- slice sweep: result-column kind × LIMIT × OFFSET on table `v` (run only; no random numbers consumed)
    {
        let sweep = slice_sweep(args.thorough());
        let mut srng = Rng::new(7);
        let sqls: Vec<String> = sweep.iter().map(|(p, _)| p.sql(&mut srng)).collect();
        let cat = catalog(&dbs.main, "v");
        let outs = run_parallel(sqls.clone(), 6);
        let _ = take_panic();
        for (((p, class), sql), out) in sweep.iter().zip(&sqls).zip(outs) {
            // an unhealthy answer is asked for again on this thread's database so that the panic message is attributed
            let out = if healthy(&out) || hangs >= MAX_HANGS { out } else {
                let _ = take_panic();
                let o = query_full(&dbs.main, sql, true, DEADLINE_S);
                if matches!(o, QOut::Hang) { hangs += 1; }
                o
            };
            let (obs, canon) = observe(&out);
            let kind = match &out { QOut::Ok { .. } => "ok".to_string(), o => o.tok() };
            let line = format!("run {} {} {} {} {} {} d{} {} ## {}", cat.exists as u8, cat.meta, cat.parts, cat.rows, toks(&cat.columns, |n| hexs(n)), 1, toks(&cat.divergent, |n| hexs(n)), p.toks(), obs);
            cases.push(&format!("run:main:table:{}:{}", class, kind), &line, &canon, &format!("{} | {}", sql, out.detail()));
            if !healthy(&out) { dbs = build_dbs(); }
        }
    }

    // ---- byte-level mutations of valid statements (oracle only)
    for _ in 0..n_mut {
        let base = if valid_sql.is_empty() { "SELECT a FROM t".to_string() } else { rng.pick(&valid_sql).clone() };
        let sql = mutate(&mut rng, &base);
        if hangs >= MAX_HANGS { break; }
        let _ = take_panic();
        let out = query_full(&dbs.main, &sql, !rng.chance(1, 5), DEADLINE_S);
        if matches!(out, QOut::Hang) { hangs += 1; }
        let (obs, canon) = observe(&out);
        let kind = match &out { QOut::Ok { .. } => "ok".to_string(), o => o.tok() };
        let clean: String = sql.chars().map(|c| if c == '\t' || c == '\n' || c == '\r' { ' ' } else { c }).collect();
        cases.push(&format!("mut:{}", kind), &format!("mut ## {}", obs), &canon, &format!("{} | {}", clean, out.detail()));
        if !healthy(&out) { dbs = build_dbs(); }
    }
    cases.finish();
}
