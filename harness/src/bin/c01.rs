//! C01: ingested values come back unchanged from a plain SELECT.
//!
//! Streams (class prefix):
//!   unit/…   real `Buffer::push_typed_cols` + `ColumnBuffer::finalize` + `lz4_or_pco_decode`: codec shape of every column
//!            (ops with constants, section types, length) compared with the Lean model of the builders.
//!   api/…    `ingest_efficient` (native `TableBuffer::new` where the representation allows it, else the binary wire format),
//!            optional flushes, then `SELECT c0, .. FROM t` in rows view and columns view; compared with the Lean model
//!            (builder + decode program) and with the Lean specification (cells supplied, in order, documented degradation).
//!   csv/…    `load_csv` on a temp file (allow_nulls on/off); the harness supplies Rust's `str::parse` results as hints.
//!   big/…    strings at the 2^24 length boundary of `IndexedPackedStrings` (summarised, run by the harness itself).
use std::collections::{BTreeMap, BTreeSet, HashMap};
use std::sync::Arc;
use vharness::locustdb::verif::ingest::buffer::Buffer;
use vharness::locustdb::verif::ingest::input_column::InputColumn;
use vharness::locustdb::verif::mem_store::{CodecOp, Column, DataSection, DataSource};
use vharness::locustdb::{LocustDB, Options};
use vharness::locustdb_serialization::api::AnyVal;
use vharness::locustdb_serialization::event_buffer::{ColumnBuffer as WireColumn, ColumnData, EventBuffer, TableBuffer};
use vharness::*;

#[derive(Clone, Debug)]
enum Item {
    Flush,
    Batch { len: u64, reps: Vec<Option<ColRep>> },
}

#[derive(Clone, Debug)]
struct Case {
    ncols: usize,
    items: Vec<Item>,
    tags: Vec<String>,
}

fn f16(b: u64) -> String { format!("{:016x}", b) }

fn rep_tok(r: &Option<ColRep>) -> String {
    match r {
        None => "-".into(),
        Some(ColRep::Empty) => "E".into(),
        Some(ColRep::Dense(v)) => format!("D:{}", v.iter().map(|f| f16(f.to_bits())).collect::<Vec<_>>().join(",")),
        Some(ColRep::Sparse(v)) => format!("P:{}", v.iter().map(|(i, f)| format!("{}={}", i, f16(f.to_bits()))).collect::<Vec<_>>().join(",")),
        Some(ColRep::I64(v)) => format!("I:{}", v.iter().map(|i| i.to_string()).collect::<Vec<_>>().join(",")),
        Some(ColRep::SparseI64(v)) => format!("Q:{}", v.iter().map(|(i, x)| format!("{}={}", i, x)).collect::<Vec<_>>().join(",")),
        Some(ColRep::Str(v)) => format!("S:{}", v.iter().map(|s| hexs(s)).collect::<Vec<_>>().join(",")),
        Some(ColRep::Mixed(v)) => format!("M:{}", v.iter().map(|c| c.tok()).collect::<Vec<_>>().join(",")),
    }
}

/// all ints / float bit patterns occurring in a representation
fn collect_vals(r: &ColRep, ints: &mut BTreeSet<i64>, floats: &mut BTreeSet<u64>) {
    match r {
        ColRep::Empty | ColRep::Str(_) => {}
        ColRep::Dense(v) => floats.extend(v.iter().map(|f| f.to_bits())),
        ColRep::Sparse(v) => floats.extend(v.iter().map(|(_, f)| f.to_bits())),
        ColRep::I64(v) => ints.extend(v.iter().cloned()),
        ColRep::SparseI64(v) => ints.extend(v.iter().map(|(_, x)| *x)),
        ColRep::Mixed(v) => for c in v { match c { Cell::Int(i) => { ints.insert(*i); } Cell::Float(b) => { floats.insert(*b); } _ => {} } },
    }
}

fn model_line(kind: &str, case: &Case) -> String {
    let mut ints = BTreeSet::new();
    let mut floats = BTreeSet::new();
    for it in &case.items { if let Item::Batch { reps, .. } = it { for r in reps.iter().flatten() { collect_vals(r, &mut ints, &mut floats); } } }
    ints.insert(0); // NULL placeholder of integer buffers
    floats.insert(0);
    let i2f: Vec<String> = ints.iter().map(|i| { let b = (*i as f64).to_bits(); floats.insert(b); format!("{}={}", i, f16(b)) }).collect();
    let showf: Vec<String> = floats.iter().map(|b| format!("{}={}", f16(*b), hexs(&f64::from_bits(*b).to_string()))).collect();
    let items: Vec<String> = case.items.iter().map(|it| match it {
        Item::Flush => "!".to_string(),
        Item::Batch { len, reps } => format!("B{}/{}", len, reps.iter().map(rep_tok).collect::<Vec<_>>().join("/")),
    }).collect();
    format!("c01 {} {} {} {} {}", kind, if i2f.is_empty() { "[]".into() } else { i2f.join(",") },
        if showf.is_empty() { "[]".into() } else { showf.join(",") }, case.ncols, items.join(" "))
}

fn column_data(r: &ColRep) -> ColumnData {
    match r {
        ColRep::Empty => ColumnData::Empty,
        ColRep::Dense(v) => ColumnData::Dense(v.clone()),
        ColRep::Sparse(v) => ColumnData::Sparse(v.clone()),
        ColRep::I64(v) => ColumnData::I64(v.clone()),
        ColRep::SparseI64(v) => ColumnData::SparseI64(v.clone()),
        ColRep::Str(v) => ColumnData::String(v.clone()),
        ColRep::Mixed(v) => ColumnData::Mixed(v.iter().map(|c| match c {
            Cell::Int(i) => AnyVal::Int(*i),
            Cell::Float(b) => AnyVal::Float(f64::from_bits(*b)),
            Cell::Str(s) => AnyVal::Str(s.clone()),
            Cell::Null => AnyVal::Null,
        }).collect()),
    }
}

fn enc_name(t: &dyn std::fmt::Debug) -> String { format!("{:?}", t).to_lowercase() }

fn fnv(vals: impl Iterator<Item = u64>) -> (usize, u64) {
    let mut h = 0xcbf29ce484222325u64;
    let mut n = 0;
    for v in vals { h = (h ^ v).wrapping_mul(0x100000001b3); n += 1; }
    (n, h)
}

fn section_sum(d: &DataSection) -> (usize, u64) {
    match d {
        DataSection::U8(v) => fnv(v.iter().map(|x| *x as u64)),
        DataSection::U16(v) => fnv(v.iter().map(|x| *x as u64)),
        DataSection::U32(v) => fnv(v.iter().map(|x| *x as u64)),
        DataSection::U64(v) => fnv(v.iter().cloned()),
        DataSection::I64(v) => fnv(v.iter().map(|x| *x as u64)),
        DataSection::F64(v) => fnv(v.iter().map(|x| x.0.to_bits())),
        DataSection::Null(n) => (*n, fnv(std::iter::empty()).1),
        DataSection::Bitvec(v) => fnv(v.iter().map(|x| *x as u64)),
        DataSection::LZ4 { data, .. } | DataSection::Pco { data, .. } => fnv(data.iter().map(|x| *x as u64)),
    }
}

fn shape_of(col: &Column) -> String {
    let ops: Vec<String> = col.codec().ops().iter().map(|op| match op {
        CodecOp::Nullable => "Nullable".to_string(),
        CodecOp::Add(t, x) => format!("Add({},{})", enc_name(t), x),
        CodecOp::Delta(t) => format!("Delta({})", enc_name(t)),
        CodecOp::ToI64(t) => format!("ToI64({})", enc_name(t)),
        CodecOp::PushDataSection(i) => format!("Data({})", i),
        CodecOp::DictLookup(t) => format!("Dict({})", enc_name(t)),
        CodecOp::LZ4(..) | CodecOp::Pco(..) => "Decomp".to_string(),
        CodecOp::UnpackStrings => "StrUnpack".to_string(),
        CodecOp::UnhexpackStrings(u, n) => format!("StrHexUnpack({},{})", u, n),
        CodecOp::Unknown => "Unknown".to_string(),
    }).collect();
    // section type + element count + FNV-1a-style checksum of the (decompressed) contents
    let secs: Vec<String> = col.data().iter().map(|d| { let (n, h) = section_sum(d); format!("{}#{}.{:016x}", enc_name(&d.encoding_type()), n, h) }).collect();
    format!("n{}:{}:{}", col.len(), if ops.is_empty() { "id".to_string() } else { ops.join("+") }, secs.join(","))
}

/// coarse coverage class of a shape: ops without constants + width
fn shape_class(shape: &str) -> String {
    let mut parts = shape.splitn(3, ':');
    let _n = parts.next();
    let ops = parts.next().unwrap_or("");
    let secs: String = parts.next().unwrap_or("").split(',').map(|t| t.split('#').next().unwrap_or(t)).collect::<Vec<_>>().join(",");
    let ops: String = ops.split('+').map(|o| { let name = o.split('(').next().unwrap_or(o);
        if o.starts_with("Add") { format!("Add({})", o[4..].split(',').next().unwrap_or("")) } else if o.starts_with("StrHexUnpack") { format!("StrHexUnpack({})", o[13..].split(',').next().unwrap_or("")) } else if o.contains('(') { o.to_string() } else { name.to_string() } }).collect::<Vec<_>>().join("+");
    format!("{}:{}", ops, secs)
}

/// unit level: the real Buffer / ColumnBuffer, no database
fn run_unit(case: &Case) -> (String, Vec<String>) {
    let case = case.clone();
    let r = std::panic::catch_unwind(move || {
        let mut shapes = vec![];
        let mut comp = vec![];
        let mut buffer = Buffer::default();
        let finish = |buffer: &mut Buffer, shapes: &mut Vec<String>, comp: &mut Vec<String>| {
            if buffer.len() == 0 { return; }
            for i in 0..case.ncols {
                let name = format!("c{}", i);
                match buffer.buffer.get(&name) {
                    None => shapes.push("absent".to_string()),
                    Some(cb) => {
                        let arc = cb.clone().finalize(&name);
                        let mut col = Arc::try_unwrap(arc).ok().expect("sole owner");
                        comp.push(match col.codec().ops().first() { Some(CodecOp::LZ4(..)) => "lz4", Some(CodecOp::Pco(..)) => "pco", _ => "raw" }.to_string());
                        col.lz4_or_pco_decode();
                        shapes.push(shape_of(&col));
                    }
                }
            }
            *buffer = Buffer::default();
        };
        for it in &case.items {
            match it {
                Item::Flush => finish(&mut buffer, &mut shapes, &mut comp),
                Item::Batch { len, reps } => {
                    let cols: HashMap<String, InputColumn> = reps.iter().enumerate().filter_map(|(i, r)| r.as_ref().map(|r|
                        (format!("c{}", i), InputColumn::from_column_data(column_data(r), *len)))).collect();
                    buffer.push_typed_cols(cols);
                }
            }
        }
        finish(&mut buffer, &mut shapes, &mut comp);
        (shapes, comp)
    });
    match r {
        Ok((shapes, comp)) => (format!("shapes:{}", shapes.join(";")), shapes.iter().map(|s| shape_class(s)).chain(comp.into_iter()).collect()),
        Err(_) => ("panic".to_string(), vec!["panic".to_string()]),
    }
}

fn db_options() -> Options {
    Options { partition_combine_factor: 1_000_000, ..base_options() }
}

/// a batch as a native EventBuffer when `TableBuffer::new` accepts it (all columns dense and full, or Empty)
fn native_event_buffer(len: u64, reps: &[Option<ColRep>]) -> Option<EventBuffer> {
    let mut cols = HashMap::new();
    let mut any_full = false;
    for (i, r) in reps.iter().enumerate() {
        if let Some(r) = r {
            let ok = match r {
                ColRep::Empty => true,
                ColRep::Dense(v) => { any_full |= v.len() as u64 == len; v.len() as u64 == len }
                ColRep::I64(v) => { any_full |= v.len() as u64 == len; v.len() as u64 == len }
                ColRep::Str(v) => { any_full |= v.len() as u64 == len; v.len() as u64 == len }
                ColRep::Mixed(v) => { any_full |= v.len() as u64 == len; v.len() as u64 == len }
                _ => false,
            };
            if !ok { return None; }
            cols.insert(format!("c{}", i), WireColumn { data: column_data(r) });
        }
    }
    if !any_full { return None; }
    let mut eb = EventBuffer::default();
    eb.tables.insert("t".to_string(), TableBuffer::new(cols));
    Some(eb)
}

/// API level. `path`: 0 = wire always, 1 = native when possible
fn run_api(case: &Case, path: u64) -> (String, String, String) {
    let db = Arc::new(LocustDB::new(&db_options()));
    let case2 = case.clone();
    let db2 = db.clone();
    let ing = with_deadline(60, move || {
        let mut native = 0;
        for it in &case2.items {
            match it {
                Item::Flush => db2.force_flush(),
                Item::Batch { len, reps } => {
                    let nb = if path == 1 { native_event_buffer(*len, reps) } else { None };
                    match nb {
                        Some(eb) => { native += 1; futures::executor::block_on(db2.ingest_efficient(eb)); }
                        None => {
                            let b = Batch { table: "t".into(), len: *len,
                                cols: reps.iter().enumerate().filter_map(|(i, r)| r.as_ref().map(|r| (format!("c{}", i), r.clone()))).collect() };
                            ingest(&db2, &[b]);
                        }
                    }
                }
            }
        }
        native
    });
    let native = match ing {
        None => return ("hang".into(), "ingest".into(), String::new()),
        Some(Err(m)) => return ("panic".into(), "ingest".into(), m),
        Some(Ok(n)) => n,
    };
    let cols: Vec<String> = (0..case.ncols).map(|i| format!("c{}", i)).collect();
    let sql = format!("SELECT {} FROM t", cols.join(", "));
    let rows = query_full(&db, &sql, true, 30);
    let out = match &rows {
        QOut::Ok { .. } => {
            let colsview = query_full(&db, &sql, false, 30);
            if colsview.tok() != rows.tok() { format!("views-differ rows={} cols={}", rows.tok(), colsview.tok()).replace('\t', " ") } else { rows.tok() }
        }
        other => other.tok(),
    };
    (out, if native > 0 { "native".into() } else { "wire".into() }, rows.detail())
}

// ---------------------------------------------------------------------------------------------
// generators

const LENS: &[usize] = &[1, 2, 3, 4, 7, 8, 9, 15, 16, 17, 31, 33, 63, 64, 65];

fn hex_strs(rng: &mut Rng, n: usize, style: u64) -> Vec<String> {
    (0..n).map(|_| {
        let l = *rng.pick(&[0usize, 2, 6, 10, 12, 16, 32]);
        let l = if style == 3 { l + 1 } else { l };
        (0..l).map(|k| {
            let d = rng.below(16) as u32;
            let c = std::char::from_digit(d, 16).unwrap();
            match style { 1 => c.to_ascii_uppercase(), 2 => if k % 2 == 0 { c.to_ascii_uppercase() } else { c }, 4 => std::char::from_digit(d % 10, 10).unwrap(), _ => c }
        }).collect()
    }).collect()
}

/// one logical column (cells for all rows of all batches) + a tag naming its value class
fn gen_column(rng: &mut Rng, n: usize, allow_mixed: bool) -> (Vec<Cell>, String) {
    let kind = rng.below(if allow_mixed { 12 } else { 10 });
    let (cells, tag): (Vec<Cell>, String) = match kind {
        0..=3 => { let c = *rng.pick(INT_CLASSES); (gen_ints(rng, n, c).into_iter().map(Cell::Int).collect(), format!("int-{}", c)) }
        4 | 5 => { let c = *rng.pick(&["dyadic", "edges", "f32", "nan", "bits"]); (gen_floats(rng, n, c).into_iter().map(Cell::f).collect(), format!("float-{}", c)) }
        6..=9 => {
            let c = *rng.pick(&["lowcard", "highcard", "hex", "HEX", "long", "pool", "hexl", "hexU", "hexmixed", "hexodd", "digits", "half"]);
            let v = match c {
                "hexl" => hex_strs(rng, n, 0), "hexU" => hex_strs(rng, n, 1), "hexmixed" => hex_strs(rng, n, 2), "hexodd" => hex_strs(rng, n, 3), "digits" => hex_strs(rng, n, 4),
                "half" => { // distinct count right at len/2 (+-1): the dictionary / packed threshold
                    let k = (n / 2 + rng.below(3) as usize).saturating_sub(1).max(1);
                    let mut v: Vec<String> = (0..n).map(|i| format!("v{}", i % k)).collect();
                    if rng.chance(1, 2) { v.reverse(); }
                    v }
                _ => gen_strs(rng, n, c),
            };
            (v.into_iter().map(Cell::Str).collect(), format!("str-{}", c))
        }
        _ => { // type-mixed column: runs of different types
            let mut cells = vec![];
            let mut tag = String::from("mixed");
            while cells.len() < n {
                let run = 1 + rng.below(1 + (n - cells.len()) as u64 / 2) as usize;
                let run = run.min(n - cells.len());
                match rng.below(3) {
                    0 => { let c = *rng.pick(&["small", "u16", "edges", "mono"]); cells.extend(gen_ints(rng, run, c).into_iter().map(Cell::Int)); tag.push('i'); }
                    1 => { let c = *rng.pick(&["dyadic", "edges"]); cells.extend(gen_floats(rng, run, c).into_iter().map(Cell::f)); tag.push('f'); }
                    _ => { cells.extend(gen_strs(rng, run, "pool").into_iter().map(Cell::Str)); tag.push('s'); }
                }
            }
            (cells, tag)
        }
    };
    let mask = match rng.below(3) { 0 => vec![false; n], _ => gen_null_mask(rng, n) };
    let anynull = mask.iter().any(|m| *m);
    (apply_nulls(cells, &mask), format!("{}{}", tag, if anynull { "+null" } else { "" }))
}

fn sanitize(c: &Cell) -> Cell {
    match c { Cell::Int(i) if *i == I64_NULL => Cell::Int(I64_NULL - 1), Cell::Float(b) if *b == F64_NULL_BITS => Cell::Float(0x7ff8_0000_0000_0001), c => c.clone() }
}

/// split logical columns into batches with wire representations
fn gen_case(rng: &mut Rng, flushes: bool) -> Case {
    let ncols = 1 + rng.below(3) as usize;
    let nb = 1 + rng.below(4) as usize;
    let lens: Vec<usize> = (0..nb).map(|_| if rng.chance(1, 6) { 20 + rng.below(180) as usize } else { *rng.pick(LENS) }).collect();
    let n: usize = lens.iter().sum();
    let mut tags = vec![];
    let cols: Vec<Vec<Cell>> = (0..ncols).map(|_| { let (c, t) = gen_column(rng, n, !flushes); tags.push(t); c.iter().map(sanitize).collect() }).collect();
    let mut items = vec![];
    let mut start = 0;
    for (bi, l) in lens.iter().enumerate() {
        let end = start + l;
        let mut reps: Vec<Option<ColRep>> = cols.iter().map(|c| {
            let slice = &c[start..end];
            if slice.iter().all(|x| *x == Cell::Null) && rng.chance(1, 2) { None } else { Some(ColRep::from_cells(slice, rng.next())) }
        }).collect();
        // a batch needs at least one column
        if reps.iter().all(|r| r.is_none()) { reps[0] = Some(ColRep::Empty); }
        items.push(Item::Batch { len: *l as u64, reps });
        if flushes && bi + 1 < nb && rng.chance(1, 2) { items.push(Item::Flush); }
        start = end;
    }
    if flushes && rng.chance(1, 2) { items.push(Item::Flush); }
    Case { ncols, items, tags }
}

/// hand-written shapes: witnesses of the open findings first, then boundary shapes of the quantifier
fn corpus() -> Vec<(String, Case)> {
    let one = |reps: Vec<(u64, Vec<Option<ColRep>>)>| -> Case {
        let ncols = reps[0].1.len();
        Case { ncols, items: reps.into_iter().map(|(len, reps)| Item::Batch { len, reps }).collect(), tags: vec![] }
    };
    let mut v = vec![];
    v.push(("kf-delta-overflow".to_string(), one(vec![(2, vec![Some(ColRep::I64(vec![-2, i64::MAX - 1]))])])));
    v.push(("kf-interval-overflow".to_string(), one(vec![(2, vec![Some(ColRep::I64(vec![i64::MIN, 0]))])])));
    v.push(("kf-interval-overflow-null".to_string(), one(vec![(2, vec![Some(ColRep::I64(vec![i64::MIN]))])])));
    v.push(("kf-mixed-nulls".to_string(), one(vec![
        (2, vec![Some(ColRep::Str(vec!["a".into(), "b".into()])), Some(ColRep::I64(vec![1, 2]))]),
        (2, vec![Some(ColRep::I64(vec![3, 4])), Some(ColRep::I64(vec![3, 4]))]),
        (2, vec![None, Some(ColRep::I64(vec![5, 6]))])])));
    // width ladder edges, with and without offset
    for (name, xs) in [("u8-edge", vec![0i64, 255]), ("u8-over", vec![0, 256]), ("u8off-edge", vec![-1, 254]), ("u8off-over", vec![-1, 255]),
        ("u16-edge", vec![0, 65535]), ("u16-over", vec![0, 65536]), ("u16off-edge", vec![-7, 65528]), ("u16off-over", vec![-7, 65529]),
        ("u32-edge", vec![0, 4294967295]), ("u32-over", vec![0, 4294967296]), ("u32off-edge", vec![i64::MIN, i64::MIN + 4294967295]), ("u32off-over", vec![i64::MIN, i64::MIN + 4294967296]),
        ("i64-full", vec![i64::MIN, i64::MAX - 1, 0, 5]), ("i64-span63", vec![5, i64::MIN, 0]), ("neg-only", vec![i64::MIN, -1]),
        ("single", vec![7]), ("single-neg", vec![-7]), ("single-min", vec![i64::MIN])] {
        v.push((format!("ladder-{}", name), one(vec![(xs.len() as u64, vec![Some(ColRep::I64(xs.clone()))])])));
        let mut ys = xs.clone(); ys.reverse();
        v.push((format!("ladder-{}-rev", name), one(vec![(ys.len() as u64, vec![Some(ColRep::I64(ys))])])));
    }
    // delta threshold: exactly 90 % / just above
    for (name, n, dec) in [("delta-9of10", 10usize, 1usize), ("delta-10of10", 10, 0), ("delta-19of20", 20, 1), ("delta-18of20", 20, 2), ("delta-10of11", 11, 1)] {
        let mut xs: Vec<i64> = (0..n as i64).map(|i| 1000 + i * 3).collect();
        for k in 0..dec { xs[2 + 3 * k] = xs[1 + 3 * k] - 1; }
        v.push((format!("thr-{}", name), one(vec![(n as u64, vec![Some(ColRep::I64(xs))])])));
    }
    // null bitmaps at byte boundaries: nulls first then values, values then nulls, lazily created maps
    for n in [7u64, 8, 9, 15, 16, 17, 63, 64, 65] {
        let ints: Vec<i64> = (0..n as i64).collect();
        v.push((format!("bm-null-then-int-{}", n), one(vec![(n, vec![Some(ColRep::Empty), Some(ColRep::I64(ints.clone()))]), (n, vec![Some(ColRep::I64(ints.clone())), Some(ColRep::Empty)]), (1, vec![Some(ColRep::I64(vec![1])), Some(ColRep::I64(vec![1]))])])));
        v.push((format!("bm-short-dense-{}", n), one(vec![(n + 3, vec![Some(ColRep::I64(ints.clone())), Some(ColRep::Dense(ints.iter().map(|i| *i as f64).collect()))])])));
        v.push((format!("bm-sparse-last-{}", n), one(vec![(n, vec![Some(ColRep::SparseI64(vec![(n - 1, 5)])), Some(ColRep::Sparse(vec![(0, 1.5), (n - 1, 2.5)]))])])));
        let strs: Vec<String> = (0..n).map(|i| format!("s{}", i % 3)).collect();
        v.push((format!("bm-str-missing-{}", n), one(vec![(n, vec![Some(ColRep::Str(strs.clone())), Some(ColRep::I64(ints.clone()))]), (n, vec![None, Some(ColRep::I64(ints.clone()))]), (n, vec![Some(ColRep::Str(strs.clone())), None])])));
    }
    // strings: length prefix 254/255/256, dictionary index width 255/256, threshold len/2
    for l in [0usize, 1, 253, 254, 255, 256, 509, 510, 511, 765] {
        let s = "q".repeat(l);
        v.push((format!("strlen-packed-{}", l), one(vec![(2, vec![Some(ColRep::Str(vec![s.clone(), "z".into()]))])])));
        v.push((format!("strlen-dict-{}", l), one(vec![(5, vec![Some(ColRep::Str(vec![s.clone(), s.clone(), s.clone(), s.clone(), s.clone()]))])])));
    }
    for k in [254usize, 255, 256, 257] {
        let strs: Vec<String> = (0..(2 * k + 2)).map(|i| format!("k{:03}", i % k)).collect();
        v.push((format!("dict-card-{}", k), one(vec![(strs.len() as u64, vec![Some(ColRep::Str(strs))])])));
    }
    for (name, strs) in [("hex-lower", vec!["deadbeef0011", "001122aabbcc"]), ("hex-upper", vec!["DEADBEEF0011", "001122AABBCC"]), ("hex-digits", vec!["123456789012", "000000000000"]),
        ("hex-mixedcase", vec!["DEADbeef0011", "001122aabbcc"]), ("hex-odd", vec!["deadbeef001", "001122aabbc"]), ("hex-short", vec!["dead", "beef"]), ("hex-avg5", vec!["deadbeef00", "aabbccddee"]),
        ("hex-avg6-empty", vec!["", "deadbeef0011aabbccdd0011"]), ("hex-both-cases", vec!["deadbeef0011", "DEADBEEF0011"]), ("multibyte", vec!["ünï", "日本語", "ü"])] {
        let strs: Vec<String> = strs.iter().map(|s| s.to_string()).collect();
        v.push((format!("str-{}", name), one(vec![(strs.len() as u64, vec![Some(ColRep::Str(strs.clone()))])])));
        let mut cells: Vec<Cell> = strs.iter().map(|s| Cell::Str(s.clone())).collect();
        cells.push(Cell::Null);
        v.push((format!("str-{}-null", name), one(vec![(cells.len() as u64, vec![Some(ColRep::Mixed(cells))])])));
    }
    // floats
    let fl: Vec<f64> = vec![0.0, -0.0, 1e-310, -1e-310, f64::INFINITY, f64::NEG_INFINITY, 0.1, 16777217.0, 1.5, f64::from_bits(0x7ff8_0000_0000_0000), f64::from_bits(0x7ffa_aaaa_aaaa_aaab), f64::from_bits(0xfff8_0000_0000_0001)];
    v.push(("float-edges".to_string(), one(vec![(fl.len() as u64, vec![Some(ColRep::Dense(fl.clone()))])])));
    v.push(("float-edges-sparse".to_string(), one(vec![(2 * fl.len() as u64, vec![Some(ColRep::Sparse(fl.iter().enumerate().map(|(i, f)| (2 * i as u64 + 1, *f)).collect()))])])));
    v.push(("float-f32-exact".to_string(), one(vec![(4, vec![Some(ColRep::Dense(vec![0.5, -0.0, 1024.25, f64::INFINITY]))])])));
    // type degradation orders
    let i = || Some(ColRep::I64(vec![1, 9007199254740993]));
    let f = || Some(ColRep::Dense(vec![1.5, -0.0]));
    let s = || Some(ColRep::Str(vec!["a".into(), "".into()]));
    for (name, seq) in [("ifs", vec![i(), f(), s()]), ("isf", vec![i(), s(), f()]), ("fis", vec![f(), i(), s()]), ("fsi", vec![f(), s(), i()]), ("sif", vec![s(), i(), f()]), ("sfi", vec![s(), f(), i()]), ("if", vec![i(), f()]), ("fi", vec![f(), i()])] {
        v.push((format!("degrade-{}", name), one(seq.into_iter().map(|r| (2u64, vec![r])).collect())));
    }
    v
}

// ---------------------------------------------------------------------------------------------
// late flips: columns of > 1024 rows in ONE partition whose encoding-deciding property changes late

/// single-typed case: no `i as f64` / `to_string` conversion can occur, so the (large) conversion tables are left out
fn model_line_plain(kind: &str, case: &Case) -> String {
    let items: Vec<String> = case.items.iter().map(|it| match it {
        Item::Flush => "!".to_string(),
        Item::Batch { len, reps } => format!("B{}/{}", len, reps.iter().map(rep_tok).collect::<Vec<_>>().join("/")),
    }).collect();
    format!("c01 {} [] [] {} {}", kind, case.ncols, items.join(" "))
}

/// Every choice the column builders and `lz4_or_pco_encode` make is a function of ALL values of the partition (f32-exactness
/// for pco, min/max for the width ladder, `increasing*10 > len*9` for delta, lhex/uhex/total_bytes/distinct count for strings).
/// Generated here: columns of `n` in {1025, 1500, 3000, 5000} rows whose deciding property holds for every row before `pos`
/// in {last, 1024, 1025, middle} and fails at `pos` (variant `tail`: from `pos` on), without / with NULLs, in three layouts
/// (one batch in the open buffer; three batches then flush; a small flushed partition first, then the big one).
/// Returns (name, class tag, case, spec_only).
fn late_flip_cases(rng: &mut Rng, thorough: bool) -> Vec<(String, String, Case, bool)> {
    let mut out = vec![];
    let mut k = 0usize;
    let sizes: &[usize] = &[1025, 1500, 3000, 5000];
    let fprops: &[&str] = &["f32exact", "f32seq", "intvalued", "nan", "nanpayload", "huge", "tiny", "f32subnormal", "f32round"];
    let iprops: &[&str] = &["u8-u16", "u8-u32", "u16-i64", "offset-neg", "offset-min", "mono-in", "mono-out", "delta-jump20", "delta-jump40", "delta-overflow"];
    let sprops: &[&str] = &["hexl-nonhex", "hexl-upper", "hexu-lower", "hexl-odd", "hexavg6-short", "short-255", "short-256", "short-long", "card-half-in", "card-half-out", "card-256", "card-257"];
    for &n in sizes {
        let mut poss = vec![n - 1, 1024, 1025, n / 2];
        poss.retain(|p| *p < n && *p > 0);
        poss.sort(); poss.dedup();
        for &pos in &poss {
            let posname = if pos == n - 1 { "last" } else if pos == 1024 { "1024" } else if pos == 1025 { "1025" } else { "mid" };
            let props = fprops.iter().map(|p| ('f', *p)).chain(iprops.iter().map(|p| ('i', *p))).chain(sprops.iter().map(|p| ('s', *p)));
            for (ty, prop) in props {
                k += 1;
                // quick tier: every (property, position) and every (property, size); the full product in the thorough tier
                if !thorough && !(n == 1500 || (n == 5000 && pos != 1025) || (n == 1025 && pos == 1024) || (n == 3000 && pos == n / 2)) { continue; }
                let variant = k % 3; // 0 plain, 1 NULLs sprinkled in (never at pos), 2 flipped from pos to the end
                // (a 70000-byte string is supplied once only)
                let flipped = |i: usize| if variant == 2 && prop != "short-long" { i >= pos } else { i == pos };
                let cells: Vec<Cell> = match ty {
                    'f' => (0..n).map(|i| {
                        let base = match prop { "f32seq" => i as f64 + 0.5, "intvalued" => (i as f64) * 3.0, _ => (rng.range(-8_000_000, 8_000_000) as f32 * 0.125) as f64 };
                        if !flipped(i) { return Cell::f(base); }
                        Cell::f(match prop {
                            "f32exact" | "f32seq" => base.trunc() + 0.1,
                            "intvalued" => base + 0.5,
                            "nan" => f64::from_bits(0x7ff8_0000_0000_0000),
                            "nanpayload" => f64::from_bits(0xfff8_0000_0000_0001 + i as u64),
                            "huge" => 1e300 + i as f64 * 1e290,
                            "tiny" => 1e-300 * (1 + i) as f64,
                            "f32subnormal" => 1e-40 * (1 + i % 7) as f64,
                            _ => 16777217.0 + 2.0 * i as f64, // odd integer above 2^24: rounds in f32
                        })
                    }).collect(),
                    'i' => {
                        let mut v: Vec<i64> = match prop {
                            "u8-u16" | "u8-u32" | "offset-neg" | "offset-min" => (0..n).map(|_| rng.range(0, 200)).collect(),
                            "u16-i64" => (0..n).map(|_| rng.range(0, 60000)).collect(),
                            "delta-overflow" => (0..n).map(|i| i64::MIN / 2 + 3 * i as i64).collect(),
                            _ => (0..n).map(|i| 1000 + 3 * i as i64 + rng.range(0, 2)).collect(),
                        };
                        match prop {
                            "mono-in" | "mono-out" => {
                                // delta coding iff increasing*10 > len*9: d decreasing steps keep / lose it by one
                                let keep = (0..=n).rev().find(|d| (n - d) * 10 > n * 9).unwrap();
                                let d = if prop == "mono-in" { keep } else { keep + 1 };
                                // the deciding decreases sit at the end (pos = last), else start at pos as far as they fit, the rest at the end
                                let at: Vec<usize> = if pos == n - 1 { (n - d..n).collect() } else { let a = d.min(n - pos); (pos..pos + a).chain(n - (d - a)..n).collect() };
                                let mut at = at; at.sort(); at.dedup();
                                // (overlap can only shorten the list by making it contiguous; recount below through the class tag)
                                for j in at { if j > 0 { v[j] = v[j - 1] - 1; } }
                            }
                            _ => for i in 0..n { if flipped(i) { v[i] = match prop {
                                "u8-u16" => 300 + (i as i64 % 7), "u8-u32" => 70000 + i as i64, "u16-i64" => (1i64 << 40) + i as i64,
                                "offset-neg" => -5 - (i as i64 % 3), "offset-min" => i64::MIN + 1 + i as i64,
                                "delta-jump20" => v[i] + (1 << 20), "delta-jump40" => v[i] + (1i64 << 40),
                                _ => i64::MAX - 5 - (n - i) as i64 } } },
                        }
                        if prop.starts_with("delta-jump") && variant != 2 { for i in pos + 1..n { v[i] += if prop == "delta-jump20" { 1 << 20 } else { 1i64 << 40 }; } }
                        v.into_iter().map(Cell::Int).collect()
                    }
                    _ => {
                        let hexl = |rng: &mut Rng, l: usize| -> String { (0..l).map(|_| std::char::from_digit(rng.below(16) as u32, 16).unwrap()).collect() };
                        let v: Vec<String> = match prop {
                            "card-half-in" | "card-half-out" | "card-256" | "card-257" => {
                                // distinct count reaches its deciding value only at `pos` (or at the very end): few values before, fresh ones from there
                                let target = match prop { "card-half-in" => n / 2 - 1, "card-half-out" => n / 2, "card-256" => 256, _ => 257 };
                                let fresh_from = if variant == 2 { pos.min(n - 1) } else { n - 1 };
                                let basecard = target.saturating_sub(n - fresh_from).max(1).min(target);
                                // rows < fresh_from cycle through `basecard` values (all seen early unless basecard is large), rows >= fresh_from are new
                                let mut left = target - basecard;
                                (0..n).map(|i| if i >= fresh_from && left > 0 { left -= 1; format!("n{:05}", i) } else { format!("v{:05}", i % basecard) }).collect()
                            }
                            _ => (0..n).map(|i| {
                                let base = match prop { "hexu-lower" => hexl(rng, 12).to_uppercase(), "hexavg6-short" => hexl(rng, 6), "short-255" | "short-256" | "short-long" => format!("s{}", i), _ => hexl(rng, 12) };
                                if !flipped(i) { return base; }
                                match prop {
                                    "hexl-nonhex" => format!("zz{:010}", i), "hexl-upper" => base.to_uppercase(), "hexu-lower" => base.to_lowercase(), "hexl-odd" => base[..11].to_string(),
                                    "hexavg6-short" => base[..4].to_string(), "short-255" => "q".repeat(255), "short-256" => "q".repeat(256), _ => format!("{}{}", "L".repeat(70000), i),
                                }
                            }).collect(),
                        };
                        v.into_iter().map(Cell::Str).collect()
                    }
                };
                let cells: Vec<Cell> = if variant == 1 && !prop.starts_with("mono") { cells.into_iter().enumerate().map(|(i, c)| if i != pos && i != 0 && (i % 11 == 3 || i + 2 == pos) { Cell::Null } else { c }).collect() } else { cells };
                let cells: Vec<Cell> = cells.iter().map(sanitize).collect();
                let layout = (k / 3) % 3;
                let pref = if variant == 1 { 2 } else { 0 };
                let mut items = vec![];
                match layout {
                    0 => items.push(Item::Batch { len: n as u64, reps: vec![Some(ColRep::from_cells(&cells, pref))] }),
                    1 => { for (s, e) in [(0, n / 3), (n / 3, 2 * n / 3), (2 * n / 3, n)] { items.push(Item::Batch { len: (e - s) as u64, reps: vec![Some(ColRep::from_cells(&cells[s..e], pref))] }); } items.push(Item::Flush); }
                    _ => { let small: Vec<Cell> = cells[..100].to_vec(); items.push(Item::Batch { len: 100, reps: vec![Some(ColRep::from_cells(&small, pref))] }); items.push(Item::Flush);
                           items.push(Item::Batch { len: n as u64, reps: vec![Some(ColRep::from_cells(&cells, pref))] }); }
                }
                let lname = ["open", "3batch-flush", "second-partition"][layout];
                let vname = ["plain", "nulls", "tail"][variant];
                // the executable Lean model of the string builders is quadratic in the number of rows / distinct values
                let spec_only = ty == 's' && n > 1500;
                out.push((format!("late-{}-{}-n{}-p{}-{}-{}", ty, prop, n, pos, vname, lname), format!("{}:{}/{}/{}", ty, prop, posname, vname), Case { ncols: 1, items, tags: vec![] }, spec_only));
            }
        }
    }
    out
}

// ---------------------------------------------------------------------------------------------
// CSV

fn csv_field(s: &str) -> String {
    if s.is_empty() || s.contains(',') || s.contains('"') || s.contains('\n') || s.starts_with(' ') || s.ends_with(' ') { format!("\"{}\"", s.replace('"', "\"\"")) } else { s.to_string() }
}

/// CSV case: text cells per column; the typed cells the loader is documented to produce are computed here from
/// Rust's own `str::parse` (the inference rule itself is what the Lean model / spec implement).
fn gen_csv(rng: &mut Rng) -> (usize, usize, Vec<bool>, Vec<Vec<String>>, usize) {
    let ncols = 1 + rng.below(3) as usize;
    let n = *rng.pick(&[1usize, 2, 3, 7, 8, 9, 17, 40]);
    let psize = *rng.pick(&[1usize << 16, 4, 8, 5]);
    let allow: Vec<bool> = (0..ncols).map(|_| rng.chance(1, 2)).collect();
    let cols = (0..ncols).map(|_| {
        let kind = rng.below(5);
        (0..n).map(|_| {
            if rng.chance(1, 6) { return String::new(); }
            match kind {
                0 => rng.pick(&["0", "7", "-3", "007", "+5", "255", "256", "65536", "-9223372036854775808", "9223372036854775806", "4294967296"]).to_string(),
                1 => rng.pick(&["1.5", "-0.0", "1e3", "7", "0.1", "inf", "-inf", "1e-310", "16777217", "2.50", ".5"]).to_string(),
                2 => rng.pick(&["a", "b", "hello world", "12ab", "deadbeef", "ünï", "x,y", "say \"hi\"", "1.5.2", "--1"]).to_string(),
                3 => rng.pick(&["deadbeef0011", "001122aabbcc", "cafebabe0000", "0123456789ab"]).to_string(),
                _ => rng.pick(&["1", "2.5", "abc", "7", "-1", "x"]).to_string(),
            }
        }).collect()
    }).collect();
    (ncols, n, allow, cols, psize)
}

/// hint per cell: `n` empty | `i<int>~<f64 bits of the same text>` | `f<bits>` | `s`
fn csv_hint(s: &str) -> String {
    if s.is_empty() { "n".into() }
    else if let Ok(i) = s.parse::<i64>() { format!("i{}~{}", i, f16(s.parse::<f64>().unwrap().to_bits())) }
    else if let Ok(f) = s.parse::<f64>() { format!("f{}~{}", f16(f.to_bits()), f as i64) }
    else { "s".into() }
}

fn main() {
    let args = parse_args();
    quiet_panics();
    let mut rng = Rng::new(args.seed);
    let mut cases = Cases::create(&args.out);
    let thorough = args.thorough();

    // 1. corpus (unit + api)
    for (name, case) in corpus() {
        let (u, ucls) = run_unit(&case);
        cases.push(&format!("unit/corpus/{}", ucls.join("|")), &model_line("u", &case), &u, &name);
        let (out, path, detail) = run_api(&case, 1);
        cases.push(&format!("api/corpus/{}/{}", path, out.split(':').next().unwrap_or("")), &model_line("q", &case), &out, &format!("{} {}", name, detail));
    }
    // 1b. dictionary index width u16 / u32 (65535 / 65536 distinct values; dictionary needs distinct < len/2): too large for
    //     the quadratic executable Lean model of the dictionary builder => real code vs specification only (`s`), shape as coverage (`x`)
    for k in [65535usize, 65536] {
        let strs: Vec<String> = (0..(2 * k + 2)).map(|i| format!("k{:05}", (i * 7) % k)).collect();
        let case = Case { ncols: 1, items: vec![Item::Batch { len: strs.len() as u64, reps: vec![Some(ColRep::Str(strs))] }], tags: vec![] };
        let (u, ucls) = run_unit(&case);
        cases.push(&format!("unit/big/{}", ucls.join("|")), "c01 x", &u, &format!("dict-card-{}", k));
        let (out, path, detail) = run_api(&case, 1);
        cases.push(&format!("api/big/{}/{}", path, out.split(':').next().unwrap_or("")), &model_line("s", &case), &out, &format!("dict-card-{} {}", k, detail));
    }
    // 1d. late flips: > 1024 rows in one partition, the property that decides the encoding changes late in the column.
    //     Unit level: shape + section checksums after `lz4_or_pco_decode` vs the Lean builders; API level: rows vs model and spec.
    //     Big string columns: real code vs specification only (`s`), the unit shape is kept as coverage class.
    for (name, tag, case, spec_only) in late_flip_cases(&mut Rng::new(args.seed ^ 0x1a7e_f11b), thorough) {
        let (u, ucls) = run_unit(&case);
        if !spec_only { cases.push(&format!("unit/late/{}/{}", tag, ucls.join("|")), &model_line_plain("u", &case), &u, &name); }
        let (out, path, detail) = run_api(&case, 1);
        cases.push(&format!("api/late/{}/{}/{}/{}", tag, ucls.join("|"), path, out.split(':').next().unwrap_or("")), &model_line_plain(if spec_only { "s" } else { "q" }, &case), &out, &format!("{} {}", name, detail));
    }
    // 1c. thorough: bounded-exhaustive small shapes at unit level
    if thorough {
        // every null pattern of every length 1..=9, for an int / float / string column (one Mixed batch, then a second batch
        // without the column so that trailing NULLs come from extend_to_largest)
        for n in 1..=9usize {
            for mask in 0u32..(1 << n) {
                for ty in 0..3 {
                    let cells: Vec<Cell> = (0..n).map(|i| if mask >> i & 1 == 1 { Cell::Null } else { match ty { 0 => Cell::Int(100 + i as i64), 1 => Cell::f(i as f64 * 0.5 - 1.0), _ => Cell::Str(format!("s{}", i % 3)) } }).collect();
                    let case = Case { ncols: 2, items: vec![
                        Item::Batch { len: n as u64, reps: vec![Some(ColRep::Mixed(cells)), Some(ColRep::I64((0..n as i64).collect()))] },
                        Item::Batch { len: 2, reps: vec![None, Some(ColRep::I64(vec![1, 2]))] }], tags: vec![] };
                    let (u, ucls) = run_unit(&case);
                    cases.push(&format!("unit/exh-null/{}", ucls.join("|")), &model_line("u", &case), &u, &format!("n{} mask{:b} ty{}", n, mask, ty));
                }
            }
        }
        // every integer list of length 1..=3 over the edge values of the width ladder / i64 range
        let edge = [0i64, 255, 256, -1, 65536, i64::MIN, i64::MAX - 1, 4294967296];
        for n in 1..=3usize {
            for code in 0..edge.len().pow(n as u32) {
                let xs: Vec<i64> = (0..n).map(|k| edge[(code / edge.len().pow(k as u32)) % edge.len()]).collect();
                let case = Case { ncols: 1, items: vec![Item::Batch { len: n as u64, reps: vec![Some(ColRep::I64(xs.clone()))] }], tags: vec![] };
                let (u, ucls) = run_unit(&case);
                cases.push(&format!("unit/exh-int/{}", ucls.join("|")), &model_line("u", &case), &u, &format!("{:?}", xs));
            }
        }
    }
    // 2. random unit-level cases
    let n_unit = if thorough { 6000 } else { 700 };
    for _ in 0..n_unit {
        let fl = rng.chance(1, 3);
        let case = gen_case(&mut rng, fl);
        let (u, ucls) = run_unit(&case);
        cases.push(&format!("unit/{}", ucls.join("|")), &model_line("u", &case), &u, &case.tags.join(","));
    }
    // 3. random API-level cases: without flushes (type mixing allowed) and with flushes
    let n_api = if thorough { 2000 } else { 330 };
    for k in 0..n_api {
        let flushes = k % 3 == 2;
        let case = gen_case(&mut rng, flushes);
        let pth = rng.below(2);
        let (out, path, detail) = run_api(&case, pth);
        let kinds: BTreeSet<String> = case.items.iter().filter_map(|it| if let Item::Batch { reps, .. } = it { Some(reps.iter().map(|r| r.as_ref().map(|r| r.kind()).unwrap_or("absent")).collect::<Vec<_>>()) } else { None }).flatten().map(|s| s.to_string()).collect();
        cases.push(&format!("api/{}/{}/{}/{}", if flushes { "flush" } else { "open" }, path, out.split(':').next().unwrap_or(""), case.tags.join(",")),
            &model_line("q", &case), &out, &format!("{} {}", kinds.into_iter().collect::<Vec<_>>().join("+"), detail));
    }
    // 4. CSV
    let n_csv = if thorough { 400 } else { 60 };
    let dir = tempfile::tempdir().unwrap();
    for k in 0..n_csv {
        let (ncols, n, allow, cols, psize) = gen_csv(&mut rng);
        let path = dir.path().join(format!("t{}.csv", k));
        let mut text = (0..ncols).map(|i| format!("c{}", i)).collect::<Vec<_>>().join(",");
        text.push('\n');
        for r in 0..n { text.push_str(&cols.iter().map(|c| csv_field(&c[r])).collect::<Vec<_>>().join(",")); text.push('\n'); }
        std::fs::write(&path, text).unwrap();
        let db = Arc::new(LocustDB::new(&db_options()));
        let allowed: Vec<usize> = allow.iter().enumerate().filter(|(_, a)| **a).map(|(i, _)| i).collect();
        let opts = vharness::locustdb::LoadOptions::new(&path, "t").with_partition_size(psize).allow_nulls(&allowed);
        let db2 = db.clone();
        let r = with_deadline(60, move || futures::executor::block_on(db2.load_csv(opts)).map_err(|e| e.to_string()));
        let out = match r {
            None => "hang".to_string(),
            Some(Err(_)) => "panic".to_string(),
            Some(Ok(Err(e))) => format!("err:{}", e.replace(['\t', '\n', ' '], "_")),
            Some(Ok(Ok(()))) => {
                let sql = format!("SELECT {} FROM t", (0..ncols).map(|i| format!("c{}", i)).collect::<Vec<_>>().join(", "));
                query_full(&db, &sql, true, 30).tok()
            }
        };
        // hints for i2f / showf
        let mut floats = BTreeSet::new();
        let mut i2f = BTreeMap::new();
        i2f.insert(0i64, 0f64.to_bits());
        floats.insert(0u64);
        for c in &cols { for s in c {
            if let Ok(i) = s.parse::<i64>() { i2f.insert(i, (i as f64).to_bits()); floats.insert((i as f64).to_bits()); }
            if let Ok(f) = s.parse::<f64>() { floats.insert(f.to_bits()); i2f.insert(f as i64, ((f as i64) as f64).to_bits()); floats.insert(((f as i64) as f64).to_bits()); }
        } }
        let line = format!("c01 csv {} {} {} P{} {}", i2f.iter().map(|(i, b)| format!("{}={}", i, f16(*b))).collect::<Vec<_>>().join(","),
            floats.iter().map(|b| format!("{}={}", f16(*b), hexs(&f64::from_bits(*b).to_string()))).collect::<Vec<_>>().join(","), ncols, psize,
            (0..ncols).map(|i| format!("C{}:{}", if allow[i] { 1 } else { 0 }, cols[i].iter().map(|s| format!("{}~{}", hexs(s), csv_hint(s))).collect::<Vec<_>>().join(","))).collect::<Vec<_>>().join(" "));
        cases.push(&format!("csv/{}/{}", if psize < n { "chunks" } else { "one" }, out.split(':').next().unwrap_or("")), &line, &out, "");
    }
    cases.finish();
}
