//! Debug helper: dbg "<c0 cells>;<c1 cells>" "<SQL>" [flush]   cells: ints, `_`, f<float>, s<string>; batches separated by `|`
use std::sync::Arc;
use vharness::*;
use vharness::locustdb::LocustDB;
fn parse_cell(s: &str) -> Cell {
    if s == "_" { Cell::Null } else if let Some(f) = s.strip_prefix('f') { Cell::f(f.parse().unwrap()) }
    else if let Some(t) = s.strip_prefix('s') { Cell::Str(t.to_string()) } else { Cell::Int(s.parse().unwrap()) }
}
fn main() {
    let a: Vec<String> = std::env::args().collect();
    let db = Arc::new(LocustDB::new(&base_options()));
    for batch in a[1].split('|') {
        let (batch, fl) = match batch.strip_suffix('!') { Some(b) => (b, true), None => (batch, false) };
        let cols: Vec<Vec<Cell>> = batch.split(';').map(|c| if c.is_empty() { vec![] } else { c.split(',').map(parse_cell).collect() }).collect();
        let len = cols.iter().map(|c| c.len()).max().unwrap_or(0) as u64;
        let b = Batch { table: "t".into(), len, cols: cols.iter().enumerate().filter(|(_, c)| !c.is_empty()).map(|(i, c)| (format!("c{}", i), ColRep::from_cells(c, std::env::var("DBG_PREF").ok().and_then(|s| s.parse().ok()).unwrap_or(0)))).collect() };
        ingest(&db, &[b]);
        if a.len() > 3 || fl { db.force_flush(); }
    }
    let r = futures::executor::block_on(db.run_query(&a[2], true, true, vec![]));
    match r {
        Ok(o) => { println!("colnames {:?}\nrows {:?}\ncolumns {:?}", o.colnames, o.rows, o.columns); for (p, n) in o.query_plans { println!("{} x {}", n, p); } }
        Err(e) => println!("ERR {:?}", e),
    }
}
